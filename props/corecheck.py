"""Generic differential check for the Core properties (C01, C02, C07, C08, C11, C19).

Oracle: the reference evaluator Core/Eval.v (code independent; the program term is produced by the
generator directly, not through the parser).  Subject: parse -> compile -> SQLite of common.REPO.
A `variant` maps a generated program to the Logica text that is actually run (identity, permuted,
renamed, re-annotated, long-form ...); the expected bag is always the evaluator's bag of the
ORIGINAL program, so every variant must produce the same rows.
"""
import collections
import json
import random

from vlib import common
from props import coregen as G, corerun as R


def gen_program(seed_str, profile):
  r = random.Random(seed_str)
  return G.Gen(r, profile).generate()


def judge_batch(cases):
  """cases: list of (prog, text, preds or None).  Returns list of dict per case:
     {'impl': {pred: ...}, 'codes': {pred: code}, 'status': int}."""
  items = []
  metas = []
  jobs = []
  for prog, text, preds in cases:
    if isinstance(text, tuple):
      jobs.append((text[0], prog, preds, text[1]))
    else:
      jobs.append((text, prog, preds))
  impl = R.run_impl_many(jobs)
  for (prog, text, preds), res in zip(cases, impl):
    skipped = res.get('__skipped__')
    if not skipped and any(v[0] == 'big' for v in res.values()):
      skipped = 'a predicate has too many rows or its query is too slow'
    if skipped:
      res = {}
      prog = []   # nothing to evaluate
    nm = G.Names()
    for d in prog:
      nm.pred(d['name'])
    ptxt = G.c_program(prog, nm)
    q, order = R.coq_query(prog, res, nm)
    items.append('check_program %s %s' % (ptxt, q))
    items.append('[status %s]' % ptxt)
    metas.append((res, order, skipped))
  vals = R.eval_batch(items) if items else []
  out = []
  for i, (res, order, skipped) in enumerate(metas):
    if vals[2 * i] is None or vals[2 * i + 1] is None:
      out.append({'impl': {}, 'codes': {}, 'status': 0, 'skipped': skipped or 'reference evaluator too slow'})
      continue
    out.append({'impl': res, 'codes': dict(zip(order, vals[2 * i])), 'status': vals[2 * i + 1][0],
                'skipped': skipped})
  return out


def quirk_explains(prog, res, pred):
  """True when the rows of `pred` equal the evaluator's rows once List/Set/Count are read the way the
  SQLite templates compute them (nulls kept, [] / 0 for no input) - the known deviation from the
  documented null rules (known_findings: C02 sqlite-aggregate-null-rules)."""
  nm = G.Names()
  for d in prog:
    nm.pred(d['name'])
  ptxt = G.c_program(prog, nm)
  import re as _re
  ptxt = _re.sub(r'\bAList\b', 'AListQ', ptxt)
  ptxt = _re.sub(r'\bASet\b', 'ASetQ', ptxt)
  ptxt = _re.sub(r'\bACount\b', 'ACountQ', ptxt)
  q, order = R.coq_query(prog, {pred: res[pred]}, nm)
  vals = R.eval_batch(['check_program %s %s' % (ptxt, q)])
  return vals[0] is not None and vals[0] == [0]


def problems(prog, j, expect_reject=False):
  """List of (pred, kind, detail) where the implementation departs from the evaluator."""
  out = []
  for d in prog:
    if d['kind'] != 'table':
      continue
    res = j['impl'].get(d['name'])
    if res is None or res[0] == 'big':
      continue
    if j['status'] == 0:
      if res[0] != 'ok':
        out.append((d['name'], 'rejected-valid-program', '%s: %s' % (res[0], res[1])))
      elif j['codes'].get(d['name'], 0) != 0:
        out.append((d['name'], 'wrong-rows', 'code %s' % j['codes'][d['name']]))
  return out


def shrink(prog, pred, variant, still_bad, rounds=6):
  """Greedy single-removal shrinking; still_bad(prog) -> bool (runs both sides)."""
  def candidates(p):
    idx = [i for i, d in enumerate(p) if d['name'] == pred][0]
    # drop predicates after the failing one
    if idx + 1 < len(p):
      yield p[:idx + 1]
    for i, d in enumerate(p):
      # drop a whole predicate nobody needs (textual check)
      if d['name'] != pred:
        rest = p[:i] + p[i + 1:]
        if ('"%s"' % d['name']) not in json.dumps(R.serial(rest)):
          yield rest
      for k in range(len(d['rules'])):
        if len(d['rules']) > 1:
          yield p[:i] + [dict(d, rules=d['rules'][:k] + d['rules'][k + 1:])] + p[i + 1:]
        body = d['rules'][k].get('body')
        if body and body[0] == 'and' and len(body[1]) > 1:
          for c in range(len(body[1])):
            nb = ('and', body[1][:c] + body[1][c + 1:])
            nr = dict(d['rules'][k], body=nb)
            yield p[:i] + [dict(d, rules=d['rules'][:k] + [nr] + d['rules'][k + 1:])] + p[i + 1:]
  cur = prog
  for _ in range(rounds):
    progressed = False
    for cand in candidates(cur):
      try:
        if still_bad(cand):
          cur = cand
          progressed = True
          break
      except Exception:
        continue
    if not progressed:
      break
  return cur


def describe(prog):
  """Feature histogram of a program (for the evidence)."""
  s = json.dumps(R.serial(prog))
  feats = collections.Counter()
  for k, pat in [('disjunction', '"or"'), ('negation', '"not"'), ('combine', '"combine"'), ('in', '"in"'),
                 ('call', '"call"'), ('if', '"if"'), ('agg_head', '"agg"'), ('record', '"rec"'),
                 ('list', '"list"'), ('unify', '"unify"')]:
    if pat in s:
      feats[k] += 1
  if any(d.get('distinct') for d in prog):
    feats['distinct'] += 1
  if any(len(d['rules']) > 1 and not d.get('ext') for d in prog):
    feats['multi_rule'] += 1
  return feats


def outcome(prog, j, pred):
  """Canonical outcome of one predicate in one run: ('ok', sorted rows) | (class,) | None."""
  res = j['impl'].get(pred)
  if res is None or res[0] == 'big':
    return None
  if res[0] != 'ok':
    return (res[0],)
  d = [x for x in prog if x['name'] == pred][0]
  rows = []
  for row in res[2]:
    cells = []
    for h, v in zip(res[1], row):
      import re as _re
      f = int(h[3:]) if _re.fullmatch(r'col\d+', h) else h
      if f in d['bagcols'] and isinstance(v, list):
        v = sorted(v, key=lambda x: (x is None, str(type(x)), x))
      cells.append(v)
    # a row is a record: columns are compared by name, in the order of the sorted header (a permutation of the
    # rules changes which rule comes first, and with it the order in which the columns are listed)
    order = sorted(range(len(res[1])), key=lambda i: str(res[1][i]))
    rows.append(common.canon([cells[i] for i in order] if len(cells) == len(order) else cells))
  return ('ok', tuple(sorted(map(str, res[1]))), tuple(sorted(rows)))


def run_core(rep, pid, tier, profile, variants, n_quick, n_thorough, salt, replay=None, ok=True, info=None,
             accept=None, metamorphic=False):
  """variants: list of (name, fn(prog, rng) -> (text, prog_for_types) or None).
  accept(prog) -> bool filters generated programs (e.g. must contain aggregation)."""
  n = n_quick if tier == 'quick' else n_thorough
  base = common.seed()
  cases = []
  feats = collections.Counter()
  if replay:
    with open(replay) as f:
      rp = json.load(f)
    seeds = [rp['gen_seed']] if 'gen_seed' in rp else []
  else:
    seeds = ['%s/%d/%d' % (salt, base, i) for i in range(n)]
  progs = []
  for s in seeds:
    prog = gen_program(s, profile)
    if accept and not accept(prog):
      continue
    progs.append((s, prog))
    feats.update(describe(prog))
  # cases: every program under every variant
  for s, prog in progs:
    vr = random.Random(s + '/variant')
    for vname, fn in variants:
      tv = fn(prog, vr)
      if tv is None:
        continue
      cases.append((s, vname, prog, tv))
  results = []
  B = 120
  for i in range(0, len(cases), B):
    part = cases[i:i + B]
    results.extend(judge_batch([(prog, tv, None) for (_, _, prog, tv) in part]))
  nonempty = 0
  evaluated = 0
  rejected_by_model = 0
  skipped_cases = []
  found = []
  baseline = {}
  if metamorphic:
    for (s, vname, prog, text), j in zip(cases, results):
      if vname == 'plain' and not j.get('skipped'):
        baseline[s] = j
  for (s, vname, prog, text), j in zip(cases, results):
    if metamorphic:
      # the property is an invariance of the implementation: report only where the variant's outcome
      # differs from the plain program's outcome (a deviation shared by both belongs to C01/C02)
      if vname == 'plain' or j.get('skipped') or s not in baseline or j['status'] != 0:
        if j.get('skipped'):
          skipped_cases.append({'gen_seed': s, 'variant': vname, 'why': j['skipped']})
        continue
      b = baseline[s]
      for d in prog:
        if d['kind'] != 'table' or d.get('ext'):
          continue
        o1, o2 = outcome(prog, b, d['name']), outcome(prog, j, d['name'])
        if o1 is None or o2 is None:
          continue
        evaluated += 1
        if o2[0] == 'ok' and o2[2]:
          nonempty += 1
        if o1 != o2:
          right = 'variant' if (o2[0] == 'ok' and j['codes'].get(d['name']) == 0) else (
              'plain' if (o1[0] == 'ok' and b['codes'].get(d['name']) == 0) else 'neither')
          kind = 'variant-changes-outcome'
          detail = '%s vs %s (agrees with the reference evaluator: %s)' % (
              o1[0] if o1[0] != 'ok' else 'ok', o2[0] if o2[0] != 'ok' else 'ok', right)
          bad = j if o2[0] != 'ok' or right == 'plain' else b
          found.append((s, vname, prog, text, d['name'], kind,
                        detail + ' | ' + str((bad['impl'].get(d['name']) or ['', ''])[1])[:200], j))
      continue
    if j.get('skipped'):
      skipped_cases.append({'gen_seed': s, 'variant': vname, 'why': j['skipped']})
      continue
    if j['status'] != 0:
      rejected_by_model += 1   # generator produced something the evaluator refuses: not used
      continue
    for d in prog:
      r_ = j['impl'].get(d['name'])
      if d['kind'] == 'table' and not d.get('ext') and r_ and r_[0] == 'ok':
        evaluated += 1
        if r_[2]:
          nonempty += 1
    for pred, kind, detail in problems(prog, j):
      found.append((s, vname, prog, text, pred, kind, detail, j))
  reported = 0
  seen_keys = set()
  for s, vname, prog, text, pred, kind, detail, j in found:
    key = accept_key(kind, detail, vname)
    if kind == 'wrong-rows':
      try:
        if quirk_explains(prog, j['impl'], pred):
          key = 'sqlite-aggregate-null-rules'
      except Exception:  # pylint: disable=broad-except
        pass
    if kind == 'rejected-valid-program' and detail.startswith('RuleCompile') and not metamorphic:
      # is it the known order dependence of variable elimination?  then some other order compiles
      from props import variants as V
      pr = random.Random(s + '/reorder')
      for _ in range(10):
        st, _a, _b = R.logica_run.run_pred(V.permute(prog, pr, rules=False, conj=True, disj=False), pred, time_limit=15.0)
        if st == 'ok':
          key = 'rejected-but-another-conjunct-order-compiles'
          break
    if metamorphic and kind == 'variant-changes-outcome' and 'RuleCompile' in detail.split(' (')[0] and \
        any(m in detail for m in ('no way to assign', 'circular dependency', 'found no way')):
      # one side is rejected by the variable elimination / unnesting order: is it the known order dependence?  then
      # the rejected spelling compiles under some other order of the conjuncts
      from props import variants as V
      rejected_is_variant = detail.split(' (')[0].replace(' ', '').endswith('vsRuleCompile')
      printer = dict(variants)[vname if rejected_is_variant else 'plain']
      printer = getattr(printer, 'reorder', printer)     # a printer that adds conjuncts permutes them itself
      pr = random.Random(s + '/reorder-meta')
      for _ in range(40):
        try:
          tv = printer(V.permute_prog(prog, pr), random.Random('%s/variant/%d' % (s, _)) if hasattr(printer, '__name__') and printer.__name__ == '<lambda>' else random.Random(s + '/variant'))
        except Exception:  # pylint: disable=broad-except
          tv = None
        if not tv:
          continue
        ttext = tv[0] if isinstance(tv, tuple) else tv
        rename = tv[1] if isinstance(tv, tuple) and isinstance(tv[1], dict) else {}
        st, _a, _b = R.logica_run.run_pred(ttext, rename.get(pred, pred), time_limit=15.0)
        if st == 'ok':
          key = 'rejected-but-another-conjunct-order-compiles'
          break
    if key in seen_keys and reported >= 3:
      continue
    seen_keys.add(key)
    if reported >= 6:
      break
    rp = {'gen_seed': s, 'variant': vname, 'predicate': pred, 'kind': kind, 'detail': detail,
          'program_text': text[0] if isinstance(text, tuple) else text,
          'original_program_text': G.p_program(prog), 'observed': j['impl'].get(pred),
          'expected_by_reference_evaluator': R.model_rows(prog, pred),
          'how': 'vlib.logica_run.run_pred(program_text, predicate) vs Core/Eval.v eval_query'}
    if metamorphic:
      rp['plain_program_outcome'] = str(outcome(prog, baseline[s], pred))[:600] if s in baseline else None
      rp['variant_outcome'] = str(outcome(prog, j, pred))[:600]
    if rep.violation(key, rp):
      reported += 1
  if not ok and not found:
    rep.violation('proof', {'broken': 'theories/Props/%s.v or its dependencies no longer check' % pid,
                            'failing_files': (info or {}).get('failing'),
                            'excerpt': (info or {}).get('excerpt', '')[:3000]}, no_input=True)
  rep.coverage.update({
      'evaluations': len(cases),
      'distinct_nontrivial': nonempty,
      'rule': 'programs from the typed Core generator (profile in coverage.profile) x variants %s; every derived '
              'predicate is executed on SQLite and compared as a bag with the reference evaluator; '
              'non-trivial = derived predicate with a non-empty result' % [v for v, _ in variants],
      'programs': len(progs),
      'explanation': 'theorems of Props/%s.v are about the reference evaluator (the documented meaning); the compiler is '
                     'tied per generated program by comparing SQLite rows with the evaluator (differential run)' % pid,
      'predicates_compared': evaluated,
      'generator_rejected_by_evaluator': rejected_by_model,
      'cases_skipped_worker_died_or_slow': skipped_cases[:20],
      'feature_histogram': dict(feats),
      'profile': profile,
      'samples': [{'gen_seed': s, 'variant': v, 'text': t[0] if isinstance(t, tuple) else t}
                  for (s, v, _, t) in cases[:3]],
      'weak': bool(evaluated and nonempty * 2 < evaluated),
  })
  return found


def accept_key(kind, detail, vname):
  """Stable key of a failure class (matched against known_findings.json)."""
  if kind == 'variant-changes-outcome':
    import re
    msg = re.sub(r'\x1b\[[0-9;]*m', '', detail.split(' | ', 1)[1] if ' | ' in detail else '')
    msg = re.sub(r'[^A-Za-z ]+', ' ', msg)
    words = [w for w in msg.split() if len(w) > 2][:6]
    return 'variant:%s:%s:%s' % (vname, detail.split(' (')[0].replace(' ', ''), ' '.join(words))
  if kind == 'rejected-valid-program':
    import re
    cls, _, msg = detail.partition(': ')
    msg = re.sub(r'\x1b\[[0-9;]*m', '', msg)
    msg = re.sub(r'[^A-Za-z ]+', ' ', msg)
    words = [w for w in msg.split() if len(w) > 2][:4]
    return 'rejected:%s:%s' % (cls, ' '.join(words))
  return '%s:%s' % (kind, vname)


def replay_program_rows(rep, replay, as_set=False):
  """Replay of a stream violation that carries its own oracle: {'program_text', 'predicate', 'expected_rows'}.
  Returns True when the replay file is of that kind (and has been handled)."""
  with open(replay) as f:
    rp = json.load(f)
  if 'program_text' not in rp or 'predicate' not in rp or 'gen_seed' in rp or not isinstance(rp.get('expected_rows'), list):
    return False
  st, a, b = R.logica_run.run_pred(rp['program_text'], rp['predicate'], time_limit=60.0)
  rows = sorted(tuple(x) for x in b) if st == 'ok' else None
  want = sorted(tuple(x) for x in rp['expected_rows'])
  if as_set and rows is not None:
    rows, want = sorted(set(rows)), sorted(set(want))
  ok = st == 'ok' and rows == want
  print('replay: %s %s -> %s' % (rp['predicate'], st, 'rows as expected' if ok else 'DIFFERENT from the expected rows'))
  if not ok:
    rep.violation(rp.get('key', 'replay'), dict(rp, observed=[st, rows if rows is not None else str(a)[:300]]))
  rep.coverage.update({'evaluations': 1, 'distinct_nontrivial': 1, 'rule': 'replay of one recorded program with its expected rows'})
  return True
