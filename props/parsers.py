"""Running the two parsers of $VERIF_REPO in worker processes (C15, C06)."""
import atexit
import json
import os
import shutil
import subprocess
import tempfile
from concurrent.futures import ThreadPoolExecutor

from vlib import common

WORKER = os.path.join(os.path.dirname(os.path.abspath(__file__)), 'parse_worker.py')
_SCRATCH = None


def scratch():
  global _SCRATCH
  if _SCRATCH is None:
    _SCRATCH = tempfile.mkdtemp(prefix='lv_parse_')
    atexit.register(shutil.rmtree, _SCRATCH, True)
  return _SCRATCH


def env():
  e = dict(os.environ)
  e['VERIF_REPO'] = common.REPO
  e['PYTHONPATH'] = common.REPO
  e['PYTHONHASHSEED'] = '0'
  e['PYTHONDONTWRITEBYTECODE'] = '1'
  e['XDG_CACHE_HOME'] = os.path.join(scratch(), 'cache')   # the .so is rebuilt from the current logica_parse.cpp
  e.pop('LOGICAPATH', None)
  return e


def build_cpp():
  """Builds the shared object from $REPO/parser_cpp/logica_parse.cpp into the scratch cache.  Returns (ok, log)."""
  code = ('import sys; sys.path.insert(0, %r)\n'
          'from parser_cpp import logica_parse_cpp as m\n'
          'print(m.EnsureCppParserSharedObject())\n' % common.REPO)
  p = subprocess.run([common.PY, '-c', code], env=env(), stdout=subprocess.PIPE, stderr=subprocess.STDOUT, text=True,
                     timeout=600)
  return p.returncode == 0, p.stdout[-3000:]


def _run_batch(args):
  idx, cases, modes, full = args
  d = scratch()
  fin = os.path.join(d, 'in_%d_%d.json' % (os.getpid(), idx))
  fout = os.path.join(d, 'out_%d_%d.jsonl' % (os.getpid(), idx))
  res = {}
  todo = list(cases)
  while todo:
    with open(fin, 'w') as f:
      json.dump({'modes': modes, 'cases': todo, 'full': full}, f)
    p = subprocess.run([common.PY, WORKER, fin, fout], env=env(), stdout=subprocess.PIPE, stderr=subprocess.STDOUT,
                       text=True, timeout=3600)
    begun = None
    with open(fout) as f:
      for line in f:
        try:
          r = json.loads(line)
        except ValueError:
          continue
        if 'begin' in r:
          begun = (r['id'], r['begin'])
        else:
          res[r['id']] = r
          begun = None
    if p.returncode == 0 and not begun:
      break
    # the worker died: blame the case it had begun, go on with the rest
    died = begun[0] if begun else todo[0]['id']
    mode = begun[1] if begun else modes[0]
    r = {'id': died}
    for m in modes:
      r[m] = {'status': 'crash', 'msg': 'worker process died (rc=%s) while parsing with %s: %s' % (
          p.returncode, mode, p.stdout[-300:])} if m == mode else {'status': 'skipped'}
    res[died] = r
    ids = [c['id'] for c in todo]
    todo = todo[ids.index(died) + 1:]
  return res


def parse_all(cases, modes=('PY', 'CPP'), workers=4, full=False):
  """cases: list of {'id', 'text', 'root'?}.  Returns {id: {'PY': {...}, 'CPP': {...}}}."""
  if not cases:
    return {}
  n = max(1, min(workers, (len(cases) + 49) // 50))
  batches = [(i, cases[i::n], list(modes), full) for i in range(n)]
  out = {}
  with ThreadPoolExecutor(max_workers=n) as ex:
    for r in ex.map(_run_batch, batches):
      out.update(r)
  return out
