"""C14 — execution runs each statement after its inputs, the prescribed number of times.

Proof stage: coq/theories/Props/C14.v — for-all theorems about Exec/Concertina.v (hand-written mirror of
common/concertina_lib.Concertina): SortActions terminates / permutes / keeps iteration blocks contiguous in
declared order / is topological under iter_closedb (refuted without it); Run, for every stop-signal oracle:
terminates within sum(max(reps,1)), every non-iterated action exactly once, iterated ones 1..max(reps,1) times
(exactly, when the signal is never raised), at most once more after the signal was seen, rounds in declared
order, every occurrence after an occurrence of each requirement.

Tie (every run): random configs (real temp files as stop signals, recording engine) and every plan obtained by
really compiling generated programs (SQLite: executed; DuckDB: compiled only, which reaches diamond mode and
stop signals) go through the real Concertina and through the model, compared inside Coq
(Exec/ConcertinaCheck.judge): sorted queue and trace equal element for element.  The code-independent Spec
`valid_trace` is evaluated on the REAL trace (failing-input oracle), and wfb / iter_closedb on every compiled plan.
Second half of the property (per instance, not proved): ExecuteLogicaProgram on generated programs (SQLite),
several requested predicates at once vs each alone, final tables equal as bags.

Replay files: {'config': ...} and/or {'program': ..., 'subsets': [[...]], 'dry': bool}.
"""
import contextlib
import io
import json
import os
import shutil
import tempfile
import time
from concurrent.futures import ThreadPoolExecutor

from vlib import common, coqrun, proof

PID = 'C14'
KEY_NOT_CLOSED = 'sort-topological:member-requirement-not-checked'


class Runaway(Exception):
  pass


def impl():
  common.repo_path()
  with contextlib.redirect_stdout(io.StringIO()):
    from common import concertina_lib
  return concertina_lib


# --------------------------------------------------------------------------------------------
# configs: {'actions': [[name, [requires...]], ...],
#           'iterations': [[iname, [members...], reps, signal or None, diamond], ...],
#           'sched': {signal: [state after call 1, state after call 2, ...]}}   state 0 absent, 1 empty, 2 non-empty
# --------------------------------------------------------------------------------------------
ALPHABET = ['A', 'B', 'C', 'D', 'E', 'F', 'G', 'H', 'K', 'M', 'P', 'Q', 'a', 'b', 'c', 'x', 'y', 'z',
            'A1', 'A_ifr1', 'B2', 'Ba', 'a0', 'ab', 'x_1', 'Z', '_t', '⤓P', '⤓A', 'P_ifr0', 'P_ifr1', 'P_ifr2']


def weight_bound(c):
  reps = {}
  for it in c['iterations']:
    for m in it[1]:
      reps.setdefault(m, max(it[2], 1))
  return sum(reps.get(a[0], 1) for a in c['actions'])


def gen_config(r, flavour):
  """flavour: 'closed' (schedulable and iter_closed by construction), 'free' (requirements on anything
  earlier in a random segment order, closed or not by chance), 'malformed' (cycles, unknown names, odd halves)."""
  n = r.randint(1, 10)
  names = r.sample(ALPHABET, n)
  n_it = r.choice([0, 1, 1, 1, 2, 2])
  pool = list(names)
  r.shuffle(pool)
  its = []
  for i in range(n_it):
    if not pool:
      break
    diamond = r.random() < 0.3
    size = r.choice([1, 2, 3, 4]) if diamond else r.choice([2, 2, 4])
    if flavour == 'malformed' and r.random() < 0.3:
      size = r.choice([1, 3])
    members = [pool.pop() for _ in range(min(size, len(pool)))]
    if not diamond and len(members) % 2 == 1 and not (flavour == 'malformed' and r.random() < 0.5):
      if len(members) > 1:
        pool.append(members.pop())
      else:
        diamond = True
    its.append(['it%d' % i, members, r.choice([0, 1, 1, 2, 2, 3, 3]),
                None, diamond])
  # segments in a random order
  in_it = {m: k for k, it in enumerate(its) for m in it[1]}
  segs = [[a] for a in names if a not in in_it] + [list(it[1]) for it in its]
  r.shuffle(segs)
  req = {a: [] for a in names}
  earlier = []
  dens = r.choice([0.15, 0.3, 0.5])
  for seg in segs:
    if len(seg) == 1 and seg[0] not in in_it:
      req[seg[0]] = [e for e in earlier if r.random() < dens]
    else:
      it = its[in_it[seg[0]]]
      half = len(seg) if it[4] else len(seg) // 2
      up_ext = []
      for j, m in enumerate(seg):
        inner = [e for e in seg[:j] if r.random() < 0.35]
        if flavour == 'closed' and j >= half:
          ext = [e for e in up_ext if r.random() < 0.5]
        else:
          ext = [e for e in earlier if r.random() < dens]
          if j < half:
            up_ext += ext
        req[m] = ext + inner
        r.shuffle(req[m])
    earlier += seg
  if flavour == 'malformed':
    k = r.random()
    if k < 0.3 and len(names) > 1:          # a cycle
      a, b = r.sample(names, 2)
      req[a].append(b)
      req[b].append(a)
    elif k < 0.5:                            # requirement that is not an action
      req[r.choice(names)].append('nope')
    elif k < 0.7 and its:                    # member that is not an action
      it = r.choice(its)
      it[1].insert(r.randint(0, len(it[1])), 'ghost')
      if not it[4] and r.random() < 0.6:
        it[1].insert(r.randint(0, len(it[1])), 'ghost2')
    elif k < 0.85 and its:                   # member requires a later member
      it = r.choice(its)
      if len(it[1]) > 1:
        req[it[1][0]].append(it[1][-1])
  # stop signals
  sigs = ['s0', 's1']
  for it in its:
    if r.random() < 0.6:
      it[3] = r.choice(sigs) if r.random() < 0.8 else sigs[0]
  actions = [[a, req[a]] for a in names]
  r.shuffle(actions)
  c = {'actions': actions, 'iterations': its, 'sched': {}}
  bound = weight_bound(c) + 2
  for s in sorted(set(it[3] for it in its if it[3])):
    style = r.random()
    if style < 0.15:
      st = [r.choice([0, 1]) for _ in range(bound)]               # never raised
    elif style < 0.7:
      up = r.randint(0, bound - 1)                                # raised from some call on
      st = [r.choice([0, 1]) if k < up else 2 for k in range(bound)]
    elif style < 0.85:
      up = r.randint(0, bound - 1)                                # raised, then cleared (sticky wrench)
      ln = r.randint(1, 2)
      st = [2 if up <= k < up + ln else r.choice([0, 1]) for k in range(bound)]
    else:
      st = [r.choice([0, 1, 2]) for _ in range(bound)]
    c['sched'][s] = st
  return c


def exhaustive_small():
  """All DAGs on 4 actions A<B<C<D in which an edge goes from a smaller to a larger index of a fixed
  permutation, x one two-member iteration placement x repetitions x signal position (thorough tier)."""
  import itertools
  names = ['A', 'B', 'C', 'D']
  pairs = [(i, j) for i in range(4) for j in range(i + 1, 4)]
  out = []
  for mask in range(1 << len(pairs)):
    req = {a: [] for a in names}
    for b, (i, j) in enumerate(pairs):
      if mask >> b & 1:
        req[names[j]].append(names[i])
    for m1, m2 in itertools.permutations(names, 2):
      for reps in (1, 2, 3):
        for sigpos in (None, 0, 1, 2, 3):
          for diamond in (False, True):
            its = [['it0', [m1, m2], reps, 's0' if sigpos is not None else None, diamond]]
            c = {'actions': [[a, req[a]] for a in names], 'iterations': its, 'sched': {}}
            if sigpos is not None:
              c['sched']['s0'] = [2 if k >= sigpos else 0 for k in range(weight_bound(c) + 2)]
            out.append(c)
  return out


# ---- real run -------------------------------------------------------------------------------
def set_file(path, state):
  if state == 0:
    if os.path.exists(path):
      os.remove(path)
  else:
    with open(path, 'w') as f:
      f.write('x' if state == 2 else '')


def run_real(cl, c, sigdir):
  """Returns {'assert': bool, 'exc': str|None, 'sorted': [...], 'trace': [...], 'runaway': bool}."""
  trace = []
  sched = c['sched']
  limit = 10 * weight_bound(c) + 50

  class Eng:
    def Run(self, action):
      trace.append(action['n'])
      k = len(trace)
      if k > limit:
        raise Runaway()
      for s, states in sched.items():
        set_file(os.path.join(sigdir, s), states[min(k - 1, len(states) - 1)])

  for s in ('s0', 's1'):
    set_file(os.path.join(sigdir, s), 0)
  config = [{'name': a, 'requires': list(rq), 'action': {'n': a}} for a, rq in c['actions']]
  iterations = {}
  for iname, members, reps, sig, diamond in c['iterations']:
    d = {'predicates': list(members), 'repetitions': reps,
         'stop_signal': os.path.join(sigdir, sig) if sig else None}
    if diamond:
      d['mode'] = 'diamond'
    iterations[iname] = d
  res = {'assert': False, 'exc': None, 'sorted': [], 'trace': trace, 'runaway': False}
  try:
    conc = cl.Concertina(config, Eng(), display_mode='silent', iterations=iterations)
  except AssertionError:
    res['assert'] = True
    return res
  except Exception as e:  # pylint: disable=broad-except
    res['exc'] = 'constructor: %s: %s' % (type(e).__name__, e)
    return res
  res['sorted'] = list(conc.actions_to_run)
  try:
    conc.Run()
  except Runaway:
    res['runaway'] = True
  except Exception as e:  # pylint: disable=broad-except
    res['exc'] = 'Run: %s: %s' % (type(e).__name__, e)
  return res


# ---- to Coq ---------------------------------------------------------------------------------
def coq_list(xs):
  return '[' + '; '.join(str(x) for x in xs) + ']'


def coq_case(c, real):
  names = set(a for a, _ in c['actions'])
  for _, rq in c['actions']:
    names.update(rq)
  for it in c['iterations']:
    names.update(it[1])
  names.update(real['sorted'])
  names.update(real['trace'])
  rank = {a: i for i, a in enumerate(sorted(names))}
  sigs = sorted(set(it[3] for it in c['iterations'] if it[3]) | set(c['sched']))
  srank = {s: i for i, s in enumerate(sigs)}
  acts = '; '.join('mkA %d %s' % (rank[a], coq_list(rank[x] for x in rq)) for a, rq in c['actions'])
  its = '; '.join('mkI %d %s %d %s %s' % (
      k, coq_list(rank[m] for m in it[1]), max(it[2], 0),
      '(Some %d)' % srank[it[3]] if it[3] else 'None', 'true' if it[4] else 'false')
                  for k, it in enumerate(c['iterations']))
  sch = '; '.join('(%d, %s)' % (srank[s], coq_list('true' if x == 2 else 'false' for x in st))
                  for s, st in sorted(c['sched'].items()))
  return 'mkCase [%s] [%s] [%s] %s %s %s' % (
      acts, its, sch, 'true' if real['assert'] else 'false',
      coq_list(rank[x] for x in real['sorted']), coq_list(rank[x] for x in real['trace']))


def chunked(xs, n):
  return [xs[i:i + n] for i in range(0, len(xs), n)]


def eval_judge(case_strs, chunk=400, workers=4):
  def one(ch):
    text = ('From Coq Require Import List. Import ListNotations.\n'
            'From LV Require Import Exec.Concertina Exec.ConcertinaCheck.\n'
            'Definition cases := [\n%s\n].\n'
            'Eval vm_compute in map judge cases.\n' % (';\n'.join(ch)))
    rc, out = coqrun.coq_eval(text, timeout=1200)
    if rc != 0:
      return None, out
    ls = coqrun.parse_vm_list(out)
    if len(ls) != 1 or len(ls[0]) != len(ch):
      return None, out
    return [int(x) for x in ls[0]], out

  res = []
  if not case_strs:
    return res, ''
  with ThreadPoolExecutor(max_workers=workers) as ex:
    for vals, out in ex.map(one, chunked(case_strs, chunk)):
      if vals is None:
        return None, out
      res.extend(vals)
  return res, ''


# ---- a Python reading of the Spec's dependency clause, used when Coq is unavailable ------------
def deps_violation(c, trace):
  req = dict((a, rq) for a, rq in c['actions'])
  seen = set()
  for a in trace:
    for x in req.get(a, []):
      if x not in seen:
        return [a, x]
    seen.add(a)
  return None


# --------------------------------------------------------------------------------------------
# compiled plans and "several predicates at once"
# --------------------------------------------------------------------------------------------
def gen_program(r, engine='sqlite'):
  """A small program: facts, derived predicates (some @Ground), 0-2 deep recursions.
  engine 'sqlite': executed for real.  engine 'duckdb': compiled only (no DuckDB offline), which reaches the
  compiler's diamond mode and stop signals; its plans go through Concertina with a runner that does nothing.
  Returns (text, requestable predicates)."""
  lines = ['@Engine("%s");' % engine]
  nb = r.randint(1, 2)
  preds = []          # (name, arity)
  for i in range(nb):
    rows = sorted(set(r.randint(0, 6) for _ in range(r.randint(1, 5))))
    for v in rows:
      lines.append('B%d(%d);' % (i, v))
    preds.append(('B%d' % i, 1))
  grounded = set()
  requestable = []
  if engine == 'sqlite' and r.random() < 0.5:
    preds.append(('Araw', 1))      # a raw data table (not defined in the program; execute_program creates it)
  n_rec = r.choice([0, 1, 1, 1, 2])
  n_der = r.randint(2, 5)
  der_names = r.sample(['Pa', 'Pd', 'Pg', 'Pk', 'Pq', 'Pv', 'Pz'], n_der)   # not in dependency order alphabetically
  kinds = ['der'] * n_der + ['rec'] * n_rec
  r.shuffle(kinds)
  ri = di = 0
  for kind in kinds:
    if kind == 'rec':
      nm = 'R%d' % ri
      ri += 1
      depth = r.randint(21, 34)
      lim = r.randint(3, 40)
      src = r.choice(preds)[0]
      style = r.random()
      extra = ''
      if engine == 'duckdb':
        k = r.random()
        if k < 0.45:
          extra = ', mode: "diamond"'
        elif k < 0.8:
          extra = ', stop: Done%s' % nm
          lines.append('Done%s() :- %s(%d);' % (nm, nm, lim))
      elif r.random() < 0.2:
        depth = r.randint(2, 9)                    # small explicit depth, iterative: repetitions 0..4
        extra = ', iterative: true'
      if style < 0.5:
        lines.append('@Recursive(%s, %d%s);' % (nm, depth, extra))
        lines.append('%s(x) distinct :- %s(x);' % (nm, src))
        lines.append('%s(x + 1) distinct :- %s(x), x < %d;' % (nm, nm, lim))
      elif style < 0.8:
        # mutual recursion of two predicates, each with its own outside input
        nm2 = nm + 'm'
        src2 = r.choice(preds)[0]
        lines.append('@Recursive(%s, %d%s);' % (nm, depth, extra))
        lines.append('%s(x) distinct :- %s(x);' % (nm, src))
        lines.append('%s(x + 1) distinct :- %s(x), x < %d;' % (nm, nm2, lim))
        lines.append('%s(x) distinct :- %s(x);' % (nm2, src2))
        lines.append('%s(x + 2) distinct :- %s(x), x < %d;' % (nm2, nm, lim))
        preds.append((nm2, 1))
        requestable.append(nm2)
      else:
        lines.append('@Recursive(%s, %d%s);' % (nm, depth, extra))
        lines.append('%s(x) distinct :- %s(x);' % (nm, src))
        src2 = r.choice(preds)[0]
        lines.append('%s(x + 1) distinct :- %s(x), %s(y), x < y + %d;' % (nm, nm, src2, lim % 7))
      preds.append((nm, 1))
      requestable.append(nm)
    else:
      nm = der_names[di]
      di += 1
      a = r.choice(preds)[0]
      style = r.random()
      if style < 0.4:
        lines.append('%s(x) distinct :- %s(x), x > %d;' % (nm, a, r.randint(0, 3)))
      elif style < 0.7:
        b = r.choice(preds)[0]
        lines.append('%s(x) distinct :- %s(x), %s(x);' % (nm, a, b))
      elif style < 0.85:
        b = r.choice(preds)[0]
        lines.append('%s(x) distinct :- %s(x) | %s(x);' % (nm, a, b))
      else:
        b = r.choice(preds)[0]
        lines.append('%s(x + y) distinct :- %s(x), %s(y), x < 4;' % (nm, a, b))
      preds.append((nm, 1))
      requestable.append(nm)
      if r.random() < 0.55:
        grounded.add(nm)
        lines.append('@Ground(%s);' % nm)
  return '\n'.join(lines) + '\n', requestable


def gen_family(r):
  """Requests of several predicates where one requested predicate has two or more of the OTHER requested ones as
  grounded intermediates (each of them is then both final and intermediate and gets renamed); every order of
  the request is tried."""
  import itertools
  lines = ['@Engine("sqlite");']
  for v in sorted(set(r.randint(0, 6) for _ in range(r.randint(2, 5)))):
    lines.append('B0(%d);' % v)
  k = r.choice([2, 2, 3])
  mids = ['G%d' % i for i in range(k)]
  for i, g in enumerate(mids):
    lines.append('@Ground(%s);' % g)
    if i > 0 and r.random() < 0.4:
      lines.append('%s(x + %d) distinct :- %s(x);' % (g, i, mids[i - 1]))
    else:
      lines.append('%s(x + %d) distinct :- B0(x), x > %d;' % (g, i, r.randint(0, 2)))
  top = 'Top'
  if r.random() < 0.5:
    lines.append('@Ground(%s);' % top)
  lines.append('%s(x) distinct :- %s;' % (top, r.choice([' | ', ', ']).join('%s(x)' % g for g in mids)))
  req = mids + [top]
  orders = [list(o) for o in itertools.permutations(req)]
  if len(orders) > 6:
    orders = r.sample(orders, 6)
  return '\n'.join(lines) + '\n', orders


class PlanRecorder:
  """Captures what ExecuteLogicaProgram hands to Concertina and what the engine is asked to run."""

  def __init__(self, cl):
    self.cl = cl
    self.plans = []
    outer = self

    class Rec(cl.Concertina):
      def __init__(self, config, engine, display_mode='colab', iterations=None):
        plan = {'config': [(a['name'], list(a['requires'])) for a in config],
                'iterations': dict(iterations or {}), 'trace': [], 'sorted': None, 'assert': False}
        outer.plans.append(plan)
        inner = engine

        class Eng:
          def __getattr__(self, k):
            return getattr(inner, k)

          def Run(self, action):
            plan['trace'].append(action.get('predicate'))
            if len(plan['trace']) > 20000:
              raise Runaway()
            return inner.Run(action)
        try:
          super().__init__(config, Eng(), display_mode=display_mode, iterations=iterations)
        except AssertionError:
          plan['assert'] = True
          raise
        plan['sorted'] = list(self.actions_to_run)
    self.Rec = Rec

  def __enter__(self):
    self.orig = self.cl.Concertina
    self.cl.Concertina = self.Rec
    return self

  def __exit__(self, *a):
    self.cl.Concertina = self.orig


def plan_to_config(plan):
  its = []
  for iname, d in plan['iterations'].items():
    reps = d['repetitions']
    its.append([iname, list(d['predicates']), reps if isinstance(reps, int) else 0,
                ('sig:' + iname) if d.get('stop_signal') else None,      # its file is never written by our runners
                d.get('mode') == 'diamond'])
  c = {'actions': [[a, list(rq)] for a, rq in plan['config']], 'iterations': its, 'sched': {}}
  real = {'assert': plan['assert'], 'sorted': plan['sorted'] or [], 'trace': plan['trace']}
  return c, real


def make_program(text):
  from vlib import logica_run
  parse, universe = logica_run.modules()[:2]
  with contextlib.redirect_stdout(io.StringIO()), contextlib.redirect_stderr(io.StringIO()):
    rules = parse.ParseFile(text)['rule']
    return universe.LogicaProgram(rules)


def execute_program(cl, text, predicates, holder=None, dry=False):
  """Compiles with universe.LogicaProgram and runs through concertina_lib.ExecuteLogicaProgram on a fresh
  SQLite connection (like tools/run_in_terminal.RunMany).  holder: a dict in which the LogicaProgram object is
  kept for reuse across calls (quick tier), None = a fresh LogicaProgram for this call.
  Returns ('ok', {pred: (header, bag)}, plans, sql_calls) or (class, message, [], [])."""
  from vlib import logica_run
  sqlite3_logica = logica_run.modules()[4]
  try:
    with contextlib.redirect_stdout(io.StringIO()), contextlib.redirect_stderr(io.StringIO()):
      if holder is None:
        program = make_program(text)
      else:
        if 'program' not in holder:
          holder['program'] = make_program(text)
        program = holder['program']
      executions = []
      for p in predicates:
        program.FormattedPredicateSql(p)
        executions.append(program.execution)
  except Exception as e:  # pylint: disable=broad-except
    return logica_run.classify(e), str(e), [], []
  conn = sqlite3_logica.SqliteConnect()
  conn.executescript('CREATE TABLE Araw (col0 INTEGER); INSERT INTO Araw VALUES (1), (2), (2), (5);')   # the raw data table
  calls = []
  engine_name = program.annotations.Engine()

  def runner(sql, engine, is_final):
    calls.append([sql, bool(is_final)])
    if dry:
      return [], []
    if is_final:
      cur = conn.execute(sql)
      return [d[0] for d in cur.description], cur.fetchall()
    conn.executescript(sql)
    return None
  rec = PlanRecorder(cl)
  try:
    with rec, contextlib.redirect_stdout(io.StringIO()):
      res = cl.ExecuteLogicaProgram(executions, runner, engine_name, display_mode='silent')
  except AssertionError as e:
    return 'Assert', str(e)[:300], rec.plans, calls
  except Runaway:
    return 'Runaway', 'more than 20000 engine calls', rec.plans, calls
  except Exception as e:  # pylint: disable=broad-except
    return 'ExecError', '%s: %s' % (type(e).__name__, e), rec.plans, calls
  finally:
    conn.close()
  out = {}
  for p, hr in res.items():
    out[p] = [list(hr[0]), logica_run.bag(hr[1])]
  return 'ok', out, rec.plans, calls


# --------------------------------------------------------------------------------------------
WITNESS = {  # the config of Props/C14.v: C14_sort_topological_refuted (names A<B<C<Z)
    'actions': [['A', []], ['B', ['C']], ['C', []], ['Z', []]],
    'iterations': [['it0', ['A', 'B'], 2, None, False]], 'sched': {}}


def run(tier, replay=None):
  t0 = time.time()
  rep = common.Report(PID, tier, 'proof')
  rep.assumptions = [
      'model: Exec/Concertina.v, hand written mirror of Concertina.{UnderstandIterations,SortActions,RunOneAction,'
      'UpdateStateForIterativeAction,ActionIterationWantsToStopBySignal,Run}; tied per run by the correspondence below '
      '(a change of the code is seen by the tie, not by the proofs)',
      'domain of the model (wfb): distinct action names, iteration member lists duplicate free and pairwise disjoint '
      '(Python dict "last wins" on overlaps not mirrored; wfb is evaluated on every compiled plan); display code, '
      'graphviz/IPython and ConcertinaQueryEngine timing are not modelled; negative repetitions are clamped to 0',
      'stop signal: the file test is an oracle (function of the calls made so far); theorems hold for every oracle; '
      'the harness realises oracles with real files written/emptied/removed by the recording engine',
      'proved for all inputs: termination+bound, counts, at-most-once-more after the signal was seen, round structure, '
      'dependency order (under iter_closedb).  Checked per instance only (Spec valid_trace on real traces): the exact '
      'stop rule "runs again iff fewer than reps runs and no poll so far saw the signal"',
      'second half (several predicates at once = alone): per instance on generated programs on SQLite, not proved; '
      'DESIGN\'s dataflow_determinate / merge_conservative are not built',
      'CPython set/dict/list semantics trusted; harness props/c14.py trusted',
  ]
  ok, info = proof.proof_stage(rep, PID, extra_trusted=[
      'correspondence harness props/c14.py + Exec/ConcertinaCheck.v (judge)'])
  cl = impl()
  r = common.rng('c14')
  sigdir = tempfile.mkdtemp(prefix='lv_c14_')
  found = 0
  try:
    # ---------------- inputs
    configs = []      # (origin, config)
    programs = []
    if replay:
      with open(replay) as f:
        rp = json.load(f)
      if 'config' in rp:
        configs.append(('replay', rp['config']))
      if 'program' in rp:
        programs.append((rp['program'], rp['subsets'], bool(rp.get('dry'))))
    else:
      configs.append(('witness', WITNESS))
      n_rand = 1600 if tier == 'quick' else 40000
      for i in range(n_rand):
        k = r.random()
        configs.append(('random', gen_config(r, 'closed' if k < 0.5 else 'free' if k < 0.85 else 'malformed')))
      if tier == 'thorough':
        configs += [('exhaustive4', c) for c in exhaustive_small()]
      n_prog = 10 if tier == 'quick' else 160
      for i in range(n_prog):
        text, req = gen_program(r)
        subsets = []
        for _ in range(2 if tier == 'quick' else 3):
          k = r.randint(2, min(3, len(req))) if len(req) >= 2 else 1
          subsets.append(sorted(r.sample(req, k)))
        programs.append((text, subsets, False))
      for i in range(3 if tier == 'quick' else 40):
        text, orders = gen_family(r)
        programs.append((text, orders, False))
      for i in range(6 if tier == 'quick' else 100):      # compiled only: diamond mode, stop signals
        text, req = gen_program(r, 'duckdb')
        programs.append((text, [sorted(r.sample(req, min(len(req), r.randint(1, 3))))], True))

    phases = {'proof_stage_s': round(time.time() - t0, 1)}
    t1 = time.time()
    # ---------------- real runs on configs
    reals = [run_real(cl, c, sigdir) for _, c in configs]

    phases['real_configs_s'] = round(time.time() - t1, 1)
    t1 = time.time()
    bg = ThreadPoolExecutor(max_workers=1)
    fut = bg.submit(eval_judge, [coq_case(c, real) for (_, c), real in zip(configs, reals)], 400, 3) if ok else None
    # ---------------- compiled plans + merged vs solo
    plan_cases = []     # (program text, predicates, config, real)
    merge_stats = {'programs': 0, 'merged_runs': 0, 'tables_compared': 0, 'compile_rejected': 0,
                   'renamed_final_also_intermediate': 0, 'plans': 0, 'plans_with_iteration': 0, 'max_trace': 0,
                   'dry_duckdb_programs': 0, 'plans_diamond': 0, 'plans_with_stop_signal': 0}
    dry_texts = set(t for t, _, d in programs if d)
    for text, subsets, dry in programs:
      merge_stats['programs'] += 0 if dry else 1
      solo = {}
      hold_m = {} if tier == 'quick' and not replay else None     # quick: one LogicaProgram for the merged runs,
      hold_s = {} if tier == 'quick' and not replay else None     # another one for all solo runs of this program
      for subset in subsets:
        st, res, plans, calls = execute_program(cl, text, subset, hold_m, dry=dry)
        if st in DIAG:
          merge_stats['compile_rejected'] += 1
          continue
        for pl in plans:
          plan_cases.append((text, subset, ) + plan_to_config(pl))
        if st != 'ok':
          found += 1
          if found <= 6:
            rep.violation('exec:%s' % st, {'program': text, 'subsets': [subset], 'observed': [st, res], 'dry': dry,
                                           'law': 'the run of a compiled plan terminates without error'})
          continue
        if dry:
          merge_stats['dry_duckdb_programs'] += 1
          continue
        merge_stats['merged_runs'] += 1
        if any(a.startswith('⤓') for pl in plans for a, _ in pl['config']):
          merge_stats['renamed_final_also_intermediate'] += 1
        for p in subset:
          if p not in solo:
            st1, res1, plans1, _ = execute_program(cl, text, [p], hold_s)
            solo[p] = (st1, res1)
            for pl in plans1:
              plan_cases.append((text, [p]) + plan_to_config(pl))
          st1, res1 = solo[p]
          merge_stats['tables_compared'] += 1
          if st1 != 'ok' or res.get(p) != res1.get(p):
            found += 1
            if found <= 6:
              rep.violation('merge:%s' % common.short_hash([text, subset, p]), {
                  'program': text, 'subsets': [subset], 'predicate': p,
                  'observed': {'together': res.get(p), 'alone': [st1, res1 if st1 != 'ok' else res1.get(p)]},
                  'law': 'asking for several predicates at once returns for each the same table as asking for it alone'})
    for _, _, c, real in plan_cases:
      merge_stats['plans'] += 1
      merge_stats['plans_with_iteration'] += 1 if any(
          set(it[1]) & set(a for a, _ in c['actions']) for it in c['iterations']) else 0
      merge_stats['max_trace'] = max(merge_stats['max_trace'], len(real['trace']))
      merge_stats['plans_diamond'] += 1 if any(it[4] for it in c['iterations']) else 0
      merge_stats['plans_with_stop_signal'] += 1 if any(it[3] for it in c['iterations']) else 0

    phases['programs_s'] = round(time.time() - t1, 1)
    t1 = time.time()
    # ---------------- model side
    all_cases = [(o, c, real, None) for (o, c), real in zip(configs, reals)] + \
                [('compiled', c, real, (text, preds)) for text, preds, c, real in plan_cases]
    codes = None
    if ok:
      codes, out = fut.result()
      if codes is not None:
        codes2, out = eval_judge([coq_case(c, real) for _, _, c, real in plan_cases], 200, 4)
        codes = None if codes2 is None else codes + codes2
      if codes is None:
        ok = False
        info['excerpt'] = out[-3000:]
    bg.shutdown()

    phases['coq_judge_s'] = round(time.time() - t1, 1)
    # ---------------- verdicts
    stats = {'ok_runs': 0, 'assert': 0, 'not_closed': 0, 'not_wf': 0, 'with_signal': 0, 'stopped_early': 0,
             'known_not_closed_deps': 0, 'trace_len': {}}
    broken = []
    cands = []        # (size, key, replay): concrete failing inputs; the smallest few are reported
    not_closed_best = None
    for idx, (origin, c, real, prog) in enumerate(all_cases):
      code = codes[idx] if codes is not None else None
      rp = {'config': c, 'origin': origin, 'observed': {k: real[k] for k in ('assert', 'sorted', 'trace')}}
      if prog:
        rp.update({'program': prog[0], 'subsets': [prog[1]], 'dry': prog[0] in dry_texts})
      size = (len(c['actions']), len(real['trace']), sum(len(rq) for _, rq in c['actions']))
      if real.get('runaway'):
        rp['observed']['trace'] = real['trace'][:60] + ['...']
        cands.append((size, 'runaway:%s' % common.short_hash(c), dict(rp, law='the run terminates within the sum of the repetitions (stopped by the harness after 10x that bound)')))
        continue
      if real.get('exc'):
        cands.append((size, 'exception:%s' % common.short_hash(c), dict(rp, law='no exception other than the scheduling assert', exc=real['exc'])))
        continue
      if real['assert']:
        stats['assert'] += 1
      else:
        stats['ok_runs'] += 1
        ln = len(real['trace'])
        stats['trace_len'][min(ln // 5 * 5, 40)] = stats['trace_len'].get(min(ln // 5 * 5, 40), 0) + 1
        if c['sched']:
          stats['with_signal'] += 1
          if ln < weight_bound(c):
            stats['stopped_early'] += 1
      if code is None:
        # proof stage broken: only the Python reading of the dependency clause is available
        dv = None if real['assert'] else deps_violation(c, real['trace'])
        if dv and origin == 'compiled':
          cands.append((size, 'deps:%s' % common.short_hash(c), dict(rp, law='statement %s ran before its input %s' % tuple(dv))))
        continue
      not_closed, not_wf = bool(code & 32), bool(code & 64)
      stats['not_closed'] += not_closed
      stats['not_wf'] += not_wf
      if origin == 'compiled' and (not_closed or not_wf):
        cands.append((size, 'compiled-plan-hypothesis:%s' % common.short_hash(c), dict(
            rp, law='every plan the compiler produces satisfies wfb and iter_closedb (hypotheses of the theorems)',
            iter_closedb=not not_closed, wfb=not not_wf)))
        continue
      if not_wf:
        continue            # outside the model's domain (generator does not produce these)
      spec_bits = code & (8 | 256 | 512)
      if code & 16:
        dv = deps_violation(c, real['trace'])
        if not_closed and not spec_bits:      # explained by the known defect (requirement never checked by SortActions)
          stats['known_not_closed_deps'] += 1
          cand = dict(rp, law='statement %s ran before its requirement %s (config violates iter_closed: the requirement '
                      'is neither among the requirements checked for the first member nor an earlier member)' % tuple(dv or ['?', '?']))
          if not_closed_best is None or (origin == 'witness') or (
              not_closed_best['origin'] != 'witness' and len(c['actions']) < len(not_closed_best['config']['actions'])):
            not_closed_best = cand
        else:
          cands.append((size, 'deps:%s' % common.short_hash(c), dict(
              rp, law='statement %s ran before its requirement %s' % tuple(dv or ['?', '?']), iter_closedb=not not_closed)))
        if code & 7:
          broken.append((c, code))
        continue
      if spec_bits:
        what = [n for b, n in ((8, 'each non-iterated action exactly once, every action runs'),
                               (256, 'an iterated action runs again iff fewer than reps runs and its stop signal was not seen'),
                               (512, 'members of an iteration run contiguously, in declared order round by round')) if code & b]
        cands.append((size, 'trace:%s' % common.short_hash(c), dict(rp, law=what)))
        continue
      if code & (1 | 2 | 4 | 128 | 1024):
        broken.append((c, code))
    cands.sort(key=lambda x: x[0])
    for _, key, rp in cands[:5]:
      found += 1
      rep.violation(key, rp)
    if not_closed_best is not None:
      if rep.violation(KEY_NOT_CLOSED, not_closed_best):
        found += 1
    if not ok and not found:
      rep.violation('proof', {'broken': 'theories/Props/C14.v or its dependencies no longer check',
                              'failing_files': info.get('failing'), 'excerpt': info.get('excerpt', '')[:3000]},
                    no_input=True)
    elif broken and not found:
      rep.violation('tie', {'broken': 'correspondence concertina_lib.Concertina vs Exec/Concertina.v (sorted queue / trace)',
                            'examples': [{'config': c, 'judge_bits': code} for c, code in broken[:5]],
                            'count': len(broken)}, no_input=True)

    nontrivial = len(set(common.canon(c) for _, c, real, _ in all_cases
                         if not real['assert'] and c['iterations'] and len(real['trace']) > len(c['actions'])))
    rep.coverage.update({
        'evaluations': len(all_cases) + merge_stats['tables_compared'],
        'distinct_nontrivial': nontrivial,
        'rule': 'random configs (<=10 actions, <=2 iterations, reps 0..3, stop signals realised by real files; 50% closed by '
                'construction, 35% free, 15% malformed) + every plan produced by compiling generated programs (@Ground, '
                '@Recursive depth 21..34, mutual recursion); non-trivial = scheduled, has an iteration, some action ran more than once',
        'exhaustive': tier == 'thorough',
        'phases': phases,
        'samples': [all_cases[i][1] for i in (1, 2, len(configs) - 1) if i < len(all_cases)] +
                   [{'program': programs[0][0], 'subsets': programs[0][1]}] if programs else [],
        'distribution': dict(stats, configs=len(configs), compiled_plans=len(plan_cases), merge=merge_stats,
                             tie_exact=(codes or []).count(0) + sum(1 for x in (codes or []) if x and not x & ~(32 | 16))),
    })
  finally:
    shutil.rmtree(sigdir, ignore_errors=True)
  return rep.finish()


DIAG = ('Parsing', 'RuleCompile', 'Functor', 'TypeError')
