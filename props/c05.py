"""C05 — type checking: accepts well-typed, rejects clashes, matches run-time values.

Proof: coq/theories/Props/C05.v over Types/Typing.v (typed core language, values, constraint view of
inference on top of the C16 meet).  Tie / search on the real checker (type_inference/research/infer.py
as wired by compiler/universe.py with `@Engine("sqlite", type_checking: true)`):

  (a) generated ground-typed programs are accepted and every predicate gets exactly the intended
      signature (rendered form) — also by the second inference on the injected structure (compile);
  (b) single-point type corruptions that force a node to two ground types are rejected with
      infer.TypeErrorCaughtException for every tried permutation of rules and of the conjuncts of the
      corrupted rule;
  (c) every cell SQLite returns inhabits the inferred column type.

The oracle is independent of the code: the generator knows the ground type of every variable and
column by construction; "forcing" of a corruption is decided by the Coq constraint model (meet_all
per node, proved: clash iff no common ground instance, order independent).  The emission of the
constraint lists (class Emitter) is trusted harness code; it is tied by comparing the model's
verdict and inferred column types with the real checker on every case.

Bool on SQLite: comparisons and boolean literals come back as the integers 0/1, so a Bool column is
accepted when the cell is 0, 1, False or True.  Num: int or float (not bool).  Lists / records come
back as JSON text and are decoded by logica_run.decode_cell; a record aggregated into a list comes back
as the JSON text of the record inside the array and is decoded once more.  SQL NULL (None; e.g. an aggregate
over an empty set) is accepted in every column and counted.  A predicate whose SQL fails to execute for a
reason that is not a type error (status SqlError etc.) is counted as not executed, not as a violation.
"""
import copy
import itertools
import json
import multiprocessing
import os
import time

from vlib import common, coqrun, proof, logica_run

PID = 'C05'
HEADER = '@Engine("sqlite", type_checking: true);\n'
ATOMS = ['Num', 'Str', 'Bool']
WORDS = ['a', 'bc', 'def', 'q', 'xy', 'w', 'logic', 'k9']


# ------------------------------------------------------------------ ground types (python side)
# 'Num' | 'Str' | 'Bool' | ['list', T] | ['rec', [[f, T], ...]]   (record fields sorted by name)
def is_list(t):
  return isinstance(t, list) and t[0] == 'list'


def is_rec(t):
  return isinstance(t, list) and t[0] == 'rec'


def render_type(t):
  if isinstance(t, str):
    return t
  if is_list(t):
    return '[%s]' % render_type(t[1])
  return '{%s}' % ', '.join('%s: %s' % (f, render_type(v)) for f, v in sorted(t[1]))


def render_sig(pred, cols, value=None):
  """cols: [(field, T)] in head order; field int (positional) or str."""
  fs = [('' if isinstance(f, int) else f + ': ') + render_type(t) for f, t in cols]
  return 'type %s(%s)%s;' % (pred, ', '.join(fs), (' = ' + render_type(value)) if value is not None else '')


def conforms(v, t):
  """Python value returned by SQLite (decoded) against a ground type.  SQL NULL (None) is a member of every type."""
  if v is None:
    return True
  if t == 'Num':
    return isinstance(v, (int, float)) and not isinstance(v, bool)
  if t == 'Str':
    return isinstance(v, str)
  if t == 'Bool':
    return (isinstance(v, bool)) or (isinstance(v, int) and v in (0, 1))
  if is_list(t):
    return isinstance(v, list) and all(conforms(x, t[1]) for x in v)
  if is_rec(t):
    if isinstance(v, str) and v[:1] == '{':
      # SQLite: a record aggregated into a list comes back as the JSON text of the record inside the JSON array
      try:
        v = json.loads(v)
      except ValueError:
        return False
    return isinstance(v, dict) and set(v) == set(f for f, _ in t[1]) and all(conforms(v[f], ft) for f, ft in t[1])
  return False


def to_model(t):
  """ground type -> model type term (c16 format)."""
  if isinstance(t, str):
    return t
  if is_list(t):
    return ['list', to_model(t[1])]
  return ['rec', True, [[f, to_model(v)] for f, v in sorted(t[1])]]


# ------------------------------------------------------------------ program AST
def lit(t, v):
  return {'k': 'lit', 't': t, 'v': v}


def var(n):
  return {'k': 'var', 'n': n}


def render_expr(e):
  k = e['k']
  if k == 'lit':
    if e['t'] == 'Num':
      return str(e['v'])
    if e['t'] == 'Str':
      return '"%s"' % e['v']
    return 'true' if e['v'] else 'false'
  if k == 'var':
    return e['n']
  if k == 'bin':
    return '(%s %s %s)' % (render_expr(e['a']), e['op'], render_expr(e['b']))
  if k == 'list':
    return '[%s]' % ', '.join(render_expr(x) for x in e['es'])
  if k == 'rec':
    return '{%s}' % ', '.join('%s: %s' % (f, render_expr(x)) for f, x in e['fs'])
  if k == 'field':
    return '%s.%s' % (render_expr(e['e']), e['f'])
  if k == 'call':
    return '%s(%s)' % (e['p'], ', '.join(render_expr(x) for x in e['args']))
  if k == 'combine':
    return '(combine %s= %s :- %s)' % (e['op'], render_expr(e['e']), ', '.join(render_conj(c) for c in e['body']))
  raise AssertionError(k)


def render_conj(c):
  k = c['k']
  if k == 'atom':
    return '%s(%s)' % (c['p'], ', '.join(('' if isinstance(f, int) else f + ': ') + render_expr(x) for f, x in c['args']))
  if k == 'eq':
    return '%s == %s' % (render_expr(c['a']), render_expr(c['b']))
  if k == 'in':
    return '%s in %s' % (render_expr(c['e']), render_expr(c['l']))
  if k == 'cmp':
    return '%s %s %s' % (render_expr(c['a']), c['op'], render_expr(c['b']))
  raise AssertionError(k)


def render_rule(r, conj_order=None):
  hs = []
  for h in r['head']:
    f = h['f']
    if h.get('agg'):
      hs.append('%s? %s= %s' % (f, h['agg'], render_expr(h['e'])))
    elif isinstance(f, int):
      hs.append(render_expr(h['e']))
    else:
      hs.append('%s: %s' % (f, render_expr(h['e'])))
  s = '%s(%s)' % (r['p'], ', '.join(hs))
  if r.get('value') is not None:
    s += ' = %s' % render_expr(r['value'])
  if r.get('distinct'):
    s += ' distinct'
  body = r['body']
  if conj_order is not None:
    body = [body[i] for i in conj_order]
  if body:
    s += ' :- ' + ', '.join(render_conj(c) for c in body)
  return s + ';'


def render_program(prog, rule_order=None, conj_orders=None):
  rules = prog['rules']
  order = rule_order if rule_order is not None else range(len(rules))
  conj_orders = conj_orders or {}
  return HEADER + '\n'.join(render_rule(rules[i], conj_orders.get(i)) for i in order) + '\n'


# ------------------------------------------------------------------ generator
class Gen:
  """Builds a ground-typed program; knows the type of every variable and column by construction."""

  def __init__(self, r):
    self.r = r
    self.rules = []
    self.sigma = {}       # pred -> {'cols': [(field, T)], 'value': T or None, 'agg': bool}
    self.features = set()
    self.nv = 0

  def fresh(self, p='x'):
    self.nv += 1
    return '%s%d' % (p, self.nv)

  def rand_lit(self, t):
    r = self.r
    if t == 'Num':
      return lit('Num', r.randrange(0, 20))
    if t == 'Str':
      return lit('Str', r.choice(WORDS))
    if t == 'Bool':
      return lit('Bool', r.random() < 0.5)
    if is_list(t):
      return {'k': 'list', 'es': [self.rand_lit(t[1]) for _ in range(r.randrange(1, 4))]}
    return {'k': 'rec', 'fs': [[f, self.rand_lit(ft)] for f, ft in t[1]]}

  def rand_type(self, depth=2):
    r = self.r
    k = r.random()
    if depth == 0 or k < 0.55:
      return r.choice(ATOMS if r.random() < 0.4 else ['Num', 'Str'])
    if k < 0.75:
      e = self.rand_type(0) if r.random() < 0.8 else self.rand_rec(depth - 1)
      return ['list', e]
    return self.rand_rec(depth - 1)

  def rand_rec(self, depth):
    fs = self.r.sample(['a', 'b', 'c', 'd'], self.r.randrange(1, 4))
    out = []
    for f in sorted(fs):
      t = self.rand_type(depth)
      out.append([f, t])
    return ['rec', out]

  def base_pred(self, name):
    r = self.r
    n = r.randrange(1, 5)
    types = [r.choice(['Num', 'Str']) if i == 0 else self.rand_type(2) for i in range(n)]
    for _ in range(r.randrange(2, 4)):
      self.rules.append({'p': name, 'head': [{'f': i, 'e': self.rand_lit(t)} for i, t in enumerate(types)], 'body': []})
    self.sigma[name] = {'cols': [(i, t) for i, t in enumerate(types)], 'value': None}
    for t in types:
      self.note_type(t)

  def note_type(self, t):
    if is_list(t):
      self.features.add('list')
      self.note_type(t[1])
    elif is_rec(t):
      self.features.add('record')
      for _, ft in t[1]:
        self.note_type(ft)
    elif t == 'Bool':
      self.features.add('bool')

  # --- typed expressions over env
  def vars_of(self, env, pred):
    return [v for v, t in env.items() if pred(t)]

  def expr_of(self, env, t, depth=2):
    """An expression of ground type t over env (always possible: falls back to a literal)."""
    r = self.r
    cands = self.vars_of(env, lambda x: x == t)
    k = r.random()
    if depth > 0:
      if t == 'Num' and k < 0.35:
        self.features.add('arith')
        return {'k': 'bin', 'op': r.choice(['+', '*', '+']), 'a': self.expr_of(env, 'Num', depth - 1),
                'b': self.expr_of(env, 'Num', depth - 1)}
      if t == 'Str' and k < 0.3:
        self.features.add('concat')
        return {'k': 'bin', 'op': '++', 'a': self.expr_of(env, 'Str', depth - 1), 'b': self.expr_of(env, 'Str', depth - 1)}
      if t == 'Bool' and k < 0.5:
        self.features.add('compare')
        ot = r.choice(['Num', 'Str'])
        return {'k': 'bin', 'op': r.choice(['<', '==', '>', '<=']), 'a': self.expr_of(env, ot, depth - 1),
                'b': self.expr_of(env, ot, depth - 1)}
      if is_list(t) and (k < 0.6 or not cands):
        self.features.add('list_literal')
        return {'k': 'list', 'es': [self.expr_of(env, t[1], depth - 1) for _ in range(r.randrange(1, 4))]}
      if is_rec(t) and (k < 0.6 or not cands):
        self.features.add('record_literal')
        return {'k': 'rec', 'fs': [[f, self.expr_of(env, ft, depth - 1)] for f, ft in t[1]]}
      # field access on a record variable that has a field of this type
      recs = [(v, f) for v, vt in env.items() if is_rec(vt) for f, ft in vt[1] if ft == t]
      if recs and k > 0.8:
        self.features.add('field_access')
        v, f = r.choice(recs)
        return {'k': 'field', 'e': var(v), 'f': f}
      funs = [p for p, s in self.sigma.items() if s.get('value') == t and len(s['cols']) == 1]
      if funs and k > 0.7:
        p = r.choice(funs)
        self.features.add('function_call')
        return {'k': 'call', 'p': p, 'args': [self.expr_of(env, self.sigma[p]['cols'][0][1], 0)]}
    if cands and r.random() < 0.8:
      return var(r.choice(cands))
    return self.rand_lit(t)

  def gen_rule(self, name, functional=False):
    r = self.r
    env = {}
    body = []
    preds = list(self.sigma)
    for _ in range(r.randrange(1, 3)):
      p = r.choice(preds)
      cols = self.sigma[p]['cols']
      if self.sigma[p].get('value') is not None:
        continue
      args = []
      for f, t in cols:
        if not isinstance(f, int) and r.random() < 0.3:
          continue            # named columns may be left out
        same = self.vars_of(env, lambda x: x == t)
        k = r.random()
        if same and k < 0.2:
          args.append([f, var(r.choice(same))])
        elif isinstance(t, str) and k < 0.3:
          args.append([f, self.rand_lit(t)])
        else:
          v = self.fresh()
          env[v] = t
          args.append([f, var(v)])
      body.append({'k': 'atom', 'p': p, 'args': args})
    if not body or not env:
      p = [q for q in preds if self.sigma[q].get('value') is None][0]
      args = []
      for f, t in self.sigma[p]['cols']:
        v = self.fresh()
        env[v] = t
        args.append([f, var(v)])
      body.append({'k': 'atom', 'p': p, 'args': args})
    # definitions and filters
    for _ in range(r.randrange(0, 4)):
      k = r.random()
      lists = self.vars_of(env, is_list)
      recs = self.vars_of(env, is_rec)
      if k < 0.25 and lists:
        l = r.choice(lists)
        v = self.fresh('e')
        body.append({'k': 'in', 'e': var(v), 'l': var(l)})
        env[v] = env[l][1]
        self.features.add('inclusion')
      elif k < 0.4 and recs:
        rv = r.choice(recs)
        f, ft = r.choice(env[rv][1])
        v = self.fresh('c')
        body.append({'k': 'eq', 'a': var(v), 'b': {'k': 'field', 'e': var(rv), 'f': f}})
        env[v] = ft
        self.features.add('field_access')
      elif k < 0.55:
        nums = [l for l in lists if env[l][1] == 'Num']
        strs = [l for l in lists if env[l][1] == 'Str']
        v = self.fresh('s')
        kk = self.fresh('k')             # share_combine_names() builds the variant with one shared inner name
        if nums and r.random() < 0.7:
          l = r.choice(nums)
          op = r.choice(['Sum', 'Max', 'Min'])
          inner = var(kk) if r.random() < 0.6 else {'k': 'bin', 'op': '+', 'a': var(kk), 'b': self.rand_lit('Num')}
          body.append({'k': 'eq', 'a': var(v), 'b': {'k': 'combine', 'op': op, 'e': inner,
                                                     'body': [{'k': 'in', 'e': var(kk), 'l': var(l)}]}})
          env[v] = 'Num'
        elif strs:
          l = r.choice(strs)
          body.append({'k': 'eq', 'a': var(v), 'b': {'k': 'combine', 'op': 'List', 'e': {
              'k': 'bin', 'op': '++', 'a': var(kk), 'b': self.rand_lit('Str')},
              'body': [{'k': 'in', 'e': var(kk), 'l': var(l)}]}})
          env[v] = ['list', 'Str']
        else:
          p = r.choice([q for q in preds if self.sigma[q].get('value') is None])
          t0 = self.sigma[p]['cols'][0][1]
          if t0 not in ('Num', 'Str'):
            continue
          op = 'Max' if t0 == 'Str' else r.choice(['Sum', 'Max'])
          body.append({'k': 'eq', 'a': var(v), 'b': {'k': 'combine', 'op': op, 'e': var(kk),
                                                     'body': [{'k': 'atom', 'p': p, 'args': [[0, var(kk)]]}]}})
          env[v] = t0
        self.features.add('combine')
      elif k < 0.85:
        t = self.rand_type(1) if r.random() < 0.5 else r.choice(['Num', 'Str'])
        v = self.fresh('d')
        body.append({'k': 'eq', 'a': var(v), 'b': self.expr_of(env, t, 2)})
        env[v] = t
        self.note_type(t)
      else:
        t = r.choice(['Num', 'Str'])
        a = self.vars_of(env, lambda x: x == t)
        if a:
          body.append({'k': 'cmp', 'op': r.choice(['<', '>', '<=', '>=']), 'a': var(r.choice(a)), 'b': self.expr_of(env, t, 1)})
          self.features.add('compare')
    # head
    head = []
    cols = []
    names = list(env)
    if functional:
      v = r.choice(self.vars_of(env, lambda x: isinstance(x, str)) or names)
      vt = env[v]
      arg = r.choice(names)
      head = [{'f': 0, 'e': var(arg)}]
      cols = [(0, env[arg])]
      value_t = r.choice(['Num', 'Str']) if r.random() < 0.5 else vt
      rule = {'p': name, 'head': head, 'body': body, 'value': self.expr_of(env, value_t, 1)}
      self.sigma[name] = {'cols': cols, 'value': value_t}
      self.rules.append(rule)
      self.features.add('functional_predicate')
      return
    aggregated = r.random() < 0.35
    npos = r.randrange(1, 4)
    for i in range(npos):
      if r.random() < 0.7:
        v = r.choice(names)
        head.append({'f': i, 'e': var(v)})
        cols.append((i, env[v]))
      else:
        t = self.rand_type(1)
        head.append({'f': i, 'e': self.expr_of(env, t, 2)})
        cols.append((i, t))
        self.note_type(t)
    if aggregated:
      self.features.add('aggregation')
      for j in range(r.randrange(1, 3)):
        f = ['n', 'm', 'u'][j]
        k = r.random()
        nums = self.vars_of(env, lambda x: x == 'Num')
        sing = self.vars_of(env, lambda x: not is_list(x))
        if k < 0.4:
          head.append({'f': f, 'agg': '+', 'e': self.expr_of(env, 'Num', 1)})
          cols.append((f, 'Num'))
        elif k < 0.7 and sing:
          v = r.choice(sing)
          head.append({'f': f, 'agg': 'List', 'e': var(v)})
          cols.append((f, ['list', env[v]]))
          self.note_type(['list', env[v]])
        else:
          t = r.choice(['Num', 'Str'])
          head.append({'f': f, 'agg': r.choice(['Max', 'Min']), 'e': self.expr_of(env, t, 1)})
          cols.append((f, t))
    elif r.random() < 0.3:
      t = self.rand_type(1)
      head.append({'f': 'w', 'e': self.expr_of(env, t, 1)})
      cols.append(('w', t))
      self.note_type(t)
    rule = {'p': name, 'head': head, 'body': body, 'distinct': aggregated}
    self.sigma[name] = {'cols': cols, 'value': None}
    self.rules.append(rule)
    if len(body) > 1 and not aggregated and r.random() < 0.25:
      # a second rule of the same predicate: same shape, other literal values
      r2 = copy.deepcopy(rule)
      for l in literals_of_rule(r2):
        if l['t'] == 'Num':
          l['v'] = r.randrange(0, 20)
        elif l['t'] == 'Str':
          l['v'] = r.choice(WORDS)
      self.rules.append(r2)
      self.features.add('two_rules')

  def program(self):
    r = self.r
    for i in range(r.randrange(1, 3)):
      self.base_pred('T%d' % i)
    nd = r.randrange(2, 5)
    for i in range(nd):
      self.gen_rule('P%d' % i, functional=(i < nd - 1 and r.random() < 0.2))
    return {'rules': self.rules, 'sigma': self.sigma, 'features': sorted(self.features)}


def sub_exprs(e):
  yield e
  k = e['k']
  if k == 'bin':
    yield from sub_exprs(e['a'])
    yield from sub_exprs(e['b'])
  elif k == 'list':
    for x in e['es']:
      yield from sub_exprs(x)
  elif k == 'rec':
    for _, x in e['fs']:
      yield from sub_exprs(x)
  elif k == 'field':
    yield from sub_exprs(e['e'])
  elif k == 'call':
    for x in e['args']:
      yield from sub_exprs(x)
  elif k == 'combine':
    yield from sub_exprs(e['e'])
    for c in e['body']:
      yield from conj_exprs(c)


def conj_exprs(c):
  if c['k'] == 'atom':
    for _, x in c['args']:
      yield from sub_exprs(x)
  elif c['k'] == 'in':
    yield from sub_exprs(c['e'])
    yield from sub_exprs(c['l'])
  else:
    yield from sub_exprs(c['a'])
    yield from sub_exprs(c['b'])


def rule_exprs(rule):
  for h in rule['head']:
    yield from sub_exprs(h['e'])
  if rule.get('value') is not None:
    yield from sub_exprs(rule['value'])
  for c in rule['body']:
    yield from conj_exprs(c)


def literals_of_rule(rule):
  return [e for e in rule_exprs(rule) if e['k'] == 'lit']


def combines_of_rule(rule):
  return [e for e in rule_exprs(rule) if e['k'] == 'combine']


def share_combine_names(prog):
  """The same program with every combine-local variable called `k` (each combine is its own scope).

  Returns (program, max number of combines in one rule) or (None, 0) when no rule has two combines.
  """
  p2 = copy.deepcopy(prog)
  most = 0
  for rule in p2['rules']:
    cs = combines_of_rule(rule)
    most = max(most, len(cs))
    for c in cs:
      for x in list(sub_exprs(c['e'])) + [y for cj in c['body'] for y in conj_exprs(cj)]:
        if x['k'] == 'var' and x['n'].startswith('k'):
          x['n'] = 'k'
  if most < 2:
    return None, 0
  return p2, most


FIXED = [
    # (name, text without header, intended signatures)
    ('three_combines_shared_local',
     'T(1);\nS("a");\nQ(a, b, c) :- a == (combine Max= k :- T(k)), b == (combine Max= k :- S(k)), '
     'c == (combine Max= k :- T(k));\n',
     {'T': 'type T(Num);', 'S': 'type S(Str);', 'Q': 'type Q(Num, Str, Num);'}, 3),
    ('two_combines_shared_local',
     'T(1);\nS("a");\nQ(a, b) :- a == (combine Max= k :- T(k)), b == (combine Max= k :- S(k));\n',
     {'T': 'type T(Num);', 'S': 'type S(Str);', 'Q': 'type Q(Num, Str);'}, 2),
    ('records_lists',
     'T(1, "a", true);\nT(2, "b", false);\nL(x, [x, x + 1]) :- T(x, y, z);\nR(x, {a: x, b: y}) :- T(x, y, z);\n'
     'Q(x, s, l, r, e, c, n? += x) distinct :- T(x, y, z), s == y ++ "q", L(x, l), R(x, r), e in l, c == r.b;\n',
     {'T': 'type T(Num, Str, Bool);', 'L': 'type L(Num, [Num]);', 'R': 'type R(Num, {a: Num, b: Str});',
      'Q': 'type Q(Num, Str, [Num], {a: Num, b: Str}, Num, Str, n: Num);'}, 0),
]


def scope_key(n_combines):
  return 'combine-scope:third-combine' if n_combines >= 3 else 'combine-scope:other'


def corruption_sites(rule):
  """Literals (kind changes) and field accesses (field renamed to one the record does not have)."""
  return [e for e in rule_exprs(rule) if e['k'] in ('lit', 'field')]


def corrupt(prog, rule_idx, lit_idx, r):
  """Single-point corruption: the lit_idx-th site of rule rule_idx changes its kind / its field."""
  p2 = copy.deepcopy(prog)
  l = corruption_sites(p2['rules'][rule_idx])[lit_idx]
  if l['k'] == 'field':
    old = l['f']
    l['f'] = 'zz'
    return p2, {'rule': rule_idx, 'literal': lit_idx, 'from': 'field ' + old, 'to': 'field zz'}
  old = l['t']
  new = r.choice([t for t in ATOMS if t != old and not (old == 'Bool' and t == 'Num' and False)])
  l['t'] = new
  l['v'] = {'Num': 7, 'Str': 'zz', 'Bool': True}[new]
  return p2, {'rule': rule_idx, 'literal': lit_idx, 'from': old, 'to': new}


# ------------------------------------------------------------------ constraint emission (trusted)
class Emitter:
  """Site-wise constraints (node, model type) of a program, resolved by forward synthesis.

  Nodes: variables of a rule (per combine scope), expression sites, predicate columns.
  Body atoms demand the callee's column types from `sigma` (the generator's intended signatures).
  """

  def __init__(self, prog):
    self.prog = prog
    self.sigma = prog['sigma']
    self.ids = {}
    self.cs = []
    self.n_sites = 0
    self.synth_sig = {}     # pred -> field -> [synthesized column types], filled in program order

  def node(self, key):
    if key not in self.ids:
      self.ids[key] = len(self.ids)
    return self.ids[key]

  def site(self):
    self.n_sites += 1
    return self.node(('site', self.n_sites))

  def demand(self, n, t):
    self.cs.append((n, t))

  def col_type(self, p, f):
    """Type a caller sees for column f of p: what the rules of p synthesized, else the intended one."""
    ts = self.synth_sig.get(p, {}).get(f)
    if ts:
      return self.best(ts)
    sg = self.sigma[p]
    if f == 'logica_value':
      return to_model(sg['value'])
    return to_model(dict(sg['cols'])[f])

  @staticmethod
  def known(t):
    return t not in ('Any', 'Singular', 'Sequential')

  def best(self, ts):
    for t in ts:
      if self.known(t):
        return t
    return ts[0] if ts else 'Any'

  def walk(self, e, env, scope):
    """Returns (node, synthesized model type)."""
    k = e['k']
    if k == 'lit':
      n = self.site()
      self.demand(n, e['t'])
      return n, e['t']
    if k == 'var':
      return self.node(('var', scope[0], scope[1].get(e['n'], 0), e['n'])), env.get(e['n'], 'Any')
    if k == 'bin':
      na, ta = self.walk(e['a'], env, scope)
      nb, tb = self.walk(e['b'], env, scope)
      n = self.site()
      op = e['op']
      if op in ('+', '*'):
        for x in (na, nb, n):
          self.demand(x, 'Num')
        return n, 'Num'
      if op == '++':
        res = self.best([ta, tb, 'Sequential'])
        for x in (na, nb, n):
          self.demand(x, 'Sequential')
          self.demand(x, ta)
          self.demand(x, tb)
        return n, res
      self.demand(na, tb)
      self.demand(nb, ta)
      self.demand(n, 'Bool')
      return n, 'Bool'
    if k == 'list':
      parts = [self.walk(x, env, scope) for x in e['es']]
      n = self.site()
      for i, (ni, ti) in enumerate(parts):
        self.demand(ni, 'Singular')
        for j, (nj, tj) in enumerate(parts):
          if i != j:
            self.demand(ni, tj)
        self.demand(n, ['list', ti])
      te = self.best([t for _, t in parts] + ['Singular'])
      return n, ['list', te]
    if k == 'rec':
      parts = [(f, self.walk(x, env, scope)) for f, x in e['fs']]
      n = self.site()
      t = ['rec', True, [[f, ft] for f, (_, ft) in sorted(parts, key=lambda x: x[0])]]
      self.demand(n, t)
      return n, t
    if k == 'field':
      nr, tr = self.walk(e['e'], env, scope)
      n = self.site()
      ft = 'Any'
      if isinstance(tr, list) and tr[0] == 'rec':
        ft = dict((f, x) for f, x in tr[2]).get(e['f'], 'Any')
      self.demand(nr, ['rec', False, [[e['f'], ft]]])
      self.demand(n, ft)
      return n, ft
    if k == 'call':
      sg = self.sigma[e['p']]
      n = self.site()
      for (f, _), x in zip(sg['cols'], e['args']):
        nx, _ = self.walk(x, env, scope)
        self.demand(nx, self.col_type(e['p'], f))
      tv = self.col_type(e['p'], 'logica_value')
      self.demand(n, tv)
      return n, tv
    if k == 'combine':
      self.n_scopes += 1
      inner_scope = (scope[0], dict(scope[1]))
      inner_env = dict(env)
      sid = self.n_scopes
      # variables first met inside the combine are local to it
      outer = set(env)
      for c in e['body']:
        for x in conj_exprs(c):
          if x['k'] == 'var' and x['n'] not in outer:
            inner_scope[1][x['n']] = sid
      for x in sub_exprs(e['e']):
        if x['k'] == 'var' and x['n'] not in outer:
          inner_scope[1][x['n']] = sid
      for c in e['body']:
        self.conj(c, inner_env, inner_scope)
      ne, te = self.walk(e['e'], inner_env, inner_scope)
      n = self.site()
      return n, self.aggregate(e['op'], n, ne, te)
    raise AssertionError(k)

  def aggregate(self, op, n, ne, te):
    """Constraints of an aggregating operator applied to site ne; n is the result node."""
    if op in ('+', 'Sum'):
      self.demand(ne, 'Num')
      self.demand(n, 'Num')
      return 'Num'
    if op == 'List':
      self.demand(ne, 'Singular')
      self.demand(n, ['list', te])
      return ['list', te]
    self.demand(n, te)          # Max / Min : x -> x
    return te

  def conj(self, c, env, scope):
    k = c['k']
    if k == 'atom':
      for f, x in c['args']:
        t = self.col_type(c['p'], f)
        nx, _ = self.walk(x, env, scope)
        self.demand(nx, t)
        if x['k'] == 'var' and x['n'] not in env:
          env[x['n']] = t
    elif k == 'eq':
      nb, tb = self.walk(c['b'], env, scope)
      if c['a']['k'] == 'var' and c['a']['n'] not in env:
        env[c['a']['n']] = tb
      na, ta = self.walk(c['a'], env, scope)
      self.demand(na, tb)
      self.demand(nb, ta)
    elif k == 'in':
      nl, tl = self.walk(c['l'], env, scope)
      elem = tl[1] if isinstance(tl, list) and tl[0] == 'list' else 'Singular'
      if c['e']['k'] == 'var' and c['e']['n'] not in env:
        env[c['e']['n']] = elem
      ne, te = self.walk(c['e'], env, scope)
      self.demand(ne, 'Singular')
      self.demand(ne, elem)
      self.demand(nl, ['list', te])
    elif k == 'cmp':
      na, ta = self.walk(c['a'], env, scope)
      nb, tb = self.walk(c['b'], env, scope)
      self.demand(na, tb)
      self.demand(nb, ta)

  def rule(self, idx, rule):
    env = {}
    scope = (idx, {})
    self.n_scopes = 0
    for c in rule['body']:
      self.conj(c, env, scope)
    for h in rule['head']:
      ne, te = self.walk(h['e'], env, scope)
      col = self.node(('col', rule['p'], h['f']))
      if h.get('agg'):
        n = self.site()
        te = self.aggregate(h['agg'], n, ne, te)
      self.demand(col, te)
      self.synth_sig.setdefault(rule['p'], {}).setdefault(h['f'], []).append(te)
    if rule.get('value') is not None:
      ne, te = self.walk(rule['value'], env, scope)
      self.demand(self.node(('col', rule['p'], 'logica_value')), te)
      self.synth_sig.setdefault(rule['p'], {}).setdefault('logica_value', []).append(te)

  def run(self):
    for i, rule in enumerate(self.prog['rules']):
      self.rule(i, rule)
    return self.cs

  def col_node(self, p, f):
    return self.ids.get(('col', p, f))


# ------------------------------------------------------------------ to Coq
class Intern:
  def __init__(self):
    self.names = {}

  def field(self, f):
    if isinstance(f, int):
      return '(FPos %d)' % f
    if f not in self.names:
      self.names[f] = len(self.names)
    return '(FName %d)' % self.names[f]

  def term(self, t):
    if t == 'Bad':
      return 'TBad'
    if isinstance(t, str):
      return {'Any': 'TAny', 'Singular': 'TSingular', 'Sequential': 'TSequential'}.get(t, '(TAtom A%s)' % t)
    if t[0] == 'list':
      return '(TList %s)' % self.term(t[1])
    return '(TRec %s [%s])' % ('true' if t[1] else 'false',
                               '; '.join('(%s, %s)' % (self.field(f), self.term(v)) for f, v in t[2]))


def coq_case(cs, expects):
  it = Intern()
  a = '; '.join('(%d%%N, %s)' % (n, it.term(t)) for n, t in cs)
  b = '; '.join('(%d%%N, %s)' % (n, it.term(t)) for n, t in expects)
  return '([%s], [%s])' % (a, b)


def coq_codes(cases, chunk=None):
  """Evaluates Typing.judge_cs on every case inside Coq.  Returns (codes or None, log)."""
  from concurrent.futures import ThreadPoolExecutor
  chunk = chunk or max(10, min(100, (len(cases) + 3) // 4))
  chunks = [cases[i:i + chunk] for i in range(0, len(cases), chunk)]

  def one(ch):
    text = ('From Coq Require Import List. Import ListNotations.\n'
            'From Coq Require Import NArith.\n'
            'From LV Require Import Types.TypeAlgebra Types.Typing.\n'
            'Definition cases : list (list constr * list (N * ty)) := [\n%s\n].\n'
            'Eval vm_compute in map judge_cs cases.\n' % ';\n'.join(ch))
    rc, out = coqrun.coq_eval(text, timeout=900)
    if rc != 0:
      return None, out
    ls = coqrun.parse_vm_list(out)
    if len(ls) != 1 or len(ls[0]) != len(ch):
      return None, out
    return [int(x) for x in ls[0]], out

  res = []
  with ThreadPoolExecutor(max_workers=4) as ex:
    for vals, out in ex.map(one, chunks):
      if vals is None:
        return None, out
      res.extend(vals)
  return res, ''


# ------------------------------------------------------------------ the real checker
_LIB = {}


def real_modules():
  return logica_run.modules()


def read_back(ra, t):
  c = ra.VeryConcreteType(t)

  def conv(c):
    if isinstance(c, ra.BadType):
      return 'Bad'
    if isinstance(c, str):
      return c
    if isinstance(c, list):
      return ['list', conv(c[0])]
    if isinstance(c, dict):
      return ['rec', isinstance(c, ra.ClosedRecord), sorted(([f, conv(v)] for f, v in c.items()), key=lambda x: str(x[0]))]
    raise AssertionError(type(c))
  return conv(c)


def full_check(text, preds=None, compile_preds=True, execute=None):
  """The observable path: parse -> LogicaProgram (RunTypechecker) -> compile every predicate.

  Returns {'status': 'ok'|'TypeError'|other class, 'sigs': {pred: rendered}, 'types': {pred: {field: model type}},
           'message'}.
  """
  import contextlib
  import io
  parse, universe, _, _, _, infer = real_modules()
  from type_inference.research import reference_algebra as ra
  out = {'status': 'ok', 'sigs': {}, 'types': {}, 'message': ''}
  try:
    with contextlib.redirect_stdout(io.StringIO()), contextlib.redirect_stderr(io.StringIO()):
      rules = parse.ParseFile(text)['rule']
      program = universe.LogicaProgram(rules)
      if program.typing_engine is None:
        out['status'] = 'NoTypecheck'
        return out
      for p in preds or []:
        sg = program.predicate_signatures.get(p)
        if sg is None:
          out['sigs'][p] = None
          continue
        out['sigs'][p] = infer.RenderPredicateSignature(p, sg)
        out['types'][p] = {str(f): read_back(ra, v) for f, v in sg.items()}
      shown = program.typing_engine.ShowPredicateTypes().split('\n')
      out['shown'] = {p: [l for l in shown if l.startswith('type %s(' % p)] for p in preds or []}
      if compile_preds:
        for p in preds or []:
          program.FormattedPredicateSql(p)      # second inference on the injected structure (TypeInferenceForStructure)
    if execute is not None:
      out['values'] = run_values(text, execute, program)
  except Exception as e:  # pylint: disable=broad-except
    out['status'] = logica_run.classify(e)
    out['message'] = str(e)[:400]
  return out


def fast_check_rules(rules):
  """RunTypechecker's two calls on already parsed rules (they are annotated in place: pass a copy)."""
  import contextlib
  import io
  infer = real_modules()[5]
  try:
    with contextlib.redirect_stdout(io.StringIO()), contextlib.redirect_stderr(io.StringIO()):
      engine = infer.TypesInferenceEngine(rules, dialect='sqlite')
      engine.InferTypes()
      infer.TypeErrorChecker(rules).CheckForError(mode='raise')
    return 'ok'
  except Exception as e:  # pylint: disable=broad-except
    return logica_run.classify(e)


def parse_user(text):
  import contextlib
  import io
  parse = real_modules()[0]
  with contextlib.redirect_stdout(io.StringIO()), contextlib.redirect_stderr(io.StringIO()):
    return parse.ParseFile(text)['rule']


def fast_check(text, with_library=False):
  """RunTypechecker's two calls (InferTypes, CheckForError) on the parsed user rules.

  The SQLite library rules (which LogicaProgram appends; no generated program calls them) are left out unless
  with_library; every verdict other than TypeError is re-run through LogicaProgram by the caller."""
  import contextlib
  import io
  parse, universe, _, _, _, infer = real_modules()
  from compiler import dialects
  try:
    with contextlib.redirect_stdout(io.StringIO()), contextlib.redirect_stderr(io.StringIO()):
      rules = parse.ParseFile(text)['rule']
      if with_library:
        if 'sqlite' not in _LIB:
          _LIB['sqlite'] = parse.ParseFile(dialects.Get('sqlite').LibraryProgram())['rule']
        rules = rules + copy.deepcopy(_LIB['sqlite'])
      engine = infer.TypesInferenceEngine(rules, dialect='sqlite')
      engine.InferTypes()
      infer.TypeErrorChecker(rules).CheckForError(mode='raise')
    return 'ok'
  except Exception as e:  # pylint: disable=broad-except
    return logica_run.classify(e)


def run_one(program, p):
  """Compile predicate p with an existing LogicaProgram and execute on SQLite, like logica_run.run_pred."""
  import contextlib
  import io
  try:
    with contextlib.redirect_stdout(io.StringIO()), contextlib.redirect_stderr(io.StringIO()):
      program.FormattedPredicateSql(p)
    ex = program.execution
    stmts = [ex.preamble] + list(ex.defines_and_exports) + [ex.main_predicate_sql]
  except Exception as e:  # pylint: disable=broad-except
    return logica_run.classify(e), str(e), None
  try:
    header, rows = logica_run.execute(stmts)
  except Exception as e:  # pylint: disable=broad-except
    return 'SqlError', '%s: %s' % (type(e).__name__, e), None
  return 'ok', header, rows


def run_values(text, prog, program=None):
  """(c): executes every predicate on SQLite and checks each cell against the intended column type."""
  bad = []
  n_cells = 0
  n_rows = 0
  skipped = []
  nulls = 0
  for p, sg in prog['sigma'].items():
    st, header, rows = run_one(program, p) if program is not None else logica_run.run_pred(text, p)
    if st == 'TypeError':
      bad.append({'pred': p, 'status': st, 'message': str(header)[:300]})
      continue
    if st != 'ok':
      skipped.append({'pred': p, 'status': st, 'message': str(header)[:200]})
      continue
    cols = {('col%d' % f if isinstance(f, int) else f): t for f, t in sg['cols']}
    if sg.get('value') is not None:
      cols['logica_value'] = sg['value']
    if set(header) != set(cols):
      bad.append({'pred': p, 'status': 'columns', 'message': 'header %s, signature columns %s' % (header, sorted(cols))})
      continue
    n_rows += len(rows)
    for row in rows:
      for h, v in zip(header, row):
        n_cells += 1
        nulls += v is None
        if not conforms(v, cols[h]):
          bad.append({'pred': p, 'status': 'value', 'column': h, 'value': v, 'python_type': type(v).__name__,
                      'inferred': render_type(cols[h])})
          break
  return bad, {'rows': n_rows, 'cells': n_cells, 'nulls': nulls, 'skipped': skipped}


def expected_sigs(prog):
  return {p: render_sig(p, sg['cols'], sg.get('value')) for p, sg in prog['sigma'].items()}


def orders(prog, rule_idx, r, limit):
  """Permutations (rule order, conjunct order of rule rule_idx), identity and reversal first."""
  n = len(prog['rules'])
  m = len(prog['rules'][rule_idx]['body'])
  ident = (tuple(range(n)), tuple(range(m)))
  out = [ident, (tuple(reversed(range(n))), tuple(reversed(range(m))))]
  total = 1
  for i in range(2, n + 1):
    total *= i
  for i in range(2, m + 1):
    total *= i
  if total <= limit:
    out = [(a, b) for a in itertools.permutations(range(n)) for b in itertools.permutations(range(m))]
    return out, True
  seen = set(out)
  # the corrupted rule first / last, then random ones
  others = [i for i in range(n) if i != rule_idx]
  for ro in ([rule_idx] + others, others + [rule_idx]):
    seen.add((tuple(ro), tuple(range(m))))
  tries = 0
  while len(seen) < limit and tries < 10 * limit:
    tries += 1
    a = list(range(n))
    b = list(range(m))
    r.shuffle(a)
    r.shuffle(b)
    seen.add((tuple(a), tuple(b)))
  rest = [o for o in seen if o not in out]
  rest.sort()
  return out + rest, False


def work_program(job):
  """Runs in a worker: everything that touches the real implementation for one generated program."""
  prog = job['prog']
  res = {'i': job['i'], 'accept': None, 'values': None, 'corruptions': []}
  text = render_program(prog)
  preds = list(prog['sigma'])
  res['text'] = text
  res['accept'] = full_check(text, preds, compile_preds=False, execute=prog)   # run_values compiles every predicate
  if res['accept'].get('values') is not None:
    bad, vst = res['accept'].pop('values')
    res['values'] = dict(vst, bad=bad)
  # the variant in which all combine-local variables have the same name, same orders
  res['shared'] = []
  sprog, most = share_combine_names(prog)
  if sprog is not None and res['accept']['status'] == 'ok':
    for ro, co_idx, co in [(None, 0, None)] + list(job.get('accept_orders', [])):
      t2 = render_program(sprog, ro, {co_idx: co} if co is not None else None)
      fc = full_check(t2, preds, compile_preds=False)
      res['shared'].append({'text': t2, 'status': fc['status'], 'sigs': fc['sigs'], 'message': fc['message'],
                            'most_combines': most})
  # order independence of acceptance + signatures (a few permutations)
  res['accept_perm'] = []
  for ro, co_idx, co in job.get('accept_orders', []):
    t2 = render_program(prog, ro, {co_idx: co})
    fc = full_check(t2, preds, compile_preds=False)
    res['accept_perm'].append({'rule_order': ro, 'conj_rule': co_idx, 'conj_order': co, 'status': fc['status'],
                               'sigs': fc['sigs'], 'message': fc['message']})
  for c in job['corruptions']:
    cprog = c['prog']
    ctext = render_program(cprog)
    entry = {'info': c['info'], 'text': ctext, 'model_rejects': c['model_rejects']}
    fc = full_check(ctext, preds[-1:], compile_preds=True)
    entry['full'] = {'status': fc['status'], 'message': fc['message'], 'sigs': fc['sigs']}
    entry['perms'] = []
    if c['model_rejects']:
      parsed = {}
      for ro, co in c['orders']:
        t2 = render_program(cprog, ro, {c['info']['rule']: co})
        # one parse per conjunct order (rules in program order); the rule order permutes the parsed rules,
        # which is the order ParseFile returns for the permuted text (statement 0 is the @Engine annotation)
        co_key = tuple(co)
        try:
          if co_key not in parsed:
            parsed[co_key] = parse_user(render_program(cprog, None, {c['info']['rule']: co}))
            assert len(parsed[co_key]) == len(cprog['rules']) + 1
          base = parsed[co_key]
          st = fast_check_rules(copy.deepcopy([base[0]] + [base[i + 1] for i in ro]))
        except Exception as e:  # pylint: disable=broad-except
          st = 'harness:%s' % type(e).__name__
        if st != 'TypeError':
          # confirm on the observable path before reporting
          st_full = full_check(t2, preds, compile_preds=True)['status']
          entry['perms'].append({'rule_order': ro, 'conj_order': co, 'fast': st, 'full': st_full, 'text': t2})
        else:
          entry['perms'].append(None)
    res['corruptions'].append(entry)
  return json.loads(json.dumps(res, default=str))     # plain data only (the parser's str subclasses do not unpickle)


def build_jobs(n_programs, r, perm_limit, n_corrupt):
  jobs = []
  cases = []
  for i in range(n_programs):
    g = Gen(r)
    prog = g.program()
    em = Emitter(prog)
    cs = em.run()
    expects = []
    for p, sg in prog['sigma'].items():
      for f, t in sg['cols']:
        expects.append((em.col_node(p, f), to_model(t)))
      if sg.get('value') is not None:
        expects.append((em.col_node(p, 'logica_value'), to_model(sg['value'])))
    job = {'i': i, 'prog': prog, 'case': len(cases), 'corruptions': [], 'n_constraints': len(cs)}
    cases.append(coq_case(cs, expects))
    # acceptance under a few permutations
    multi = [k for k, rl in enumerate(prog['rules']) if len(rl['body']) > 1]
    job['accept_orders'] = []
    for _ in range(2):
      ro = list(range(len(prog['rules'])))
      r.shuffle(ro)
      if multi:
        k = r.choice(multi)
        co = list(range(len(prog['rules'][k]['body'])))
        r.shuffle(co)
      else:
        k, co = 0, None
      job['accept_orders'].append((ro, k, co))
    # corruptions
    sites = [(k, j) for k, rl in enumerate(prog['rules']) for j in range(len(corruption_sites(rl)))]
    r.shuffle(sites)
    for k, j in sites[:n_corrupt]:
      cprog, info = corrupt(prog, k, j, r)
      cem = Emitter(cprog)
      ccs = cem.run()
      ords, exhaustive = orders(cprog, k, r, perm_limit)
      job['corruptions'].append({'prog': cprog, 'info': info, 'case': len(cases), 'orders': ords,
                                 'exhaustive': exhaustive})
      cases.append(coq_case(ccs, []))
    jobs.append(job)
  return jobs, cases


def replay_case(rp):
  """Re-runs one recorded failing case on the current tree.  Returns list of problems (empty = no longer fails)."""
  problems = []
  kind = rp.get('kind')
  text = rp['text']
  if kind in ('accept', 'signature', 'values', 'accept_perm'):
    preds = list(rp.get('expected', {}))
    fc = full_check(text, preds)
    if fc['status'] != 'ok':
      problems.append('well-typed program is not accepted: %s %s' % (fc['status'], fc['message']))
    for p, e in rp.get('expected', {}).items():
      if fc['sigs'].get(p) != e:
        problems.append('signature of %s is %s, intended %s' % (p, fc['sigs'].get(p), e))
    for p, e in rp.get('expected_types', {}).items():
      got = json.loads(json.dumps(fc['types'].get(p), default=str))
      if got != e:
        problems.append('column types of %s read back as %s, intended %s' % (p, got, e))
    if kind == 'values' and 'prog' in rp:
      bad, _ = run_values(text, rp['prog'])
      for b in bad:
        problems.append('run-time value outside the inferred type: %s' % json.dumps(b, default=str))
  elif kind == 'reject':
    st = full_check(text, [], compile_preds=False)['status']
    if st != 'TypeError':
      problems.append('program with a node forced to two ground types is not rejected (status %s)' % st)
  return problems


def run(tier, replay=None):
  rep = common.Report(PID, tier, 'other')
  rep.assumptions = [
      'model: typed core language + constraint view (meet_all per node) of inference; constraint GENERATION of infer.py '
      '(ActMinding*, ActUnifying, WalkInitializingVariables, reference heap with sharing) is not modelled, only tied',
      'trusted: constraint emission by props/c05.py (class Emitter), the program generator and its intended types',
      'SQLite Bool is 0/1: a Bool column accepts 0, 1, False, True; Num accepts int and float',
      'permutation runs of corrupted programs use RunTypechecker\'s two calls (TypesInferenceEngine.InferTypes + '
      'TypeErrorChecker.CheckForError) on the parsed user rules without the SQLite library rules; the identity order '
      'and every verdict other than TypeError are re-run through LogicaProgram',
  ]
  ok, info = proof.proof_stage(rep, PID, extra_trusted=[
      'correspondence harness props/c05.py (generator, Emitter) + Types/Typing.v (judge_cs)'])

  if replay:
    with open(replay) as f:
      rp = json.load(f)
    problems = replay_case(rp)
    if problems:
      rep.violation(rp.get('key', 'replay'), dict(rp, problems=problems))
    rep.coverage.update({'evaluations': 1, 'distinct_nontrivial': 1, 'rule': 'replay of one recorded case',
                         'exhaustive': False, 'samples': [rp.get('text', '')[:400]]})
    return rep.finish()

  r = common.rng('c05')
  if tier == 'quick':
    n_programs, perm_limit, n_corrupt = 40, 24, 2
  else:
    n_programs, perm_limit, n_corrupt = 300, 120, 4
  t0 = time.time()
  jobs, cases = build_jobs(n_programs, r, perm_limit, n_corrupt)

  codes = None
  coq_log = ''
  if ok:
    codes, coq_log = coq_codes(cases)
    if codes is None:
      ok = False
      info['excerpt'] = coq_log[-3000:]
  t_coq = time.time() - t0

  for job in jobs:
    for c in job['corruptions']:
      # without the model, fall back to "forcing unknown": still run identity only
      c['model_rejects'] = bool(codes is not None and codes[c['case']] == 0)
  with multiprocessing.get_context('fork').Pool(4) as pool:
    results = pool.map(work_program, jobs, chunksize=1)

  found = 0
  tie_breaks = []
  stats = {'programs': len(jobs), 'accepted': 0, 'signatures_checked': 0, 'rows': 0, 'cells': 0,
           'corruptions': 0, 'corruptions_forcing': 0, 'corruptions_not_forcing': 0, 'permutation_runs': 0,
           'exhaustive_permutation_sets': 0, 'accept_permutation_runs': 0, 'features': {}, 'corruption_kinds': {}, 'null_cells': 0,
           'predicates_not_executed': 0, 'not_executed_samples': [], 'tie_breaks': 0, 'combine_scope_hits': 0,
           'shared_name_variant_runs': 0, 'fixed_cases': len(FIXED)}

  known_written = set()

  def report(key, d):
    nonlocal found
    if found >= 8:
      return
    if rep.violation(key, d):      # False: matched a known finding (printed as KNOWN-FINDING)
      found += 1
    elif key not in known_written:
      # keep a replay of the known finding too (fixed name, rewritten on every run)
      known_written.add(key)
      os.makedirs(common.REPLAYS, exist_ok=True)
      with open(os.path.join(common.REPLAYS, '%s-known-%s.json' % (PID, key.replace(':', '-'))), 'w') as f:
        json.dump(dict(d, property=PID, key=key), f, indent=1, sort_keys=True, default=str)

  # --- clash reached through a chain of predicates, one of whose members has several rules: whatever
  #     the order of the statements, the program must be rejected (part b)
  import itertools
  fam_r = common.rng('c05-chain')
  stats['chain_family_orders'] = 0
  for inst in range(6 if tier == 'quick' else 60):
    depth = fam_r.choice([1, 2, 2, 3])
    lit_a, lit_b = fam_r.choice([('1', '"a"'), ('"s"', '2'), ('true', '"t"'), ('3', 'true'),
                                 ('[1, 2]', '["a"]'), ('["s"]', '[2]'), ('{a: 1}', '{a: "s"}'), ('[[1]]', '[["a"]]'),
                                 ('[{a: 1}]', '[{a: "s"}]')])
    names = ['Ca%d' % i for i in range(depth + 1)]
    stmts = ['%s(%s);' % (names[0], lit_a)]
    for i in range(depth):
      extra = fam_r.choice(['', ', x == x'])
      stmts.append('%s(x) :- %s(x)%s;' % (names[i], names[i + 1], extra))
    stmts.append('%s(%s);' % (names[depth], lit_b))
    if fam_r.random() < 0.5:   # an unrelated, well-typed user of the chain head
      stmts.append('Cu(y) :- %s(y);' % names[0])
    orders = list(itertools.permutations(stmts))
    if len(orders) > 24:
      orders = fam_r.sample(orders, 24)
    for order in orders:
      text = HEADER + '\n'.join(order) + '\n'
      fc = full_check(text, [names[0]], compile_preds=False)
      stats['chain_family_orders'] += 1
      if fc['status'] != 'TypeError':
        cat = 'record' if '{' in lit_a else ('list' if '[' in lit_a else 'scalar')
        report('chain-clash:%s%s' % ('' if cat == 'scalar' else cat + ':', 'accepted' if fc['status'] == 'ok' else fc['status']),
               {'kind': 'reject', 'text': text, 'observed': fc,
                'law': '(b) a predicate forced to two different ground types (here through a chain of rules) is '
                       'rejected with a type error, whatever the order of the rules'})
        break

  # --- closed records of different widths forced on one column, by two facts of one predicate or through a chain:
  #     two different ground types, so every order of the statements must be rejected (part b)
  stats['width_family_orders'] = 0
  for inst in range(4 if tier == 'quick' else 40):
    wide, narrow = fam_r.choice([('{a: 1, b: 2}', '{a: 1}'), ('{a: "s", b: 2, c: true}', '{a: "t", c: false}'),
                                 ('[{a: 1, b: 2}]', '[{a: 1}]'), ('{r: {a: 1, b: 2}}', '{r: {a: 1}}')])
    depth = fam_r.choice([0, 0, 1, 2])
    first, last = (wide, narrow) if fam_r.random() < 0.5 else (narrow, wide)
    names = ['Wa%d' % i for i in range(depth + 1)]
    stmts = ['%s(%s);' % (names[0], first)]
    for i in range(depth):
      stmts.append('%s(x) :- %s(x);' % (names[i], names[i + 1]))
    stmts.append('%s(%s);' % (names[depth], last))
    orders = list(itertools.permutations(stmts))
    if len(orders) > 24:
      orders = fam_r.sample(orders, 24)
    for order in orders:
      text = HEADER + '\n'.join(order) + '\n'
      fc = full_check(text, [names[0]], compile_preds=False)
      stats['width_family_orders'] += 1
      if fc['status'] != 'TypeError':
        report('width-clash:%s' % ('accepted' if fc['status'] == 'ok' else fc['status']),
               {'kind': 'reject', 'text': text, 'observed': fc,
                'law': '(b) a column forced to two closed record types with different fields is rejected with a type '
                       'error, whatever the order of the statements'})
        break

  # --- a clash between an outer variable and its use inside the k-th combine of a rule: rejected whatever
  #     the order of the conjuncts and whichever combine holds the clash (part b)
  stats['combine_clash_orders'] = 0
  for inst in range(4 if tier == 'quick' else 30):
    n_comb = fam_r.choice([2, 2, 3])
    bad_at = fam_r.randrange(n_comb)
    outer_num = fam_r.random() < 0.6
    fact = 'Tc(1);\nTc(2);' if outer_num else 'Tc("p");\nTc("q");'
    conj = ['Tc(x)']
    heads = ['x']
    for k in range(n_comb):
      v = 'a%d' % k
      heads.append(v)
      if k == bad_at:   # the outer variable is used at the other type inside this combine
        body = ('List{x ++ z :- z in ["u", "v"]}' if outer_num else 'Sum{x + z :- z in [1, 2]}')
      else:
        body = fam_r.choice(['Sum{y :- y in [1, 2]}', 'List{w :- w in ["s"]}', 'Max{y * 2 :- y in [3]}'])
      conj.append('%s == %s' % (v, body))
    orders = list(itertools.permutations(conj))
    if len(orders) > 24:
      orders = fam_r.sample(orders, 24)
    for order in orders:
      text = HEADER + fact + '\nPc(%s) :- %s;\n' % (', '.join(heads), ', '.join(order))
      fc = full_check(text, ['Pc'], compile_preds=False)
      stats['combine_clash_orders'] += 1
      if fc['status'] != 'TypeError':
        report('combine-clash:%s' % ('accepted' if fc['status'] == 'ok' else fc['status']),
               {'kind': 'reject', 'text': text, 'observed': fc,
                'law': '(b) a variable forced to two ground types (outside and inside a combine) is rejected with a type '
                       'error, whatever the order of the conjuncts'})
        break

  # --- a predicate with several rules, one of which leaves a column only partly determined ([] / null):
  #     the other rules refine it; under every order of the statements the signature is the refined one (a),
  #     a consumer using the column at another type and a further rule at another type are rejected (b)
  stats['refine_family_orders'] = 0
  REFINE = [('Num', ['1', '2 + 3']), ('Str', ['"a"', '"b" ++ "c"']), ('[Num]', ['[1, 2]', '[3]']), ('[Str]', ['["a"]', '["b", "c"]'])]
  for inst in range(4 if tier == 'quick' else 40):
    ty, lits = fam_r.choice(REFINE)
    vague = '[]' if ty.startswith('[') else 'null'
    n_vague = fam_r.choice([1, 1, 2])
    stmts = ['Rf(%s);' % vague] * n_vague + ['Rf(%s);' % fam_r.choice(lits) for _ in range(fam_r.choice([1, 2]))]
    elem = ty.strip('[]')
    other_lit = '"z"' if elem == 'Num' else '7'
    other_ty = 'Str' if elem == 'Num' else 'Num'
    if ty.startswith('['):
      good_user = 'Ru(x) :- Rf(l), x in l;'
      bad_user = 'Ru(x) :- Rf(l), x in l, x == %s;' % other_lit
      bad_rule = 'Rf([%s]);' % other_lit
    else:
      good_user = 'Ru(x) :- Rf(x);'
      bad_user = 'Ru(x) :- Rf(x), x == %s;' % other_lit
      bad_rule = 'Rf(%s);' % other_lit
    mode = fam_r.choice(['accept', 'accept', 'bad_user', 'bad_rule'])
    prog_stmts = stmts + [good_user if mode in ('accept', 'bad_rule') else bad_user] + ([bad_rule] if mode == 'bad_rule' else [])
    orders = sorted(set(itertools.permutations(prog_stmts)))
    if len(orders) > 12:
      orders = fam_r.sample(orders, 12)
    if tuple(prog_stmts) not in orders:
      orders.append(tuple(prog_stmts))      # always: the partly determined rule first
    exp = {'Rf': 'type Rf(%s);' % ty, 'Ru': 'type Ru(%s);' % elem}
    for order in orders:
      text = HEADER + '\n'.join(order) + '\n'
      fc = full_check(text, ['Rf', 'Ru'], compile_preds=False)
      stats['refine_family_orders'] += 1
      if mode == 'accept':
        if fc['status'] != 'ok' or any(fc['sigs'].get(q) != exp[q] for q in exp):
          report('refine:%s' % ('signature' if fc['status'] == 'ok' else fc['status']),
                 {'kind': 'accept', 'text': text, 'expected': exp, 'observed': fc,
                  'law': '(a) a column that one rule leaves partly determined ([] / null) and another rule determines gets '
                         'exactly the determined type, whatever the order of the rules'})
          break
      elif fc['status'] != 'TypeError':
        report('refine-clash:%s:%s' % (mode, 'accepted' if fc['status'] == 'ok' else fc['status']),
               {'kind': 'reject', 'text': text, 'observed': fc,
                'law': '(b) a column forced to two ground types (by two rules of the predicate, or by a rule and a user of '
                       'the column) is rejected with a type error, whatever the order of the rules'})
        break

  # --- the record captured with `..r` is CLOSED: it has exactly the arguments of the predicate
  stats['rest_capture_orders'] = 0
  for inst in range(5 if tier == 'quick' else 30):
    fa, fb = fam_r.sample(['a', 'b', 'k', 'w'], 2)
    facts = 'Tr(%s: 1, %s: "x");\nTr(%s: 2, %s: "y");\n' % (fa, fb, fa, fb)
    rec_ty = '{%s}' % ', '.join('%s: %s' % kv for kv in sorted([(fa, 'Num'), (fb, 'Str')]))
    mode = ['whole', 'field', 'missing_field', 'extra_field_literal', 'same_fields_literal'][inst % 5]
    if mode == 'whole':
      conj, exp = ['Tr(..r)'], {'Q': 'type Q(%s);' % rec_ty}
      head = 'r'
    elif mode == 'field':
      f, ty = fam_r.choice([(fa, 'Num'), (fb, 'Str')])
      conj, exp, head = ['Tr(..r)', 'x == r.%s' % f], {'Q': 'type Q(%s);' % ty}, 'x'
    elif mode == 'missing_field':
      conj, exp, head = ['Tr(..r)', 'x == r.zz'], None, 'x'
    elif mode == 'extra_field_literal':
      conj, exp, head = ['Tr(..r)', 'r == {%s: 1, %s: "x", zz: true}' % (fa, fb)], None, 'r'
    else:
      conj, exp, head = ['Tr(..r)', 'r == {%s: 1, %s: "x"}' % (fa, fb)], {'Q': 'type Q(%s);' % rec_ty}, 'r'
    for order in itertools.permutations(conj):
      text = HEADER + facts + 'Q(%s) :- %s;\n' % (head, ', '.join(order))
      fc = full_check(text, ['Q'], compile_preds=False)
      stats['rest_capture_orders'] += 1
      if exp is not None:
        if fc['status'] != 'ok' or fc['sigs'].get('Q') != exp['Q']:
          report('rest-capture:%s' % ('signature' if fc['status'] == 'ok' else fc['status']),
                 {'kind': 'accept', 'text': text, 'expected': exp, 'observed': fc,
                  'law': '(a) the record captured with ..r has exactly the arguments of the predicate, with their types'})
          break
      elif fc['status'] != 'TypeError':
        report('rest-capture-clash:%s:%s' % (mode, 'accepted' if fc['status'] == 'ok' else fc['status']),
               {'kind': 'reject', 'text': text, 'observed': fc,
                'law': '(b) the record captured with ..r is closed: a field the predicate does not have clashes, whatever '
                       'the order of the conjuncts'})
        break

  # --- the branches of an if-then-else (also of an else-if chain) and the whole expression have one type
  stats['branch_clash_cases'] = 0
  LITS = {'Num': ['1', '2 + 3'], 'Str': ['"big"', '"a" ++ "b"'], 'Bool': ['true'], '[Num]': ['[1, 2]']}
  for inst in range(6 if tier == 'quick' else 40):
    ta, tb = fam_r.sample(sorted(LITS), 2)
    good, bad = fam_r.choice(LITS[ta]), fam_r.choice(LITS[tb])
    where = ['else', 'then', 'else-if-then', 'else-if-else'][inst % 4]
    if where == 'else':
      e = '(if x > 1 then %s else %s)' % (good, bad)
    elif where == 'then':
      e = '(if x > 1 then %s else %s)' % (bad, good)
    elif where == 'else-if-then':
      e = '(if x > 2 then %s else if x > 1 then %s else %s)' % (good, bad, good)
    else:
      e = '(if x > 2 then %s else if x > 1 then %s else %s)' % (good, good, bad)
    for conj in (['Tb(x)', 'y == %s' % e], ['y == %s' % e, 'Tb(x)']):
      text = HEADER + 'Tb(1);\nTb(2);\nTb(3);\nPb(x, y) :- %s;\n' % ', '.join(conj)
      fc = full_check(text, ['Pb'], compile_preds=True)
      stats['branch_clash_cases'] += 1
      if fc['status'] != 'TypeError':
        report('branch-clash:%s:%s' % (where, 'accepted' if fc['status'] == 'ok' else fc['status']),
               {'kind': 'reject', 'text': text, 'observed': fc,
                'law': '(b) the branches of an if-then-else have one type: two branches of different ground types clash'})
        break

  # --- documented result types of aggregates and built-ins: exact signature, and the value returned inhabits it
  BUILTIN_CASES = [
      ('Best() ArgMax= n -> v :- S(n, v);', 'Best', 'Str'), ('Worst() ArgMin= n -> v :- S(n, v);', 'Worst', 'Str'),
      ('B2(x) = ArgMaxK(x, 2);\nTop() B2= n -> v :- S(n, v);', 'Top', ['list', 'Str']),
      ('B3(x) = ArgMinK(x, 2);\nTop() B3= n -> v :- S(n, v);', 'Top', ['list', 'Str']),
      ('V() Max= v :- S(n, v);', 'V', 'Num'), ('V() Min= n :- S(n, v);', 'V', 'Str'), ('V() List= n :- S(n, v);', 'V', ['list', 'Str']),
      ('V() Set= v :- S(n, v);', 'V', ['list', 'Num']), ('V() Count= n :- S(n, v);', 'V', 'Num'), ('V() += v :- S(n, v);', 'V', 'Num'),
      ('V() = Size([1, 2]);', 'V', 'Num'), ('V() = ToString(5);', 'V', 'Str'), ('V() = Length("abc");', 'V', 'Num'),
      ('V() = Range(3);', 'V', ['list', 'Num']), ('V() = Join(["a", "b"], "-");', 'V', 'Str'), ('V() = Greatest(1, 2);', 'V', 'Num'),
      ('V() = Least("a", "b");', 'V', 'Str'), ('V() = Abs(0 - 2);', 'V', 'Num'), ('V() = Split("a,b", ",");', 'V', ['list', 'Str']),
      ('V() = Substr("abcd", 1, 2);', 'V', 'Str'), ('V() = ToInt64("5");', 'V', 'Num'), ('V() = Element([7, 8], 1);', 'V', 'Num'),
      ('V() = ArrayConcat([1], [2]);', 'V', ['list', 'Num']), ('V() = Coalesce(null, 3);', 'V', 'Num'), ('V() = IsNull(3);', 'V', 'Bool'),
      ('V() AnyValue= n :- S(n, v);', 'V', 'Str'), ('V() Array= v -> n :- S(n, v);', 'V', ['list', 'Str'])]
  stats['builtin_signature_cases'] = 0
  bc = BUILTIN_CASES if tier == 'thorough' else BUILTIN_CASES[:4] + fam_r.sample(BUILTIN_CASES[4:], 8)
  for body, pname, ty in bc:
    text = HEADER + 'S("a", 3);\nS("b", 7);\nS("c", 5);\n' + body + '\n'
    fc = full_check(text, [pname], compile_preds=True)
    stats['builtin_signature_cases'] += 1
    want = 'type %s() = %s;' % (pname, render_type(ty))
    if fc['status'] != 'ok' or fc['sigs'].get(pname) != want:
      report('builtin-signature:%s' % common.short_hash(body),
             {'kind': 'signature', 'text': text, 'expected': {pname: want}, 'observed': fc,
              'law': '(a) aggregates and built-ins have their documented result types'})
      continue
    st, hdr, rows = logica_run.run_pred(text, pname)
    if st == 'ok' and rows and not all(conforms(row[-1], ty) for row in rows):
      report('builtin-value:%s' % common.short_hash(body),
             {'kind': 'values', 'text': text, 'expected': {pname: want}, 'observed': [list(r_) for r_ in rows][:3],
              'law': '(c) the value an aggregate / built-in returns inhabits its inferred type'})

  for name, body, exp, n_comb in FIXED:
    text = HEADER + body
    fc = full_check(text, list(exp), compile_preds=True)
    if fc['status'] != 'ok' or any(fc['sigs'].get(p) != exp[p] for p in exp):
      key = scope_key(n_comb) if n_comb else 'fixed:%s' % name
      report(key, {'kind': 'accept', 'text': text, 'expected': exp, 'observed': fc, 'fixed_case': name,
                   'law': '(a) a program in which every variable and argument has one ground type is accepted '
                          'with exactly that signature'})

  for job, res in zip(jobs, results):
    prog = job['prog']
    for f in prog['features']:
      stats['features'][f] = stats['features'].get(f, 0) + 1
    exp = expected_sigs(prog)
    acc = res['accept']
    text = res['text']
    key = 'prog:%s' % common.short_hash(text)
    mcode = codes[job['case']] if codes is not None else None
    if acc['status'] != 'ok':
      report(key, {'kind': 'accept', 'text': text, 'expected': exp, 'observed': acc,
                   'law': '(a) a program in which every variable and argument has one ground type is accepted'})
      continue
    stats['accepted'] += 1
    wrong = {p: acc['sigs'].get(p) for p in exp if acc['sigs'].get(p) != exp[p]}
    stats['signatures_checked'] += len(exp)
    if wrong:
      report(key, {'kind': 'signature', 'text': text, 'expected': exp, 'observed': wrong,
                   'law': '(a) each predicate is given exactly the intended signature'})
    for p, sg in prog['sigma'].items():
      want = {str(f): to_model(t) for f, t in sg['cols']}
      if sg.get('value') is not None:
        want['logica_value'] = to_model(sg['value'])
      if not wrong and acc['types'].get(p) != json.loads(json.dumps(want)):
        report(key, {'kind': 'signature', 'text': text, 'expected': exp, 'expected_types': {p: want},
                     'observed': {p: acc['types'].get(p)},
                     'law': '(a) the type read back for each column (VeryConcreteType; records closed) is exactly the '
                            'intended ground type'})
        break
    for p in exp:
      if acc.get('shown', {}).get(p) != [exp[p]]:
        report(key, {'kind': 'signature', 'text': text, 'expected': exp, 'observed': {p: acc.get('shown', {}).get(p)},
                     'law': '(a) typing_engine.ShowPredicateTypes() shows the intended signature'})
        break
    if mcode is not None and mcode != 1:
      tie_breaks.append({'text': text, 'model_code': mcode, 'real': 'accepted with the intended signatures',
                         'what': 'model rejects' if mcode == 0 else 'model infers another type for expectation %d' % (mcode - 2)})
    for ap in res['accept_perm']:
      stats['accept_permutation_runs'] += 1
      if ap['status'] != 'ok' or any(ap['sigs'].get(p) != exp[p] for p in exp):
        t2 = render_program(prog, ap['rule_order'], {ap['conj_rule']: ap['conj_order']})
        report('prog:%s' % common.short_hash(t2), {'kind': 'accept_perm', 'text': t2, 'expected': exp, 'observed': ap,
                                                   'law': '(a) acceptance and signatures do not depend on the order of rules and conjuncts'})
    for sh in res.get('shared', []):
      stats['shared_name_variant_runs'] += 1
      if sh['status'] != 'ok' or any(sh['sigs'].get(p) != exp[p] for p in exp):
        stats['combine_scope_hits'] += 1
        report(scope_key(sh['most_combines']),
               {'kind': 'accept', 'text': sh['text'], 'expected': exp, 'observed': sh, 'renamed_apart_text': text,
                'law': '(a) variables local to different combines are different variables: the program is accepted '
                       'with the intended signatures when they are named apart, so it must be when they share a name'})
    if res['values'] is not None:
      stats['rows'] += res['values']['rows']
      stats['cells'] += res['values']['cells']
      stats['null_cells'] += res['values']['nulls']
      stats['predicates_not_executed'] += len(res['values']['skipped'])
      for sk in res['values']['skipped']:
        if len(stats['not_executed_samples']) < 3:
          stats['not_executed_samples'].append(dict(sk, text=text))
      if res['values']['bad']:
        report(key, {'kind': 'values', 'text': text, 'expected': exp, 'prog': {'sigma': prog['sigma']},
                     'observed': res['values']['bad'][:3],
                     'law': '(c) every value produced inhabits the inferred type of its column'})
    for c, ce in zip(job['corruptions'], res['corruptions']):
      stats['corruptions'] += 1
      kind = 'field->missing field' if ce['info']['to'].startswith('field') else '%s->%s' % (ce['info']['from'], ce['info']['to'])
      stats['corruption_kinds'][kind] = stats['corruption_kinds'].get(kind, 0) + 1
      ckey = 'corrupt:%s' % common.short_hash(ce['text'])
      if not ce['model_rejects']:
        stats['corruptions_not_forcing'] += 1
        if codes is not None and ce['full']['status'] == 'TypeError':
          tie_breaks.append({'text': ce['text'], 'model_code': codes[c['case']], 'real': 'TypeError',
                             'what': 'real checker rejects a corruption that the constraint model accepts',
                             'message': ce['full']['message']})
        continue
      stats['corruptions_forcing'] += 1
      if c['exhaustive']:
        stats['exhaustive_permutation_sets'] += 1
      if ce['full']['status'] != 'TypeError':
        report(ckey, {'kind': 'reject', 'text': ce['text'], 'corruption': ce['info'], 'observed': ce['full'],
                      'law': '(b) a node forced to two ground types (Coq: no common instance) must be rejected'})
        continue
      for pr in ce['perms']:
        stats['permutation_runs'] += 1
        if pr is not None and pr['full'] != 'TypeError':
          report('corrupt:%s' % common.short_hash(pr['text']),
                 {'kind': 'reject', 'text': pr['text'], 'corruption': ce['info'], 'observed': pr,
                  'identity_order_text': ce['text'],
                  'law': '(b) rejected whatever the order of rules and conjuncts'})
          break
        if pr is not None and pr['full'] == 'TypeError':
          tie_breaks.append({'text': pr['text'], 'what': 'fast path (TypesInferenceEngine on user+library rules) accepts, '
                                                         'LogicaProgram rejects', 'fast': pr['fast']})

  if not ok and not found:
    stats['tie_breaks'] = len(tie_breaks)
    rep.violation('proof', {'broken': 'theories/Props/C05.v or its dependencies no longer check, or the model evaluation failed',
                            'failing_files': info.get('failing'), 'excerpt': info.get('excerpt', '')[:3000]}, no_input=True)
  stats['tie_breaks'] = len(tie_breaks)
  if ok and tie_breaks and not found:
    rep.violation('tie', {'broken': 'correspondence infer.py (raise / inferred signatures) vs Types/Typing.v constraint model',
                          'examples': tie_breaks[:5], 'count': len(tie_breaks)}, no_input=True)

  evaluations = (stats['programs'] + stats['accept_permutation_runs'] + stats['corruptions'] + stats['permutation_runs'])
  rep.coverage.update({
      'evaluations': evaluations,
      'distinct_nontrivial': len(set(res['text'] for res in results)) + stats['corruptions_forcing'],
      'rule': 'generated ground-typed programs (1-2 fact predicates, 2-4 derived predicates; numbers, strings, booleans, '
              'lists, records, field access, inclusion, combines with a shared inner name, aggregation, functional '
              'predicates, injection through compile) + literal-kind corruptions; a corruption counts when the Coq '
              'constraint model finds a node without a common ground instance; permutations: all (rule order x conjunct '
              'order of the corrupted rule) when <= limit, else identity, reversal, corrupted rule first/last and random ones',
      'exhaustive': False,
      'samples': [results[i]['text'] for i in (0, len(results) // 2) if i < len(results)] +
                 [ce['text'] for res in results[:3] for ce in res['corruptions'][:1]],
      'distribution': dict(stats, model_cases=len(cases), coq_seconds=round(t_coq, 1), permutation_limit=perm_limit),
  })
  return rep.finish()
