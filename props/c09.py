"""C09 -- every dialect compiles the core language into well-scoped SQL.

Stages (see FRAMEWORK.md):
  0. translators/dialect_tables.py regenerates coq/gen/DialectTables.v from the current sources (fail closed);
  1. proof stage: coq/theories/Props/C09.v (text algebra, template instantiation, table soundness);
  2. `defect_cells` of Core/DialectCheck.v is evaluated on the regenerated tables; every cell is turned into a
     witness program that is compiled by the REAL compiler (finding when it crashes / emits bad text);
  3. correspondence of the instantiation model (inst_function, inst_infix, ...) with the real QL.Function,
     QL.Infix, dialect.Subscript, UnnestPhrase().format, ArrayPhrase() % on the table templates and on
     damaged templates;
  4. search: typed core-fragment programs (props/c09_gen.py) + a malformed stream, compiled by the real
     compiler for all 8 engines; every result must be ok or a diagnostic class; every emitted statement must
     get verdict 31 from the Coq decider `judge` (balanced, tree, scoped, no placeholder, no leaked variable),
     evaluated by vm_compute on the real text; SQLite additionally executes the SQL;
  5. sensitivity of the oracle: damaged copies of real output must be rejected by `judge`.
"""
import atexit
import copy
import json
import multiprocessing
import os
import re
import shutil
import subprocess
import tempfile
import threading
import time
from concurrent.futures import ThreadPoolExecutor

from vlib import common, coqrun, proof, logica_run
from translators import dialect_tables
from props import c09_gen

PID = 'C09'
ENGINES = ['sqlite', 'duckdb', 'psql', 'bigquery', 'trino', 'presto', 'clickhouse', 'databricks']
PFX = 'zq'
ALL_GOOD = 63
BITS = [(1, 'brackets / string literals do not balance'), (2, 'text does not tokenize into a bracket tree'),
        (4, 'alias.column or table name out of scope (FROM aliases / WITH order)'),
        (8, 'template placeholder left in the text'), (16, 'Logica variable name leaked into the text'),
        (32, '`--` after other text on its line: the rest of the line is an SQL comment')]
STRUCTURAL_SQLITE = ('no such column', 'no such table')   # what the static scoper claims to exclude


# ---------------------------------------------------------------------------------------------------------
# real compiler
# ---------------------------------------------------------------------------------------------------------
_CACHE = {}


def install_library_cache():
  """The dialect library is parsed again by every LogicaProgram; its text is a constant of the dialect, so the
  parse result is cached (deep-copied on every use).  Only texts that are dialect libraries are cached."""
  parse = logica_run.modules()[0]
  if getattr(parse, '_c09_cached', False):
    return
  common.repo_path()
  from compiler import dialects
  libs = set()
  for cls in dialects.DIALECTS.values():
    try:
      libs.add(cls().LibraryProgram())
    except Exception:  # pylint: disable=broad-except
      pass
  real = parse.ParseFile

  def cached(content, *a, **kw):
    if content in libs and not a and not kw:
      if content not in _CACHE:
        _CACHE[content] = real(content)
      return copy.deepcopy(_CACHE[content])
    return real(content, *a, **kw)
  parse.ParseFile = cached
  parse._c09_cached = True
  parse._c09_real = real


def statements_of(res):
  out = []
  for s in list(res['defines_and_exports']) + [res['main']]:
    if s.startswith('-- Interacting with table'):
      continue
    out.append(s)
  return out


def compile_one(text, pred, engine, rules=None, execute=True):
  """-> dict(status, message?, texts?, exec?)."""
  try:
    if rules is None:
      rules = logica_run.parse_rules(text)
    erules = logica_run.parse_rules('@Engine("%s");' % engine)
  except Exception as e:  # pylint: disable=broad-except
    return {'status': logica_run.classify(e), 'message': str(e)[:400]}
  st, res = logica_run.compile_pred(None, pred, rules=copy.deepcopy(rules) + erules)
  if st != 'ok':
    return {'status': st, 'message': str(res)[:400]}
  out = {'status': 'ok', 'texts': statements_of(res)}
  if engine == 'sqlite' and execute:
    try:
      _, rows = logica_run.execute([res['preamble']] + res['defines_and_exports'] + [res['main']])
      out['exec'] = 'ok:%d' % len(rows)
    except Exception as e:  # pylint: disable=broad-except
      out['exec'] = 'SqlError: %s' % e
  return out


def job(args):
  idx, text, pred, engines = args
  install_library_cache()
  try:
    rules = logica_run.parse_rules(text)
  except Exception as e:  # pylint: disable=broad-except
    r = {'status': logica_run.classify(e), 'message': str(e)[:400]}
    return idx, {e_: r for e_ in engines}
  return idx, {e: compile_one(text, pred, e, rules=rules) for e in engines}


def run_jobs(jobs, procs=4):
  if len(jobs) <= 2:
    return [job(j) for j in jobs]
  ctx = multiprocessing.get_context('fork')
  with ctx.Pool(procs) as pool:
    return pool.map(job, jobs, chunksize=max(1, len(jobs) // (procs * 8)))


# ---------------------------------------------------------------------------------------------------------
# Coq side
# ---------------------------------------------------------------------------------------------------------
def cq(s):
  return '"%s"' % s.replace('"', '""')


def coq_ok_text(s):
  return all(ch in '\n\t' or ord(ch) >= 32 for ch in s)


HEAD = ('From Coq Require Import List String NArith Bool. Import ListNotations.\n'
        'From LV Require Import Core.DialectSig Core.SqlText Core.DialectCheck Core.SqlTextCheck.\n'
        'From LVGen Require Import DialectTables.\nOpen Scope string_scope.\n')


def eval_lists(body, timeout=900):
  rc, out = coqrun.coq_eval(HEAD + body, timeout=timeout)
  if rc != 0:
    return None, out
  return coqrun.parse_vm_list(out), out


def norm_case(c):
  return (c[0], c[1], tuple(c[2]) if len(c) > 2 else ())


def judge_texts_coq(cases):
  """Verdicts computed inside Coq (vm_compute).  cases: list of (engine, text[, external tables]).  Slow: Coq's
  front end needs about 0.4 ms per byte of string literal, so this is used for samples and as the fall-back."""
  cases = [norm_case(c) for c in cases]
  uniq = sorted(set(cases))
  chunks = [uniq[i:i + 60] for i in range(0, len(uniq), 60)]

  def one(chunk):
    body = 'Eval vm_compute in [\n%s\n].\n' % ';\n'.join(
        'judge %s %s [%s] %s' % (cq(e), cq(PFX), '; '.join(cq(x) for x in ext), cq(t)) for e, t, ext in chunk)
    ls, out = eval_lists(body)
    if ls is None or len(ls) != 1 or len(ls[0]) != len(chunk):
      return None, out
    return [int(x) for x in ls[0]], out

  verdict = {}
  with ThreadPoolExecutor(max_workers=3) as ex:
    for chunk, (vals, out) in zip(chunks, ex.map(one, chunks)):
      if vals is None:
        return None, out
      for c, v in zip(chunk, vals):
        verdict[c] = v
  return [verdict[c] for c in cases], ''


MAIN_ML = r"""open C09_judge
let rec pos_of_int i = if i = 1 then XH else if i land 1 = 1 then XI (pos_of_int (i lsr 1)) else XO (pos_of_int (i lsr 1))
let n_of_int i = if i = 0 then N0 else Npos (pos_of_int i)
let rec int_of_pos = function XH -> 1 | XO p -> 2 * int_of_pos p | XI p -> 2 * int_of_pos p + 1
let int_of_n = function N0 -> 0 | Npos p -> int_of_pos p
let text_of_string s = List.init (String.length s) (fun i -> n_of_int (Char.code s.[i]))
let chars s = List.init (String.length s) (String.get s)
let () =
  try while true do
    let line = input_line stdin in
    match String.split_on_char ' ' line with
    | [engine; pfx; len; ext] ->
       let len = int_of_string len in
       let buf = really_input_string stdin len in
       let _ = input_char stdin in
       let ext = List.map text_of_string (List.filter (fun x -> x <> "") (String.split_on_char ',' ext)) in
       let v = judge_text (chars engine) (text_of_string pfx) ext (text_of_string buf) in
       print_int (int_of_n v); print_newline ()
    | _ -> failwith "bad header"
  done with End_of_file -> ()
"""


class Driver(object):
  """`judge_text` of Core/SqlText.v extracted to OCaml (scratch directory outside /verif, removed at exit).
  The reader around it only converts bytes; a sample of its verdicts is compared with vm_compute."""

  def __init__(self):
    self.dir = tempfile.mkdtemp(prefix='lv_c09_')
    atexit.register(shutil.rmtree, self.dir, True)
    self.exe = None
    self.log = ''
    try:
      with open(os.path.join(self.dir, 'extract.v'), 'w') as f:
        f.write('From Coq Require Import List String NArith Extraction ExtrOcamlBasic ExtrOcamlString.\n'
                'From LV Require Import Core.SqlText.\nExtraction Language OCaml.\n'
                'Extraction "c09_judge.ml" judge_text.\n')
      with open(os.path.join(self.dir, 'main.ml'), 'w') as f:
        f.write(MAIN_ML)
      p = subprocess.run(['timeout', '300', 'coqc'] + coqrun.QFLAGS + ['extract.v'], cwd=self.dir,
                         stdout=subprocess.PIPE, stderr=subprocess.STDOUT, text=True)
      self.log = p.stdout
      if p.returncode == 0:
        p = subprocess.run(['timeout', '300', 'ocamlfind', 'ocamlopt', 'c09_judge.mli', 'c09_judge.ml', 'main.ml',
                            '-o', 'judge'], cwd=self.dir, stdout=subprocess.PIPE, stderr=subprocess.STDOUT, text=True)
        self.log += p.stdout
        if p.returncode == 0:
          self.exe = os.path.join(self.dir, 'judge')
    except OSError as e:
      self.log += str(e)

  def judge(self, cases):
    cases = [norm_case(c) for c in cases]
    uniq = sorted(set(cases))
    n = max(1, (len(uniq) + 2) // 3)
    chunks = [uniq[i:i + n] for i in range(0, len(uniq), n)]

    def one(chunk):
      data = []
      for e, t, ext in chunk:
        b = t.encode('utf-8')
        data.append(('%s %s %d %s\n' % (e, PFX, len(b), ','.join(ext))).encode() + b + b'\n')
      p = subprocess.run(['timeout', '900', self.exe], input=b''.join(data), stdout=subprocess.PIPE, stderr=subprocess.PIPE)
      vals = p.stdout.decode().split()
      if p.returncode != 0 or len(vals) != len(chunk):
        return None, p.stderr.decode()[-500:]
      return [int(x) for x in vals], ''
    verdict = {}
    with ThreadPoolExecutor(max_workers=3) as ex:
      for chunk, (vals, err) in zip(chunks, ex.map(one, chunks)):
        if vals is None:
          return None, err
        for c, v in zip(chunk, vals):
          verdict[c] = v
    return [verdict[c] for c in cases], ''


DRIVER = [None]


def judge_texts(cases):
  """Verdicts of the Coq decider on real text: the extracted driver when it could be built, else vm_compute."""
  if not cases:
    return [], ''
  d = DRIVER[0]
  if d is not None and d.exe:
    return d.judge(cases)
  return judge_texts_coq(cases)


def eval_defect_cells():
  body = ('Eval vm_compute in map (fun c => (fst (fst c)) ++ "|" ++ (snd (fst c)) ++ "|" ++ (snd c)) defect_cells.\n'
          'Eval vm_compute in map (fun c => (fst c) ++ "|" ++ (snd c)) dead_entries.\n')
  rc, out = coqrun.coq_eval(HEAD + body, timeout=600)
  if rc != 0:
    return None, None, out
  blocks = re.findall(r'=\s*\[(.*?)\]\s*:\s*list', out, re.S)
  if len(blocks) != 2:
    return None, None, out
  res = []
  for b in blocks:
    res.append([tuple(x.split('|')) for x in re.findall(r'"((?:[^"]|"")*)"', b)])
  return sorted(set(res[0])), sorted(set(res[1])), out


def explain(v):
  return [txt for bit, txt in BITS if not v & bit]


# ---------------------------------------------------------------------------------------------------------
# witnesses for defect cells
# ---------------------------------------------------------------------------------------------------------
SUBSCRIPT_PROGRAM = ('T(a: 1, r: {p: 1, q: "s"});\nT(a: 2, r: {p: 2, q: "t"});\n'
                     'P(a: zq1.p, b: zq1.q) :- T(r: zq1);\n')
UNTYPED_REST_PROGRAM = 'D0(d: zq1) :- T0(b: zq1);\nD2(..zq6) :- D0(..zq6);\n'   # T0 external, hence untyped
REST_PROGRAM = 'T(a: 1, b: "s");\nT(a: 2, b: "t");\nP(..zq1) :- T(..zq1);\n'
ARG_KINDS = [['1', '2', '3', '4'], ['"a"', '"b"', '"c"', '"d"'], ['[1]', '[2]', '[3]', '[4]'], ['"a b"', '" "', '1', '2']]


def cell_key(cell):
  engine, kind, name = cell
  if kind == 'method' and name == 'Subscript':
    return '%s-subscript' % engine
  if kind == 'method':
    return '%s-method-%s' % (engine, name)
  if kind == 'function':
    return 'template-%s-%s' % (engine, name)
  return 'template-%s-%s-%s' % (engine, kind, name)


def cell_programs(cell):
  engine, kind, name = cell
  if kind in ('method', 'subscript-format'):
    return [SUBSCRIPT_PROGRAM, REST_PROGRAM]
  if kind == 'function':
    ps = []
    for n in range(0, 5):
      for args in ARG_KINDS:
        ps.append('P(a: %s(%s));\n' % (name, ', '.join(args[:n])))
    return ps
  if kind == 'infix':
    return ['P(a: 1 %s 2);\n' % name, 'P(a: "a" %s "b");\n' % name, 'P(a: [1] %s [2]);\n' % name,
            'T(a: 1);\nP(a: zq1) :- T(a: zq1), zq1 %s [1, 2];\n' % name, 'T(a: 1);\nP(a: zq1) :- T(a: zq1), zq1 %s 2;\n' % name]
  if kind == 'phrase':
    return ['T(a: 1, l: [1, 2]);\nP(a: zq1, b: zq2) :- T(a: zq1, l: zq3), zq2 in zq3;\n', 'P(l: [1, 2]);\n',
            'T(a: 1);\nP(a: zq1, l: [zq1, 2]) :- T(a: zq1);\n']
  if kind == 'analytic':
    return ['T(a: 1, b: 2);\nP(a: %s(zq1, [zq2], [zq1]%s)) :- T(a: zq1, b: zq2);\n' % (
        name, ', 2' if name.startswith('Window') else '')]
  return []


def check_program(engine, text, pred, judge_now=True):
  """Real compile + Coq verdicts.  -> (failure description or None, observation dict)."""
  install_library_cache()
  r = compile_one(text, pred, engine)
  obs = {'status': r['status']}
  if r['status'].startswith('Internal'):
    obs['message'] = r.get('message')
    return 'internal error instead of a diagnostic: %s: %s' % (r['status'], r.get('message')), obs
  if r['status'] != 'ok':
    obs['message'] = r.get('message')
    return None, obs
  if judge_now:
    vs, log = judge_texts([(engine, t) for t in r['texts']])
    if vs is None:
      return 'the Coq decider could not be evaluated on the emitted text: %s' % log[-500:], obs
    obs['verdicts'] = vs
    for t, v in zip(r['texts'], vs):
      if v != ALL_GOOD:
        obs['text'] = t
        return 'emitted SQL is not well formed: %s' % '; '.join(explain(v)), obs
  if r.get('exec', '').startswith('SqlError') and any(s in r['exec'] for s in STRUCTURAL_SQLITE):
    obs['exec'] = r['exec']
    return 'SQLite rejects the emitted SQL: %s' % r['exec'], obs
  return None, obs


def sqlite_scope_error(ex, texts, ext):
  """SQLite's complaint is about what the static scoper claims to exclude: an unknown table that is not a declared
  external one, or alias.column whose ALIAS is introduced nowhere (a column missing from an existing table is a
  different matter: the property speaks about aliases)."""
  m = re.search(r'no such table: (\S+)', ex)
  if m:
    return m.group(1) not in ext
  m = re.search(r'no such column: (\w+)\.', ex)
  if m:
    return not any(re.search(r'(?i)\bAS\s+%s\b' % re.escape(m.group(1)), t) for t in texts)
  return False


def search_cell(cell):
  engine = cell[0]
  how = ('PYTHONPATH=$REPO python: universe.LogicaProgram(parse.ParseFile(@Engine("%s"); program)["rule"])'
         '.FormattedPredicateSql("P")' % engine)
  programs = cell_programs(cell)
  # first the cheap question (does it crash?), then one batch of Coq verdicts for everything that compiled
  for text in programs:
    fail, obs = check_program(engine, text, 'P', judge_now=False)
    if fail:
      return {'engine': engine, 'program': text, 'pred': 'P', 'failure': fail, 'observed': obs, 'cell': list(cell),
              'how': how}, len(programs)
  compiled = []
  for text in programs:
    r = compile_one(text, 'P', engine, execute=False)
    if r['status'] == 'ok':
      compiled += [(text, t) for t in r['texts']]
  if compiled:
    vs, _ = judge_texts([(engine, t) for _, t in compiled])
    for (text, t), v in zip(compiled, vs or []):
      if v != ALL_GOOD:
        return {'engine': engine, 'program': text, 'pred': 'P', 'cell': list(cell), 'how': how,
                'failure': 'emitted SQL is not well formed: %s' % '; '.join(explain(v)),
                'observed': {'status': 'ok', 'text': t}}, len(programs)
  return None, len(programs)


# ---------------------------------------------------------------------------------------------------------
# instantiation correspondence
# ---------------------------------------------------------------------------------------------------------
ARG_POOL = ['T.a', "'x'", '(1 + 2)', 'x_4.value', '"q"', 'JSON_ARRAY(1, 2)', "'it''s'", '{a: 1}']
DAMAGE = ['%s', '%', '%%', '{', '}', '{0}', '{3}', '{x}', '{left}', '{{', '}}', '(', "'"]


def damage(r, tpl):
  i = r.randrange(len(tpl) + 1)
  if r.random() < 0.3 and tpl:
    j = min(len(tpl), i + r.randrange(1, 3))
    return tpl[:i] + tpl[j:]
  return tpl[:i] + r.choice(DAMAGE) + tpl[i:]


def exotic(t, real):
  """Python accepted a damaged template through a feature the model rejects on purpose (flags/width in a % directive,
  conversions or format specs in a replacement field); no table template uses one (that would be a defect cell)."""
  return real is not None and (re.search(r'%[^s%]', t) or re.search(r'\{[^{}]*[!:.\[][^{}]*\}', t))


def opt(x):
  return 'None' if x is None else '(Some %s)' % cq(x)


def instantiation_tie(r, tier):
  """Returns (n_cases, mismatches list, log)."""
  common.repo_path()
  from compiler import dialects, expr_translate
  cases = []   # (coq term, description)

  def attempt(f):
    try:
      return f()
    except Exception:  # pylint: disable=broad-except
      return None
  n_bulk = 1 if tier == 'quick' else 25
  n_dmg = 1 if tier == 'quick' else 3
  arities = [1, 2] if tier == 'quick' else [0, 1, 2, 3]
  for key in ENGINES:
    if key not in dialects.DIALECTS:
      continue
    d = attempt(lambda: dialects.Get(key))
    if d is None:
      continue
    ql = expr_translate.QL({}, None, Exception, {}, dialect=d)
    own = list(d.BuiltInFunctions())
    shared = [n for n in ql.BUILT_IN_FUNCTIONS if n not in own]
    if tier == 'quick' and key != ENGINES[3]:
      shared = r.sample(shared, 2)      # the class-level templates are exercised in full on one engine
    names = own + shared
    bulk = sorted(set(ql.built_in_functions) - set(names))
    names += r.sample(bulk, min(n_bulk, len(bulk)))
    for name in names:
      tpl = ql.built_in_functions[name]
      cases.append(('string_opt_eqb (model_function_of %s %s) (Some %s)' % (cq(key), cq(name), cq(tpl)),
                    'effective template of %s on %s' % (name, key)))
      tpls = [tpl] + [damage(r, tpl) for _ in range(n_dmg)]
      for t in tpls:
        if not coq_ok_text(t):
          continue
        for n in sorted(set(arities + [r.randrange(0, 5)])) if t == tpl or tier != 'quick' else [r.randrange(0, 4)]:
          args = [r.choice(ARG_POOL) for _ in range(n)]
          real = attempt(lambda: ql.Function(t, {i: a for i, a in enumerate(args)}))
          if exotic(t, real):
            continue
          cases.append(('tie_function %s [%s] %s' % (cq(t), '; '.join(cq(a) for a in args), opt(real)),
                        'QL.Function(%r, %r) on %s' % (t, args, key)))
    for name, tpl in ql.built_in_infix_operators.items():
      cases.append(('string_opt_eqb (model_infix_of %s %s) (Some %s)' % (cq(key), cq(name), cq(tpl)),
                    'effective operator template of %s on %s' % (name, key)))
      for t in [tpl] + [damage(r, tpl) for _ in range(n_dmg)]:
        a, b = r.choice(ARG_POOL), r.choice(ARG_POOL)
        real = attempt(lambda: '(' + ql.Infix(t, {'left': a, 'right': b}) + ')')
        if exotic(t, real):
          continue
        cases.append(('tie_infix %s %s %s %s' % (cq(t), cq(a), cq(b), opt(real)), 'QL.Infix(%r, %r, %r) on %s' % (t, a, b, key)))
    for t in [d.UnnestPhrase()] + [damage(r, d.UnnestPhrase()) for _ in range(n_dmg)]:
      a, b = r.choice(ARG_POOL), 'x_%d' % r.randrange(9)
      real = attempt(lambda: t.format(a, b))
      cases.append(('tie_format %s [%s; %s] %s' % (cq(t), cq(a), cq(b), opt(real)), 'UnnestPhrase %r on %s' % (t, key)))
    for t in [d.ArrayPhrase()] + [damage(r, d.ArrayPhrase()) for _ in range(n_dmg)]:
      a = r.choice(ARG_POOL)
      real = attempt(lambda: t % a)
      cases.append(('tie_percent %s [%s] %s' % (cq(t), cq(a), opt(real)), 'ArrayPhrase %r on %s' % (t, key)))
    for rec, sub, is_table in [('T.r', 'p', False), ('T', 'a', True), ('T', '*', True), ('(x).r', 'col0', False),
                               ("JSON_OBJECT('p', 1)", 'q', False)]:
      real = attempt(lambda: ql.Subscript(rec, sub, is_table))
      cases.append(('tie_subscript %s %s %s %s %s' % (cq(key), cq(rec), cq(sub), 'true' if is_table else 'false', opt(real)),
                    'dialect.Subscript(%r, %r, %r) on %s' % (rec, sub, is_table, key)))
  for name, tpl in expr_translate.QL.ANALYTIC_FUNCTIONS.items():
    for n in (3, 4):
      args = [r.choice(ARG_POOL) for _ in range(n)]
      real = attempt(lambda: tpl.format(*args))
      cases.append(('tie_format %s [%s] %s' % (cq(tpl), '; '.join(cq(a) for a in args), opt(real)), 'analytic %s/%d' % (name, n)))
  chunks = [cases[i:i + 400] for i in range(0, len(cases), 400)]

  def one(chunk):
    body = 'Eval vm_compute in [\n%s\n].\n' % ';\n'.join(c for c, _ in chunk)
    ls, out = eval_lists(body)
    if ls is None or len(ls) != 1 or len(ls[0]) != len(chunk):
      return None, out
    return ls[0], out
  bad = []
  with ThreadPoolExecutor(max_workers=4) as ex:
    for chunk, (vals, out) in zip(chunks, ex.map(one, chunks)):
      if vals is None:
        return len(cases), None, out
      bad += [desc for (c, desc), v in zip(chunk, vals) if v != 'true']
  return len(cases), bad, ''


# ---------------------------------------------------------------------------------------------------------
# oracle sensitivity
# ---------------------------------------------------------------------------------------------------------
def outside_literals(engine, text):
  """Set of positions of `text` at which Core/SqlText.v's automaton is outside string literals (same rules)."""
  bs = {'clickhouse': "'\"", 'bigquery': "'\"", 'databricks': "'\"", 'duckdb': "'"}.get(engine, '')
  out = set()
  q = None
  esc = False
  for i, ch in enumerate(text):
    if q is None:
      out.add(i)
      if ch in '\'"`':
        q = ch
    elif esc:
      esc = False
    elif ch == q:
      q = None
    elif ch == '\\' and q in bs:
      esc = True
  return out


def damaged_texts(engine, text):
  """(kind, bit that must drop, damaged text) for one real statement; damage is applied outside literals only."""
  out = []
  free = outside_literals(engine, text)

  def first(pat):
    for m in re.finditer(pat, text):
      if all(k in free for k in range(m.start(), m.end())):
        return m
    return None
  m = first(r' AS \(SELECT')
  if m:
    out.append(('dropped an opening parenthesis', 1, text[:m.start() + 4] + text[m.start() + 5:]))
  m = first(r'\w AS \w')
  if m:
    out.append(('a double minus in front of an alias', 32, text[:m.start() + 1] + ' --x' + text[m.start() + 1:]))
  m = first(r'\nFROM\n\s+\w+ AS (\w+)(?=,|\n|$)')
  if m and re.search(r'(?<![\w.])%s\.' % re.escape(m.group(1)), text) and \
      len(re.findall(r'(?i)\bAS\s+%s\b' % re.escape(m.group(1)), text)) == 1:
    a, b = m.span(1)
    out.append(('renamed a FROM alias that is referenced', 4, text[:a] + 'zz_renamed' + text[b:]))
  m = first(r' AS \w')
  if m:
    j = m.start()
    out.append(('left a {0} placeholder', 8, text[:j] + ' + {0}' + text[j:]))
    out.append(('left a %s placeholder', 8, text[:j] + ' + %s' + text[j:]))
    out.append(('leaked a Logica variable', 16, text[:j] + ' + zq7' + text[j:]))
  m = re.match(r'WITH (\w+) AS \(', text)
  if m and re.search(r'(?<![\w.])%s AS ' % re.escape(m.group(1)), text[m.end():]) and \
      len(re.findall(r'(?<![\w.])%s AS \(' % re.escape(m.group(1)), text)) == 1:
    out.append(('renamed a WITH table that is used', 4, text[:m.start(1)] + m.group(1) + '_renamed' + text[m.end(1):]))
  return out


# ---------------------------------------------------------------------------------------------------------
def run(tier, replay=None):
  t_start = time.time()
  rep = common.Report(PID, tier, 'other')
  rep.assumptions = [
      'what is proved for all inputs is the text algebra and the instantiation of every non-defect cell of the regenerated '
      'dialect tables; that whole compiler outputs are balanced/scoped is CHECKED per emitted text with the Coq deciders',
      'SQL lexical conventions per engine (qstyle_of) and the scoping rules of Core/SqlText.v are the specification',
      'acceptance of the text by the seven engines that cannot run offline is not claimed',
      'harness (props/c09.py, props/c09_gen.py), translator (translators/dialect_tables.py), OCaml extraction of judge_text '
      '(cross-checked against vm_compute on a sample every run) and CPython semantics trusted',
  ]
  stage = {}
  found = []          # keys of violations with concrete input
  broken = []         # (what, detail) without input so far

  def mark(name):
    stage[name] = round(time.time() - t_start, 1)

  # --- 0. translator, make
  gen_ok, gen_msg = dialect_tables.generate()
  if not gen_ok:
    broken.append(('translator', 'translators/dialect_tables.py no longer understands the source (fail closed): %s' % gen_msg))
  built, _, _ = coqrun.build(['theories/Props/%s.vo' % PID])
  model_ok, _, _ = (True, '', []) if built else coqrun.build(['theories/Core/SqlTextCheck.vo'])
  mark('translate+make')

  if replay:
    ok, info = proof.proof_stage(rep, PID)
    install_library_cache()
    if model_ok:
      DRIVER[0] = Driver()
    with open(replay) as f:
      rp = json.load(f)
    fail, obs = check_program(rp['engine'], rp['program'], rp['pred'])
    if fail:
      rep.violation(rp.get('key', 'replay'), {'engine': rp['engine'], 'program': rp['program'], 'pred': rp['pred'],
                                               'failure': fail, 'observed': obs})
    else:
      print('replay: no failure any more (%s)' % obs.get('status'))
    rep.coverage.update({'evaluations': 1, 'distinct_nontrivial': 1, 'rule': 'replay of one stored case', 'samples': [rp]})
    return rep.finish()

  # --- programs: generated now, compiled in worker processes while Coq works
  r = common.rng('c09')
  n_prog = 120 if tier == 'quick' else 3000
  n_mal = 25 if tier == 'quick' else 500
  progs = []
  for i in range(n_prog):
    progs.append(c09_gen.make(r, size=3 if tier == 'quick' else 5))
  for i in range(n_mal):
    progs.append(c09_gen.malformed(r, progs[r.randrange(n_prog)]))
  n_fam = 16 if tier == 'quick' else 300
  for i in range(n_fam):
    progs.append(c09_gen.shared_with_family(r))
  for i in range(n_fam // 2):
    progs.append(c09_gen.dotted_table_family(r))
  for i in range(n_fam // 2):
    progs.append(c09_gen.dependent_unnest_family(r))
  fixed = [{'text': SUBSCRIPT_PROGRAM, 'pred': 'P', 'tags': ['fixed:subscript']},
           {'text': REST_PROGRAM, 'pred': 'P', 'tags': ['fixed:rest-of']},
           {'text': UNTYPED_REST_PROGRAM, 'pred': 'D2', 'tags': ['fixed:rest-of-untyped'], 'ext': ['T0']}]
  progs = fixed + progs
  jobs = [(i, p['text'], p['pred'], ENGINES) for i, p in enumerate(progs)]
  pool = multiprocessing.get_context('fork').Pool(3)
  pending = pool.map_async(job, jobs, chunksize=2)
  install_library_cache()

  # --- 1. proofs / driver / defect cells / instantiation correspondence, concurrently
  box = {}

  def t_proof():
    box['proof'] = proof.proof_stage(rep, PID, extra_trusted=[
        'translators/dialect_tables.py (ast extraction of the dialect tables)',
        'props/c09.py + Core/SqlTextCheck.v (correspondence harness); OCaml extraction of judge_text'])

  def t_driver():
    box['driver'] = Driver() if model_ok else None

  def t_cells():
    box['cells'] = eval_defect_cells() if model_ok else (None, None, 'model does not build')

  def t_inst():
    box['inst'] = instantiation_tie(common.rng('c09-inst'), tier) if model_ok else (0, None, 'model does not build')
  threads = [threading.Thread(target=f) for f in (t_proof, t_driver, t_cells, t_inst)]
  for t in threads:
    t.start()
  for t in threads:
    t.join()
  ok, info = box['proof']
  if not ok:
    broken.append(('proof', 'theories/Props/C09.v or a dependency no longer checks: %s' % info.get('excerpt', '')[:1500]))
  DRIVER[0] = box['driver']
  if DRIVER[0] is not None and not DRIVER[0].exe:
    rep.assumptions.append('extracted driver could not be built; verdicts computed by vm_compute: %s' % DRIVER[0].log[-300:])
  mark('proof+driver+cells+instantiation')

  # --- 2. defect cells of the regenerated tables -> witness programs on the real compiler
  cells, dead, log = box['cells']
  cell_report = []
  if cells is None:
    broken.append(('tie', 'defect_cells could not be evaluated: %s' % log[-800:]))
    cells = []
  for cell in cells:
    w, tried = search_cell(cell)
    key = cell_key(cell)
    if w:
      found.append(key)
      rep.violation(key, dict(w, key=key))
      cell_report.append({'cell': list(cell), 'key': key, 'witness': w['program'], 'failure': w['failure']})
    else:
      broken.append(('cell', 'the tables say %s can fail, but none of %d witness programs does on the real compiler' % (
          list(cell), tried)))
  mark('cell witnesses')

  # --- 3. instantiation correspondence
  n_tie, bad, log = box['inst']
  if bad is None:
    broken.append(('tie', 'instantiation correspondence could not be evaluated: %s' % log[-800:]))
  elif bad:
    broken.append(('tie', 'model of QL.Function/Infix/Subscript/phrases disagrees with the implementation: %s' % bad[:5]))

  # --- 4. programs
  results = dict(pending.get())
  pool.close()
  mark('compile')
  status_count = {}
  tag_count = {}
  cases = []
  where = []
  for i, p in enumerate(progs):
    for t in p['tags']:
      tag_count[t] = tag_count.get(t, 0) + 1
    for e in ENGINES:
      res = results[i][e]
      st = res['status']
      status_count.setdefault(e, {})
      status_count[e][st] = status_count[e].get(st, 0) + 1
      if st == 'ok':
        for t in res['texts']:
          cases.append((e, t, tuple(p.get('ext', ()))))
          where.append((i, e))
  verdicts = None
  if model_ok:
    verdicts, log = judge_texts(cases)
    if verdicts is None:
      broken.append(('tie', 'judge could not be evaluated on emitted text: %s' % log[-800:]))

  # the extracted driver against the kernel's own evaluation of the same definition, on a sample
  xcheck = {'statements': 0, 'disagreements': 0}
  if verdicts is not None and DRIVER[0] is not None and DRIVER[0].exe:
    rx = common.rng('c09-xcheck')
    small = [k for k, c in enumerate(cases) if len(c[1]) < 1500 and coq_ok_text(c[1])]
    odd = [k for k in small if verdicts[k] != ALL_GOOD][:5]
    pick = sorted(set(rx.sample(small, min(len(small), 12 if tier == 'quick' else 150)) + odd))
    cv, log = judge_texts_coq([cases[k] for k in pick])
    if cv is None:
      broken.append(('tie', 'vm_compute evaluation of judge failed: %s' % log[-500:]))
    else:
      xcheck['statements'] = len(pick)
      xcheck['disagreements'] = sum(1 for k, v in zip(pick, cv) if v != verdicts[k])
      if xcheck['disagreements']:
        broken.append(('tie', 'extracted driver and vm_compute disagree on %d statements' % xcheck['disagreements']))
  mark('judge')

  reported = 0
  bad_by_prog = {}
  if verdicts is not None:
    for (i, e), c, v in zip(where, cases, verdicts):
      if v != ALL_GOOD:
        bad_by_prog.setdefault((i, e), (c[1], v))
  sqlite_exec = {'ok': 0, 'scope_error': 0, 'other_error': 0}
  other_errors = {}
  for i, p in enumerate(progs):
    for e in ENGINES:
      res = results[i][e]
      st = res['status']
      failure = None
      obs = {'status': st}
      if st.startswith('Internal'):
        failure = 'internal error instead of a diagnostic: %s: %s' % (st, res.get('message'))
        msg = res.get('message') or ''
        if '.Subscript() takes' in msg:
          key = '%s-subscript' % e
        else:
          key = 'internal:%s:%s:%s' % (e, st, common.short_hash(re.sub(r'\d+', 'N', msg))[:8])
      elif (i, e) in bad_by_prog:
        t, v = bad_by_prog[(i, e)]
        failure = 'emitted SQL is not well formed: %s' % '; '.join(explain(v))
        obs['text'] = t
        key = 'text:%s:%s' % (e, common.short_hash([p['text'], p['pred']]))
      if e == 'sqlite' and st == 'ok':
        ex = res.get('exec', '')
        if ex.startswith('ok'):
          sqlite_exec['ok'] += 1
          if (i, e) in bad_by_prog:
            failure = ('SQLite executes the statement but the static decider rejects it (Core/SqlText.v too strict, or the '
                       'text is accepted by accident): ' + failure)
        elif sqlite_scope_error(ex, res['texts'], p.get('ext', ())):
          sqlite_exec['scope_error'] += 1
          if failure is None:
            failure = 'SQLite finds a name out of scope that the static scoper accepted: %s' % ex
            key = 'sqlite-exec:%s' % common.short_hash([p['text'], p['pred']])
            obs['exec'] = ex
        else:
          sqlite_exec['other_error'] += 1
          k = re.sub(r'[0-9]+', 'N', ex)[:70]
          other_errors[k] = other_errors.get(k, 0) + 1
      if failure:
        first_time = key not in found
        found.append(key)
        if (reported < 8 and first_time) or rep.known.lookup(PID, key):
          if rep.violation(key, {'engine': e, 'program': p['text'], 'pred': p['pred'], 'failure': failure, 'observed': obs,
                                 'key': key, 'ext': list(p.get('ext', ()))}):
            reported += 1

  # --- 5. sensitivity of the oracle
  sens = {'cases': 0, 'missed': []}
  if verdicts is not None:
    pool_ = [c for c, v in zip(cases, verdicts) if v == ALL_GOOD and len(c[1]) < 4000]
    r2 = common.rng('c09-sens')
    r2.shuffle(pool_)
    dm = []
    for e, t, ext in pool_[:40 if tier == 'quick' else 600]:
      for kind, bit, dt in damaged_texts(e, t):
        dm.append((e, dt, ext, kind, bit))
    dv, log = judge_texts([(e, dt, ext) for e, dt, ext, _, _ in dm])
    if dv is None:
      broken.append(('tie', 'judge could not be evaluated on damaged text: %s' % log[-500:]))
    else:
      sens['cases'] = len(dm)
      kinds = {}
      for (e, dt, ext, kind, bit), v in zip(dm, dv):
        kinds[kind] = kinds.get(kind, 0) + 1
        if v & bit:
          sens['missed'].append({'engine': e, 'damage': kind, 'text': dt[:600]})
      sens['kinds'] = kinds
      if sens['missed']:
        broken.append(('oracle', 'the Coq decider accepted damaged SQL: %s' % sens['missed'][:2]))
  mark('sensitivity')

  # --- 6. order of the UNNEST items: Core/Unnest.v vs RuleStructure.SortUnnestings
  unnest = None
  if model_ok:
    from props import unnesttie
    ur = common.rng('c09-unnest')
    utexts = ['@Engine("sqlite");\n' + c09_gen.dependent_unnest_family(ur)['text'] for _ in range(20 if tier == 'quick' else 400)]
    unnest = unnesttie.run_tie(ur, 400 if tier == 'quick' else 20000, utexts)
    if unnest['error']:
      broken.append(('tie', 'Core/Unnest.v could not be evaluated: %s' % unnest['error'][-400:]))
    for m in unnest['mismatches'][:2]:
      # is the order the real function returned itself ill scoped (an item before the item it mentions)?
      names = [u[0] for u in m['unnestings']]
      ment = {u[0]: [v for v in u[1] if v in names] for u in m['unnestings']}
      order = m['real_order']
      ill = order is not None and any(any(v not in order[:i] for v in ment[x]) for i, x in enumerate(order))
      lost = order is not None and sorted(order) != sorted(names)
      if ill or lost:
        key = 'unnest-order:%s' % ('ill-scoped' if ill else 'items-lost')
        found.append(key)
        rep.violation(key, dict(m, key=key, law='every UNNEST item of a FROM list comes after the items whose variables its '
                                                  'list mentions, and no item is lost',
                                how='props.unnesttie.real_sort / RuleStructure.SortUnnestings on these unnestings'))
      else:
        broken.append(('tie', 'SortUnnestings and Core/Unnest.v disagree (order or rejection) on %s' % str(m)[:400]))
  mark('unnest')

  if broken and not [k for k in found if not rep.known.lookup(PID, k)]:
    what, detail = broken[0]
    rep.violation(what, {'broken': detail, 'all_broken': [d[:300] for _, d in broken], 'failing_files': info.get('failing')},
                  no_input=True)

  n_ok = sum(status_count.get(e, {}).get('ok', 0) for e in ENGINES)
  rep.coverage.update({
      'evaluations': len(progs) * len(ENGINES) + n_tie + sens['cases'],
      'distinct_nontrivial': len(set(cases)),
      'unnest_order_tie': {k: v for k, v in (unnest or {}).items() if k != 'mismatches'},
      'rule': 'programs x 8 engines compiled by the real compiler (+ instantiation cases + damaged texts); non-trivial = distinct '
              'emitted SQL statements judged by the Coq decider judge_text (extracted; sample re-evaluated by vm_compute)',
      'exhaustive': False,
      'translator': gen_msg,
      'defect_cells': [list(c) for c in cells],
      'defect_cell_witnesses': cell_report,
      'dead_dialect_entries': [list(c) for c in (dead or [])],
      'instantiation_cases': n_tie,
      'instantiation_mismatches': (bad or [])[:10],
      'programs': n_prog + n_mal + n_fam + n_fam // 2 + len(fixed),
      'programs_by_kind': {'generated': n_prog, 'malformed': n_mal, 'shared_with_family': n_fam, 'dotted_table_family': n_fam // 2, 'dependent_unnest_family': n_fam // 2, 'fixed': len(fixed)},
      'compile_status': status_count,
      'compiled_ok': n_ok,
      'statements_judged': len(cases),
      'verdict_not_31': len(bad_by_prog),
      'sqlite_execution': sqlite_exec,
      'sqlite_other_errors': other_errors,
      'constructs': tag_count,
      'oracle_sensitivity': {'damaged_texts': sens['cases'], 'accepted_by_mistake': len(sens['missed']), 'kinds': sens.get('kinds')},
      'driver_vs_vm_compute': xcheck,
      'samples': [{'program': progs[i]['text'], 'pred': progs[i]['pred'],
                   'status': {e: results[i][e]['status'] for e in ENGINES}} for i in (3, 4, len(progs) - 1)],
      'stage_wall_s': dict(stage, total=round(time.time() - t_start, 1)),
  })
  return rep.finish()
