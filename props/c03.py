"""C03 — recursion is the bounded iteration, and the least fixpoint once it converges.

Proof: coq/theories/Props/C03.v.  gen/RecursionParams.v is regenerated from the source by
translators/recursion_params.py (fail closed) before the build, so the count theorems are re-checked against
the loop bounds / ignition / repetitions formulas the code has now.
Tie + search on SQLite: recursive programs of fixed shapes (counter of the docs, transitive closure linear /
non-linear / bag, mutual recursion with and without a cut predicate, Min= shortest paths) over generated
extensional data, depths {1,2,7,default 8,9,20,21,22,25,40}, explicit `iterative: true`, depth 0.
Oracle (code independent): naive bounded iteration of the rules in Python over bags, specialised per shape,
with exactly depth+1 simultaneous applications (or depth+1 applications of the operator with the other members
inlined when the cover has a cut predicate and the plan is the vertical one), plus the lfp sandwich for set /
min valued shapes.
"""
import collections
import contextlib
import io
import json
import time
from concurrent.futures import ProcessPoolExecutor

from vlib import common, coqrun, proof, logica_run
from translators import recursion_params

PID = 'C03'
Counter = collections.Counter
DEPTHS = [1, 2, 7, None, 9, 20, 21, 22, 25, 40]     # None = no annotation (default 8)


# ---- shapes: text + one simultaneous application of the rules ------------------------------------------
def facts(name, rows):
  return ''.join('%s(%s);\n' % (name, ', '.join(str(v) for v in r)) for r in rows)


def dedup(c):
  return Counter({k: 1 for k in c})


class Shape:
  """members: cover in the order used for the cut operator (root first); T: env -> env."""
  distinct = True

  def aux(self):              # compiler generated members of the cover (X_MultBodyAggAux); ignition counts them
    return 0

  def __init__(self, p):
    self.p = p

  def le(self, x, y):         # information order on one member
    return set(x) <= set(y)


class CounterShape(Shape):
  name = 'counter'
  members = ['N']
  distinct = False

  def text(self):
    return ''.join('N(%d);\n' % b for b in self.p['base']) + 'N(n + %d) :- N(n);\n' % self.p['step']

  def rule(self, m, env):
    out = Counter({(b,): 0 for b in []})
    for b in self.p['base']:
      out[(b,)] += 1
    for (n,), c in env['N'].items():
      out[(n + self.p['step'],)] += c
    return out


class TcShape(Shape):
  name = 'tc'
  members = ['TC']

  def __init__(self, p):
    Shape.__init__(self, p)
    self.distinct = p['distinct']

  def aux(self):
    return 1 if self.p['distinct'] else 0

  def text(self):
    d = ' distinct' if self.p['distinct'] else ''
    step = 'TC(a, b), TC(b, c)' if self.p['nonlinear'] else 'TC(a, b), E(b, c)'
    return facts('E', self.p['edges']) + 'TC(a, b)%s :- E(a, b);\nTC(a, c)%s :- %s;\n' % (d, d, step)

  def rule(self, m, env):
    out = Counter()
    E = Counter(tuple(e) for e in self.p['edges'])
    for e, c in E.items():
      out[e] += c
    right = env['TC'] if self.p['nonlinear'] else E
    for (a, b), c in env['TC'].items():
      for (b2, cc), c2 in right.items():
        if b == b2:
          out[(a, cc)] += c * c2
    return dedup(out) if self.p['distinct'] else out


class MutualShape(Shape):
  """A(x) :- S(x);  A(y) :- B(x), E(x,y);  B(y) :- A(x), E(x,y);  [B(y) :- B(x), F(x,y)]  (all distinct)."""
  name = 'mutual'
  members = ['A', 'B']

  def text(self):
    t = facts('S', self.p['start']) + facts('E', self.p['edges'])
    t += 'A(x) distinct :- S(x);\nA(y) distinct :- B(x), E(x, y);\nB(y) distinct :- A(x), E(x, y);\n'
    if self.p['selfloop']:
      t += facts('F', self.p['fedges']) + 'B(y) distinct :- B(x), F(x, y);\n'
    return t

  def has_cut(self):
    return not self.p['selfloop']

  def aux(self):
    return 2 if self.p['selfloop'] else 1

  def rule(self, m, env):
    out = Counter()
    E = [tuple(e) for e in self.p['edges']]
    if m == 'A':
      for s in self.p['start']:
        out[tuple(s)] = 1
      for (x,) in env['B']:
        for a, b in E:
          if a == x:
            out[(b,)] = 1
    else:
      for (x,) in env['A']:
        for a, b in E:
          if a == x:
            out[(b,)] = 1
      if self.p['selfloop']:
        for (x,) in env['B']:
          for a, b in self.p['fedges']:
            if a == x:
              out[(b,)] = 1
    return out


class MinPathShape(Shape):
  """D(x) Min= 0 :- S(x);  D(y) Min= D(x) + w :- E(x,y,w);"""
  name = 'minpath'
  members = ['D']

  def aux(self):
    return 1                  # D_MultBodyAggAux

  def text(self):
    return (facts('S', self.p['start']) + facts('E', self.p['edges']) +
            'D(x) Min= 0 :- S(x);\nD(y) Min= D(x) + w :- E(x, y, w);\n')

  def rule(self, m, env):
    best = {}
    for (s,) in [tuple(x) for x in self.p['start']]:
      best[s] = min(best.get(s, 0), 0)
    for (x, d) in env['D']:
      for a, b, w in self.p['edges']:
        if a == x:
          best[b] = min(best.get(b, d + w), d + w)
    return Counter({(k, v): 1 for k, v in best.items()})

  def le(self, x, y):         # y knows at least the nodes of x, with distances at least as good
    dy = {k: v for k, v in y}
    return all(k in dy and dy[k] <= v for k, v in x)


SHAPES = {c.name: c for c in (CounterShape, TcShape, MutualShape, MinPathShape)}


def empty_env(sh):
  return {m: Counter() for m in sh.members}


def apply_T(sh, env):
  """One simultaneous application of all the rules of the component."""
  return {m: sh.rule(m, env) for m in sh.members}


def iterate_T(sh, n):
  env = empty_env(sh)
  for _ in range(n):
    env = apply_T(sh, env)
  return env


def iterate_cut(sh, n, root):
  """n applications of the operator on the root with the other members inlined, then the other members."""
  others = [m for m in sh.members if m != root]
  x = Counter()

  def close(x):
    env = {root: x}
    for m in others:
      env[m] = Counter()
    for m in reversed(others):   # others depend on the root only through later members: evaluate in reverse
      env[m] = sh.rule(m, env)
    return env
  for _ in range(n):
    x = sh.rule(root, close(x))
  env = close(x)
  env[root] = x
  return env


def lfp(sh, cap=400):
  env = empty_env(sh)
  for _ in range(cap):
    nxt = apply_T(sh, env)
    if nxt == env:
      return env
    env = nxt
  return None


def bag_of(counter):
  return sorted(common.canon(list(k)) for k, c in counter.items() for _ in range(c))


# ---- implementation ------------------------------------------------------------------------------------
def program_text(case):
  sh = SHAPES[case['shape']](case['params'])
  ann = ''
  if case['depth'] is not None:
    ann = '@Recursive(%s, %d%s);\n' % (case['on'], case['depth'], ', iterative: true' if case['iterative'] else '')
  return '@Engine("sqlite");\n' + ann + sh.text()


def run_real(job):
  """(text, preds) -> {pred: ('ok', bag, plan) | (class, message, None)}.  Runs in a worker process."""
  text, preds = job
  common.repo_path()
  res = {}
  try:
    with contextlib.redirect_stdout(io.StringIO()), contextlib.redirect_stderr(io.StringIO()):
      parse, universe = logica_run.modules()[:2]
      from common import concertina_lib
      from tools import run_in_terminal
      for pred in preds:
        try:
          program = universe.LogicaProgram(parse.ParseFile(text)['rule'])
          program.FormattedPredicateSql(pred)
          ex = program.execution
          if ex.iterations:
            out = concertina_lib.ExecuteLogicaProgram(
                [ex], run_in_terminal.SqlRunner('sqlite'), 'sqlite', display_mode='silent')[pred]
            rows = [tuple(logica_run.decode_cell(v) for v in r) for r in out[1]]
            plan = {k: [v['predicates'], v['repetitions']] for k, v in ex.iterations.items()}
          else:
            _, rows = logica_run.execute([ex.preamble] + list(ex.defines_and_exports) + [ex.main_predicate_sql])
            plan = None
          res[pred] = ('ok', logica_run.bag(rows), plan)
        except Exception as e:  # pylint: disable=broad-except
          res[pred] = (logica_run.classify(e), str(e)[:300], None)
  except Exception as e:  # pylint: disable=broad-except
    for pred in preds:
      res[pred] = ('Internal:%s' % type(e).__name__, str(e)[:300], None)
  return res


# ---- expectation -----------------------------------------------------------------------------------------
def predicted_iterative_apps(cover, depth):
  """The count of theorem C03_iterative_count for the compiler's own ignition (formulas as in the proof)."""
  g = cover + 3
  if g % 2 == depth % 2:
    g += 1
  reps = (depth + 1 - g) // 2 + 1
  return g, g - 2 + 2 * max(reps, 1)


def judge(case, got):
  """Returns (verdict, detail): 'ok' | 'known:<key>' | 'bad'."""
  sh = SHAPES[case['shape']](case['params'])
  depth = 8 if case['depth'] is None else case['depth']
  if case['depth'] == 0:
    # @Recursive(P, 0) means "do not unfold": the program must be rejected with a diagnostic
    bad = {p: r[:2] for p, r in got.items() if r[0] not in logica_run.DIAGNOSTIC}
    return ('ok', None) if not bad else ('bad', {'what': 'depth 0 (no unfolding) is not rejected with a diagnostic',
                                                 'got': bad})
  for p, r in got.items():
    if r[0] != 'ok':
      return 'bad', {'what': 'recursive program rejected / failed', 'pred': p, 'status': r[0], 'message': r[1]}
  observed = {p: got[p][1] for p in got}
  exact = iterate_T(sh, depth + 1)
  candidates = [('simultaneous', exact)]
  iterative = case['iterative'] or depth > 20
  if len(sh.members) > 1 and sh.has_cut() and not iterative:
    candidates.append(('through the cut predicate', iterate_cut(sh, depth + 1, case['on'])))
  detail = {'expected_applications': depth + 1}
  for name, env in candidates:
    if all(observed[p] == bag_of(env[p]) for p in observed):
      verdict = ('ok', {'matched': name})
      break
  else:
    verdict = None
  # sandwich (for every strategy): T^(depth+1)(nil) <= R <= lfp
  if sh.distinct or sh.name == 'minpath':
    mu = lfp(sh)
    for p in observed:
      rows = [tuple(json.loads(x)) for x in observed[p]]
      if not sh.le(list(exact[p]), rows):
        return 'bad', dict(detail, what='result misses rows derivable within depth+1 applications', pred=p,
                           observed=observed[p][:40], lower=bag_of(exact[p])[:40])
      if mu is not None and not sh.le(rows, list(mu[p])):
        return 'bad', dict(detail, what='result contains rows outside the least fixpoint', pred=p,
                           observed=observed[p][:40], lfp=bag_of(mu[p])[:40])
  if verdict:
    return verdict
  # which iterate is it, if any?
  env, k_found = empty_env(sh), None
  for k in range(1, depth + 16):
    env = apply_T(sh, env)
    if all(observed[p] == bag_of(env[p]) for p in observed):
      k_found = k
      break
  detail.update({'what': 'rows are not the result of depth+1 applications of the rules',
                 'observed_equals_applications': k_found,
                 'observed': {p: observed[p][:30] for p in observed},
                 'expected': {p: bag_of(exact[p])[:30] for p in observed}})
  if case['iterative']:
    g, apps = predicted_iterative_apps(len(sh.members) + sh.aux(), depth)
    if g > depth + 1:
      # the known small-depth defect: the rows are those of `apps` applications (the data may saturate earlier, so
      # the first iterate that equals the observation can be smaller than `apps`)
      at_apps = iterate_T(sh, apps)
      if all(observed[p] == bag_of(at_apps[p]) for p in observed):
        detail['ignition'] = g
        detail['predicted_applications'] = apps
        return 'known:iterative-small-depth', detail
  return 'bad', detail


# ---- generation ---------------------------------------------------------------------------------------
def chain_edges(n):
  return [[i, i + 1] for i in range(n)]


def rand_edges(r, nodes, k):
  return [[r.randrange(nodes), r.randrange(nodes)] for _ in range(k)]


def dag_edges(r, nodes, k):
  es = []
  for _ in range(k):
    a = r.randrange(nodes - 1)
    es.append([a, r.randrange(a + 1, nodes)])
  return es


def cases_for(tier, r):
  cs = []

  def add(shape, params, depth, iterative=False, on=None):
    cs.append({'shape': shape, 'params': params, 'depth': depth, 'iterative': iterative,
               'on': on or SHAPES[shape].members[0]})
  # the refuted witness of C03_iterative_small_depth_refuted, replayed on the implementation
  add('counter', {'base': [0], 'step': 1}, 2, True)
  # counter: every depth; makes an off-by-one visible as a missing / extra row
  for d in DEPTHS + [0]:
    add('counter', {'base': [0], 'step': 1}, d)
  for d in [1, 3, 4, 7, 9]:
    add('counter', {'base': [0], 'step': 1}, d, True)
  add('counter', {'base': [0, 1], 'step': 2}, 9)
  add('counter', {'base': [0, 0, 3], 'step': 1}, 25)
  thorough = tier != 'quick'
  # transitive closure: chain longer than the depth (bound visible), random graphs (lfp reached)
  for d in ([2, None, 9, 20, 21, 40] if not thorough else DEPTHS):
    n = (8 if d is None else d) + 4
    add('tc', {'edges': chain_edges(n), 'distinct': True, 'nonlinear': False}, d)
  for d in [1, 2, 3, 4, None] + ([5, 6] if thorough else []):
    add('tc', {'edges': chain_edges(40 if d in (4, 5, 6, None) else 12), 'distinct': True, 'nonlinear': True}, d)
  add('tc', {'edges': chain_edges(12), 'distinct': True, 'nonlinear': False}, 7, True)
  add('tc', {'edges': chain_edges(12), 'distinct': False, 'nonlinear': False}, 9)
  for _ in range(6 if not thorough else 60):
    nodes = r.randrange(3, 7)
    d = r.choice(DEPTHS + [3])
    add('tc', {'edges': rand_edges(r, nodes, r.randrange(2, 9)), 'distinct': True,
               'nonlinear': r.random() < 0.3 and (d or 8) <= 9}, d, r.random() < 0.2 and (d or 8) >= 5)
  for _ in range(3 if not thorough else 30):
    nodes = r.randrange(3, 6)
    add('tc', {'edges': dag_edges(r, nodes, r.randrange(2, 7)), 'distinct': False, 'nonlinear': False},
        r.choice([1, 2, None, 9]))
  # mutual recursion: with a cut predicate (vertical below 21, iterative above) and without (flat)
  for d in ([1, None, 20, 21, 22] if not thorough else DEPTHS):
    n = 2 * (8 if d is None else d) + 6
    add('mutual', {'start': [[0]], 'edges': chain_edges(n), 'selfloop': False, 'fedges': []}, d)
    if d == 20 and not thorough:
      d, n = 9, 24      # the flat unfolding at depth 20 is one statement that SQLite needs ~45 s for
    add('mutual', {'start': [[0]], 'edges': chain_edges(n), 'selfloop': True, 'fedges': [[1, 1], [3, 20]]}, d)
  add('mutual', {'start': [[0]], 'edges': chain_edges(20), 'selfloop': False, 'fedges': []}, 5, False, 'B')
  add('mutual', {'start': [[0]], 'edges': chain_edges(20), 'selfloop': False, 'fedges': []}, 6, True)
  add('mutual', {'start': [[0]], 'edges': chain_edges(20), 'selfloop': True, 'fedges': [[2, 9]]}, 3, True)
  for _ in range(4 if not thorough else 40):
    nodes = r.randrange(3, 7)
    add('mutual', {'start': [[r.randrange(nodes)]], 'edges': rand_edges(r, nodes, r.randrange(2, 8)),
                   'selfloop': r.random() < 0.5, 'fedges': rand_edges(r, nodes, 2)},
        r.choice(DEPTHS), r.random() < 0.15)
  # Min= shortest paths
  for d in ([1, None, 9, 21] if not thorough else DEPTHS):
    n = (8 if d is None else d) + 4
    add('minpath', {'start': [[0]], 'edges': [[i, i + 1, 1 + i % 3] for i in range(n)] + [[0, 3, 9], [2, 0, 1]]}, d)
  add('minpath', {'start': [[0]], 'edges': [[i, i + 1, 2] for i in range(14)]}, 8, True)
  add('minpath', {'start': [[0]], 'edges': [[i, i + 1, 2] for i in range(14)]}, 3, True)
  for _ in range(4 if not thorough else 40):
    nodes = r.randrange(3, 7)
    add('minpath', {'start': [[0]], 'edges': [[r.randrange(nodes), r.randrange(nodes), r.randrange(1, 5)]
                                              for _ in range(r.randrange(2, 9))]}, r.choice(DEPTHS))
  return cs


def multi_component_stream(rep, tier, r):
  """Several INDEPENDENT recursive components in one program, some with @Recursive(P, N), some without: every
  one must be unfolded with its own depth (N or the default 8), whatever the others say."""
  names_pool = ['Alpha', 'Beta', 'Gamma', 'Delta', 'Rho', 'Zed', 'Kappa', 'Omega']
  n_prog = 6 if tier == 'quick' else 60
  jobs, metas = [], []
  for _ in range(n_prog):
    names = r.sample(names_pool, r.choice([2, 3]))
    depths = {}
    for nm in names:
      depths[nm] = r.choice([None, None, 3, 5, 12])
    if all(v is None for v in depths.values()):
      depths[names[0]] = r.choice([3, 5, 12])
    if all(v is not None for v in depths.values()):
      depths[names[-1]] = None
    lines = ['@Engine("sqlite");'] + ['E(%d, %d);' % (i, i + 1) for i in range(30)] + ['S(0);']
    for nm in names:
      if depths[nm] is not None:
        lines.append('@Recursive(%s, %d);' % (nm, depths[nm]))
      lines.append('%s(x) distinct :- S(x);' % nm)
      lines.append('%s(y) distinct :- %s(x), E(x, y);' % (nm, nm))
    r.shuffle(lines)
    lines.remove('@Engine("sqlite");')
    text = '@Engine("sqlite");\n' + '\n'.join(lines) + '\n'
    jobs.append((text, names))
    metas.append(depths)
  with ProcessPoolExecutor(max_workers=4) as ex:
    results = list(ex.map(run_real, jobs, chunksize=1))
  checked = bad = 0
  for (text, names), depths, got in zip(jobs, metas, results):
    for nm in names:
      d = 8 if depths[nm] is None else depths[nm]
      want = logica_run.bag([(i,) for i in range(d + 1)])      # T^(d+1)(empty) on the chain 0 -> 1 -> ...
      res = got.get(nm)
      checked += 1
      if res is None or res[0] != 'ok' or res[1] != want:
        bad += 1
        if bad <= 3:
          rep.violation('multi-component:%s' % ('default' if depths[nm] is None else 'explicit'), {
              'program_text': text, 'predicate': nm, 'depths': depths,
              'law': 'each recursive component is applied exactly depth+1 times, depth = its own @Recursive value or 8',
              'expected_rows': d + 1, 'observed': [res[0], (len(res[1]) if res and res[0] == 'ok' else res[1])] if res else None,
              'how': 'props/c03.py run_real(program_text, [predicate]) (SQLite)'})
  return {'programs': n_prog, 'predicates_checked': checked, 'bad': bad}


def uncut_group_stream(rep, tier, r):
  """A mutually recursive group that no single member cuts (every member also recurses on itself), the @Recursive
  annotation on ANY member (or on none): the group is applied depth+1 times simultaneously, depth being the value
  the annotation gives, whichever member carries it."""
  import json as _json
  names_pool = ['Alpha', 'Beta', 'Gamma', 'Delta', 'Rho', 'Zed']
  n_prog = 4 if tier == 'quick' else 40
  jobs, metas = [], []
  for _ in range(n_prog):
    a, b = sorted(r.sample(names_pool, 2))
    annotated = r.choice([a, b, b, None])       # mostly the member that is not alphabetically first
    depth = r.choice([2, 3, 5, 11]) if annotated else None
    n = 16
    lines = ['E(x, x + 1) :- x in Range(%d);' % n, 'F(x, x + 1) :- x in Range(%d);' % n,
             '%s(x, y) distinct :- E(x, y);' % a, '%s(x, z) distinct :- %s(x, y), E(y, z);' % (a, b),
             '%s(x, z) distinct :- %s(x, y), F(y, z);' % (a, a), '%s(x, z) distinct :- %s(x, y), E(y, z);' % (b, a),
             '%s(x, z) distinct :- %s(x, y), F(y, z);' % (b, b)]
    if annotated:
      lines.append('@Recursive(%s, %d);' % (annotated, depth))
    r.shuffle(lines)
    text = '@Engine("sqlite");\n' + '\n'.join(lines) + '\n'
    jobs.append((text, [a, b]))
    metas.append((a, b, annotated, depth, n))
  with ProcessPoolExecutor(max_workers=4) as ex:
    results = list(ex.map(run_real, jobs, chunksize=1))
  checked = bad = 0
  for (text, names), (a, b, annotated, depth, n), got in zip(jobs, metas, results):
    d = 8 if depth is None else depth
    e = {(x, x + 1) for x in range(n)}
    join = lambda p, q: {(x, z) for (x, y) in p for (y2, z) in q if y == y2}
    ra, rb = set(), set()
    for _ in range(d + 1):
      ra, rb = (e | join(rb, e) | join(ra, e)), (join(ra, e) | join(rb, e))
    for nm, want in ((a, ra), (b, rb)):
      res = got.get(nm)
      checked += 1
      rows = set(tuple(_json.loads(x)) for x in res[1]) if res and res[0] == 'ok' else None
      if rows != want:
        bad += 1
        if bad <= 3:
          rep.violation('uncut-group:%s' % ('default' if annotated is None else ('first' if annotated == a else 'other')), {
              'program_text': text, 'predicate': nm, 'annotated': annotated, 'depth': depth,
              'law': 'a recursive group is applied exactly depth+1 times, depth = the @Recursive value of the group '
                     '(whichever member carries it) or 8',
              'expected_rows': len(want), 'observed': [res[0], (len(rows) if rows is not None else res[1])] if res else None,
              'how': 'props/c03.py run_real(program_text, [predicate]) (SQLite), rows compared as sets'})
  return {'programs': n_prog, 'predicates_checked': checked, 'bad': bad}


def two_iterative_stream(rep, tier, r):
  """Two recursive components that are both executed iteratively (depth > 20), the second a ring of 2-4 predicates
  sitting on top of the first: once converged within the depth, every member holds exactly its least fixpoint."""
  import json as _json
  n_prog = 4 if tier == 'quick' else 30
  jobs, metas = [], []
  for k in range(n_prog):
    n = r.randint(6, 12)
    ring = r.choice([2, 3, 3, 4]) if k else 3
    names = ['P%s' % c for c in 'abcd'[:ring]]
    first = r.choice(['Hop', 'Zhop'])       # sorts before or after the ring's members
    d1, d2 = r.choice([21, 25, 30]), r.choice([30, 40])
    lines = ['Next(x, x + 1) :- x in Range(%d);' % n, '@Recursive(%s, %d);' % (first, d1),
             '%s(x) distinct :- x == 0;' % first, '%s(y) distinct :- %s(x), Next(x, y);' % (first, first),
             'Edge(x, y) distinct :- %s(x), %s(y), y == x + 1;' % (first, first),
             '@Recursive(%s, %d);' % (r.choice(names), d2), '%s(x) distinct :- x == 0;' % names[0]]
    for i, nm in enumerate(names):
      prev = names[i - 1]
      lines.append('%s(y) distinct :- %s(x), Edge(x, y);' % (nm, prev))
    r.shuffle(lines)
    text = '@Engine("sqlite");\n' + '\n'.join(lines) + '\n'
    jobs.append((text, names))
    metas.append((n, ring, names))
  with ProcessPoolExecutor(max_workers=3) as ex:
    results = list(ex.map(run_real, jobs, chunksize=1))
  checked = bad = 0
  for (text, _), (n, ring, names), got in zip(jobs, metas, results):
    # least fixpoint: Hop = 0..n, Edge = (x, x+1) for x < n, names[i] holds the y with y % ring == i
    for i, nm in enumerate(names):
      want = set((y,) for y in range(n + 1) if y % ring == i)
      res = got.get(nm)
      checked += 1
      rows = set(tuple(_json.loads(x)) for x in res[1]) if res and res[0] == 'ok' else None
      if rows != want:
        bad += 1
        if bad <= 3:
          rep.violation('two-iterative-components:%s' % (res[0] if res and res[0] != 'ok' else 'rows'), {
              'program_text': text, 'predicate': nm, 'expected_rows': len(want),
              'observed': [res[0], (sorted(rows) if rows is not None else res[1])] if res else None,
              'law': 'a recursive component whose depth suffices to converge holds its least fixpoint, also when another '
                     'iteratively executed component is in the same program',
              'how': 'props/c03.py run_real(program_text, [predicate]) (SQLite, Concertina), rows compared as sets'})
  return {'programs': n_prog, 'predicates_checked': checked, 'bad': bad}


def aggregate_helper_stream(rep, tier, r):
  """A recursive component one of whose members reaches the recursion only inside an aggregating expression
  (Support counts the active predecessors, Active needs support): depth+1 simultaneous applications, for the
  iterative (depth > 20) and the flat plan."""
  import json as _json
  n_prog = 2 if tier == 'quick' else 16
  jobs, metas = [], []
  for k in range(n_prog):
    n = r.randint(30, 45)
    iterative = (k % 2 == 0)
    depth = r.randint(22, 28) if iterative else r.randint(5, 9)
    annotated = 'Active' if iterative else 'Support'    # Support does not cut the group (Active recurses on itself): flat plan
    lines = ['@Recursive(%s, %d);' % (annotated, depth), 'Node(x) :- x in Range(%d);' % n,
             'Edge(x, x + 1) :- x in Range(%d - 1);' % n, 'Threshold(x) = (if x == 0 then 0 else 1) :- Node(x);',
             'Seed(100);', 'Support(x) = Coalesce(Sum{1 :- Edge(y, x), Active(y)}, 0) :- Node(x);',
             'Active(x) :- Seed(x);', 'Active(x) :- Support(x) >= Threshold(x);',
             'OutActive(x) :- Active(x);']
    if not iterative:
      # Active also recurses on itself, so no single member cuts the group: flat (simultaneous) unfolding
      lines += ['Relay(1000);', 'Active(x) :- Relay(y), Edge(y, x), Active(y);']
    text = '@Engine("sqlite");\n' + '\n'.join(lines) + '\n'
    jobs.append((text, ['OutActive']))
    metas.append((n, depth))
  with ProcessPoolExecutor(max_workers=2) as ex:
    results = list(ex.map(run_real, jobs, chunksize=1))
  checked = bad = 0
  for (text, _), (n, depth), got in zip(jobs, metas, results):
    nodes = list(range(n))
    edges = [(x, x + 1) for x in range(n - 1)]
    active, support = set(), {}
    for _ in range(depth + 1):
      new_support = {x: sum(1 for (y, z) in edges if z == x and y in active) for x in nodes}
      new_active = {100} | {x for x in support if support[x] >= (0 if x == 0 else 1)}
      active, support = new_active, new_support
    want = set((x,) for x in active)
    res = got.get('OutActive')
    checked += 1
    rows = set(tuple(_json.loads(x)) for x in res[1]) if res and res[0] == 'ok' else None
    if rows != want:
      bad += 1
      if bad <= 2:
        rep.violation('aggregate-helper:%s' % (res[0] if res and res[0] != 'ok' else 'rows'), {
            'program_text': text, 'predicate': 'OutActive', 'expected_rows': len(want),
            'observed': [res[0], (sorted(rows) if rows is not None else res[1])] if res else None,
            'expected': sorted(want),
            'law': 'the rules of a recursive component are applied depth+1 times simultaneously, also when a member '
                   'reaches the recursion only inside an aggregating expression',
            'how': 'props/c03.py run_real(program_text, [predicate]) (SQLite, Concertina), rows compared as sets'})
  return {'programs': n_prog, 'predicates_checked': checked, 'bad': bad}


def preds_of(case):
  return list(SHAPES[case['shape']].members)


def run(tier, replay=None):
  rep = common.Report(PID, tier, 'proof')
  rep.assumptions = [
      'T (one simultaneous application of the rules of the component) is an arbitrary function in the count '
      'theorems and an arbitrary monotone function in the lattice theorems; that the SQL of one generation '
      'computes T is checked per instance by the SQLite runs (and is C01/C04 territory)',
      'iterative plans: Concertina runs every member once in dependency order and the @Iteration block '
      'max(repetitions,1) times where it stands (modelled for C14); tables are shared as @Ground says',
      'diamond mode (duckdb only) is not executed offline; depth 0 means "do not unfold" (rejected with a diagnostic)',
  ]
  gen_ok, gen_msg = recursion_params.generate()
  ok, info = proof.proof_stage(rep, PID, extra_trusted=[
      'translators/recursion_params.py (Python ast, fail closed) -> coq/gen/RecursionParams.v',
      'execution order of the iterative plan (Functors/Recursion.v iter_plan) is an assumption about Concertina',
      'correspondence harness props/c03.py (naive bounded iteration per program shape)'])
  r = common.rng('c03')
  if replay:
    with open(replay) as f:
      rp = json.load(f)
    if 'case' not in rp and 'program_text' in rp:
      # a stream violation: the program, the predicate and the number of rows it must have
      got = run_real((rp['program_text'], [rp['predicate']]))[rp['predicate']]
      n = len(set(got[1])) if got[0] == 'ok' else None
      print('replay: %s %s rows (as a set) %s, expected %s' % (rp['predicate'], got[0], n, rp.get('expected_rows')))
      if n != rp.get('expected_rows'):
        rep.violation(rp.get('key', 'replay'), dict(rp, observed=[got[0], n if n is not None else got[1]]))
      rep.coverage.update({'evaluations': 1, 'distinct_nontrivial': 1, 'rule': 'replay of one recorded program'})
      return rep.finish()
    cases = [rp['case']]
  else:
    cases = cases_for(tier, r)
  jobs = [(program_text(c), preds_of(c)) for c in cases]
  t0 = time.time()
  with ProcessPoolExecutor(max_workers=4) as ex:
    results = list(ex.map(run_real, jobs, chunksize=2))
  found = 0
  multi = multi_component_stream(rep, tier, r) if not replay else {}
  uncut = uncut_group_stream(rep, tier, r) if not replay else {}
  two_iter = two_iterative_stream(rep, tier, r) if not replay else {}
  agg_helper = aggregate_helper_stream(rep, tier, r) if not replay else {}
  stats = {'ok': 0, 'known': 0, 'bad': 0, 'by_shape': {}, 'by_depth': {}, 'iterative_plans': 0,
           'multi_component': multi, 'uncut_group': uncut, 'two_iterative_components': two_iter, 'aggregate_helper': agg_helper,
           'matched': {}, 'run_s': round(time.time() - t0, 1)}
  for c, got in zip(cases, results):
    verdict, detail = judge(c, got)
    stats['by_shape'][c['shape']] = stats['by_shape'].get(c['shape'], 0) + 1
    dk = 'default' if c['depth'] is None else str(c['depth'])
    stats['by_depth'][dk] = stats['by_depth'].get(dk, 0) + 1
    if any(v[2] for v in got.values()):
      stats['iterative_plans'] += 1
    if verdict == 'ok':
      stats['ok'] += 1
      if detail:
        stats['matched'][detail['matched']] = stats['matched'].get(detail['matched'], 0) + 1
      continue
    rp = {'case': c, 'program': program_text(c), 'problem': detail,
          'reproduce': 'write "program" to f.l; PYTHONPATH=$REPO python -c "from tools import run_in_terminal as t; '
                       'print(t.Run(\'f.l\', \'%s\'))"' % c['on']}
    if verdict.startswith('known:'):
      stats['known'] += 1
      key = verdict.split(':', 1)[1]
      if rep.violation(key, rp):
        found += 1
    else:
      stats['bad'] += 1
      found += 1
      if found <= 6:
        rep.violation('case:%s' % common.short_hash(c), rp)
  if not found:
    if not gen_ok:
      rep.violation('tie', {'broken': 'translators/recursion_params.py no longer recognises the source',
                            'message': gen_msg}, no_input=True)
    elif not ok:
      rep.violation('proof', {'broken': 'theories/Props/C03.v or its dependencies no longer check against the '
                                        'regenerated gen/RecursionParams.v',
                              'failing_files': info.get('failing'), 'excerpt': info.get('excerpt', '')[:3000]},
                    no_input=True)
  rep.coverage.update({
      'evaluations': sum(len(j[1]) for j in jobs),
      'distinct_nontrivial': len(set(common.canon(c) for c in cases)),
      'rule': 'one evaluation = one recursive predicate compiled and executed on SQLite and compared with the '
              'naive iteration; every case is recursive (non-trivial); shapes x depths listed in distribution',
      'exhaustive': False,
      'samples': [program_text(c) for c in cases[:1] + cases[40:41]],
      'distribution': stats,
  })
  return rep.finish()
