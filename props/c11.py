"""C11 — documented shorthand forms mean the same as their long forms."""
from vlib import common, proof
from props import coregen as G, corecheck as K, variants as V

PID = 'C11'
PROFILE = dict(named_cols=0.6, partial_args=0.3, inclusion=0.45, assign=0.6, lists=0.2, records=0.2, combine=0.4,
               disjunction=0.4, filter=0.4, negation=0.4, two_rules=0.3, distinct=0.35, aggregation=0.4,
               ifthenelse=0.3, builtins=0.3, func_calls=0.6, share_names=0.5, table_funcs=0.5, dup_calls=0.5, set_agg=0.0, value_agg=0.5, implication=0.4)


def run(tier, replay=None):
  rep = common.Report(PID, tier, 'other')
  rep.assumptions = [
      'each variant prints the SAME generated program in another documented form; its SQLite rows must equal the rows '
      'of the plain form (and the reference evaluator decides which side is right when they differ)',
  ]
  ok, info = proof.proof_stage(rep, PID, extra_trusted=['props/variants.py, props/coregen.py (the alternative printers)'])
  variants = [
      ('plain', lambda prog, r: G.p_program(prog)),
      ('positional_as_colN', lambda prog, r: G.p_program(prog, style={'explicit_cols': True})),
      ('field_shorthand', V.field_shorthand),
      ('value_as_logica_value', lambda prog, r: V.styled(prog, {'explicit_value': True}, ['logica_value'])),
      ('call_as_conjunct', V.lift_calls),
      ('single_equals', lambda prog, r: V.styled(prog, {'single_eq': True}, ['"unify"'])),
      ('negation_as_max_is_null', lambda prog, r: V.styled(prog, {'neg_long': True}, ['"not"'])),
      ('implication', lambda prog, r: V.styled(prog, {'implication': True}, ['"not"'])),
      ('combine_op_assign', lambda prog, r: V.styled(prog, {'combine_form': 1}, ['"combine"'])),
      ('combine_keyword', lambda prog, r: V.styled(prog, {'combine_form': 2}, ['"combine"'])),
      ('in_as_alternatives', V.in_as_alternatives),
      ('disjunction_as_rules', lambda prog, r: V.styled(prog, {'or_as_rules': True}, ['"or"'])),
  ]
  K.run_core(rep, PID, tier, PROFILE, variants, 40, 400, 'c11', replay=replay, ok=ok, info=info, metamorphic=True)
  return rep.finish()
