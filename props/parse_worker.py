"""Worker process: parses texts with the PY and/or CPP parser of $VERIF_REPO and reports hashes of the trees.

usage: parse_worker.py <in.json> <out.jsonl>   in: {"modes": [...], "cases": [{"id":..,"text":..,"root":..}], "full": bool}
One JSON line per case is flushed as soon as it is done (so a crash of the process identifies its case).
"""
import hashlib
import json
import os
import sys

REPO = os.environ.get('VERIF_REPO', '/repo')
sys.path.insert(0, REPO)
from parser_py import parse  # noqa: E402

MASKED = ('full_text', 'expression_heritage')


def canon(x):
  return json.dumps(x, sort_keys=True, ensure_ascii=False)


def h(x):
  return hashlib.sha256(canon(x).encode('utf-8', 'surrogatepass')).hexdigest()[:16]


def plain(x, masked, spans=None, bad=None):
  if isinstance(x, dict):
    return {str(k) if not isinstance(k, str) else k: plain(v, masked, spans, bad)
            for k, v in x.items() if not (masked and k in MASKED)}
  if isinstance(x, list):
    return [plain(v, masked, spans, bad) for v in x]
  if isinstance(x, parse.HeritageAwareString):
    if spans is not None:
      spans.append([x.start, x.stop])
      if x.heritage[x.start:x.stop] != str(x) or x.start < 0:
        bad.append({'text': str(x), 'start': x.start, 'stop': x.stop, 'heritage': x.heritage[:200]})
    return str(x)
  if isinstance(x, str):
    return str(x)
  return x


def blank_strings(x, acc):
  if isinstance(x, dict):
    out = {}
    for k in sorted(x):
      v = x[k]
      if k == 'the_string' and isinstance(v, str):
        acc.append(v)
        out[k] = '<S>'
      else:
        out[k] = blank_strings(v, acc)
    return out
  if isinstance(x, list):
    return [blank_strings(v, acc) for v in x]
  return x


def run(mode, text, root, full):
  os.environ['LOGICA_PARSER'] = mode
  try:
    rules = parse.ParseFile(text, import_root=root)['rule']
  except parse.ParsingException as e:
    return {'status': 'rej', 'msg': str(e)[:200]}
  except BaseException as e:  # noqa
    return {'status': 'crash', 'msg': '%s: %s' % (type(e).__name__, str(e)[:300])}
  spans, bad = [], []
  t_full = plain(rules, False, spans, bad)
  t_mask = plain(rules, True)
  strings = []
  t_nostr = blank_strings(t_mask, strings)
  res = {'status': 'ok', 'h_full': h(t_full), 'h_mask': h(t_mask), 'h_span': h(spans), 'nspans': len(spans),
         'bad_spans': bad[:3], 'nrules': len(rules), 'h_nostr': h(t_nostr), 'strings': strings}
  if full:
    res['tree'] = t_full
  return res


def main():
  with open(sys.argv[1]) as f:
    job = json.load(f)
  with open(sys.argv[2], 'w') as out:
    for c in job['cases']:
      res = {'id': c['id']}
      for mode in job['modes']:
        # announce the case first: if the native parser kills the process the harness knows which text did it
        out.write(json.dumps({'id': c['id'], 'begin': mode}) + '\n')
        out.flush()
        res[mode] = run(mode, c['text'], c.get('root'), job.get('full', False))
      out.write(json.dumps(res, ensure_ascii=False) + '\n')
      out.flush()


if __name__ == '__main__':
  main()
