"""Program transformations that must not change results (C07, C08, C11)."""
import copy

from props import coregen as G


# ---------------------------------------------------------------- C07: order and naming
def _shuffle_prop(p, r, conj=True, disj=True):
  if p is None or p[0] == 'c':
    c = p[1] if p else None
    if c and c[0] == 'not':
      cs = list(c[1])
      if conj:
        r.shuffle(cs)
      return ('c', ('not', [_shuffle_conj(x, r, conj) for x in cs]))
    return ('c', _shuffle_conj(c, r, conj)) if p else p
  items = [_shuffle_prop(q, r, conj, disj) for q in p[1]]
  if (p[0] == 'and' and conj) or (p[0] == 'or' and disj):
    r.shuffle(items)
  return (p[0], items)


def _shuffle_expr(e, r, conj):
  if not isinstance(e, tuple):
    return e
  if e[0] == 'combine':
    cs = [_shuffle_conj(c, r, conj) for c in e[3]]
    if conj:
      r.shuffle(cs)
    return ('combine', e[1], _shuffle_expr(e[2], r, conj), cs)
  if e[0] in ('bin',):
    return ('bin', e[1], _shuffle_expr(e[2], r, conj), _shuffle_expr(e[3], r, conj))
  if e[0] == 'if':
    return ('if',) + tuple(_shuffle_expr(x, r, conj) for x in e[1:])
  if e[0] in ('list',):
    return ('list', [_shuffle_expr(x, r, conj) for x in e[1]])
  if e[0] == 'rec':
    return ('rec', [(f, _shuffle_expr(x, r, conj)) for f, x in e[1]])
  if e[0] == 'field':
    return ('field', _shuffle_expr(e[1], r, conj), e[2])
  if e[0] == 'fun':
    return ('fun', e[1], [_shuffle_expr(x, r, conj) for x in e[2]])
  if e[0] == 'call':
    return ('call', e[1], [(f, _shuffle_expr(x, r, conj)) for f, x in e[2]])
  return e


def _shuffle_conj(c, r, conj):
  if c is None:
    return c
  k = c[0]
  if k == 'atom':
    return ('atom', c[1], [(f, _shuffle_expr(x, r, conj)) for f, x in c[2]])
  if k == 'cond':
    return ('cond', _shuffle_expr(c[1], r, conj))
  if k == 'unify':
    return ('unify', _shuffle_expr(c[1], r, conj), _shuffle_expr(c[2], r, conj))
  if k == 'in':
    return ('in', _shuffle_expr(c[1], r, conj), _shuffle_expr(c[2], r, conj))
  if k == 'not':
    cs = [_shuffle_conj(x, r, conj) for x in c[1]]
    if conj:
      r.shuffle(cs)
    return ('not', cs)
  return c


def permute(prog, r, rules=True, conj=True, disj=True):
  """Text of the program with statements, rules, conjuncts and disjuncts permuted."""
  stmts = []
  for d in prog:
    for rule in d['rules']:
      nr = dict(rule)
      if nr.get('body') is not None:
        nr['body'] = _shuffle_prop(nr['body'], r, conj, disj)
      nr['head'] = [(f, (hv[0], _shuffle_expr(hv[1], r, conj)) if hv[0] == 'e' else
                     (hv[0], hv[1], _shuffle_expr(hv[2], r, conj))) for f, hv in nr['head']]
      stmts.append(G.p_rule(d['name'], nr))
  if rules:
    r.shuffle(stmts)
  return '\n'.join(['@Engine("sqlite");'] + stmts) + '\n'


def permute_prog(prog, r):
  """The program (AST) with the conjuncts of every body permuted; statements and disjuncts stay where they are."""
  out = []
  for d in prog:
    rules = []
    for rule in d['rules']:
      nr = dict(rule)
      if nr.get('body') is not None:
        nr['body'] = _shuffle_prop(nr['body'], r, True, False)
      rules.append(nr)
    out.append(dict(d, rules=rules))
  return out


def _map_names(x, vf, pf):
  """Rename variables (vf) and predicates (pf) in an AST fragment."""
  if isinstance(x, tuple):
    if x and x[0] == 'var':
      return ('var', vf(x[1]))
    if x and x[0] in ('atom', 'call'):
      return (x[0], pf(x[1]), [(f, _map_names(e, vf, pf)) for f, e in x[2]])
    return tuple(_map_names(y, vf, pf) for y in x)
  if isinstance(x, list):
    return [_map_names(y, vf, pf) for y in x]
  return x


WORDS = ['Monthly', 'Active', 'Customer', 'Accounts', 'Snapshot', 'For', 'The', 'European', 'Region', 'Including', 'Trials',
         'Daily', 'Order', 'Lines', 'Joined', 'With', 'Returns', 'And', 'Refunds', 'Per', 'Warehouse']


def long_name(r, base, lo, hi):
  n = r.randint(lo, hi)
  out = base
  while len(out) < n:
    out += r.choice(WORDS)
  return out[:n]


def rename(prog, r, variables=True, predicates=True, long_names=False):
  """(text, {old predicate: new predicate}) with variables and predicates consistently renamed."""
  suffix = r.choice(['q', 'zz', '1x'])   # never produce the reserved prefix x_
  vf = (lambda v: v + suffix) if variables else (lambda v: v)
  pmap = {}
  if predicates:
    for d in prog:
      pmap[d['name']] = r.choice(['Rn', 'Ab', 'Xy']) + d['name']
      if long_names:    # names around the lengths at which aliases are derived differently (63 / 100 characters)
        lo, hi = r.choice([(40, 60), (64, 99), (64, 99), (90, 99)])   # 100 and more: see c07.long_name_probe
        pmap[d['name']] = long_name(r, pmap[d['name']] + 'Of', lo, hi)
  pf = lambda p: pmap.get(p, p)
  lines = ['@Engine("sqlite");']
  for d in prog:
    for rule in d['rules']:
      nr = dict(rule)
      nr['head'] = [(f, _map_names(hv, vf, pf)) for f, hv in rule['head']]
      nr['body'] = _map_names(rule.get('body'), vf, pf) if rule.get('body') is not None else None
      lines.append(G.p_rule(pf(d['name']), nr))
  return '\n'.join(lines) + '\n', pmap


# ---------------------------------------------------------------- C08: plan annotations
def annotate(prog, r, scratch=None):
  """Random assignment of @NoInject / @With / @NoWith / @Ground to derived predicates."""
  ann = []
  grounded = False
  derived = [d for d in prog if d['kind'] == 'table' and not d.get('ext')]
  for d in derived:
    k = r.random()
    if k < 0.2:
      ann.append('@NoInject(%s);' % d['name'])
    elif k < 0.4:
      ann.append('@With(%s);' % d['name'])
    elif k < 0.6:
      ann.append('@NoWith(%s);' % d['name'])
    elif k < 0.8 and not any(isinstance(t, tuple) for t in d['types'].values()):
      ann.append('@Ground(%s);' % d['name'])
      grounded = True
  if grounded:
    ann.insert(0, '@AttachDatabase("logica_home", ":memory:");')
  if not ann:
    return None
  return G.p_program(prog, annotations=ann)


def annotate_all(prog, which):
  derived = [d for d in prog if d['kind'] == 'table' and not d.get('ext')]
  ann = []
  for d in derived:
    if which == 'Ground':
      if any(isinstance(t, tuple) for t in d['types'].values()):
        continue
    ann.append('@%s(%s);' % (which, d['name']))
  if which == 'Ground' and ann:
    ann.insert(0, '@AttachDatabase("logica_home", ":memory:");')
  return G.p_program(prog, annotations=ann) if ann else None


# ---------------------------------------------------------------- C11: shorthand vs long forms
def _walk(x, fn):
  """Bottom-up rewriting of AST tuples/lists."""
  if isinstance(x, tuple):
    y = tuple(_walk(z, fn) for z in x)
    return fn(y)
  if isinstance(x, list):
    return [_walk(z, fn) for z in x]
  return x


def in_as_alternatives(prog, r):
  """`x in [a, b]` -> (x == a | x == b), in rule bodies (top level of the conjunction)."""
  changed = [False]
  out = []
  for d in prog:
    rules = []
    for rule in d['rules']:
      body = rule.get('body')
      if body and body[0] == 'and':
        items = []
        for q in body[1]:
          if q[0] == 'c' and q[1][0] == 'in' and q[1][2][0] == 'list' and 1 <= len(q[1][2][1]) <= 3 \
              and q[1][1][0] == 'var':
            changed[0] = True
            alts = [('c', ('unify', q[1][1], e)) for e in q[1][2][1]]
            items.append(('or', alts) if len(alts) > 1 else alts[0])
          else:
            items.append(q)
        rule = dict(rule, body=('and', items))
      rules.append(rule)
    out.append(dict(d, rules=rules))
  return G.p_program(out) if changed[0] else None


def lift_calls(prog, r, shuffle_body=False):
  """A functional call in an expression -> an extra conjunct binding logica_value (appended to the body; with
  shuffle_body the conjuncts of the new body are permuted - used when looking for a conjunct order that compiles)."""
  changed = [False]
  out = []
  for d in prog:
    rules = []
    for rule in d['rules']:
      extra = []
      counter = [0]

      def fn(y):
        if y and y[0] == 'call':
          counter[0] += 1
          v = 'lv%d' % counter[0]
          extra.append(('c', ('atom', y[1], list(y[2]) + [('logica_value', ('var', v))])))
          changed[0] = True
          return ('var', v)
        return y

      def lift_top(x):
        # do not lift out of combines / negations (their calls belong to the inner scope) nor out of a
        # disjunction (a call joins only inside its own alternative)
        if isinstance(x, tuple):
          if x and x[0] in ('combine', 'not', 'or'):
            return x
          return fn(tuple(lift_top(z) for z in x))
        if isinstance(x, list):
          return [lift_top(z) for z in x]
        return x

      head = [(f, lift_top(hv)) for f, hv in rule['head']]
      body = lift_top(rule.get('body')) if rule.get('body') is not None else None
      if extra:
        items = (list(body[1]) if body and body[0] == 'and' else ([body] if body else [])) + extra
        if shuffle_body:
          r.shuffle(items)
        body = ('and', items)
      rules.append(dict(rule, head=head, body=body))
    out.append(dict(d, rules=rules))
  return G.p_program(out) if changed[0] else None


lift_calls.reorder = lambda prog, r: lift_calls(prog, r, shuffle_body=True)


def field_shorthand(prog, r):
  """Rename a variable to the name of the field it is passed to, then print `f:` for `f: f`."""
  changed = [False]
  out = []
  for d in prog:
    rules = []
    for rule in d['rules']:
      names = set()
      _walk((rule['head'], rule.get('body')), lambda y: (names.add(y[1]) if y and y[0] == 'var' else None) or y)
      pairs = {}

      def see(y):
        if y and y[0] in ('atom', 'call'):
          for f, e in y[2]:
            if isinstance(f, str) and f != 'logica_value' and e[0] == 'var' and f not in names and \
                e[1] not in pairs and f not in pairs.values():
              pairs[e[1]] = f
        return y
      _walk(rule.get('body'), see)
      for f, hv in rule['head']:
        if isinstance(f, str) and f != 'logica_value' and hv[0] == 'e' and hv[1][0] == 'var' and \
            f not in names and hv[1][1] not in pairs and f not in pairs.values():
          pairs[hv[1][1]] = f
      if pairs:
        changed[0] = True
        ren = lambda y: ('var', pairs.get(y[1], y[1])) if y and y[0] == 'var' else y
        rule = dict(rule, head=[(f, _walk(hv, ren)) for f, hv in rule['head']],
                    body=_walk(rule.get('body'), ren) if rule.get('body') is not None else None)
      rules.append(rule)
    out.append(dict(d, rules=rules))
  return G.p_program(out, style={'field_shorthand': True}) if changed[0] else None


def styled(prog, style, needs):
  import json
  from props import corerun as R
  s = json.dumps(R.serial(prog))
  if needs and not any(n in s for n in needs):
    return None
  return G.p_program(prog, style=style)


def _vars_of(x, acc, inside=False, only_inside=False):
  """Variable names of an AST fragment; only_inside: those occurring inside combines / negations."""
  if isinstance(x, tuple):
    if x and x[0] == 'var':
      if inside or not only_inside:
        acc.add(x[1])
      return acc
    ins = inside or (bool(x) and x[0] in ('combine', 'not'))
    for y in x:
      _vars_of(y, acc, ins, only_inside)
  elif isinstance(x, list):
    for y in x:
      _vars_of(y, acc, inside, only_inside)
  return acc


def capture_bait(prog, r):
  """Pure renaming that provokes variable capture under injection: a caller's variable that is passed to a
  predicate is given the name of a variable local to a combine / negation of that predicate's rule."""
  locals_of = {}
  for d in prog:
    if d.get('ext') or len(d['rules']) != 1:
      continue
    rule = d['rules'][0]
    inside = _vars_of((rule['head'], rule.get('body')), set(), only_inside=True)
    outside = set()

    def outer(x):
      if isinstance(x, tuple):
        if x and x[0] == 'var':
          outside.add(x[1])
        elif x and x[0] in ('combine', 'not'):
          return
        else:
          for y in x:
            outer(y)
      elif isinstance(x, list):
        for y in x:
          outer(y)
    outer((rule['head'], rule.get('body')))
    loc = sorted(inside - outside)
    if loc:
      locals_of[d['name']] = loc
  if not locals_of:
    return None
  changed = False
  out = []
  for d in prog:
    rules = []
    for rule in d['rules']:
      names = _vars_of((rule['head'], rule.get('body')), set())
      ren = {}

      def see(x):
        if isinstance(x, tuple):
          if x and x[0] in ('atom', 'call') and x[1] in locals_of:
            for f, e in x[2]:
              if e[0] == 'var' and e[1] not in ren:
                cands = [l for l in locals_of[x[1]] if l not in names and l not in ren.values()]
                if cands:
                  ren[e[1]] = r.choice(cands)
          for y in x:
            see(y)
        elif isinstance(x, list):
          for y in x:
            see(y)
      see(rule.get('body'))
      if ren:
        changed = True
        f = lambda y: ('var', ren.get(y[1], y[1])) if y and y[0] == 'var' else y
        rule = dict(rule, head=[(fl, _walk(hv, f)) for fl, hv in rule['head']],
                    body=_walk(rule.get('body'), f) if rule.get('body') is not None else None)
      rules.append(rule)
    out.append(dict(d, rules=rules))
  return G.p_program(out) if changed else None


def siblings_share_local_names(prog, r):
  """Pure renaming: the variables local to sibling combines / negations of one rule get the same names
  (their scopes are disjoint, so nothing changes)."""
  changed = [False]
  out = []
  for d in prog:
    rules = []
    for rule in d['rules']:
      body = rule.get('body')
      if body is None:
        rules.append(rule)
        continue
      scopes = []

      def find(x, inside):
        if isinstance(x, tuple):
          if x and x[0] in ('combine', 'not') and not inside:
            scopes.append(x)
            return
          for y in x:
            find(y, inside)
        elif isinstance(x, list):
          for y in x:
            find(y, inside)
      find((rule['head'], body), False)
      if len(scopes) < 2:
        rules.append(rule)
        continue
      allv = _vars_of((rule['head'], body), set())
      outside = set()

      def outer(x):
        if isinstance(x, tuple):
          if x and x[0] == 'var':
            outside.add(x[1])
          elif x and x[0] in ('combine', 'not'):
            return
          else:
            for y in x:
              outer(y)
        elif isinstance(x, list):
          for y in x:
            outer(y)
      outer((rule['head'], body))
      inner_sets = [_vars_of(sc, set()) - outside for sc in scopes]
      # a local must belong to exactly one scope
      locs = [sorted(v for v in s0 if sum(v in t for t in inner_sets) == 1) for s0 in inner_sets]
      k = min(len(l) for l in locs)
      if k == 0:
        rules.append(rule)
        continue
      fresh = [n for n in ['lv', 'lw', 'lu'] if n not in allv][:k]
      mapping = {}
      for l in locs:
        for i, n in enumerate(fresh):
          mapping[l[i]] = n
      changed[0] = True
      f = lambda y: ('var', mapping.get(y[1], y[1])) if y and y[0] == 'var' else y
      rules.append(dict(rule, head=[(fl, _walk(hv, f)) for fl, hv in rule['head']], body=_walk(body, f)))
    out.append(dict(d, rules=rules))
  return G.p_program(out) if changed[0] else None
