"""C06 — the C++ and Python parsers accept the same programs and build the same rules.

Level: other.  The agreement of two implementations is decided per instance by a direct
differential run (worker processes; the shared object is rebuilt from the current
parser_cpp/logica_parse.cpp into a scratch cache on every run).  The Coq content
(coq/theories/Props/C06.v) are the lexical theorems both parsers are held to.

Inputs: grammar-derived programs (props/textgen.py), their layout variants, single-token
corruptions, raw lexical junk, non-ASCII literals, the repository's integration_tests/*.l corpus,
a small import case.  Both must accept / reject together and the rule lists must be equal
(main-file rules in order; texts of expression_heritage / full_text included, as
parser_cpp/compare_integration_parse.py compares them).
"""
import glob
import json
import os
import re
import shutil
import tempfile
import time

from vlib import common, proof
from props import lexobs, parsers, textgen

PID = 'C06'


def import_cases(tmp):
  """DESIGN section 9 item 2: two imported files with the same base name."""
  root = os.path.join(tmp, 'imp')
  for d in ('a', 'b'):
    os.makedirs(os.path.join(root, 'lib', d), exist_ok=True)
  with open(os.path.join(root, 'lib', 'a', 'util.l'), 'w') as f:
    f.write('F(x) :- x == 1;\n')
  with open(os.path.join(root, 'lib', 'b', 'util.l'), 'w') as f:
    f.write('G(x) :- x == 2;\n')
  with open(os.path.join(root, 'lib', 'a', 'one.l'), 'w') as f:
    f.write('H(x) :- x == 3;\n')
  files = {'lib/a/util.l': 'F(x) :- x == 1;\n', 'lib/b/util.l': 'G(x) :- x == 2;\n', 'lib/a/one.l': 'H(x) :- x == 3;\n'}
  # file names whose prefix (capitalised base name) is not just "first letter upper": helper predicates of the
  # imported file are renamed with that prefix
  for base in ('geoUtil', 'GEO', 'x_y', 'u2B', 'mIxEd'):
    body = 'Area%s(x) :- Unit(x), Unit(y);\nUnit(x) :- x == 1;\n' % base.replace('_', '')
    files['lib/a/%s.l' % base] = body
    with open(os.path.join(root, 'lib', 'a', base + '.l'), 'w') as f:
      f.write(body)
  cased = [('import:file-name-case:%s' % base,
            'import lib.a.%s.Area%s;\nQ(x) :- Area%s(x);\n' % (base, base.replace('_', ''), base.replace('_', '')))
           for base in ('geoUtil', 'GEO', 'x_y', 'u2B', 'mIxEd')]
  cased.append(('import:file-name-case:two', 'import lib.a.geoUtil.AreageoUtil;\nimport lib.a.GEO.AreaGEO;\n'
                'Q(x) :- AreageoUtil(x), AreaGEO(x);\n'))
  return root, files, cased + [
      ('import:single', 'import lib.a.one.H;\nQ(x) :- H(x);\n'),
      ('import:two-files', 'import lib.a.one.H;\nimport lib.b.util.G;\nQ(x) :- H(x), G(x);\n'),
      ('import:two-files-reverse-alphabetical', 'import lib.b.util.G;\nimport lib.a.one.H;\nQ(x) :- H(x), G(x);\n'),
      ('import:same-base-name', 'import lib.a.util.F;\nimport lib.b.util.G;\nQ(x) :- F(x), G(x);\n'),
      ('import:unused', 'import lib.a.one.H;\nQ(x) :- x == 1;\n'),
      ('import:missing-file', 'import lib.c.none.H;\nQ(x) :- H(x);\n'),
  ]


PROBES = [
    ('probe:number-space-unsigned-suffix', 'P(10 u);'),
    ('probe:bar-adjacent-to-separator', 'P(a: 1,|b: 2);'),
    ('probe:python-only-whitespace', 'P(1);\x85 '),
    ('probe:non-ascii-string', 'P("é→中", x) :- Q(x, "ß");'),
    ('probe:double-bar', 'P(x) :- x == "a" || "b", (Q(x) | R(x));'),
    ('probe:empty-subscript', 'P(x[ ]);'),
    ('probe:denotation-inside-identifier', 'X(u) += My_limit(0, d, c: e);'),
    ('probe:octal-escape-in-single-quoted-string', "P('\\101');"),
    ('probe:big-U-escape-in-single-quoted-string', "P('\\U0001F600');"),
    ('probe:bell-backspace-formfeed-escapes', "P('\\a\\b\\f\\v');"),
    ('probe:aggregated-field-before-rest', 'Q(a:, b? += x, ..r) distinct :- T(a:, x:, ..r);'),
    ('probe:only-aggregated-fields-before-rest', 'Q(b? Max= x, c? += 1, ..r) distinct :- T(x:, ..r);'),
    ('probe:positional-then-rest', 'Q(x, y, ..r) :- T(x, y, ..r), R(..r);'),
    ('probe:empty-parentheses-as-combine-body', 'Q() :- x ArgMax= (a :- ());'),
    ('probe:line-break-in-single-quoted-string', "P('a\nb');"),
]


def classify(text):
  """Stable keys for the classes of disagreement that are recorded as known findings."""
  if any(ch.isspace() and ch not in ' \t\n\r\x0b\x0c' for ch in text):
    return 'diff:python-only-whitespace'
  if re.search(r'\d\s+u(?![A-Za-z0-9_])', text):
    return 'diff:number-space-unsigned-suffix'
  if re.search(r'[^|\s\w()\[\]{}"\'`]\|(?!\|)|(?<!\|)\|[^|\s\w()\[\]{}"\'`]', text):
    return 'diff:bar-adjacent-to-separator'
  if re.search(r'[A-Za-z0-9_]\s*\[\s*\]', text):
    return 'diff:empty-subscript'
  if re.search(r'[A-Za-z0-9]_(limit|order_by)\s*\(', text):
    return 'diff:denotation-inside-identifier'
  if re.search(r':-\s*\(\s*\)', text):
    return 'diff:empty-parentheses-as-body'
  return None


def accept_class(x):
  return 'ok' if x['status'] == 'ok' else 'rejected'


def judge(rp, rc):
  """Returns None or a description."""
  if rp['status'] == 'crash' and 'worker process died' in rp.get('msg', ''):
    return 'the Python parser killed the process: %s' % rp['msg']
  if rc['status'] == 'crash' and 'worker process died' in rc.get('msg', ''):
    return 'the C++ parser killed the process: %s' % rc['msg']
  if rc['status'] == 'crash':
    return 'the C++ bridge raised something that is not a ParsingException: %s' % rc.get('msg')
  a, b = accept_class(rp), accept_class(rc)
  if a != b:
    return 'Python parser: %s (%s); C++ parser: %s (%s)' % (
        rp['status'], rp.get('msg', ''), rc['status'], rc.get('msg', ''))
  if a == 'ok' and rp['h_full'] != rc['h_full']:
    return 'both accept, rules differ' + ('' if rp['h_mask'] != rc['h_mask'] else ' (only in expression_heritage / full_text texts)')
  return None


def run(tier, replay=None):
  rep = common.Report(PID, tier, 'other')
  rep.assumptions = [
      'equivalence of the two parsers is NOT proved: differential testing on generated and corpus inputs',
      'the Coq theorems (Props/C06.v) are the lexical laws of the common scanner/splitter model (Lex/*.v), tied to parse.py by C15',
      'a non-ParsingException raised by the Python parser (assert) counts as rejection, a C++ bridge failure or process death does not',
  ]
  ok, info = proof.proof_stage(rep, PID, extra_trusted=['differential harness props/c06.py, props/parsers.py, props/parse_worker.py',
                                                        'generator props/textgen.py', 'g++'])
  tmp = tempfile.mkdtemp(prefix='lv_c06_')
  try:
    return _run(rep, tier, replay, ok, info, tmp)
  finally:
    shutil.rmtree(tmp, ignore_errors=True)


def _run(rep, tier, replay, ok, info, tmp):
  r = common.rng('c06')
  t0 = time.time()
  okb, blog = parsers.build_cpp()
  t_build = round(time.time() - t0, 1)
  if not okb:
    rep.violation('cpp-build', {'what': 'parser_cpp/logica_parse.cpp does not build with the command of logica_parse_cpp.py',
                                'log': blog}, no_input=True)
    return rep.finish()

  cases = []
  meta = {}

  def add(kind, key, text, root=None, files=None):
    cid = len(cases) + 1
    c = {'id': cid, 'text': text}
    if root:
      c['root'] = root
    cases.append(c)
    meta[cid] = {'kind': kind, 'key': key, 'files': files}

  if replay:
    with open(replay) as f:
      rp = json.load(f)
    root = None
    if rp.get('files'):
      root = os.path.join(tmp, 'replay')
      for name, content in rp['files'].items():
        os.makedirs(os.path.dirname(os.path.join(root, name)), exist_ok=True)
        with open(os.path.join(root, name), 'w') as f:
          f.write(content)
    elif rp.get('corpus'):
      root = common.REPO
    add(rp.get('kind', 'replay'), rp.get('key', 'replay'), rp['text'], root, rp.get('files'))
  else:
    nprog, ncorrupt, njunk = (150, 3, 250) if tier == 'quick' else (3000, 5, 6000)
    for i in range(nprog):
      g = textgen.Gen(r)
      toks = g.program()
      vis = textgen.visible(toks)
      for style in (0, 1):
        add('program', None, textgen.render(toks, style))
      idxs = [j for j in range(len(vis) - 1) if textgen.boundary(vis[j], vis[j + 1]) != 'glue']
      for _ in range(3):
        noise = {}
        for j in r.sample(idxs, min(len(idxs), r.randint(1, 5))):
          noise[j] = (textgen.rand_noise(r)[1], r.randint(0, 1))
        ids = textgen.pair_ids(toks)
        add('layout', None, textgen.render(toks, r.randint(0, 1), noise, [p for p in ids if r.random() < 0.4],
                                           r.choice(['', '', ';', '\n'])))
      for _ in range(ncorrupt):
        kind, ctoks = textgen.corrupt(r, toks)
        add('corrupt:' + kind, None, textgen.render(ctoks, r.randint(0, 1)))
    for i in range(njunk):
      k = r.random()
      if k < 0.4:
        add('junk', None, lexobs.rand_lex_string(r))
      elif k < 0.7:
        add('junk-statement', None, 'P(%s) :- Q(%s);' % (lexobs.rand_fragment(r), lexobs.rand_lex_string(r)))
      else:
        s = ''.join(r.choice(['é', 'ß', '→', '中', '\xa0', 'a', ' ', ',', '(', ')', '𝔘', 'λ', ' '])
                    for _ in range(r.randint(1, 6)))
        add('non-ascii', None, r.choice(['P("%s", x) :- Q(x, "%s") ;', 'P(x) :- x == "%s" ++ `%s`(y);',
                                         'P(x) :- x in ["%s"], Q%s(x);', '# %s\nP("%s");', 'P(%s: 1) :- Q(%s);']) % (s, s))
    for path in sorted(glob.glob(os.path.join(common.REPO, 'integration_tests', '*.l'))):
      with open(path, encoding='utf-8') as f:
        add('corpus', 'corpus:' + os.path.basename(path), f.read(), common.REPO)
    for key, text in PROBES:
      add('probe', key, text)
    root, files, imps = import_cases(tmp)
    for key, text in imps:
      add('import', key, text, root, files)
    # several import roots, NOT in alphabetical order, a module present under both: the first root wins in both parsers
    root_a = os.path.join(tmp, 'aaa_second_root')
    os.makedirs(os.path.join(root_a, 'lib', 'a'), exist_ok=True)
    with open(os.path.join(root_a, 'lib', 'a', 'one.l'), 'w') as f:
      f.write('H(x) :- x == 33;\n')
    with open(os.path.join(root_a, 'lib', 'a', 'only_second.l'), 'w') as f:
      f.write('K(x) :- x == 44;\n')
    files2 = dict(files, **{'<second root>/lib/a/one.l': 'H(x) :- x == 33;\n', '<second root>/lib/a/only_second.l': 'K(x) :- x == 44;\n'})
    add('import', 'import:two-roots-shadowed-module', 'import lib.a.one.H;\nQ(x) :- H(x);\n', [root, root_a], files2)
    add('import', 'import:two-roots-module-in-second', 'import lib.a.only_second.K;\nimport lib.a.one.H;\nQ(x) :- H(x), K(x);\n',
        [root, root_a], files2)

  t0 = time.time()
  res = parsers.parse_all(cases, workers=4)
  t_parse = round(time.time() - t0, 1)

  found = 0
  stats = {'by_kind': {}, 'both_ok': 0, 'both_rejected': 0, 'py_assert_vs_cpp_reject': 0}
  bad = {}
  for c in cases:
    m = meta[c['id']]
    rr = res.get(c['id'])
    if not rr or 'PY' not in rr or 'CPP' not in rr or rr['CPP'].get('status') == 'skipped' or rr['PY'].get('status') == 'skipped':
      continue
    kind = m['kind'].split(':')[0]
    stats['by_kind'][kind] = stats['by_kind'].get(kind, 0) + 1
    why = judge(rr['PY'], rr['CPP'])
    if rr['PY']['status'] == 'ok' and rr['CPP']['status'] == 'ok':
      stats['both_ok'] += 1
    elif why is None:
      stats['both_rejected'] += 1
      if rr['PY']['status'] == 'crash':
        stats['py_assert_vs_cpp_reject'] += 1
    if why:
      key = m['key'] or 'diff:%s:%s' % (kind, common.short_hash(c['text']))
      if not m['key']:
        key = classify(c['text']) or key
        if key.startswith('diff:%s:' % kind) and 'SyntaxError' in why and "'" in c['text'] and rr['CPP']['status'] == 'ok':
          # parse.py hands single-quoted literals to Python's own literal reader
          key = 'diff:python-literal-reader-crash'
      bad.setdefault(kind, []).append((len(c['text']), key, c, m, why))
  for kind, lst in sorted(bad.items()):
    lst.sort(key=lambda x: x[0])
    shown = lst if kind in ('corpus', 'import', 'probe') else lst[:3]
    for _, key, c, m, why in shown:
      rpl = {'text': c['text'], 'kind': m['kind'], 'what': why, 'count_of_this_kind': len(lst)}
      if m['files']:
        rpl['files'] = m['files']
      if kind == 'corpus':
        rpl['corpus'] = True
      if rep.violation(key, rpl):
        found += 1
  if replay:
    for c in cases:
      rr = res[c['id']]
      print('replay: PY %s %s | CPP %s %s' % (rr['PY']['status'], rr['PY'].get('msg', rr['PY'].get('h_full')),
                                              rr['CPP']['status'], rr['CPP'].get('msg', rr['CPP'].get('h_full'))))
    return rep.finish()
  if not ok and not found:
    rep.violation('proof', {'broken': 'theories/Props/C06.v or its dependencies no longer check',
                            'failing_files': info.get('failing'), 'excerpt': info.get('excerpt', '')[:3000]}, no_input=True)
  rep.coverage.update({
      'evaluations': 2 * len(cases),
      'distinct_nontrivial': len(set(c['text'] for c in cases if len(c['text']) > 8)),
      'rule': 'one text parsed by both parsers = 2 evaluations; non-trivial = text longer than 8 characters',
      'exhaustive': False,
      'samples': [{'kind': meta[c['id']]['kind'], 'text': c['text'][:300]} for c in cases[:2] + cases[5:7]],
      'distribution': dict(stats, disagreements={k: len(v) for k, v in bad.items()},
                           timing={'cpp_build_s': t_build, 'parse_s': t_parse}),
  })
  return rep.finish()
