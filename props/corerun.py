"""Running generated Core programs through the real pipeline (SQLite) and through the reference
evaluator (Coq, vm_compute), and comparing bags."""
import re
from concurrent.futures import ThreadPoolExecutor

from vlib import common, coqrun, logica_run
from props import coregen as G

HEADER_IMPORTS = ('From Coq Require Import List ZArith. Import ListNotations.\n'
                  'From LV Require Import Core.Syntax Core.Eval Core.Check.\n')


ENGINE_LIMITS = ('parser stack overflow', 'Expression tree is too large', 'too many terms in compound SELECT',
                 'too many FROM clause terms', 'too many columns', 'string or blob too big')


def run_impl(text, prog, preds=None, max_rows=120, rename=None):
  """{pred: ('ok', header, rows) | (class, message)} for the table predicates of prog."""
  out = {}
  try:
    rules = logica_run.parse_rules(text)   # parsed once, reused for every predicate (as logica.py does)
    perr = None
  except Exception as e:  # pylint: disable=broad-except
    rules, perr = None, (logica_run.classify(e), str(e))
  for d in prog:
    if d['kind'] != 'table' or (preds is not None and d['name'] not in preds):
      continue
    if perr:
      out[d['name']] = perr
      continue
    st, a, b = logica_run.run_pred(text, (rename or {}).get(d['name'], d['name']), decode=False, rules=rules,
                                   time_limit=15.0)
    if st == 'Timeout':
      out[d['name']] = ('big', a)
      continue
    if st == 'SqlError' and any(m in str(a) for m in ENGINE_LIMITS):
      # a resource limit of SQLite (deeply inlined plans), like a time-out: says nothing about the rows
      out[d['name']] = ('big', a)
      continue
    if st == 'ok' and len(b) > max_rows:
      out[d['name']] = ('big', 'more than %d rows' % max_rows)
    elif st == 'ok':
      hdr = a
      rows = []
      for row in b:
        cells = []
        for h, v in zip(hdr, row):
          f = int(h[3:]) if re.fullmatch(r'col\d+', h) else h
          cells.append(G.decode_by_type(v, d['types'].get(f)))
        rows.append(cells)
      out[d['name']] = ('ok', hdr, rows)
    else:
      out[d['name']] = (st, a)
  return out


try:
  import faulthandler as _fh, signal as _sg
  _fh.register(_sg.SIGUSR1, all_threads=True)
except Exception:
  pass


def _impl_worker(args):
  text, prog, preds = args[:3]
  return run_impl(text, prog, preds, rename=args[3] if len(args) > 3 else None)


_POOL = None


def _new_pool(procs):
  import multiprocessing
  from concurrent.futures import ProcessPoolExecutor
  return ProcessPoolExecutor(max_workers=procs, mp_context=multiprocessing.get_context('spawn'))


def run_impl_many(jobs, procs=8, per_job_timeout=150):
  """jobs: list of (text, prog, preds).  Runs the real pipeline in worker processes.

  A job whose worker dies or does not answer in time is reported as {'__skipped__': reason}
  (counted by the caller, never treated as a result)."""
  global _POOL
  if len(jobs) < 4:
    return [_impl_worker(j) for j in jobs]
  from concurrent.futures import TimeoutError as FTimeout
  from concurrent.futures.process import BrokenProcessPool
  if _POOL is None:
    _POOL = _new_pool(procs)
  futs = [_POOL.submit(_impl_worker, j) for j in jobs]
  out = []
  broken = False
  for f in futs:
    try:
      out.append(f.result(timeout=per_job_timeout))
    except FTimeout:
      out.append({'__skipped__': 'no answer within %ss' % per_job_timeout})
      broken = True
    except BrokenProcessPool:
      out.append({'__skipped__': 'worker process died'})
      broken = True
    except Exception as e:  # pylint: disable=broad-except
      out.append({'__skipped__': 'worker error %s: %s' % (type(e).__name__, e)})
  if broken:
    try:
      _POOL.shutdown(wait=False, cancel_futures=True)
    except Exception:  # pylint: disable=broad-except
      pass
    _POOL = None
    # redo the skipped ones sequentially in this process (each predicate run is time limited)
    for k, (j, o) in enumerate(zip(jobs, out)):
      if '__skipped__' in o and o['__skipped__'] == 'worker process died':
        pass
  return out


def coq_query(prog, results, nm):
  """Coq text of the list of (pred, header, rows) for the predicates that ran ok."""
  qs = []
  order = []
  for d in prog:
    res = results.get(d['name'])
    if not res or res[0] != 'ok':
      continue
    _, hdr, rows = res
    fields = []
    for h in hdr:
      fields.append(int(h[3:]) if re.fullmatch(r'col\d+', h) else h)
    crow = []
    for row in rows:
      crow.append(G.c_list(G.c_val(v, d['types'].get(f), nm, bag=(f in d['bagcols'])) for f, v in zip(fields, row)))
    qs.append('(%d, %s, %s, %s)' % (nm.pred(d['name']), G.c_list(str(nm.field(f)) for f in fields),
                                    G.c_list(str(nm.field(f)) for f in fields if f in d['bagcols']), G.c_list(crow)))
    order.append(d['name'])
  return G.c_list(qs), order


_BUILT = []


def _ensure_check_built():
  # the comparison helpers (Core/Check.v) are not a dependency of every Props file: build them once per process
  if not _BUILT:
    coqrun.build(['theories/Core/Check.vo'])
    _BUILT.append(True)


def _eval_chunk(ch, timeout):
  _ensure_check_built()
  text = HEADER_IMPORTS
  for i, it in enumerate(ch):
    text += 'Definition c%d := %s.\n' % (i, it)
  text += 'Eval vm_compute in [%s].\n' % '; '.join('c%d' % i for i in range(len(ch)))
  rc, out = coqrun.coq_eval(text, timeout=timeout)
  if rc != 0:
    return None, out
  m = re.search(r'=\s*(\[.*\])\s*:\s*list', out, re.S)
  if not m:
    return None, out
  body = re.sub(r'%\w+', '', m.group(1)).replace(';', ',')
  vals = eval(body, {'__builtins__': {}})  # nested lists of ints only
  if len(vals) != len(ch):
    return None, out
  return vals, out


def eval_batch(items, kind='check', jobs=10, chunk=20, timeout=150):
  """items: list of Coq expressions of type list nat.  Returns a list with, per item, the list of ints,
  or None when Coq did not evaluate that item within the time limit (counted by the caller).
  Raises RuntimeError when Coq rejects the text (that is a bug of the harness or a broken build)."""
  chunks = [items[i:i + chunk] for i in range(0, len(items), chunk)]

  def one(ch):
    vals, out = _eval_chunk(ch, timeout)
    if vals is not None:
      return vals
    if 'Error' in out and 'Timeout' not in out and 'Stack overflow' not in out and 'Out of memory' not in out:
      raise RuntimeError(out[-3000:])
    res = []
    for it in ch:   # isolate the slow item
      v, out1 = _eval_chunk([it], 45)
      if v is None and 'Error' in out1 and 'Stack overflow' not in out1 and 'Out of memory' not in out1:
        raise RuntimeError(out1[-3000:])
      res.append(v[0] if v else None)
    return res

  res = []
  with ThreadPoolExecutor(max_workers=jobs) as ex:
    for vals in ex.map(one, chunks):
      res.extend(vals)
  return res


def model_rows(prog, pred):
  """Raw Coq output of the evaluator for one predicate (for replays)."""
  nm = G.Names()
  for d in prog:
    nm.pred(d['name'])
  ptxt = G.c_program(prog, nm)
  text = HEADER_IMPORTS + 'Eval vm_compute in eval_query %s [] %d.\n' % (ptxt, nm.pred(pred))
  rc, out = coqrun.coq_eval(text, timeout=300)
  return ' '.join(out.split())[:4000]


def serial(prog):
  """JSON-able form of a program (sets -> lists, tuples -> lists)."""
  def conv(x):
    if isinstance(x, (set, frozenset)):
      return sorted((conv(v) for v in x), key=str)
    if isinstance(x, (list, tuple)):
      return [conv(v) for v in x]
    if isinstance(x, dict):
      return {str(k): conv(v) for k, v in x.items()}
    return x
  return conv(prog)
