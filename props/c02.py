"""C02 — aggregation, distinct and negation follow the documented semantics."""
from vlib import common, proof
from props import coregen as G, corecheck as K, variants as V

PID = 'C02'
PROFILE = dict(named_cols=0.4, partial_args=0.3, inclusion=0.2, assign=0.5, lists=0.2, records=0.2, combine=0.55,
               disjunction=0.2, filter=0.4, negation=0.45, two_rules=0.4, distinct=0.5, aggregation=0.6,
               ifthenelse=0.3, builtins=0.3, func_calls=0.3, share_names=0.5, multi_combine=0.6, set_agg=0.25)


def uses_c02(prog):
  import json
  from props import corerun as R
  s = json.dumps(R.serial(prog))
  return '"agg"' in s or '"combine"' in s or '"not"' in s or any(d.get('distinct') for d in prog)


def run(tier, replay=None):
  rep = common.Report(PID, tier, 'other')
  if replay and K.replay_program_rows(rep, replay):
    return rep.finish()
  rep.assumptions = [
      'oracle: Core/Eval.v (group_rows, aggregate, ECombine, CNot), evaluated by vm_compute on the generator\'s AST',
      'element order of List/Set and the choice among tied ArgMin/ArgMax candidates are outside the statement: '
      'list-valued aggregate columns are compared as sorted lists',
  ]
  ok, info = proof.proof_stage(rep, PID, extra_trusted=['props/coregen.py printers', 'props/corecheck.py, Core/Check.v'])
  variants = [('plain', lambda prog, r: G.p_program(prog)),
              # the locals of sibling aggregating expressions / negations of one rule get the same names
              ('sibling_combines_share_local_names', V.siblings_share_local_names)]
  K.run_core(rep, PID, tier, PROFILE, variants, 200, 3000, 'c02', replay=replay, ok=ok, info=info, accept=uses_c02)
  if not replay:
    from props import c07
    c07.sibling_scopes(rep, tier, salt='c02-siblings')   # chained aggregating expressions with clashing local names
  return rep.finish()
