"""C02 — aggregation, distinct and negation follow the documented semantics."""
from vlib import common, proof
from props import coregen as G, corecheck as K, variants as V

PID = 'C02'
PROFILE = dict(named_cols=0.4, partial_args=0.3, inclusion=0.2, assign=0.5, lists=0.2, records=0.2, combine=0.55,
               disjunction=0.2, filter=0.4, negation=0.45, two_rules=0.4, distinct=0.5, aggregation=0.6,
               ifthenelse=0.3, builtins=0.3, func_calls=0.3, share_names=0.5, multi_combine=0.6, set_agg=0.25)


def uses_c02(prog):
  import json
  from props import corerun as R
  s = json.dumps(R.serial(prog))
  return '"agg"' in s or '"combine"' in s or '"not"' in s or any(d.get('distinct') for d in prog)


def arg_k_values(rep, tier):
  """ArgMinK / ArgMaxK / ArgMin / ArgMax as predicate-level aggregation and as aggregating expression: the K names
  with the smallest / largest scores of each group (scores distinct), in score order, whatever the row order."""
  from vlib import logica_run
  r = common.rng('c02-argk')
  n = 24 if tier == 'quick' else 240
  runs = bad = 0
  for it in range(n):
    m = r.randint(4, 8)
    scores = r.sample(range(1, 50), m)
    rows = [('g%d' % (0 if i < m - 2 else 1), 'n%d' % i, sc) for i, sc in enumerate(scores)]   # g0 has more than K rows
    r.shuffle(rows)
    k = [1, 2, 3, 2][it % 4]            # every operator with K = 1, 2, 3 in turn
    mx = (it // 4) % 2 == 0
    op = ('ArgMax' if mx else 'ArgMin') + ('K' if k > 1 or r.random() < 0.5 else '')
    facts = ''.join('Score("%s", "%s", %d);\n' % x for x in rows)
    fn = 'Best(x) = %s(x, %d);\n' % (op, k) if op.endswith('K') else ''
    name = 'Best' if op.endswith('K') else op
    form = r.choice(['predicate', 'expression'])
    if form == 'predicate':
      rule = 'Q(g) %s= (n -> s) :- Score(g, n, s);\n' % name
    else:
      rule = 'G(g) distinct :- Score(g, n, s);\nQ(g) = v :- G(g), v %s= (n -> s :- Score(g, n, s));\n' % name
    text = '@Engine("sqlite");\n' + facts + fn + rule
    want = []
    for g in sorted(set(x[0] for x in rows)):
      members = sorted([x for x in rows if x[0] == g], key=lambda x: x[2], reverse=mx)
      names = [x[1] for x in members[:k]]
      want.append((g, names if op.endswith('K') else names[0]))
    st, a, b = logica_run.run_pred(text, 'Q')
    runs += 1
    got = sorted((x[0], x[1]) for x in b) if st == 'ok' else a
    if (st != 'ok' or got != sorted(want)) and bad < 3:
      bad += 1
      rep.violation('arg-k:%s:%s' % (op, st if st != 'ok' else 'rows'), {
          'program_text': text, 'predicate': 'Q', 'expected_rows': sorted(want), 'observed': [st, got if st == 'ok' else str(got)[:300]],
          'law': '%s keeps the names of the %d %s scores of each group, in score order' % (op, k, 'largest' if mx else 'smallest'),
          'how': 'vlib.logica_run.run_pred(program_text, "Q")'})
  rep.coverage['arg_k_runs'] = runs
  rep.coverage['evaluations'] = rep.coverage.get('evaluations', 0) + runs


def run(tier, replay=None):
  rep = common.Report(PID, tier, 'other')
  if replay and K.replay_program_rows(rep, replay):
    return rep.finish()
  rep.assumptions = [
      'oracle: Core/Eval.v (group_rows, aggregate, ECombine, CNot), evaluated by vm_compute on the generator\'s AST',
      'element order of List/Set and the choice among tied ArgMin/ArgMax candidates are outside the statement: '
      'list-valued aggregate columns are compared as sorted lists',
  ]
  ok, info = proof.proof_stage(rep, PID, extra_trusted=['props/coregen.py printers', 'props/corecheck.py, Core/Check.v'])
  variants = [('plain', lambda prog, r: G.p_program(prog)),
              # the locals of sibling aggregating expressions / negations of one rule get the same names
              ('sibling_combines_share_local_names', V.siblings_share_local_names)]
  K.run_core(rep, PID, tier, PROFILE, variants, 200, 1500, 'c02', replay=replay, ok=ok, info=info, accept=uses_c02)
  if not replay:
    from props import c07
    c07.sibling_scopes(rep, tier, salt='c02-siblings')   # chained aggregating expressions with clashing local names
    arg_k_values(rep, tier)
  return rep.finish()
