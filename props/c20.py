"""C20 — built-in functions and aggregates on SQLite compute their documented meaning.

Proof: coq/theories/Props/C20.v (ArgMin/ArgMax K-best + arrival order for every heap meeting heapq's
contract, CPython's sift code proved to meet it; other UDFs; bag aggregates).
Tie (every run, current tree):
  A. the Python classes ArgMin/ArgMax of common/sqlite3_logica.py are driven directly on ALL sequences over
     small row tables (+ random long ones, strings, per-row limits, mixed kinds); the internal array
     self.result and finalize() are compared with the model: the high-volume streams by Udf/UdfCheck.judge_idx
     extracted to OCaml (coq/extract_c20: ExtrOcamlBasic only, 50-line driver), the per-row-limit stream by the
     same judge inside Coq (vm_compute);
  B. DistinctListAgg, ArrayConcatAgg, TakeFirst, SortList, InList, Join, ArrayConcat and the registered
     Split lambda are called directly (through a real SQLite connection for the lambda) and judged in Coq;
  C. `T(<builtin call>)` is compiled by the real pipeline and run on SQLite for all arguments of small
     domains; the value is judged by the Spec functions of Udf/BuiltinSpec.v (model = spec there);
  D. aggregating rules are compiled by the real pipeline once per operator (table-backed D(a, v)) and run
     on every permutation of the rows; each value is judged by spec_agg on the arrival order, and the law
     "same value for every arrival order, ties excepted" is evaluated on the implementation itself.
Search oracle: Udf/UdfCheck.spec_ok (K smallest values, sub-multiset, order of output) — independent of
step/heap code; BuiltinSpec.spec; the permutation law itself.
"""
import contextlib
import fractions
import io
import itertools
import json
import os
import shutil
import subprocess
import tempfile
import time
from concurrent.futures import ThreadPoolExecutor

from vlib import common, coqrun, proof, logica_run

PID = 'C20'
SET_ORDER_KEY = 'agg:Set:element-order-depends-on-arrival-order'


# ------------------------------------------------------------------ encoding into Coq
def cz(n):
  return '%d' % n if n >= 0 else '(%d)' % n


def cstr(s):
  return '[' + ';'.join('%d' % ord(c) for c in s) + ']'


def cscalar(x):
  return '(SNum %s)' % cz(x) if isinstance(x, int) else '(SStr %s)' % cstr(x)


def cval(x):
  if x is None:
    return 'VNull'
  if x == 'ERR!':
    return 'VErr'
  if isinstance(x, bool):
    return '(VInt %d)' % int(x)
  if isinstance(x, int):
    return '(VInt %s)' % cz(x)
  if isinstance(x, float):
    if x != x or x in (float('inf'), float('-inf')):
      return 'VErr'
    f = fractions.Fraction(x).limit_denominator(10 ** 6)
    return '(VRat %s %d)' % (cz(f.numerator), f.denominator)
  if isinstance(x, str):
    return '(VStr %s)' % cstr(x)
  if isinstance(x, (list, tuple)):
    return '(VList [%s])' % '; '.join(cval(y) for y in x)
  return 'VErr'


def copt(x, f):
  return 'None' if x is None else '(Some %s)' % f(x)


def clist(xs, f=str):
  return '[' + '; '.join(f(x) for x in xs) + ']'


HEADER = ('From Coq Require Import List ZArith. Import ListNotations.\n'
          'From LV Require Import Udf.ArgMinMax Udf.Aggregates Udf.BuiltinSpec Udf.UdfCheck.\n'
          'Open Scope Z_scope.\n')


def coq_judge(jobs):
  """jobs: list of (prelude, judge_expr, [case strings]).  Returns list of lists of ints (None on failure)."""
  def one(job):
    prelude, judge, cases = job
    if not cases:
      return [], ''
    text = (HEADER + prelude + 'Definition cases := [\n%s\n].\nEval vm_compute in map (%s) cases.\n'
            % (';\n'.join(cases), judge))
    rc, out = coqrun.coq_eval(text, timeout=1200)
    if rc != 0:
      return None, out
    ls = coqrun.parse_vm_list(out)
    if len(ls) != 1 or len(ls[0]) != len(cases):
      return None, out
    try:
      return [int(x) for x in ls[0]], out
    except ValueError:
      return None, out
  with ThreadPoolExecutor(max_workers=4) as ex:
    return list(ex.map(one, jobs))


def chunked(xs, n):
  return [xs[i:i + n] for i in range(0, len(xs), n)]


EXTRACT_DIR = os.path.join(common.COQ, 'extract_c20')


def build_driver():
  """Extracts Udf/UdfCheck.judge_idx to OCaml (ExtrOcamlBasic only) and links the 40-line driver, in a scratch
  directory.  Returns (dir, binary or None, log)."""
  d = tempfile.mkdtemp(prefix='lv_c20_')
  for f in ('Extract.v', 'driver.ml'):
    shutil.copy(os.path.join(EXTRACT_DIR, f), d)
  p = subprocess.run(['timeout', '300', 'coqc'] + coqrun.QFLAGS + ['Extract.v'], cwd=d,
                     stdout=subprocess.PIPE, stderr=subprocess.STDOUT, text=True)
  log = p.stdout
  if p.returncode == 0:
    p = subprocess.run(['timeout', '300', 'ocamlfind', 'ocamlopt', '-w', '-a', '-o', 'driver',
                        'udf_model.mli', 'udf_model.ml', 'driver.ml'], cwd=d,
                       stdout=subprocess.PIPE, stderr=subprocess.STDOUT, text=True)
    log += p.stdout
  return d, (os.path.join(d, 'driver') if p.returncode == 0 else None), log


def run_driver(binary, text):
  p = subprocess.run(['timeout', '1200', binary], input=text, stdout=subprocess.PIPE, stderr=subprocess.STDOUT, text=True)
  out = p.stdout.strip()
  if p.returncode != 0 or not out.isdigit():
    return None, p.stdout[-2000:]
  return [int(c) for c in out], ''


# ------------------------------------------------------------------ A. ArgMin / ArgMax objects
def sl_module():
  return logica_run.modules()[4]


def drive(sl, is_max, rows):
  """rows: [(value, arg, limit)].  Returns (err, state, final)."""
  obj = (sl.ArgMax if is_max else sl.ArgMin)()
  try:
    with contextlib.redirect_stdout(io.StringIO()):
      for v, a, k in rows:
        obj.step(a, v, k)
      final = json.loads(obj.finalize())
    return 0, [tuple(x) for x in obj.result], final
  except Exception as e:  # pylint: disable=broad-except
    msg = str(e)
    if 'must be positive' in msg:
      return 1, [], []
    if 'incompatible values' in msg:
      return 2, [], []
    if msg in ('ArgMin error', 'ArgMax error'):
      return 3, [], []
    return 9, [], []


class Table:
  def __init__(self, values, args):
    self.rows = [(v, a) for v in values for a in args]
    self.args = list(args)
    self.ridx = {r: i for i, r in enumerate(self.rows)}
    self.aidx = {a: i for i, a in enumerate(self.args)}
    sc = lambda x: 'n%d' % x if isinstance(x, int) else 's' + ','.join('%d' % ord(c) for c in x)
    self.prelude = 'R\n' + ''.join('T %s %s\n' % (sc(v), sc(a)) for v, a in self.rows) + \
        ''.join('A %s\n' % sc(a) for a in self.args)

  def case(self, is_max, k, seq, err, state, final):
    return 'C %d %s %d | %s | %s | %s' % (
        int(is_max), 'N' if k is None else '%d' % k, err, ' '.join('%d' % i for i in seq),
        ' '.join('%d' % self.ridx[r] for r in state), ' '.join('%d' % self.aidx[a] for a in final))


def argminmax_stream(sl, tier, r):
  """Yields (table, meta, casestring) ; meta is a replayable dict."""
  out = []

  def add(tb, is_max, k, seq):
    rows = [(tb.rows[i][0], tb.rows[i][1], k) for i in seq]
    err, state, final = drive(sl, is_max, rows)
    ok = all(x in tb.ridx for x in state) and all(a in tb.aidx for a in final)
    meta = {'kind': 'udf_argminmax', 'is_max': is_max, 'rows': [list(x) for x in rows]}
    if not ok:   # the implementation produced something that is not even an input row
      out.append((tb, meta, None))
    else:
      out.append((tb, meta, tb.case(is_max, k, seq, err, state, final)))

  t1 = Table([0, 1, 2], [0, 1])                  # 6 rows
  t2 = Table([0, 1], [0, 1])                     # 4 rows
  t3 = Table(['a', 'b', 'ab'], ['x', 'y'])       # strings
  t4 = Table(list(range(6)), list(range(4)))     # 24 rows for random long sequences
  max_len1 = 5 if tier == 'quick' else 6
  for n in range(0, max_len1 + 1):
    for seq in itertools.product(range(len(t1.rows)), repeat=n):
      for is_max in (False, True):
        for k in (1, 2, 3, None) if tier == 'quick' else (1, 2, 3, 4, 5, None):
          add(t1, is_max, k, seq)
  max_len2 = 6 if tier == 'quick' else 8
  for n in range(max_len1 + 1, max_len2 + 1):
    for seq in itertools.product(range(len(t2.rows)), repeat=n):
      for is_max in (False, True):
        for k in (1, 2, 3, 4):
          add(t2, is_max, k, seq)
  for n in range(0, 4 if tier == 'quick' else 5):
    for seq in itertools.product(range(len(t3.rows)), repeat=n):
      for is_max in (False, True):
        for k in (1, 2, None):
          add(t3, is_max, k, seq)
  for _ in range(400 if tier == 'quick' else 6000):
    n = r.randint(5, 30)
    seq = [r.randrange(len(t4.rows)) for _ in range(n)]
    add(t4, r.random() < 0.5, r.choice([1, 2, 3, 4, 5, 6, 8, 25, None]), seq)
  for k in (0, -1):                               # limit must be positive
    for is_max in (False, True):
      add(t1, is_max, k, (0,))
      add(t1, is_max, k, (3, 1))
  return out


def argminmax_explicit_stream(sl, tier, r):
  """Per-row limits and mixed kinds (malformed stream): full encoding, compared with the model only."""
  out = []
  vals = [0, 1, 2, 'a', 'b']
  for _ in range(300 if tier == 'quick' else 3000):
    n = r.randint(1, 6)
    mixed = r.random() < 0.4
    rows = []
    k0 = r.choice([1, 2, 3, None])
    for _i in range(n):
      v = r.choice(vals) if mixed else r.choice([0, 1, 2])
      k = k0 if r.random() < 0.7 else r.choice([0, 1, 2, 3, None])
      rows.append((v, r.randrange(3), k))
    is_max = r.random() < 0.5
    err, state, final = drive(sl, is_max, rows)
    if err == 9:
      continue  # TypeError of Python's own comparison (int vs str): outside the model, counted as skipped
    case = '(%s, %s, %s, %s, %s)' % (
        'true' if is_max else 'false',
        clist(rows, lambda x: '(%s, %s, %s)' % (cscalar(x[0]), cscalar(x[1]), copt(x[2], cz))), cz(err),
        clist(state, lambda x: '(%s, %s)' % (cscalar(x[0]), cscalar(x[1]))), clist(final, cscalar))
    out.append(({'kind': 'udf_argminmax', 'is_max': is_max, 'rows': [list(x) for x in rows]}, case))
  return out


EXPLICIT_JUDGE = "fun c => let '(m, rows, err, st, fin) := c in judge_argminmax m rows err st fin"


# ------------------------------------------------------------------ B. other UDFs
def udf_fn_stream(sl, tier, r):
  out = []
  con = sl.SqliteConnect()

  def add(name, args, fn):
    """fn() calls the implementation and returns the Coq case; an exception of the implementation is a case of its
    own (None: reported directly, these functions are total on the arguments used here)."""
    try:
      with contextlib.redirect_stdout(io.StringIO()), contextlib.redirect_stderr(io.StringIO()):
        case = fn()
      out.append(({'kind': 'udf_fn', 'fn': name, 'args': args}, case))
    except Exception as e:  # pylint: disable=broad-except
      out.append(({'kind': 'udf_fn', 'fn': name, 'args': args, 'exception': '%s: %s' % (type(e).__name__, e)}, None))

  def agg(cls, rows):
    o = cls()
    for x in rows:
      o.step(x)
    return o.finalize()

  dom = [0, 1, 2]
  lists = [list(x) for n in range(0, 4) for x in itertools.product(dom, repeat=n)]
  slists = [list(x) for n in range(0, 3) for x in itertools.product(['a', 'b', 'ab'], repeat=n)]
  # ArrayConcatAgg: rows of JSON lists or NULL
  cells = [None, [], [0], [1, 2]]
  for n in range(0, 4):
    for rows in itertools.product(cells, repeat=n):
      add('ArrayConcatAgg', list(rows), lambda rows=rows: '(UConcatAgg %s %s)' % (
          clist(rows, lambda c: copt(c, lambda l: clist(l, cval))),
          clist(json.loads(agg(sl.ArrayConcatAgg, [None if c is None else json.dumps(c) for c in rows])), cval)))
  # DistinctListAgg (as a set)
  for l in lists + slists + [[0, 8], [8, 0], [1, 9, 1], [16, 8, 0]]:
    add('DistinctListAgg', l, lambda l=l: '(UDistinct %s %s)' % (
        clist(l, cval), clist(json.loads(agg(sl.DistinctListAgg, l)), cval)))
  # TakeFirst
  tf = [None, 0, 1, 2, '', 'a']
  for n in range(0, 4):
    for rows in itertools.product(tf, repeat=n):
      add('TakeFirst', list(rows), lambda rows=rows: '(UTakeFirst %s %s)' % (
          clist(rows, cval), cval(agg(sl.TakeFirst, rows))))
  # SortList, InList, Join, ArrayConcat
  for l in lists + slists + [[3, -1, 2, -1, 10], ['b', 'B', '', 'a']]:
    add('SortList', l, lambda l=l: '(USortList %s %s)' % (
        clist(l, cval), clist(json.loads(sl.SortList(json.dumps(l))), cval)))
    for x in (dom + [3] if (not l or isinstance(l[0], int)) else ['a', 'ab', 'c']):
      add('InList', [x, l], lambda x=x, l=l: '(UInList %s %s %s)' % (
          cval(x), clist(l, cval), 'true' if sl.InList(x, json.dumps(l)) else 'false'))
    for sep in ('', ',', '--'):
      add('Join', [l, sep], lambda l=l, sep=sep: '(UJoin %s %s %s)' % (
          clist(l, cval), cstr(sep), cstr(sl.Join(json.dumps(l), sep))))
  small = [None, [], [0], [1, 2], ['a']]
  for a in small:
    for b in small:
      def one(a=a, b=b):
        obs = sl.ArrayConcat(None if a is None else json.dumps(a), None if b is None else json.dumps(b))
        obs = None if obs is None else json.loads(obs)
        f = lambda c: copt(c, lambda l: clist(l, cval))
        return '(UArrayConcat %s %s %s)' % (f(a), f(b), f(obs))
      add('ArrayConcat', [a, b], one)
  # Split: the lambda registered on the connection
  strs = [''.join(x) for n in range(0, 5) for x in itertools.product('a,', repeat=n)] + ['a--b', '--', 'a-b--', 'ab']
  for s in strs:
    for sep in (',', '--', 'a'):
      add('Split', [s, sep], lambda s=s, sep=sep: '(USplit %s %s %s)' % (
          cstr(s), cstr(sep), clist(json.loads(con.execute('select Split(?, ?)', (s, sep)).fetchone()[0]), cstr)))
  con.close()
  return out


def replay_udf_fn(sl, rp):
  # re-run exactly one case by regenerating the stream and selecting it
  for meta, case in udf_fn_stream(sl, 'quick', common.rng('c20-fn')):
    if meta['fn'] == rp['fn'] and meta['args'] == rp['args']:
      return [(meta, case)]
  return []


# ------------------------------------------------------------------ C. SQL-template built-ins
def lit(x):
  if x is None:
    return 'null'
  if isinstance(x, int):
    return '%d' % x if x >= 0 else '(%d)' % x
  if isinstance(x, str):
    return json.dumps(x)
  return '[' + ', '.join(lit(y) for y in x) + ']'


def builtin_cases(tier):
  """[(opname, coq_op, logica_expr, args)]"""
  cs = []
  ints = list(range(-3, 4))
  ilists = [list(x) for n in range(0, 4) for x in itertools.product([0, 1, 2], repeat=n)] + [[5, 3, 9, 3, -2]]
  slists = [[], ['a'], ['b', 'a'], ['ab', 'a', 'b'], ['', 'a']]
  for n in range(-2, 8):
    cs.append(('Range', 'ORange', 'Range(%s)' % lit(n), [n]))
  for l in ilists + slists[1:]:
    cs.append(('Size', 'OSize', 'Size(%s)' % lit(l), [l]))
    cs.append(('Sort', 'OSort', 'Sort(%s)' % lit(l), [l]))
    for i in range(-1, len(l) + 2):
      cs.append(('Element', 'OElement', 'Element(%s, %s)' % (lit(l), lit(i)), [l, i]))
    for x in ([0, 1, 3] if (not l or isinstance(l[0], int)) else ['a', 'c']):
      cs.append(('in', 'OIn', '%s in %s' % (lit(x), lit(l)), [x, l]))
    for sep in (',', ''):
      cs.append(('Join', 'OJoin', 'Join(%s, %s)' % (lit(l), lit(sep)), [l, sep]))
  for l in ilists[:14]:
    if l:
      cs.append(('l[i]', 'OElement', None, [l, len(l) - 1]))        # subscript syntax needs a variable
      cs.append(('l[i]', 'OElement', None, [l, len(l)]))
  small = [[], [0], [1, 2], [2, 0, 1]]
  for a in small:
    for b in small:
      cs.append(('ArrayConcat', 'OArrayConcat', 'ArrayConcat(%s, %s)' % (lit(a), lit(b)), [a, b]))
  cs.append(('ArrayConcat', 'OArrayConcat', 'ArrayConcat([1], null)', [[1], None]))
  strs = ['', 'a', 'b', 'ab', 'a,b', ',', 'a,,b,']
  for a in strs:
    for b in strs[:5]:
      cs.append(('++', 'OConcat', '%s ++ %s' % (lit(a), lit(b)), [a, b]))
    for sep in (',', 'b', ',,'):
      cs.append(('Split', 'OSplit', 'Split(%s, %s)' % (lit(a), lit(sep)), [a, sep]))
  for n in [0, 1, -1, 7, 10, -10, 123, -4096, 99999, 2 ** 40]:
    cs.append(('ToString', 'OToString', 'ToString(%s)' % lit(n), [n]))
    cs.append(('ToInt64', 'OToInt64', 'ToInt64(%s)' % lit(str(n)), [str(n)]))
    cs.append(('ToInt64', 'OToInt64', 'ToInt64(ToString(%s))' % lit(n), [str(n)]))
  for a in ints:
    cs.append(('-', 'ONeg', '-(%s)' % lit(a), [a]))
    for b in ints:
      cs.append(('Least', 'OLeast', 'Least(%s, %s)' % (lit(a), lit(b)), [a, b]))
      cs.append(('Greatest', 'OGreatest', 'Greatest(%s, %s)' % (lit(a), lit(b)), [a, b]))
      for sym, op in (('+', 'OAdd'), ('-', 'OSub'), ('*', 'OMul'), ('/', 'ODiv'), ('%', 'OMod'), ('^', 'OPow'),
                      ('==', 'OEq'), ('!=', 'ONe'), ('<', 'OLt'), ('<=', 'OLe'), ('>', 'OGt'), ('>=', 'OGe')):
        cs.append((sym, op, '%s %s %s' % (lit(a), sym, lit(b)), [a, b]))
  for t in itertools.product([0, 1, 2], repeat=3):
    cs.append(('Least', 'OLeast', 'Least(%s, %s, %s)' % t, list(t)))
    cs.append(('Greatest', 'OGreatest', 'Greatest(%s, %s, %s)' % t, list(t)))
  return cs


def run_builtin_batch(cases, type_checking):
  """Runs a list of (name, op, expr, args) in ONE program (one fact of T per case; with type_checking off the
  value column may mix types); on failure the batch is bisected.  Returns (observed values, programs run);
  'ERR!' stands for an engine / compiler error."""
  head = '@Engine("sqlite");' if type_checking else '@Engine("sqlite", type_checking: false);'
  count = [0]

  def program(items):
    lines = [head]
    for i, (name, _op, expr, args) in items:
      if expr is None:   # l[i]
        lines.append('T(%d, x) :- l == %s, x == l[%s];' % (i, lit(args[0]), lit(args[1])))
      else:
        lines.append('T(%d, %s);' % (i, expr))
    return '\n'.join(lines) + '\n'

  def go(items):
    count[0] += 1
    with contextlib.redirect_stderr(io.StringIO()):
      st, hdr, rows = logica_run.run_pred(program(items), 'T')
    if st == 'ok' and len(rows) == len(items):
      got = dict((r[0], r[1]) for r in rows)
      if all(i in got for i, _ in items):
        return [got[i] for i, _ in items]
    if len(items) == 1:
      return ['ERR!']
    h = len(items) // 2
    return go(items[:h]) + go(items[h:])
  return go(list(enumerate(cases))), count[0]


RESULT_CLASS = {'Range': 'ilist', 'Sort': None, 'ArrayConcat': 'ilist', 'Split': 'slist', '++': 'str', 'Join': 'str',
                'ToString': 'str', '^': 'float'}


def builtin_stream(tier, only=None):
  cases = builtin_cases(tier)
  if only is not None:
    cases = [c for c in cases if c[0] == only['name'] and c[3] == only['args']]
  risky = [c for c in cases if (c[0] == 'Element' and c[3][1] < 0) or (c[0] == '^' and c[3][0] == 0 and c[3][1] < 0)]
  safe = [c for c in cases if c not in risky]
  out = []
  programs = 0

  def emit(chunk, tc):
    nonlocal programs
    obs, n = run_builtin_batch(chunk, tc)
    programs += n
    for c, o in zip(chunk, obs):
      meta = {'kind': 'builtin', 'name': c[0], 'args': c[3], 'expr': c[2], 'observed': o, 'type_checking': tc}
      out.append((meta, '(%s, %s, %s)' % (c[1], clist(c[3], cval), cval(o))))
  # bulk: every case, type inference switched off so that one program can hold values of every type
  for chunk in chunked(safe, 250):
    emit(chunk, False)
  if tier == 'quick' and only is None:   # every one of them costs a program of its own
    risky = [c for c in risky if c[0] != 'Element'] + [c for c in risky if c[0] == 'Element'][:6]
  for c in risky:
    emit([c], False)
  # with type inference on (the default pipeline): one program per result type, a sample per built-in in the
  # quick tier, everything in the thorough tier
  classes = {}
  seen = {}
  for c in safe:
    seen[c[0]] = seen.get(c[0], 0) + 1
    if tier == 'quick' and only is None and seen[c[0]] > 6:
      continue
    k = RESULT_CLASS.get(c[0], 'int')
    lst = next((a for a in c[3] if isinstance(a, list)), None)
    if c[0] in ('Element', 'l[i]', 'in', 'Size', 'Sort', 'Join') and lst and isinstance(lst[0], str):
      k = 'sarg:' + c[0]
    elif c[0] == 'Sort':
      k = 'ilist'
    if c[0] in ('Element', 'l[i]') and not lst:
      continue      # Element([], i): the element type of [] is not determined
    classes.setdefault(k, []).append(c)
  for k in sorted(classes):
    for chunk in chunked(classes[k], 150):
      emit(chunk, True)
  return out, programs


# ------------------------------------------------------------------ D. aggregating rules
AGGS = [
    ('Sum', 'ASum', 'T() += v :- D(a, v);'),
    ('Min', 'AMin', 'T() Min= v :- D(a, v);'),
    ('Max', 'AMax', 'T() Max= v :- D(a, v);'),
    ('Avg', 'AAvg', 'T() Avg= v :- D(a, v);'),
    ('Count', 'ACount', 'T() Count= v :- D(a, v);'),
    ('List', 'AList', 'T() List= v :- D(a, v);'),
    ('Set', 'ASet', 'T() Set= v :- D(a, v);'),
    ('ArgMin', 'AArgMin', 'T() ArgMin= a -> v :- D(a, v);'),
    ('ArgMax', 'AArgMax', 'T() ArgMax= a -> v :- D(a, v);'),
    ('ArgMinK1', '(AArgMinK 1)', 'T() Aggr= ArgMinK(a -> v, 1) :- D(a, v);'),
    ('ArgMinK2', '(AArgMinK 2)', 'T() Aggr= ArgMinK(a -> v, 2) :- D(a, v);'),
    ('ArgMinK3', '(AArgMinK 3)', 'T() Aggr= ArgMinK(a -> v, 3) :- D(a, v);'),
    ('ArgMaxK2', '(AArgMaxK 2)', 'T() Aggr= ArgMaxK(a -> v, 2) :- D(a, v);'),
    ('ArgMaxK3', '(AArgMaxK 3)', 'T() Aggr= ArgMaxK(a -> v, 3) :- D(a, v);'),
    ('Array', 'AArray', 'T() Array= a -> v :- D(a, v);'),
]


class AggRunner:
  """Compiles each aggregating rule ONCE with the real pipeline (D is a table of the database) and runs
  the produced SQL on a fresh table per arrival order, on a connection with the real UDFs."""

  def __init__(self):
    self.sl = sl_module()
    self.sql = {}
    self.con = self.sl.SqliteConnect()
    self.compiles = 0

  def compiled(self, name):
    if name not in self.sql:
      rule = [a for a in AGGS if a[0] == name][0][2]
      st, res = logica_run.compile_pred('@Engine("sqlite", type_checking: false);\n' + rule + '\n', 'T')
      self.compiles += 1
      self.sql[name] = (st, res if st != 'ok' else [res['preamble']] + res['defines_and_exports'] + [res['main']])
    return self.sql[name]

  def run(self, name, rows):
    st, stmts = self.compiled(name)
    if st != 'ok':
      return 'ERR!'
    cur = self.con.cursor()
    cur.execute('drop table if exists D')
    cur.execute('create table D (col0, col1)')
    cur.executemany('insert into D values (?, ?)', rows)
    try:
      with contextlib.redirect_stderr(io.StringIO()):
        for s in stmts[:-1]:
          cur.executescript(s)
        cur.execute(stmts[-1])
        got = cur.fetchall()
    except Exception:  # pylint: disable=broad-except
      return 'ERR!'
    if len(got) != 1:
      return 'ERR!'
    return logica_run.decode_cell(got[0][0])

  def run_literal(self, name, rows):
    """The same through the whole pipeline with the rows written as Logica facts."""
    rule = [a for a in AGGS if a[0] == name][0][2]
    prog = '@Engine("sqlite");\n' + ''.join('D(%s, %s);\n' % (lit(a), lit(v)) for a, v in rows) + rule + '\n'
    st, hdr, got = logica_run.run_pred(prog, 'T')
    if st != 'ok' or len(got) != 1:
      return 'ERR!'
    return got[0][0]


def canon_obs(name, obs):
  if name == 'Set' and isinstance(obs, list):
    try:
      return sorted(obs)
    except TypeError:
      return obs
  return obs


def perm_law(name, rows, results):
  """results: {perm(tuple of row indices): observed}.  The law evaluated on the implementation.  Returns None
  or a description of the violation (with the two arrival orders)."""
  vals = dict(rows)
  items = list(results.items())
  p0, r0 = items[0]
  distinct = len(set(v for _, v in rows)) == len(rows)

  def key(obs):
    if name == 'List':
      return sorted(obs) if isinstance(obs, list) else obs
    if name == 'Set':
      return sorted(obs) if isinstance(obs, list) else obs
    if name.startswith('Arg') and not distinct:
      # ties excepted: the VALUES of the chosen args must agree
      if isinstance(obs, list):
        return [vals.get(a, 'not-an-arg') for a in obs]
      return vals.get(obs, 'not-an-arg')
    return obs
  for p, rr in items[1:]:
    if key(rr) != key(r0):
      return {'order1': [list(rows[i]) for i in p0], 'value1': r0, 'order2': [list(rows[i]) for i in p], 'value2': rr}
  return None


def agg_stream(tier, runner, only=None):
  """Returns (judge_cases [(meta, case)], law_violations [(key, replay)], stats)."""
  judged, laws, stats = [], [], {'sql_runs': 0, 'multisets': 0, 'perms': 0, 'literal_runs': 0}
  nmax = 4 if tier == 'quick' else 5
  names = [a for a in AGGS if only is None or a[0] == only]
  for n in range(1, nmax + 1):
    for vs in itertools.product([0, 1, 2], repeat=n):
      if list(vs) != sorted(vs):
        continue                                 # multisets of values; args are attached below
      for argperm in ([tuple(range(n))] if n > (2 if tier == 'quick' else 3) else list(itertools.permutations(range(n)))[:3]):
        rows = [(argperm[i], vs[i]) for i in range(n)]
        stats['multisets'] += 1
        perms = list(itertools.permutations(range(n)))
        for name, cop, _rule in names:
          results = {}
          for p in perms:
            arr = [rows[i] for i in p]
            obs = runner.run(name, arr)
            stats['sql_runs'] += 1
            results[p] = obs
            if n <= (2 if tier == 'quick' else 3) or p == perms[0] or p == perms[-1] or p == perms[len(perms) // 2]:
              meta = {'kind': 'agg', 'agg': name, 'rows': [list(x) for x in arr], 'observed': obs}
              judged.append((meta, '(%s, %s, %s)' % (
                  cop, clist(arr, lambda x: '(%s, %s)' % (cz(x[0]), cz(x[1]))), cval(canon_obs(name, obs)))))
          stats['perms'] += len(perms)
          bad = perm_law(name, rows, results)
          if bad:
            bad.update({'kind': 'agg_perm', 'agg': name,
                        'law': 'an aggregating rule returns the same value for every arrival order of its rows (ties excepted; List up to order)'})
            laws.append(('agg:%s:arrival-order' % name, bad))
  return judged, laws, stats


def set_order_search(runner, tier):
  """Does the ORDER of the elements of Set's result depend on the arrival order?  (property text: aggregates
  return the same value for every order of their input rows)."""
  top = 10 if tier == 'quick' else 40
  for b in range(1, top):
    for a in range(0, b):
      r1 = runner.run('Set', [(0, a), (1, b)])
      r2 = runner.run('Set', [(0, b), (1, a)])
      if r1 != r2:
        return {'kind': 'set_order', 'agg': 'Set', 'values': [a, b],
                'order1': [[0, a], [1, b]], 'value1': r1, 'order2': [[0, b], [1, a]], 'value2': r2,
                'program': 'T() Set= v :- D(a, v);',
                'law': 'Set returns the same list for every arrival order of its rows',
                'where': 'common/sqlite3_logica.py DistinctListAgg.finalize: json.dumps(list(self.result))',
                'proposed_patch': 'return json.dumps(sorted(self.result, key=lambda x: (x is None, DeFactoType(x), x)))'}
  return None


# ------------------------------------------------------------------ run
def run(tier, replay=None):
  rep = common.Report(PID, tier, 'proof')
  rep.assumptions = [
      'proved for all inputs: ArgMin/ArgMax K-best, arrival order (tie class), unlimited = sort, for every total order and every '
      'heap meeting heapq\'s contract; CPython\'s heapq sift code (hand model mirroring heapq.py) proved to meet it; '
      'Set/ArrayConcatAgg/SortList/InList/TakeFirst facts; bag aggregates of the Spec',
      'checked per instance only: SQL-template built-ins and aggregating operators on SQLite against the Spec functions of '
      'Udf/BuiltinSpec.v (the model IS the spec there; conventions of the engine adopted: integer / and % truncate, NULL for '
      'zero divisor, ^ is a float power, Element past the end is NULL, a negative index is rejected)',
      'not judged: aggregates over zero rows, ArgMin/ArgMax args of different Python types tied in value (Python raises TypeError), '
      'float arguments, 64-bit overflow',
      'trusted: json.loads/dumps, sqlite3 module, SQLite itself, CPython heapq C accelerator = heapq.py (the model mirrors heapq.py; '
      'heapq.heapify/heapreplace are the _max versions with every comparison flipped; both are tied by comparing the exact array '
      'self.result after every sequence), harness props/c20.py + Udf/UdfCheck.v, Coq extraction (ExtrOcamlBasic) + coq/extract_c20/driver.ml + ocamlopt',
  ]
  ok, info = proof.proof_stage(rep, PID, extra_trusted=[
      'correspondence harness props/c20.py + Udf/UdfCheck.v (judge_*) + Udf/BuiltinSpec.v (Spec = model for SQL templates)'])
  okb, logb, _ = coqrun.build(['theories/Udf/UdfCheck.vo'])
  if not okb:
    ok = False
    info['excerpt'] = coqrun.error_excerpt(logb)
  sl = sl_module()
  r = common.rng('c20')
  runner = AggRunner()
  t0 = time.time()

  streams = []        # (label, prelude, judge, [(meta, case)])
  law_violations = []
  stats = {}
  set_order = None
  skipped = 0
  if replay:
    with open(replay) as f:
      rp = json.load(f)
    kind = rp.get('kind')
    if kind == 'udf_argminmax':
      rows = [tuple(x) for x in rp['rows']]
      err, state, final = drive(sl, rp['is_max'], rows)
      case = '(%s, %s, %s, %s, %s)' % (
          'true' if rp['is_max'] else 'false',
          clist(rows, lambda x: '(%s, %s, %s)' % (cscalar(x[0]), cscalar(x[1]), copt(x[2], cz))), cz(err),
          clist(state, lambda x: '(%s, %s)' % (cscalar(x[0]), cscalar(x[1]))), clist(final, cscalar))
      streams.append(('udf_argminmax', '', EXPLICIT_JUDGE, [(dict(rp, observed=[err, state, final]), case)]))
    elif kind == 'udf_fn':
      streams.append(('udf_fn', '', 'judge_udf', replay_udf_fn(sl, rp)))
    elif kind == 'builtin':
      cs, _ = builtin_stream('quick', only=rp)
      streams.append(('builtin', '', 'judge_op_n', cs))
    elif kind == 'agg':
      obs = runner.run(rp['agg'], [tuple(x) for x in rp['rows']])
      cop = [a for a in AGGS if a[0] == rp['agg']][0][1]
      streams.append(('agg', '', 'judge_agg_n', [(dict(rp, observed=obs), '(%s, %s, %s)' % (
          cop, clist(rp['rows'], lambda x: '(%s, %s)' % (cz(x[0]), cz(x[1]))), cval(canon_obs(rp['agg'], obs))))]))
    elif kind in ('agg_perm', 'set_order'):
      r1 = runner.run(rp['agg'], [tuple(x) for x in rp['order1']])
      r2 = runner.run(rp['agg'], [tuple(x) for x in rp['order2']])
      rows = [tuple(x) for x in rp['order1']]
      if kind == 'set_order':
        if r1 != r2:
          set_order = dict(rp, value1=r1, value2=r2)
      else:
        bad = perm_law(rp['agg'], rows, {tuple(range(len(rows))): r1,
                                         tuple(rows.index(tuple(x)) for x in rp['order2']): r2})
        if bad:
          law_violations.append(('agg:%s:arrival-order' % rp['agg'], dict(rp, value1=r1, value2=r2)))
    else:
      print('replay: nothing to re-run for kind %r' % kind)
  else:
    by_tbl = {}
    for tb, meta, case in argminmax_stream(sl, tier, r):
      by_tbl.setdefault(id(tb), (tb, []))[1].append((meta, case))
    for tb, cs in by_tbl.values():
      streams.append(('udf_argminmax', tb.prelude, 'DRIVER', cs))
    streams.append(('udf_argminmax', '', EXPLICIT_JUDGE, argminmax_explicit_stream(sl, tier, r)))
    streams.append(('udf_fn', '', 'judge_udf', udf_fn_stream(sl, tier, common.rng('c20-fn'))))
    bcs, nprog = builtin_stream(tier)
    stats['builtin_programs'] = nprog
    streams.append(('builtin', '', 'judge_op_n', bcs))
    acs, law_violations, astats = agg_stream(tier, runner)
    stats.update(astats)
    streams.append(('agg', '', 'judge_agg_n', acs))
    # literal facts through the whole pipeline (parser, type inference, UNION ALL of facts)
    lit_cases = []
    lr = common.rng('c20-lit')
    for _ in range(20 if tier == 'quick' else 150):
      n = lr.randint(1, 5)
      rows = [(i, lr.randrange(3)) for i in range(n)]
      lr.shuffle(rows)
      name, cop, _ = lr.choice(AGGS)
      obs = runner.run_literal(name, rows)
      stats['literal_runs'] += 1
      lit_cases.append(({'kind': 'agg', 'agg': name, 'rows': [list(x) for x in rows], 'observed': obs, 'literal': True},
                        '(%s, %s, %s)' % (cop, clist(rows, lambda x: '(%s, %s)' % (cz(x[0]), cz(x[1]))),
                                          cval(canon_obs(name, obs)))))
    streams.append(('agg', '', 'judge_agg_n', lit_cases))
    set_order = set_order_search(runner, tier)
  stats['impl_wall_s'] = round(time.time() - t0, 1)

  # ---- judge inside Coq
  jobs, index = [], []
  pre_bad = []
  driver_jobs = []
  for label, prelude, judge, cs in streams:
    good = [(m, c) for m, c in cs if c is not None]
    pre_bad += [(label, m) for m, c in cs if c is None]
    if judge == 'DRIVER':
      driver_jobs.append((label, prelude, good))
      continue
    for ch in chunked(good, 1000):
      jobs.append((prelude, judge, [c for _, c in ch]))
      index.append((label, [m for m, _ in ch]))
  t1 = time.time()
  codes = coq_judge(jobs) if ok else [(None, 'proof stage failed')] * len(jobs)
  stats['coq_wall_s'] = round(time.time() - t1, 1)
  t1 = time.time()
  if driver_jobs and ok:
    ddir, binary, dlog = build_driver()
    try:
      for label, prelude, good in driver_jobs:
        if binary is None:
          res, out = None, dlog[-2500:]
        else:
          res, out = run_driver(binary, prelude + '\n'.join(c for _, c in good) + '\n')
          if res is not None and len(res) != len(good):
            res, out = None, 'driver returned %d codes for %d cases' % (len(res), len(good))
        index.append((label, [m for m, _ in good]))
        codes.append((res, out))
    finally:
      shutil.rmtree(ddir, ignore_errors=True)
  stats['extracted_driver_wall_s'] = round(time.time() - t1, 1)

  found = 0
  tie_broken = []
  counts = {}
  eval_failed = None
  printed = [0]

  def emit(key, rp):
    """At most 8 VIOLATION lines per run (the first ones found; streams are ordered small to large)."""
    if printed[0] >= 8:
      return True
    new = rep.violation(key, rp)
    if new:
      printed[0] += 1
    return new
  for (label, metas), (cs, out) in zip(index, codes):
    if cs is None:
      eval_failed = out[-2500:]
      continue
    for m, c in zip(metas, cs):
      counts.setdefault(label, [0, 0, 0])[c] += 1
      if c == 2:
        found += 1
        if counts[label][2] <= 3:
          what = m.get('fn') or m.get('name') or m.get('agg') or ('ArgMax' if m.get('is_max') else 'ArgMin')
          emit('%s:%s:%s' % (label, what, common.short_hash(m)), dict(
              m, law='value prescribed by the Spec (Udf/UdfCheck.spec_ok / Udf/BuiltinSpec.spec): K best values, '
                     'sub-multiset of the input, order of the output; built-in value'))
      elif c == 1:
        tie_broken.append(m)
  for label, m in pre_bad:
    found += 1
    if found <= 4:
      emit('%s:%s:%s' % (label, m.get('fn') or ('ArgMax' if m.get('is_max') else 'ArgMin'), common.short_hash(m)),
           dict(m, law='the UDF raised on arguments on which it is total, or returned something that is not an input row'))
  for key, bad in law_violations[:3]:
    found += 1
    emit(key, bad)
  if set_order is not None:
    if rep.violation(SET_ORDER_KEY, set_order):
      found += 1
  if not ok and not found:
    rep.violation('proof', {'broken': 'theories/Props/C20.v, Udf/UdfCheck.v or their dependencies no longer check',
                            'failing_files': info.get('failing'), 'excerpt': info.get('excerpt', '')[:3000]},
                  no_input=True)
  elif eval_failed and not found:
    rep.violation('tie', {'broken': 'evaluation of the model inside Coq failed', 'excerpt': eval_failed}, no_input=True)
  elif tie_broken and not found:
    rep.violation('tie', {'broken': 'correspondence common/sqlite3_logica.py ArgMin/ArgMax vs Udf/ArgMinMax.v (the '
                                    'implementation meets the specification on these inputs but is no longer the model)',
                          'examples': tie_broken[:5], 'count': len(tie_broken)}, no_input=True)

  total = sum(len(cs) for _, _, _, cs in streams)
  rep.coverage.update({
      'evaluations': total + stats.get('sql_runs', 0),
      'distinct_nontrivial': len(set(common.canon(m) for _, _, _, cs in streams for m, _ in cs
                                     if len(m.get('rows', m.get('args', []))) > 0)),
      'rule': 'A: all sequences of <= 5 (thorough 6) rows over the 6-row table {0,1,2}x{0,1}, of <= 6 (8) rows over the 4-row table, of <= 3 (4) '
              'rows over a string table, for K in 1..3 (1..5) / 1..4 / None and both aggregates + random sequences of 5..30 rows + '
              'per-row limits / mixed kinds; B: enumerated arguments of the other '
              'UDFs; C: every built-in on all arguments of its small domain through the real pipeline; D: every aggregating '
              'operator on every arrival order of every value multiset over {0,1,2} up to the tier\'s size; non-trivial = at '
              'least one row / argument',
      'exhaustive': True,
      'exhaustive_note': 'within the stated small domains',
      'by_stream': dict((k, {'exact': v[0], 'spec_only': v[1], 'violating': v[2]}) for k, v in counts.items()),
      'stats': stats,
      'skipped': skipped,
      'samples': [m for _, _, _, cs in streams for m, _ in cs[3:4]][:6],
      'set_order_dependence': set_order,
  })
  return rep.finish()
