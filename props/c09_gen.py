"""Typed generator of core-fragment Logica programs for C09 (and a few malformed variants).

Types: 'N' number, 'S' string, 'LN' list of numbers, 'R' record {p: N, q: S}.
Every Logica variable is called zq<k> (the leak check of Core/SqlText.v looks for identifiers with that
prefix in the emitted SQL); column names never start with zq.  Programs are built bottom-up: fact
predicates, then derived predicates that only use earlier ones (acyclic).  The result records which
constructs were used (evidence) and the predicate to compile.
"""

STR_ALPHABET = ['a', 'b', 'x y', "it's", '(', ')', '[', ']', '{', '}', '%s', '{0}', '{left}', ',', ' . ', ':', "'",
                "''", 'SELECT', 'FROM t AS T', '(()', '%%', 'é']
NUM_COLS = ['a', 'c', 'e', 'n']
STR_COLS = ['b', 'd', 's']
AGGS = [('+=', 'N', 'N'), ('Max=', 'N', 'N'), ('Min=', 'N', 'N'), ('List=', 'N', 'LN'), ('Max=', 'S', 'S')]
AGG_EXPR = [('Sum', 'N'), ('Max', 'N'), ('Min', 'N'), ('List', 'LN')]


class Gen(object):

  def __init__(self, r, size=4):
    self.r = r
    self.size = size
    self.nv = 0
    self.preds = []        # (name, {col: type}, kind)
    self.funcs = []        # functional predicates N -> N
    self.mains = []
    self.last_kind = None
    self.lines = []
    self.tags = set()

  def var(self):
    self.nv += 1
    return 'zq%d' % self.nv

  # ---- literals ----
  def num(self):
    return str(self.r.randrange(0, 10))

  def string(self):
    k = self.r.choice([1, 1, 2, 3])
    return '"%s"' % ''.join(self.r.choice(STR_ALPHABET) for _ in range(k))

  def lit(self, t):
    if t == 'N':
      return self.num()
    if t == 'S':
      return self.string()
    if t == 'LN':
      return '[%s]' % ', '.join(self.num() for _ in range(self.r.randrange(1, 4)))
    return '{p: %s, q: %s}' % (self.num(), self.string())

  # ---- facts ----
  def facts(self, name):
    cols = {'a': 'N', 'b': 'S'}
    if self.r.random() < 0.5:
      cols['l'] = 'LN'
    if self.r.random() < 0.4:
      cols['r'] = 'R'
    if self.r.random() < 0.3:
      cols['c'] = 'N'
    for _ in range(self.r.randrange(1, 4)):
      self.lines.append('%s(%s);' % (name, ', '.join('%s: %s' % (c, self.lit(t)) for c, t in cols.items())))
    self.preds.append((name, cols, 'facts'))

  # ---- expressions ----
  def expr(self, t, env, d=2):
    r = self.r
    cands = [v for v, vt in env.items() if vt == t]
    if d <= 0 or r.random() < 0.3:
      if cands and r.random() < 0.8:
        return r.choice(cands)
      return self.lit(t)
    k = r.random()
    if t == 'N':
      if r.random() < 0.12:
        # unary minus, also of something that itself starts with a minus (negative literal, another negation)
        self.tags.add('unary-minus')
        inner = r.choice(['-%d' % r.randrange(1, 9), '(-%s)' % self.expr('N', env, d - 1), self.expr('N', env, d - 1)])
        return '(-%s)' % inner if inner.startswith('(') or not inner.startswith('-') else '(-(%s))' % inner
      if k < 0.35:
        self.tags.add('arith')
        return '(%s %s %s)' % (self.expr('N', env, d - 1), r.choice(['+', '-', '*']), self.expr('N', env, d - 1))
      if k < 0.45:
        self.tags.add('if')
        return '(if %s then %s else %s)' % (self.cond(env, d - 1), self.expr('N', env, d - 1), self.expr('N', env, d - 1))
      if k < 0.55 and [v for v, vt in env.items() if vt == 'R']:
        self.tags.add('subscript')
        return '%s.p' % r.choice([v for v, vt in env.items() if vt == 'R'])
      if k < 0.62:
        self.tags.add('builtin')
        return 'Size(%s)' % self.expr('LN', env, d - 1)
      if k < 0.72:
        return self.aggr_expr('N', env, d - 1)
      if k < 0.80 and self.funcs:
        self.tags.add('functional-call')
        return '%s(%s)' % (r.choice(self.funcs), self.expr('N', env, d - 1))
      if k < 0.86:
        self.tags.add('builtin')
        return '%s(%s, %s)' % (r.choice(['Greatest', 'Least']), self.expr('N', env, d - 1), self.expr('N', env, d - 1))
      if k < 0.9:
        self.tags.add('subscript')
        return '%s.p' % self.expr('R', env, d - 1)
      return r.choice(cands) if cands else self.num()
    if t == 'S':
      if k < 0.3:
        self.tags.add('concat')
        return '(%s ++ %s)' % (self.expr('S', env, d - 1), self.expr('S', env, d - 1))
      if k < 0.45:
        self.tags.add('builtin')
        return 'ToString(%s)' % self.expr('N', env, d - 1)
      if k < 0.6:
        self.tags.add('if')
        return '(if %s then %s else %s)' % (self.cond(env, d - 1), self.expr('S', env, d - 1), self.expr('S', env, d - 1))
      if k < 0.75 and [v for v, vt in env.items() if vt == 'R']:
        self.tags.add('subscript')
        return '%s.q' % r.choice([v for v, vt in env.items() if vt == 'R'])
      return r.choice(cands) if cands else self.string()
    if t == 'LN':
      if k < 0.5:
        self.tags.add('list')
        return '[%s]' % ', '.join(self.expr('N', env, d - 1) for _ in range(r.randrange(1, 4)))
      if k < 0.65:
        self.tags.add('builtin')
        return 'Range(%s)' % self.expr('N', env, 0)
      if k < 0.75:
        return self.aggr_expr('LN', env, d - 1)
      return r.choice(cands) if cands else self.lit('LN')
    # record
    if k < 0.7:
      self.tags.add('record')
      return '{p: %s, q: %s}' % (self.expr('N', env, d - 1), self.expr('S', env, d - 1))
    if k < 0.8:
      self.tags.add('if')
      return '(if %s then %s else %s)' % (self.cond(env, d - 1), self.expr('R', env, d - 1), self.expr('R', env, d - 1))
    return r.choice(cands) if cands else self.lit('R')

  def aggr_expr(self, t, env, d):
    """Agg{ e :- body }  (a combine sub-query that may mention outer variables)."""
    self.tags.add('combine')
    r = self.r
    fn = r.choice([a for a, at in AGG_EXPR if at == t])
    if r.random() < 0.12:
      # an aggregating expression without a body aggregates the one value of its expression
      self.tags.add('combine-without-body')
      return '%s{%s}' % (fn, self.expr('N', env, min(d, 1)))
    inner = dict(env)
    w = self.var()
    with_n = [p for p in self.preds if [c for c, ct in p[1].items() if ct == 'N']]
    if r.random() < 0.6 or not with_n:
      body = '%s in %s' % (w, self.expr('LN', env, d))
    else:
      name, cols, _ = r.choice(with_n)
      ncols = [c for c, ct in cols.items() if ct == 'N']
      body = '%s(%s: %s)' % (name, r.choice(ncols), w)
    inner[w] = 'N'
    if r.random() < 0.4:
      body += ', %s' % self.cond(inner, 0)
    return '%s{%s :- %s}' % (fn, self.expr('N', inner, min(d, 1)), body)

  def cond(self, env, d=1):
    r = self.r
    k = r.random()
    if d > 0 and k < 0.2:
      self.tags.add('boolean')
      return '(%s %s %s)' % (self.cond(env, d - 1), r.choice(['&&', '||']), self.cond(env, d - 1))
    if k < 0.6:
      self.tags.add('comparison')
      return '%s %s %s' % (self.expr('N', env, d), r.choice(['<', '<=', '>', '>=', '==', '!=']), self.expr('N', env, d))
    if k < 0.8:
      self.tags.add('comparison')
      return '%s %s %s' % (self.expr('S', env, d), r.choice(['==', '!=']), self.expr('S', env, d))
    self.tags.add('in-constraint')
    return '%s in %s' % (self.expr('N', env, d), self.expr('LN', env, d))

  # ---- rule bodies ----
  def body(self):
    r = self.r
    env = {}
    atoms = []
    for _ in range(r.choice([1, 1, 2, 2, 3])):
      name, cols, _ = r.choice(self.preds)
      chosen = [c for c in cols if r.random() < 0.7] or [r.choice(list(cols))]
      parts = []
      for c in chosen:
        t = cols[c]
        same = [v for v, vt in env.items() if vt == t and t in ('N', 'S')]
        if same and r.random() < 0.35:
          v = r.choice(same)
          self.tags.add('join')
        else:
          v = self.var()
          env[v] = t
        parts.append('%s: %s' % (c, v))
      atoms.append('%s(%s)' % (name, ', '.join(parts)))
    extra = []
    for _ in range(r.choice([0, 1, 1, 2])):
      k = r.random()
      if k < 0.3:
        extra.append(self.cond(env, 1))
      elif k < 0.5:
        v = self.var()
        extra.append('%s in %s' % (v, self.expr('LN', env, 1)))
        env[v] = 'N'
        self.tags.add('in-unnest')
      elif k < 0.65:
        name, cols, _ = r.choice([p for p in self.preds if [1 for t in p[1].values() if t in ('N', 'S')]])
        ok = [(c, t) for c, t in cols.items() if t in ('N', 'S')]
        c, t = r.choice(ok)
        extra.append('~%s(%s: %s)' % (name, c, self.expr(t, env, 0)))
        self.tags.add('negation')
      elif k < 0.85:
        v = self.var()
        t = r.choice(['N', 'S', 'R', 'LN'])
        extra.append('%s == %s' % (v, self.expr(t, env, 2)))
        env[v] = t
        self.tags.add('assignment')
      else:
        extra.append(self.cond(env, 1))
    return env, ', '.join(atoms + extra)

  def head_cols(self, forced=None):
    r = self.r
    if forced:
      return list(forced.items())
    cols = []
    names = set()
    for _ in range(r.choice([1, 2, 2, 3])):
      t = r.choice(['N', 'N', 'S', 'S', 'LN', 'R'])
      pool = NUM_COLS if t == 'N' else STR_COLS if t == 'S' else ['l', 'l2'] if t == 'LN' else ['r', 'r2']
      free = [c for c in pool if c not in names]
      if not free:
        continue
      c = r.choice(free)
      names.add(c)
      cols.append((c, t))
    if not any(t in ('N', 'S') for _, t in cols):
      cols.append(('a', 'N') if 'a' not in names else ('n', 'N'))
    return cols

  def derived(self, name):
    r = self.r
    k = r.random()
    if k < 0.12 and [p for p in self.preds if all(t in ('N', 'S') for t in p[1].values())]:
      # rest-of-record copy
      src, cols, _ = r.choice([p for p in self.preds if all(t in ('N', 'S') for t in p[1].values())])
      v = self.var()
      self.lines.append('%s(..%s) :- %s(..%s);' % (name, v, src, v))
      self.tags.add('rest-of')
      self.preds.append((name, dict(cols), 'derived'))
      return
    if k < 0.24:
      # functional predicate N -> N
      env, body = self.body()
      v = self.var()
      env2 = dict(env)
      nvars = [x for x, t in env.items() if t == 'N']
      if nvars:
        arg = r.choice(nvars)
        self.lines.append('%s(%s) = %s :- %s;' % (name, arg, self.expr('N', env, 2), body))
        self.tags.add('functional')
        self.funcs.append(name)
        self.mains.append(name)
        self.last_kind = 'functional'
        return
    if k < 0.45:
      # aggregation
      env, body = self.body()
      keys = [(c, t) for c, t in self.head_cols() if t in ('N', 'S')][:2]
      parts = ['%s: %s' % (c, self.expr(t, env, 1)) for c, t in keys]
      cols = dict(keys)
      for i in range(r.choice([1, 1, 2])):
        op, at, rt = r.choice(AGGS)
        c = 'g%d' % i
        parts.append('%s? %s %s' % (c, op, self.expr(at, env, 1)))
        cols[c] = rt
      self.lines.append('%s(%s) distinct :- %s;' % (name, ', '.join(parts), body))
      self.tags.add('aggregation')
      self.preds.append((name, cols, 'aggregated'))
      return
    cols = self.head_cols()
    nrules = r.choice([1, 1, 1, 2])
    if nrules > 1:
      self.tags.add('multi-rule')
    for _ in range(nrules):
      env, body = self.body()
      if r.random() < 0.15 and nrules == 1:
        self.lines.append('%s(%s) distinct :- %s;' % (
            name, ', '.join('%s: %s' % (c, self.expr(t, env, 1)) for c, t in cols if t in ('N', 'S')), body))
        cols = [(c, t) for c, t in cols if t in ('N', 'S')]
        self.tags.add('distinct')
      else:
        self.lines.append('%s(%s) :- %s;' % (name, ', '.join('%s: %s' % (c, self.expr(t, env, 2)) for c, t in cols), body))
    self.preds.append((name, dict(cols), 'derived'))

  def program(self):
    r = self.r
    for i in range(r.choice([1, 2, 2])):
      self.facts('T%d' % i)
    nd = r.randrange(2, self.size + 2)
    for i in range(nd):
      name = 'D%d' % i
      self.last_kind = None
      self.derived(name)
      k = r.random()
      if self.last_kind != 'functional':
        self.mains.append(name)
        if k < 0.15:
          self.lines.append('@With(%s);' % name)
          self.tags.add('@With')
        elif k < 0.3:
          self.lines.append('@NoWith(%s);' % name)
          self.tags.add('@NoWith')
        elif k < 0.45:
          self.lines.append('@NoInject(%s);' % name)
          self.tags.add('@NoInject')
    mains = self.mains
    return {'text': '\n'.join(self.lines) + '\n', 'pred': mains[-1], 'preds': mains, 'tags': sorted(self.tags)}


def make(r, size=4):
  return Gen(r, size).program()


def dotted_table_family(r):
  """External tables named with a dataset or a path (aux.edge, `store/edge`) used several times in one rule:
  every use needs an alias of its own that is a legal identifier."""
  tabs = r.sample(['aux.edge', 'aux.node', '`store/edge`', 'db1.t'], r.choice([1, 2]))
  uses = []
  vs = ['zq%d' % i for i in range(1, 8)]
  n = r.choice([2, 3, 3, 4])
  for i in range(n):
    uses.append('%s(a: %s, b: %s)' % (r.choice(tabs), vs[i], vs[i + 1]))
  cond = r.choice(['', ', %s > 0' % vs[0], ', %s != %s' % (vs[0], vs[n])])
  text = 'M(a: %s, b: %s) :- %s%s;\n' % (vs[0], vs[n], ', '.join(uses), cond)
  if r.random() < 0.4:
    text += 'N(a: zq1, c? += zq2) distinct :- M(a: zq1, b: zq2);\n'
    pred = 'N'
  else:
    pred = 'M'
  return {'text': text, 'pred': pred, 'preds': [pred], 'tags': ['family:dotted-table'],
          'ext': ['aux', 'db1', 'store', '`store/edge`', 'store/edge', 'aux.edge', 'aux.node', 'db1.t']}


def dependent_unnest_family(r):
  """Several `in` conjuncts of one rule whose lists depend on each other, directly or through an aggregating
  expression: every FROM item that mentions an alias must come after the item that introduces it."""
  vs = ['zq%d' % i for i in range(1, 7)]
  base = '%s in [%s]' % (vs[0], ', '.join(str(r.randint(1, 5)) for _ in range(r.choice([2, 3]))))
  conj = [base]
  shape = r.choice(['agg', 'agg', 'direct', 'chain', 'agg_chain'])
  if shape == 'direct':
    conj.append('%s in [%s, %s + 1]' % (vs[1], vs[0], vs[0]))
    outs = [vs[0], vs[1]]
  elif shape == 'chain':
    conj.append('%s in [%s, %s + 1]' % (vs[1], vs[0], vs[0]))
    conj.append('%s in [%s * 2, %s]' % (vs[2], vs[1], vs[0]))
    outs = [vs[0], vs[1], vs[2]]
  else:
    op = r.choice(['List', 'List', 'Set'])
    conj.append('%s %s= (%s * 10 + %s :- %s in [1, 2])' % (vs[3], op, vs[0], vs[4], vs[4]))
    conj.append('%s in %s' % (vs[1], vs[3]))
    outs = [vs[0], vs[1]]
    if shape == 'agg_chain':
      conj.append('%s in [%s, %s + %s]' % (vs[2], vs[1], vs[1], vs[0]))
      outs.append(vs[2])
  r.shuffle(conj)
  text = 'M(%s) :- %s;\n' % (', '.join(outs), ', '.join(conj))
  return {'text': text, 'pred': 'M', 'preds': ['M'], 'tags': ['family:dependent-unnest', 'in'], 'ext': []}


def shared_with_family(r):
  """WITH-compiled chains shared by several parents (grounded predicates and the main one): every statement
  that mentions a WITH table must define it, and its own WITH dependencies, itself."""
  n_chain = r.choice([2, 2, 3])
  n_par = r.choice([2, 3, 3, 4])
  lines = ['T0(a: 1, b: "x");', 'T0(a: 2, b: "y");']
  prev = 'T0'
  for i in reversed(range(n_chain)):
    name = 'W%d' % i
    k = r.random()
    if k < 0.6:
      lines.append('@With(%s);' % name)
    elif k < 0.8:
      lines.append('@NoInject(%s);' % name)
    if r.random() < 0.5:
      lines.append('%s(a: zq1, b: zq2) :- %s(a: zq1, b: zq2), zq1 > 0;' % (name, prev))
    else:   # two rules: never injected, compiled as a WITH table by default
      lines.append('%s(a: zq1, b: zq2) :- %s(a: zq1, b: zq2);' % (name, prev))
      lines.append('%s(a: zq1 + 1, b: zq2) :- %s(a: zq1, b: zq2), zq1 > 1;' % (name, prev))
    prev = name
  uses = []
  for j in range(n_par):
    g = 'G%d' % j
    lines.append('@Ground(%s);' % g)
    src = r.choice(['W0', 'W0', 'W%d' % (n_chain - 1)])
    lines.append('%s(a: zq1, b: zq2) :- %s(a: zq1, b: zq2)%s;' % (g, src, r.choice(['', ', zq1 < 9'])))
    uses.append('%s(a: zq%d)' % (g, j + 3))
  lines.append('M(a: zq1, n: %s) :- W0(a: zq1), %s;' % (' + '.join('zq%d' % (j + 3) for j in range(n_par)), ', '.join(uses)))
  r.shuffle(lines)
  return {'text': '\n'.join(lines) + '\n', 'pred': 'M', 'preds': ['M'], 'tags': ['family:shared-with', '@Ground', '@With'],
          'ext': ['logica_test', 'logica_home', 'default']}


def malformed(r, prog):
  """A damaged copy of a generated program (the separate malformed stream): the compiler must answer with a
  diagnostic or still produce well-formed SQL, never crash."""
  text = prog['text']
  ext = []
  k = r.random()
  lines = text.split('\n')
  if k < 0.2:
    i = r.randrange(len(lines))
    lines[i] = lines[i].replace(')', '', 1)
    how = 'dropped a parenthesis'
  elif k < 0.4:
    lines = [l for l in lines if not l.startswith('T0(')] or lines
    how = 'removed the facts of T0 (T0 becomes an external table)'
    ext = ['T0']
  elif k < 0.55:
    lines.append('%s(a: zq900) :- zq901 > 1;' % prog['pred'])
    how = 'rule with an unbound variable'
  elif k < 0.7:
    lines.append('@With(%s);\n@NoWith(%s);' % (prog['pred'], prog['pred']))
    how = '@With and @NoWith together'
  elif k < 0.85:
    text2 = '\n'.join(lines).replace(' == ', ' == "str" ++ ', 1)
    lines = text2.split('\n')
    how = 'type clash (string ++ in a numeric position)'
  else:
    lines.append('Zz(a: Size(1, 2, 3));')
    how = 'wrong built-in arity'
  return {'text': '\n'.join(lines) + '\n', 'pred': prog['pred'] if 'Zz(' not in lines[-1] else 'Zz', 'preds': prog['preds'],
          'tags': ['malformed'], 'how': how, 'ext': ext}
