"""Grammar-based generator of Logica program texts as token lists (shared by C15, C06).

A program is a list of tokens [text, kind] (+ pair id for optional parentheses):
  w     word: identifier, number, literal keyword (true/false/null)
  kw    keyword that the parser finds by text: in, if, then, else, combine, distinct, is, ...
  p     punctuation / operator
  s     string literal (any quote form)
  pred  predicate name directly followed by its opening bracket (no layout allowed there: docs/syntax.md)
  L, R  optional redundant parenthesis (absent in the base text), third element = pair id
Rendering decides what stands at each token boundary; layout noise is only ever inserted there.
"""
import re

WORDCH = re.compile(r'[A-Za-z0-9_]')
OPCH = set('+-*/%^<>=!|&~:?.@')
SPACED_OPS = ('<=', '>=', '!=', '<', '>', '==')

VARS = ['x', 'y', 'z', 'a1', 'v_2', 'inx', 'xin', 'thenb', 'elsey', 'ifz', 'combinex', 'distinctly', 'u',
        'b_else', 'else_b', 'then_b', 'a_then', 'if_c', 'c_if', 'in_d', 'd_in',
        'x_distinct', 'is_null', 'combine_y']
# names ending in _limit / _order_by are not generated: both parsers take `My_limit(` for the limit(...) denotation
# (known finding C06 diff:denotation-inside-identifier, kept as a probe there)
PREDS = ['P', 'Q', 'R', 'Foo', 'Bar2', 'T_x', 'In', 'Distinct', 'Is_distinct', 'A_in', 'In_b', 'X_then', 'Else_y']
FIELDS = ['a', 'b', 'c2', 'name', 'inn']
AGGS = ['+=', 'List=', 'Max=', 'Sum=', 'ArgMax=']
BINOPS = ['+', '-', '*', '/', '%', '==', '!=', '<', '<=', '>', '>=', '&&', '||', '++', '->', '^']
STR_PIECES = [',', ';', ':-', '|', '(', ')', '[', ']', '{', '}', '#', '/*', '*/', ' in ', 'distinct', '==', '=',
              "'", '`', ' ', 'a', 'Z', '9', ':', '~', '.', 'if', 'then', 'else', '-->', ':=', 'é', '→', '中', '\\']
COMMENT_PIECES = STR_PIECES + ['"', '"""', 'import ', '\t']


class Gen(object):
  def __init__(self, r, undocumented_strings=True, non_ascii=True):
    self.r = r
    self.pair = 0
    self.undoc = undocumented_strings
    self.non_ascii = non_ascii
    self.features = set()

  # ---- helpers ----
  def opt(self, toks, p=0.25):
    """toks possibly wrapped in an optional (redundant) parenthesis pair."""
    if self.r.random() < p:
      self.pair += 1
      return [['(', 'L', self.pair]] + toks + [[')', 'R', self.pair]]
    return toks

  def sep_list(self, items, sep=','):
    out = []
    for i, it in enumerate(items):
      if i:
        out.append([sep, 'p'])
      out += it
    return out

  # ---- literals ----
  def string(self):
    r = self.r
    n = r.randint(0, 4)
    pieces = [r.choice(STR_PIECES) for _ in range(n)]
    if not self.non_ascii:
      pieces = [p for p in pieces if p.isascii()]
    k = r.random()
    if k < 0.7 or not self.undoc:
      body = ''.join(pieces).replace('\\', '')
      self.features.add('string"')
      return [['"' + body + '"', 's']]
    if k < 0.85:
      body = ''.join(pieces).replace('\\', '').replace("'", r.choice(["\\'", ''])) if r.random() < 0.5 else \
          ''.join(p for p in pieces if p not in ("'", '\\')) + r.choice(['', '\\\\', '\\n', "\\'", '\\(', '\\]', '\\x41', '\\u00e9',
                                                                        '\\x41z', 'a\\u00e9b', '\\t'])
      self.features.add("string'")
      return [["'" + body + "'", 's']]
    body = ''.join(pieces).replace('\\', '') + r.choice(['', '\n', ' " ', '\n# not a comment\nz', '\n  #\n'])
    self.features.add('string"""')
    return [['"""' + body + '"""', 's']]

  def number(self):
    return [[self.r.choice(['0', '1', '7', '42', '2.5', '10']), 'w']]

  def var(self):
    return [[self.r.choice(VARS), 'w']]

  def args(self, depth, head=False, named_p=0.4):
    r = self.r
    n = r.choice([0, 1, 1, 2, 2, 3])
    items = []
    named = False
    for i in range(n):
      if named or r.random() < named_p:
        named = True
        f = r.choice(FIELDS) + (str(i) if i else '')
        k = r.random()
        if head and k < 0.25:
          self.features.add('agg-field')
          items.append([[f, 'w'], ['?', 'p'], [r.choice(AGGS), 'p']] + self.expr(depth - 1))
        elif k < 0.35:
          self.features.add('field-shorthand')
          items.append([[f, 'w'], [':', 'p']])
        else:
          items.append([[f, 'w'], [':', 'p']] + self.expr(depth - 1))
      else:
        items.append(self.expr(depth - 1))
    if not head and n and r.random() < 0.08:
      self.features.add('rest-of')
      items.append([['..' + r.choice(VARS), 'w']])
    return self.sep_list(items)

  def call(self, depth, name=None):
    r = self.r
    if name is None:
      if r.random() < 0.08:
        self.features.add('backtick-table')
        name = '`' + r.choice(['t.a', 'proj.d-s.tab', 'a(b', 'x,y']) + '`'
      else:
        name = r.choice(PREDS)
    return [[name, 'pred'], ['(', 'p']] + self.args(depth) + [[')', 'p']]

  def operand(self, depth):
    """Operand of an operator: an atom, or an expression in mandatory parentheses (so that
    optional parentheses elsewhere never change grouping)."""
    r = self.r
    k = r.random()
    if depth <= 0 or k < 0.55:
      j = r.random()
      t = self.var() if j < 0.45 else self.number() if j < 0.7 else self.string() if j < 0.9 else \
          [[r.choice(['x', 'y']) + '.' + r.choice(FIELDS), 'w']]
      return self.opt(t, 0.12)
    if k < 0.7:
      return self.opt(self.call(depth), 0.12)
    return [['(', 'p']] + self.expr(depth) + [[')', 'p']]

  def expr(self, depth):
    r = self.r
    k = r.random()
    if depth <= 0 or k < 0.3:
      j = r.random()
      if j < 0.35:
        t = self.var()
      elif j < 0.6:
        t = self.number()
      elif j < 0.85:
        t = self.string()
      elif j < 0.93:
        t = [[r.choice(['true', 'false', 'null']), 'w']]
      else:
        self.features.add('subscript')
        t = [[r.choice(['x', 'y']) + '.' + r.choice(FIELDS), 'w']]
      return self.opt(t, 0.12)
    if k < 0.5:
      op = r.choice(BINOPS)
      self.features.add('op' + op)
      return self.opt(self.operand(depth - 1) + [[op, 'p']] + self.operand(depth - 1))
    if k < 0.6:
      self.features.add('call-expr')
      return self.opt(self.call(depth), 0.15)
    if k < 0.68:
      self.features.add('list')
      return self.opt([['[', 'p']] + self.sep_list([self.expr(depth - 1) for _ in range(r.randint(0, 3))]) + [[']', 'p']], 0.15)
    if k < 0.75:
      self.features.add('record')
      n = r.randint(0, 2)
      return self.opt([['{', 'p']] + self.sep_list(
          [[[FIELDS[i], 'w'], [':', 'p']] + self.expr(depth - 1) for i in range(n)]) + [['}', 'p']], 0.15)
    if k < 0.82:
      op = r.choice(['-', '!'])
      self.features.add('unary' + op)
      return self.opt([[op, 'p']] + (self.var() if r.random() < 0.6 else [['(', 'p']] + self.expr(depth - 1) + [[')', 'p']]), 0.2)
    if k < 0.9:
      self.features.add('if-then-else')
      t = [['(', 'p'], ['if', 'kw']] + self.expr(depth - 1) + [['then', 'kw']] + self.expr(depth - 1)
      if r.random() < 0.3:
        self.features.add('else-if')
        t += [['else if', 'kw']] + self.expr(depth - 1) + [['then', 'kw']] + self.expr(depth - 1)
      return t + [['else', 'kw']] + self.expr(depth - 1) + [[')', 'p']]
    if k < 0.94:
      self.features.add('in-expr')
      return [['(', 'p']] + self.var() + [['in', 'kw']] + self.operand(depth - 1) + [[')', 'p']]
    if k < 0.97:
      self.features.add('array-sub')
      return [[r.choice(['x', 'y', 'u']), 'pred'], ['[', 'p']] + self.expr(depth - 1) + [[']', 'p']]
    return self.opt(self.call(depth), 0.15)

  # ---- propositions ----
  def prop(self, depth):
    r = self.r
    k = r.random()
    if depth <= 0 or k < 0.35:
      self.features.add('atom')
      return self.opt(self.call(depth), 0.15)
    if k < 0.5:
      op = r.choice(['==', '<', '<=', '>', '>=', '!=', '=='])
      self.features.add('cmp' + op)
      if r.random() < 0.15:
        self.features.add('combine-expr')
        t = [['(', 'p'], ['combine', 'kw'], [r.choice(AGGS), 'p']] + self.expr(depth - 1)
        if r.random() < 0.6:
          t += [[':-', 'p']] + self.body(depth - 1)
        return self.var() + [['==', 'p']] + t + [[')', 'p']]
      return self.opt(self.operand(depth - 1) + [[op, 'p']] + self.operand(depth - 1), 0.15)
    if k < 0.6:
      self.features.add('in-prop')
      return self.opt(self.var() + [['in', 'kw']] + self.operand(depth - 1), 0.15)
    if k < 0.72:
      self.features.add('negation')
      return self.opt([['~', 'p']] + (self.opt(self.call(depth), 0.4) if r.random() < 0.6 else
                                      [['(', 'p']] + self.body(depth - 1) + [[')', 'p']]), 0.15)
    if k < 0.84:
      self.features.add('disjunction')
      return [['(', 'p']] + self.sep_list([self.body(depth - 1) for _ in range(r.randint(2, 3))], '|') + [[')', 'p']]
    if k < 0.94:
      self.features.add('concise-combine')
      t = self.var() + [[r.choice(AGGS), 'p']]
      if r.random() < 0.6:
        return t + [['(', 'p']] + self.expr(depth - 1) + [[':-', 'p']] + self.body(depth - 1) + [[')', 'p']]
      return t + self.expr(depth - 1)
    self.features.add('implication-prop')
    return [['(', 'p']] + self.body(depth - 1) + [['=>', 'p']] + self.prop(depth - 1) + [[')', 'p']]

  def body(self, depth):
    n = self.r.choice([1, 1, 2, 2, 3])
    return self.sep_list([self.opt(self.prop(depth), 0.1) for _ in range(n)])

  # ---- statements ----
  def head(self, depth):
    r = self.r
    name = r.choice(PREDS)
    agg = r.random() < 0.3
    t = [[name, 'pred'], ['(', 'p']] + self.args(depth, head=agg) + [[')', 'p']]
    k = r.random()
    distinct = agg
    if k < 0.15:
      self.features.add('head-value')
      t += [['=', 'p']] + self.expr(depth)
    elif k < 0.3:
      self.features.add('head-agg-value')
      t += [[r.choice(AGGS), 'p']] + self.expr(depth)
    if distinct or r.random() < 0.15:
      self.features.add('distinct')
      t += [['distinct', 'kw']]
    if r.random() < 0.05:
      self.features.add('order_by/limit')
      t += [['order_by', 'pred'], ['(', 'p']] + self.var() + [[')', 'p']] if r.random() < 0.5 else \
           [['limit', 'pred'], ['(', 'p']] + self.number() + [[')', 'p']]
    return t

  def statement(self, depth=2):
    r = self.r
    k = r.random()
    if k < 0.15:
      self.features.add('fact')
      return [[r.choice(PREDS), 'pred'], ['(', 'p']] + self.sep_list(
          [self.number() if r.random() < 0.5 else self.string() for _ in range(r.randint(0, 3))]) + [[')', 'p']]
    if k < 0.23:
      self.features.add('functor')
      n = r.randint(0, 2)
      return [[r.choice(PREDS), 'w'], [':=', 'p'], [r.choice(PREDS), 'pred'], ['(', 'p']] + self.sep_list(
          [[[PREDS[i], 'w'], [':', 'p'], [r.choice(PREDS), 'w']] for i in range(n)]) + [[')', 'p']]
    if k < 0.32:
      self.features.add('annotation')
      a = r.choice(['@Ground', '@OrderBy', '@Limit', '@Engine', '@Recursive', '@With'])
      items = {'@Engine': [self.string()], '@Limit': [[[r.choice(PREDS), 'w']], self.number()],
               '@Recursive': [[[r.choice(PREDS), 'w']], self.number()],
               '@OrderBy': [[[r.choice(PREDS), 'w']], self.string()]}.get(a, [[[r.choice(PREDS), 'w']]])
      return [[a, 'pred'], ['(', 'p']] + self.sep_list(items) + [[')', 'p']]
    self.features.add('rule')
    t = self.head(depth)
    if r.random() < 0.85:
      b = self.body(depth)
      t += [[':-', 'p']] + self.opt(b, 0.1)
    return t

  def program(self, n=None):
    n = n or self.r.choice([1, 1, 2, 3])
    toks = []
    for i in range(n):
      toks += self.statement() + [[';', 'p']]
    return toks


# ---------------- rendering ----------------
def boundary(a, b):
  """'glue' (nothing may stand here), 'space' (white space required), 'tight' (nothing required)."""
  if a[1] == 'pred':
    return 'glue'
  if a[1] == 'kw' or b[1] == 'kw':
    return 'space'
  if a[0] in SPACED_OPS or b[0] in SPACED_OPS:
    return 'space'     # see PROBES in props/c15.py: glued comparison operators are a known sensitivity
  if a[0] in ('+', '-', '++') and a[1] == 'p' and (b[1] == 'pred' or WORDCH.match(b[0][0]) or b[0][0] in '([{`'):
    return 'space'     # `x-F(1)`, `0-(7)` read as calls of predicates `x-F`, `0-` (known sensitivity, see PROBES)
  x, y = a[0][-1], b[0][0]
  if WORDCH.match(x) and WORDCH.match(y):
    return 'space'
  if x in OPCH and y in OPCH:
    return 'space'
  # a word followed by a quote / a quote followed by a word would still be two tokens; keep them apart
  if (a[1] == 's' and WORDCH.match(y)) or (b[1] == 's' and WORDCH.match(x)):
    return 'space'
  # `x (`: a variable followed by an optional parenthesis would read as a call
  if WORDCH.match(x) and y in '([{' and b[1] in ('L', 'p') and a[1] == 'w':
    return 'space'
  if x == '`' and y in '([{':
    return 'space'
  return 'tight'


def visible(tokens, parens=()):
  """Tokens of the variant in which the optional pairs in `parens` are present."""
  return [t for t in tokens if t[1] not in ('L', 'R') or t[2] in parens]


def render(tokens, style=0, noise=None, parens=(), trailing=''):
  """style 0: a space at every non-glued boundary; 1: nothing where nothing is required.
  noise: {boundary index (in the visible token list): (text, side)} with side 0 = before, 1 = after the base space."""
  toks = visible(tokens, parens)
  out = []
  for i, t in enumerate(toks):
    out.append(t[0])
    if i + 1 < len(toks):
      b = boundary(t, toks[i + 1])
      base = '' if b == 'glue' or (b == 'tight' and style == 1) else ' '
      if noise and i in noise and b != 'glue':
        text, side = noise[i]
        out.append(text + base if side == 0 else base + text)
      else:
        out.append(base)
  return ''.join(out) + trailing


def rand_comment_body(r, block):
  body = ''.join(r.choice(COMMENT_PIECES) for _ in range(r.randint(0, 4)))
  if block:
    while '*/' in body:
      body = body.replace('*/', '*')
    if body.endswith('*'):
      body += ' '
    return body
  return body.replace('\n', ' ')


NOISE_KINDS = ['space', 'tab', 'newline', 'line-comment', 'block-comment']


def rand_noise(r, kind=None):
  kind = kind or r.choice(NOISE_KINDS)
  if kind == 'space':
    return kind, r.choice([' ', '  '])
  if kind == 'tab':
    return kind, '\t'
  if kind == 'newline':
    return kind, r.choice(['\n', '\n  ', '\r\n'][:2])
  if kind == 'line-comment':
    return kind, '#' + rand_comment_body(r, False) + '\n'
  return kind, '/*' + rand_comment_body(r, True) + '*/'


def pair_ids(tokens):
  return sorted(set(t[2] for t in tokens if t[1] == 'L'))


def boundary_class(a, b):
  """Stable name of a token boundary (for keys of findings)."""
  def cls(t):
    if t[1] == 'kw':
      return t[0].replace(' ', '_')
    if t[1] in ('L', 'R'):
      return 'paren'
    if t[1] == 's':
      return 'string'
    if t[1] == 'pred':
      return 'name'
    if t[1] == 'w':
      return 'word'
    return t[0]
  return cls(a) + '|' + cls(b)


# ---------------- corruption (C06 / C19 style) ----------------
def corrupt(r, tokens):
  """One single-token corruption of the visible base token list; returns (kind, new token list)."""
  toks = [list(t) for t in visible(tokens)]
  if not toks:
    return 'none', toks
  k = r.choice(['drop', 'dup', 'swap', 'unbalance', 'cut-string', 'insert'])
  i = r.randrange(len(toks))
  if k == 'drop':
    del toks[i]
  elif k == 'dup':
    toks.insert(i, list(toks[i]))
  elif k == 'swap' and len(toks) > 1:
    j = min(i + 1, len(toks) - 1)
    toks[i], toks[j] = toks[j], toks[i]
  elif k == 'unbalance':
    br = [j for j, t in enumerate(toks) if t[0] in ('(', ')', '[', ']', '{', '}')]
    if br:
      j = r.choice(br)
      if r.random() < 0.5:
        del toks[j]
      else:
        toks[j][0] = r.choice(['(', ')', '[', ']', '{', '}'])
  elif k == 'cut-string':
    ss = [j for j, t in enumerate(toks) if t[1] == 's']
    if ss:
      j = r.choice(ss)
      toks[j][0] = toks[j][0][:r.randint(1, max(1, len(toks[j][0]) - 1))]
  else:
    toks.insert(i, [r.choice([',', ';', ':-', '|', '=', '~', '(', ')', '"', "'", '`', '#', '/*', 'distinct', 'in', '..']), 'p'])
  return k, toks
