"""C01 — compiled SQL returns exactly the multiset the program denotes (Core without aggregation/negation)."""
from vlib import common, proof
from props import coregen as G, corecheck as K

PID = 'C01'
PROFILE = dict(named_cols=0.4, partial_args=0.3, inclusion=0.3, assign=0.7, lists=0.35, records=0.35, combine=0.0,
               disjunction=0.35, filter=0.45, negation=0.0, two_rules=0.35, distinct=0.0, aggregation=0.0,
               ifthenelse=0.5, builtins=0.4, func_calls=0.5, set_agg=0.0)


def run(tier, replay=None):
  rep = common.Report(PID, tier, 'other')
  rep.assumptions = [
      'oracle: Core/Eval.v (reference evaluator of the documented bag semantics), evaluated by vm_compute on the '
      'generator\'s own AST (independent of the parser and compiler)',
      'SQLite executes the emitted SQL (trusted engine); floats, /, 64-bit overflow, ..rest, UDFs outside the fragment',
  ]
  ok, info = proof.proof_stage(rep, PID, extra_trusted=['props/coregen.py (AST -> Logica text and AST -> Coq term printers)',
                                                       'props/corecheck.py, Core/Check.v (bag comparison)'])
  variants = [('plain', lambda prog, r: G.p_program(prog))]
  K.run_core(rep, PID, tier, PROFILE, variants, 220, 6000, 'c01', replay=replay, ok=ok, info=info)
  return rep.finish()
