"""C01 — compiled SQL returns exactly the multiset the program denotes (Core without aggregation/negation)."""
from vlib import common, proof
from props import coregen as G, corecheck as K

PID = 'C01'
PROFILE = dict(named_cols=0.4, partial_args=0.3, inclusion=0.3, assign=0.7, lists=0.35, records=0.35, combine=0.0,
               disjunction=0.35, filter=0.45, negation=0.0, two_rules=0.35, distinct=0.0, aggregation=0.0,
               ifthenelse=0.5, builtins=0.4, func_calls=0.5, share_names=0.5, table_funcs=0.5, dup_calls=0.5, set_agg=0.0, operators=0.6)

# programs for the elimination tie: more unifications, chains of assignments, calls (inlined as tables)
ELIM_PROFILE = dict(PROFILE, inclusion=0.0, lists=0.0, records=0.0, assign=0.9, filter=0.6, func_calls=0.5, builtins=0.3)


def run(tier, replay=None):
  rep = common.Report(PID, tier, 'other')
  rep.assumptions = [
      'oracle: Core/Eval.v (reference evaluator of the documented bag semantics), evaluated by vm_compute on the '
      'generator\'s own AST (independent of the parser and compiler)',
      'SQLite executes the emitted SQL (trusted engine); floats, /, 64-bit overflow, ..rest, UDFs outside the fragment',
  ]
  ok, info = proof.proof_stage(rep, PID, extra_trusted=['props/coregen.py (AST -> Logica text and AST -> Coq term printers)',
                                                       'props/corecheck.py, Core/Check.v (bag comparison)'])
  variants = [('plain', lambda prog, r: G.p_program(prog))]
  found = K.run_core(rep, PID, tier, PROFILE, variants, 220, 1500, 'c01', replay=replay, ok=ok, info=info)
  # --- tie of the elimination model (Core/Elim.v) to RuleStructure.ElliminateInternalVariables
  if ok and not replay:
    import random
    from props import elimtie, c19
    n = 120 if tier == 'quick' else 3000
    texts = []
    for i in range(n):
      s = 'c01-elim/%d/%d' % (common.seed(), i)
      prog = K.gen_program(s, ELIM_PROFILE)
      texts.append(G.p_program(prog))
      if i % 3 == 0 and c19.derived(prog):   # malformed stream: rules that must be rejected
        for fn in (c19.c_head_unbound, c19.c_cmp_unbound):
          c = fn(prog, random.Random(s))
          if c:
            texts.append(c['text'])
    tie = elimtie.run_tie(texts)
    rep.coverage['elimination_tie'] = {k: v for k, v in tie.items() if 'mismatches' not in k}
    rep.coverage['elimination_tie']['extract_mismatching_rules'] = [t for t, _ in tie['extract_mismatches'][:5]]
    rep.coverage['elimination_tie']['mismatching_rules'] = [t for t, _ in tie['mismatches'][:5]]
    rep.coverage['traces_validated_against_impl'] = tie['exact'] + tie['both_reject']
    if tie['extract_mismatches'] and not found:
      rep.violation('tie-extraction', {
          'broken': 'correspondence Core/Extract.v extract vs rule_translate.ExtractRuleStructure (select, unifications, '
                    'constraints, column variables, tables); theorems C01_compiled_rule_* are about the model',
          'rules': [t for t, _ in tie['extract_mismatches'][:5]]}, no_input=True)
    if (tie['mismatches'] or tie['error']) and not found:
      rep.violation('tie-elimination', {
          'broken': 'correspondence Core/Elim.v eliminate vs rule_translate.RuleStructure.ElliminateInternalVariables + '
                    'UnificationsToConstraints (theorem C01_variable_elimination_sound is about the model)',
          'rules': [t for t, _ in tie['mismatches'][:5]], 'codes': [c for _, c in tie['mismatches'][:5]],
          'error': tie['error']}, no_input=True)
  return rep.finish()
