"""Generator of typed, range-restricted Core Logica programs; printers to Logica text and to Coq terms.

AST (tuples):
  expr : ('null',) ('int', z) ('str', s) ('var', name) ('bin', op, a, b) ('list', [e]) ('rec', [(fname, e)])
         ('field', e, fname) ('if', c, t, e) ('fun', name, [e]) ('call', pred, [(field, e)]) ('combine', op, e, [conj])
  conj : ('atom', pred, [(field, e)]) ('cond', e) ('unify', a, b) ('in', x, l) ('not', [conj])
  prop : ('c', conj) ('and', [prop]) ('or', [prop])
  rule : {'head': [(field, ('e', expr) | ('agg', op, expr))], 'distinct': bool, 'body': prop | None}
  pdef : {'name', 'kind': 'table'|'func', 'rules': [rule], 'types': {field: type}, 'bagcols': set(field)}
  type : 'int' | 'str' | ('list', type) | ('rec', [(fname, type)])
Fields: int (positional) | 'logica_value' | other str (named).
"""
import json

BINOPS = {'+': 'OAdd', '-': 'OSub', '*': 'OMul', '++': 'OConcat', '<': 'OLt', '<=': 'OLe', '>': 'OGt',
          '>=': 'OGe', '==': 'OEq', '!=': 'ONe', '&&': 'OAnd', '||': 'OOr'}
FUNS = {'Size': 'BSize', 'Range': 'BRange', 'Element': 'BElement', 'IsNull': 'BIsNull', 'ToString': 'BToString',
        'Greatest': 'BGreatest', 'Least': 'BLeast', 'Abs': 'BAbs', '!': 'BNot'}
AGGS = {'Sum': 'ASum', 'Min': 'AMin', 'Max': 'AMax', 'Count': 'ACount', 'List': 'AList', 'Set': 'ASet',
        'ArgMin': 'AArgMin', 'ArgMax': 'AArgMax'}
HEAD_AGG_SYNTAX = {'Sum': '+=', 'Min': 'Min=', 'Max': 'Max=', 'Count': 'Count=', 'List': 'List=', 'Set': 'Set=',
                   'ArgMin': 'ArgMin=', 'ArgMax': 'ArgMax='}


# ---------------------------------------------------------------- printing: Logica text
def lit_str(s):
  assert all(c not in s for c in '"\\\n'), s
  return '"%s"' % s


def p_expr(e, style=None):
  k = e[0]
  if k == 'null':
    return 'null'
  if k == 'int':
    return str(e[1]) if e[1] >= 0 else '(%d)' % e[1]
  if k == 'str':
    return lit_str(e[1])
  if k == 'var':
    return e[1]
  if k == 'bin':
    left = p_expr(e[2], style)
    if e[2][0] == 'bin' and e[2][1] == e[1] and e[1] in ('-', '+', '*', '++') and left.startswith('(') and left.endswith(')'):
      left = left[1:-1]       # a chain of one operator is written without inner parentheses: a - b - c is (a - b) - c
    return '(%s %s %s)' % (left, e[1], p_expr(e[3], style))
  if k == 'list':
    return '[%s]' % ', '.join(p_expr(x, style) for x in e[1])
  if k == 'rec':
    return '{%s}' % ', '.join('%s: %s' % (f, p_expr(x, style)) for f, x in e[1])
  if k == 'field':
    return '%s.%s' % (p_expr(e[1], style), e[2])
  if k == 'if':
    if len(e) > 4 and e[4] == 'chain' and e[3][0] == 'if':     # else-if chain: one implication with several branches
      return '(if %s then %s else %s)' % (p_expr(e[1], style), p_expr(e[2], style), p_expr(e[3], style)[1:-1])
    return '(if %s then %s else %s)' % (p_expr(e[1], style), p_expr(e[2], style), p_expr(e[3], style))
  if k == 'neg':
    return '(-%s)' % p_expr(e[1], style)
  if k == 'fun':
    if len(e) > 3 and e[3] == 'sub2':    # m[i, j] is Element(Element(m, i), j)
      return '%s[%s, %s]' % (p_expr(e[2][0][2][0], style), p_expr(e[2][0][2][1], style), p_expr(e[2][1], style))
    if len(e) > 3 and e[3] == 'sub':     # l[i] is Element(l, i)
      return '%s[%s]' % (p_expr(e[2][0], style), p_expr(e[2][1], style))
    if e[1] == '!':
      return '!%s' % p_expr(e[2][0], style)
    return '%s(%s)' % (e[1], ', '.join(p_expr(x, style) for x in e[2]))
  if k == 'call':
    return '%s(%s)' % (e[1], p_args(e[2], style))
  if k == 'combine':
    inner = p_expr(e[2], style)
    if e[1] in ('ArgMin', 'ArgMax'):
      # aggregated expression is {arg:, value:}, written arg -> value
      inner = '%s -> %s' % (p_expr(e[2][1][0][1], style), p_expr(e[2][1][1][1], style))
    return '%s{%s :- %s}' % (e[1], inner, p_conjs(e[3], style))
  raise AssertionError(e)


def p_args(args, style=None):
  out = []
  pos = 0
  for f, x in args:
    if isinstance(f, int) and f == pos and not (style and style.get('explicit_cols')):
      out.append(p_expr(x, style))
      pos += 1
    elif isinstance(f, int):
      pos = -1   # once a column is named, the rest is named too
      out.append('col%d: %s' % (f, p_expr(x, style)))
    elif style and style.get('field_shorthand') and x == ('var', f):
      out.append('%s:' % f)
    else:
      out.append('%s: %s' % (f, p_expr(x, style)))
  return ', '.join(out)


def p_conj(c, style=None):
  k = c[0]
  if k == 'atom':
    return '%s(%s)' % (c[1], p_args(c[2], style))
  if k == 'cond':
    e = c[1]
    if e[0] == 'bin':   # top-level comparison without outer parentheses
      return '%s %s %s' % (p_expr(e[2], style), e[1], p_expr(e[3], style))
    return p_expr(e, style)
  if k == 'unify':
    op = '=' if style and style.get('single_eq') else '=='
    form = style.get('combine_form') if style else None
    if form and c[1][0] == 'var' and c[2][0] == 'combine' and c[2][1] not in ('ArgMin', 'ArgMax'):
      agg, e, body = c[2][1], c[2][2], c[2][3]
      if form == 1:    # x Op= (e :- body)
        return '%s %s= (%s :- %s)' % (c[1][1], agg, p_expr(e, style), p_conjs(body, style))
      if form == 2:    # x == (combine Op= e :- body)
        return '%s == (combine %s= %s :- %s)' % (c[1][1], agg, p_expr(e, style), p_conjs(body, style))
    return '%s %s %s' % (p_expr(c[1], style), op, p_expr(c[2], style))
  if k == 'in':
    return '%s in %s' % (p_expr(c[1], style), p_expr(c[2], style))
  if k == 'not':
    if style and style.get('neg_long'):
      return 'Max{1 :- %s} is null' % p_conjs(c[1], style)
    if style and style.get('implication') and len(c[1]) >= 2 and c[1][-1][0] == 'not':
      return '((%s) => (%s))' % (p_conjs(c[1][:-1], style), p_conjs(c[1][-1][1], style))
    if len(c[1]) == 1 and c[1][0][0] == 'atom':
      return '~%s' % p_conj(c[1][0], style)
    return '~(%s)' % p_conjs(c[1], style)
  raise AssertionError(c)


def p_conjs(cs, style=None):
  return ', '.join(p_conj(c, style) for c in cs)


def p_prop(p, style=None, top=True):
  k = p[0]
  if k == 'c':
    return p_conj(p[1], style)
  if k == 'and':
    s = ', '.join(p_prop(q, style, False) for q in p[1])
    return s if top else '(%s)' % s
  if k == 'or':
    s = ' | '.join(p_prop(q, style, False) for q in p[1])
    return s if top else '(%s)' % s
  raise AssertionError(p)


def p_head(name, head, style=None):
  parts = []
  value = None
  for f, hv in head:
    if hv[0] == 'e':
      if f == 'logica_value' and not (style and style.get('explicit_value')):
        value = ' = %s' % p_expr(hv[1], style)
      elif isinstance(f, int):
        parts.append(p_expr(hv[1], style))
      elif style and style.get('field_shorthand') and hv[1] == ('var', f):
        parts.append('%s:' % f)
      else:
        parts.append('%s: %s' % (f, p_expr(hv[1], style)))
    else:
      op, e = hv[1], hv[2]
      inner = p_expr(e, style)
      if op in ('ArgMin', 'ArgMax'):
        inner = '%s -> %s' % (p_expr(e[1][0][1], style), p_expr(e[1][1][1], style))
      if f == 'logica_value' and not (style and style.get('explicit_value')):
        value = ' %s %s' % (HEAD_AGG_SYNTAX[op], inner)
      else:
        parts.append('%s? %s %s' % (f, HEAD_AGG_SYNTAX[op], inner))
  if style and style.get('explicit_value'):
    # the value column is the last one in the short form; keep that order in the long form
    vals = [q for q in parts if q.startswith('logica_value')]
    parts = [q for q in parts if not q.startswith('logica_value')] + vals
  return '%s(%s)%s' % (name, ', '.join(parts), value or '')


def p_rule(name, r, style=None):
  s = p_head(name, r['head'], style)
  value_agg = any(f == 'logica_value' and hv[0] == 'agg' for f, hv in r['head']) and not (style and style.get('explicit_value'))
  if r['distinct'] and not value_agg:
    s += ' distinct'
  body = r.get('body')
  if body is not None and body != ('and', []):
    s += ' :- ' + p_prop(body, style)
  return s + ';'


def p_program(prog, style=None, annotations=()):
  lines = ['@Engine("sqlite");'] + list(annotations)
  for d in prog:
    for r in d['rules']:
      if style and style.get('or_as_rules') and r.get('body') and r['body'][0] == 'and' and \
          any(q[0] == 'or' for q in r['body'][1]):
        i = [k for k, q in enumerate(r['body'][1]) if q[0] == 'or'][0]
        for alt in r['body'][1][i][1]:
          nb = ('and', r['body'][1][:i] + [alt] + r['body'][1][i + 1:])
          lines.append(p_rule(d['name'], dict(r, body=nb), style))
        continue
      lines.append(p_rule(d['name'], r, style))
  return '\n'.join(lines) + '\n'


# ---------------------------------------------------------------- printing: Coq terms
class Names:
  def __init__(self):
    self.vars, self.preds, self.fields = {}, {}, {}

  def var(self, x):
    return self.vars.setdefault(x, len(self.vars))

  def pred(self, p):
    return self.preds.setdefault(p, len(self.preds))

  def field(self, f):
    if isinstance(f, int):
      return f
    if f == 'logica_value':
      return 99
    if f.startswith('col') and f[3:].isdigit():
      return int(f[3:])
    return 100 + self.fields.setdefault(f, len(self.fields))


def c_str(s):
  return '[%s]' % '; '.join(str(ord(c)) for c in s)


def c_list(xs):
  return '[%s]' % '; '.join(xs)


def c_expr(e, nm):
  k = e[0]
  if k == 'null':
    return 'ENull'
  if k == 'int':
    return '(EInt (%d)%%Z)' % e[1]
  if k == 'str':
    return '(EStr %s)' % c_str(e[1])
  if k == 'var':
    return '(EVar %d)' % nm.var(e[1])
  if k == 'bin':
    return '(EBin %s %s %s)' % (BINOPS[e[1]], c_expr(e[2], nm), c_expr(e[3], nm))
  if k == 'neg':
    return '(EBin OSub (EInt (0)%%Z) %s)' % c_expr(e[1], nm)
  if k == 'list':
    return '(EList %s)' % c_list(c_expr(x, nm) for x in e[1])
  if k == 'rec':
    return '(ERec %s)' % c_list('(%d, %s)' % (nm.field(f), c_expr(x, nm)) for f, x in e[1])
  if k == 'field':
    return '(EField %s %d)' % (c_expr(e[1], nm), nm.field(e[2]))
  if k == 'if':
    return '(EIf %s %s %s)' % (c_expr(e[1], nm), c_expr(e[2], nm), c_expr(e[3], nm))
  if k == 'fun':
    return '(EFun %s %s)' % (FUNS[e[1]], c_list(c_expr(x, nm) for x in e[2]))
  if k == 'call':
    return '(ECall %d %s)' % (nm.pred(e[1]), c_args(e[2], nm))
  if k == 'combine':
    return '(ECombine %s %s %s)' % (AGGS[e[1]], c_expr(e[2], nm), c_list(c_conj(c, nm) for c in e[3]))
  raise AssertionError(e)


def c_args(args, nm):
  return c_list('(%d, %s)' % (nm.field(f), c_expr(x, nm)) for f, x in args)


def c_conj(c, nm):
  k = c[0]
  if k == 'atom':
    return '(CAtom %d %s)' % (nm.pred(c[1]), c_args(c[2], nm))
  if k == 'cond':
    return '(CCond %s)' % c_expr(c[1], nm)
  if k == 'unify':
    return '(CUnify %s %s)' % (c_expr(c[1], nm), c_expr(c[2], nm))
  if k == 'in':
    return '(CIn %s %s)' % (c_expr(c[1], nm), c_expr(c[2], nm))
  if k == 'not':
    return '(CNot %s)' % c_list(c_conj(x, nm) for x in c[1])
  raise AssertionError(c)


def c_prop(p, nm):
  if p is None:
    return '(PAnd [])'
  if p[0] == 'c':
    return '(PConj %s)' % c_conj(p[1], nm)
  if p[0] == 'and':
    return '(PAnd %s)' % c_list(c_prop(q, nm) for q in p[1])
  return '(POr %s)' % c_list(c_prop(q, nm) for q in p[1])


def c_rule(r, nm):
  head = c_list('(%d, %s)' % (nm.field(f), ('(HExpr %s)' % c_expr(hv[1], nm)) if hv[0] == 'e' else
                              ('(HAgg %s %s)' % (AGGS[hv[1]], c_expr(hv[2], nm)))) for f, hv in r['head'])
  return '{| r_head := %s; r_distinct := %s; r_body := %s |}' % (
      head, 'true' if r['distinct'] else 'false', c_prop(r.get('body'), nm))


def c_program(prog, nm):
  ds = []
  for d in prog:
    rules = []
    for r in d['rules']:
      nm.vars = {}   # variables are local to a rule
      rules.append(c_rule(r, nm))
    ds.append('{| p_name := %d; p_kind := %s; p_rules := %s |}' % (
        nm.pred(d['name']), 'KFunc' if d['kind'] == 'func' else 'KTable', c_list(rules)))
  return c_list(ds)


def c_val(v, ty, nm, bag=False):
  """Python value from SQLite (decoded by type) -> Coq val."""
  if v is None:
    return 'VNull'
  if isinstance(v, bool):
    return '(VInt (%d)%%Z)' % int(v)
  if isinstance(v, int):
    return '(VInt (%d)%%Z)' % v
  if isinstance(v, float):
    if v == int(v):
      return '(VInt (%d)%%Z)' % int(v)
    raise ValueError('float')
  if isinstance(v, str):
    return '(VStr %s)' % c_str(v)
  if isinstance(v, list):
    ety = ty[1] if isinstance(ty, tuple) and ty[0] == 'list' else None
    items = list(v)
    if bag:
      items = sorted(items, key=lambda x: (x is None, str(type(x)), x))
    return '(VList %s)' % c_list(c_val(x, ety, nm) for x in items)
  if isinstance(v, dict):
    ftys = dict(ty[1]) if isinstance(ty, tuple) and ty[0] == 'rec' else {}
    return '(VRec %s)' % c_list('(%d, %s)' % (nm.field(f), c_val(x, ftys.get(f), nm)) for f, x in v.items())
  raise ValueError(type(v))


def decode_by_type(v, ty):
  """SQLite gives lists/records as JSON text."""
  if v is None:
    return None
  if isinstance(ty, tuple) and isinstance(v, str):
    return json.loads(v)
  return v


# ---------------------------------------------------------------- generation
INTS = [0, 1, 1, 2]
STRS = ['a', 'a', 'b']


class Gen:
  """One program.  profile: dict of feature -> probability."""

  def __init__(self, r, profile):
    self.r = r
    self.pf = profile
    self.prog = []
    self.nvar = 0

  def p(self, feat):
    return self.r.random() < self.pf.get(feat, 0.0)

  def fresh(self, hint='v'):
    self.nvar += 1
    return '%s%d' % (hint, self.nvar)

  def lit(self, ty):
    if ty == 'int':
      return ('int', self.r.choice(INTS))
    return ('str', self.r.choice(STRS))

  # --- extensional predicates as facts
  def gen_facts(self, name):
    r = self.r
    ncol = r.choice([1, 2, 2, 3])
    types = [r.choice(['int', 'int', 'str']) for _ in range(ncol)]
    named = self.p('named_cols') and ncol >= 2
    fields = list(range(ncol))
    if named:
      fields[-1] = r.choice(['name', 'w', 'tag'])
    rows = [tuple(self.lit(t) for t in types) for _ in range(r.choice([2, 3, 4, 5, 6]))]
    if rows and r.random() < 0.5:
      rows.append(r.choice(rows))  # a duplicate row
    rules = [{'head': [(f, ('e', v)) for f, v in zip(fields, row)], 'distinct': False, 'body': None} for row in rows]
    d = {'name': name, 'kind': 'table', 'rules': rules, 'types': dict(zip(fields, types)), 'bagcols': set(),
         'ext': True}
    self.prog.append(d)
    return d

  # --- expressions over bound variables
  def if_of(self, ty, bound, depth):
    """if-then-else; half of them an else-if chain, whose branches often repeat a value (also the else value)."""
    r = self.r
    c1, t1 = self.cond_of(bound, depth - 1), self.expr_of(ty, bound, depth - 1)
    if r.random() < 0.5:
      c2, t2 = self.cond_of(bound, depth - 1), self.expr_of(ty, bound, depth - 1)
      k = r.random()
      last = t1 if k < 0.4 else (t2 if k < 0.55 else self.expr_of(ty, bound, depth - 1))
      if r.random() < 0.3:
        c3 = self.cond_of(bound, depth - 1)
        return ('if', c1, t1, ('if', c2, t2, ('if', c3, r.choice([t1, t2]), last, 'chain'), 'chain'), 'chain')
      return ('if', c1, t1, ('if', c2, t2, last, 'chain'), 'chain')
    return ('if', c1, t1, self.expr_of(ty, bound, depth - 1))

  def expr_of(self, ty, bound, depth=2):
    """bound: {var: type}.  Returns an expression of type ty over bound variables (may be a literal)."""
    r = self.r
    cands = [v for v, t in bound.items() if t == ty]
    if depth <= 0 or r.random() < 0.35:
      if cands and r.random() < 0.8:
        return ('var', r.choice(cands))
      if ty in ('int', 'str'):
        return self.lit(ty)
    if ty == 'int' and getattr(self, 'matrices', None) and r.random() < 0.25:
      m, nrows = r.choice(self.matrices)
      return ('fun', 'Element', [('fun', 'Element', [('var', m), ('int', r.randrange(nrows))]),
                                 ('fun', 'Abs', [self.expr_of('int', bound, 0)])], 'sub2')
    if ty == 'int':
      k = r.random()
      if k < 0.08 and self.p('operators'):
        return ('neg', ('bin', r.choice(['+', '-']), self.expr_of('int', bound, depth - 1), self.expr_of('int', bound, depth - 1)))
      if k < 0.14 and self.p('operators'):
        lst = ('list', [self.lit('int') for _ in range(r.choice([3, 4, 5]))])
        return ('fun', 'Element', [lst, ('fun', 'Abs', [('bin', r.choice(['+', '-']), self.expr_of('int', bound, 0),
                                                          self.expr_of('int', bound, 0))])])
      if k < 0.45:
        if r.random() < 0.3:     # a chain of one operator, printed without inner parentheses: a - b - c
          op = r.choice(['-', '-', '+', '*'])
          return ('bin', op, ('bin', op, self.expr_of('int', bound, 0), self.expr_of('int', bound, 0)), self.expr_of('int', bound, 0))
        return ('bin', r.choice(['+', '-', '*']), self.expr_of('int', bound, depth - 1), self.expr_of('int', bound, depth - 1))
      if k < 0.6 and self.p('ifthenelse'):
        return self.if_of('int', bound, depth)
      if k < 0.7 and self.p('builtins'):
        lists = [v for v, t in bound.items() if t == ('list', 'int')]
        if lists and r.random() < 0.4:
          return ('fun', 'Element', [('var', r.choice(lists)), ('fun', 'Abs', [self.expr_of('int', bound, 0)])], 'sub')
        if lists:
          return ('fun', 'Size', [('var', r.choice(lists))])
        return ('fun', r.choice(['Greatest', 'Least']), [self.expr_of('int', bound, depth - 1), self.expr_of('int', bound, depth - 1)])
      if k < 0.8 and self.p('func_calls') and self.funcs('int'):
        last = getattr(self, 'last_call', None)
        if last is not None and self.p('dup_calls') and all(v in bound for v in last[1]):
          return last[0]        # the same call written twice in one rule
        f = r.choice(self.funcs('int'))
        e = ('call', f['name'], [(i, self.expr_of(t, bound, 0)) for i, t in enumerate(f['argtypes'])])
        vs = set()
        _rename_vars(e, lambda v: vs.add(v) or v)
        self.last_call = (e, vs)
        return e
      recs = [(v, t) for v, t in bound.items() if isinstance(t, tuple) and t[0] == 'rec']
      if k < 0.9 and recs:
        v, t = r.choice(recs)
        fs = [f for f, ft in t[1] if ft == 'int']
        if fs:
          return ('field', ('var', v), r.choice(fs))
      return ('var', r.choice(cands)) if cands else self.lit('int')
    if ty == 'str':
      k = r.random()
      if k < 0.4:
        return ('bin', '++', self.expr_of('str', bound, depth - 1), self.expr_of('str', bound, depth - 1))
      if k < 0.55 and self.p('ifthenelse'):
        return self.if_of('str', bound, depth)
      if k < 0.7 and self.p('builtins'):
        return ('fun', 'ToString', [self.expr_of('int', bound, depth - 1)])
      return ('var', r.choice(cands)) if cands else self.lit('str')
    if isinstance(ty, tuple) and ty[0] == 'list':
      if cands and r.random() < 0.5:
        return ('var', r.choice(cands))
      if ty[1] == 'int' and self.p('builtins') and r.random() < 0.45:
        ints = [v for v, t in bound.items() if t == 'int']
        if ints and r.random() < 0.4:
          return ('fun', 'Range', [('var', r.choice(ints))])      # the bound may be 0 or negative: no elements
        return ('fun', 'Range', [('int', r.choice([0, 0, 1, 2, 3]))])
      return ('list', [self.expr_of(ty[1], bound, depth - 1) for _ in range(r.choice([1, 2, 3]))])
    if isinstance(ty, tuple) and ty[0] == 'rec':
      return ('rec', [(f, self.expr_of(ft, bound, depth - 1)) for f, ft in ty[1]])
    raise AssertionError(ty)

  def cond_of(self, bound, depth=1, nest=2):
    r = self.r
    if nest > 0 and self.p('operators') and r.random() < 0.35:
      k = r.random()
      if k < 0.3:
        return ('fun', '!', [('bin', r.choice(['||', '&&']), self.cond_of(bound, depth, 0), self.cond_of(bound, depth, 0))])
      a, b = self.cond_of(bound, depth, nest - 1), self.cond_of(bound, depth, nest - 1)
      return ('bin', r.choice(['&&', '||']), a, b)
    ty = r.choice(['int', 'int', 'str'])
    op = r.choice(['<', '<=', '>', '>=', '==', '!='])
    a, b = self.expr_of(ty, bound, depth), self.expr_of(ty, bound, depth)
    if op == '==' and a == b:   # `e == e` is dropped by the compiler (matters only for null)
      op = '<='
    return ('bin', op, a, b)

  def funcs(self, ty):
    return [d for d in self.prog if d.get('functional') and d['types']['logica_value'] == ty]

  def tables(self):
    return [d for d in self.prog if d['kind'] == 'table' and not d.get('functional')]

  # --- atoms
  def gen_atom(self, d, bound, newvars, force_link=False, local_ok=True):
    """Atom over table d.  Adds variables it binds to newvars ({var: type})."""
    r = self.r
    args = []
    fields = list(d['types'].items())
    fields = [fv for fv in fields if fv[0] not in d['bagcols']] or fields[:1]
    if self.p('partial_args') and len(fields) > 1:
      # omit trailing positional columns or any named column (a gap would need the colN form, see C11)
      keep = r.randint(1, len(fields))
      fields = [fv for i, fv in enumerate(fields) if (isinstance(fv[0], int) and i < keep) or
                (not isinstance(fv[0], int) and r.random() < 0.7)] or fields[:1]
    linked = False
    for f, t in fields:
      k = r.random()
      same = [v for v, vt in list(bound.items()) + list(newvars.items()) if vt == t]
      if same and (k < 0.35 or (force_link and not linked)):
        args.append((f, ('var', r.choice(same))))
        linked = True
      elif k < 0.45 and t in ('int', 'str'):
        args.append((f, self.lit(t)))
      elif k < 0.55 and t in ('int', 'str') and [v for v, vt in bound.items() if vt == t]:
        args.append((f, self.expr_of(t, bound, 1)))
      else:
        v = self.fresh('x')
        newvars[v] = t
        args.append((f, ('var', v)))
    return ('atom', d['name'], args)

  # --- one conjunctive body; returns (list of props, bound vars)
  def gen_body(self, need_types=None):
    r = self.r
    tabs = self.tables()
    bound = {}
    props = []
    self.matrices = []
    if self.p('lists') and r.random() < 0.3:
      # a variable holding a list of lists, read by the subscription m[i, j]
      m = self.fresh('m')
      rows = [[self.lit('int') for _ in range(3)] for _ in range(r.choice([2, 3]))]
      props.append(('c', ('unify', ('var', m), ('list', [('list', row) for row in rows]))))
      self.matrices.append((m, len(rows)))
    natoms = r.choice([1, 1, 2, 2, 3])
    if r.random() < self.pf.get('tableless', 0.06):
      # a rule that reads no table: constants, assignments and a guard that may well be false
      natoms = 0
      v = self.fresh('k')
      ty = r.choice(['int', 'int', 'str'])
      props.append(('c', ('unify', ('var', v), self.lit(ty))))
      bound[v] = ty
      props.append(('c', ('cond', self.cond_of(bound, 1))))
    for i in range(natoms):
      d = r.choice(tabs)
      newv = {}
      a = self.gen_atom(d, bound, newv, force_link=(i > 0 and r.random() < 0.7))
      bound.update(newv)
      props.append(('c', a))
    # `in`
    if self.p('inclusion'):
      v = self.fresh('e')
      ety = r.choice(['int', 'str'])
      lst = self.expr_of(('list', ety), bound, 1)
      bound_before = dict(bound)
      if r.random() < 0.75:
        bound[v] = ety
        props.append(('c', ('in', ('var', v), lst)))
        if r.random() < 0.3:    # a second inclusion of the same variable: both lists are unnested and joined
          props.append(('c', ('in', ('var', v), ('list', [self.lit(ety) for _ in range(r.choice([2, 3]))]))))
      else:
        lst = ('list', [self.lit(ety) for _ in range(r.choice([1, 2, 3]))])
        props.append(('c', ('in', self.expr_of(ety, bound_before, 1), lst)))
    # assignments
    for _ in range(r.choice([0, 0, 1, 2]) if self.p('assign') else 0):
      ty = r.choice(['int', 'int', 'str'] + ([('list', 'int')] if self.p('lists') else []) +
                    ([('rec', [('a', 'int'), ('b', 'str')])] if self.p('records') else []))
      e = self.expr_of(ty, bound, 2)
      v = self.fresh('y')
      props.append(('c', ('unify', ('var', v), e) if r.random() < 0.6 else ('unify', e, ('var', v))))
      bound[v] = ty
    # combines (a later one may use the value of an earlier one)
    if self.p('combine'):
      for _ in range(r.choice([1, 1, 2, 3]) if self.p('multi_combine') else 1):
        props.append(('c', self.gen_combine_assign(bound)))
    # disjunction of alternatives (filters, or atoms binding one common new variable)
    if self.p('disjunction'):
      props.append(self.gen_disjunction(bound))
    # filters
    for _ in range(r.choice([1, 1, 2]) if self.p('filter') else 0):
      props.append(('c', ('cond', self.cond_of(bound, 1))))
    # negation
    if self.p('negation'):
      props.append(('c', self.gen_negation(bound)))
    r.shuffle(props)
    return props, bound

  def gen_disjunction(self, bound):
    r = self.r
    alts = []
    if r.random() < 0.5:
      for _ in range(r.choice([2, 2, 3])):
        if r.random() < 0.25:     # an alternative that is a conjunction holding a further disjunction
          inner = ('or', [('c', ('cond', self.cond_of(bound, 1))) for _ in range(r.choice([2, 2, 3]))])
          parts = [('c', ('cond', self.cond_of(bound, 1))), inner]
          r.shuffle(parts)
          alts.append(('and', parts) if r.random() < 0.8 else inner)
        else:
          alts.append(('c', ('cond', self.cond_of(bound, 1))))
      return ('or', alts)
    # alternatives that each bind the same new variable
    ty = r.choice(['int', 'str'])
    v = self.fresh('d')
    for _ in range(2):
      k = r.random()
      ds = [d for d in self.tables() if ty in d['types'].values()]
      if k < 0.5 and ds:
        d = r.choice(ds)
        f = r.choice([f for f, t in d['types'].items() if t == ty])
        args = []
        for g, gt in d['types'].items():   # positional columns before f get fresh local variables
          if g == f:
            break
          if isinstance(g, int):
            args.append((g, ('var', self.fresh('u'))))
        args.append((f, ('var', v)))
        alt = [('c', ('atom', d['name'], args))]
        if r.random() < 0.4:
          alt.append(('c', ('cond', self.cond_of(dict(bound, **{v: ty}), 1))))
        alts.append(('and', alt) if len(alt) > 1 or r.random() < 0.3 else alt[0])
      else:
        alts.append(('c', ('unify', ('var', v), self.expr_of(ty, bound, 1))))
    bound[v] = ty
    return ('or', alts)

  def gen_inner(self, bound, want_ty=None):
    """Body of a combine / negation: 1-2 atoms linked to outer variables, local variables allowed."""
    r = self.r
    local = {}
    cs = []
    for i in range(r.choice([1, 1, 2])):
      d = r.choice(self.tables())
      newv = {}
      cs.append(self.gen_atom(d, dict(bound, **local), newv, force_link=True))
      local.update(newv)
    if r.random() < 0.5:
      cs.append(('cond', self.cond_of(dict(bound, **local), 1)))
    return cs, local

  def gen_negation(self, bound):
    if self.r.random() < 0.2:   # double negation ~(~A): A as a filter (no multiplicity), not a join
      if self.r.random() < 0.6:
        newv = {}
        cs = [self.gen_atom(self.r.choice(self.tables()), dict(bound), newv, force_link=True)]
      else:
        cs, _ = self.gen_inner(bound)
      return ('not', [('not', cs)])
    cs, local = self.gen_inner(bound)
    if self.p('implication'):   # ~(A, ~B), printable as A => B
      cs2, _ = self.gen_inner(dict(bound, **local))
      cs = cs + [('not', cs2)]
    return ('not', cs)

  def gen_combine_expr(self, bound):
    r = self.r
    cs, local = self.gen_inner(bound)
    allv = dict(bound, **local)
    op = r.choice(['Sum', 'Min', 'Max', 'Count', 'List', 'Sum', 'Max'] + (['Set'] if self.p('set_agg') else []))
    if op in ('Sum',):
      e, ty = self.expr_of('int', allv, 1), 'int'
      prev = [v for v in getattr(self, 'int_combine_vars', []) if v in bound]
      if prev and r.random() < 0.5:      # the value of an earlier aggregating expression inside this one
        e = ('bin', '+', e, ('var', r.choice(prev)))
    elif op == 'Count':
      e, ty = self.expr_of(r.choice(['int', 'str']), allv, 1), 'int'
    elif op in ('List', 'Set'):
      et = r.choice(['int', 'str'])
      e, ty = self.expr_of(et, allv, 1), ('list', et)
    else:
      et = r.choice(['int', 'str'])
      e, ty = self.expr_of(et, allv, 1), et
    return ('combine', op, e, cs), ty, op

  def gen_combine_assign(self, bound):
    ce, ty, op = self.gen_combine_expr(bound)
    v = self.fresh('c')
    bound[v] = ty
    if ty == 'int':
      self.int_combine_vars = getattr(self, 'int_combine_vars', []) + [v]
    if op in ('List', 'Set'):
      self.bagvars = getattr(self, 'bagvars', set()) | {v}
    return ('unify', ('var', v), ce)

  # --- derived predicates
  def gen_derived(self, name):
    r = self.r
    nrules = 2 if self.p('two_rules') else 1
    rules = []
    sig = None
    self.bagvars = set()
    for _ in range(nrules):
      for attempt in range(20):
        props, bound = self.gen_body()
        rule = self.gen_head(props, bound, sig)
        if rule is not None:
          break
      else:
        return None
      if sig is None:
        sig = rule['sig']
      rules.append(rule)
    types = {f: t for f, t, _ in sig['cols']}
    d = {'name': name, 'kind': 'table', 'rules': rules, 'types': types,
         'bagcols': set(f for f, t, agg in sig['cols'] if agg in ('List', 'Set')) | set(sig.get('bagcols', ())),
         'distinct': sig['distinct']}
    if any(isinstance(t, tuple) for t in types.values()):
      d['no_read'] = True     # consumers only read scalar columns (kept simple)
    self.prog.append(d)
    return d

  def gen_head(self, props, bound, sig):
    r = self.r
    body = ('and', props)
    scal = {v: t for v, t in bound.items()}
    given_sig = sig is not None
    if sig is None:
      distinct = self.p('distinct') or self.p('aggregation')
      agg = distinct and self.p('aggregation')
      ncols = r.choice([1, 2, 2, 3])
      cols = []
      named_ok = self.p('named_cols')
      two_named = named_ok and ncols >= 2 and r.random() < 0.4     # the last two columns are named
      for i in range(ncols):
        f = i if not (named_ok and i == ncols - 1 and r.random() < 0.6) else r.choice(['out', 'z', 'val'])
        if two_named and i == ncols - 2:
          f = 'key'
        if two_named and i == ncols - 1:
          f = r.choice(['out', 'z', 'val'])
        vs = list(scal.items())
        if not vs:
          return None
        v, t = r.choice(vs)
        if distinct and isinstance(t, tuple):
          t = 'int'   # group keys are scalars
        cols.append((f, t, None))
      if agg:
        for j in range(r.choice([1, 1, 2])):
          op = r.choice(['Sum', 'Min', 'Max', 'Count', 'List'] + (['Set'] if self.p('set_agg') else []))
          f = r.choice(['s', 'm', 'n', 'agg'])[:] + str(j)
          if j == 0 and self.p('value_agg'):
            f = 'logica_value'
          if op == 'Sum':
            t = 'int'
          elif op == 'Count':
            t = 'int'
            self.count_arg = getattr(self, 'count_arg', {})
            self.count_arg[f] = r.choice(['int', 'str'])
          elif op in ('List', 'Set'):
            t = ('list', r.choice(['int', 'str']))
          else:
            t = r.choice(['int', 'str'])
          cols.append((f, t, op))
      sig = {'cols': cols, 'distinct': distinct}
    head = []
    bagcols = set()
    for f, t, op in sig['cols']:
      if op is None:
        e = self.expr_of(t, {v: vt for v, vt in bound.items()}, 1)
        if e[0] == 'var' and e[1] in getattr(self, 'bagvars', set()):
          bagcols.add(f)
        if isinstance(t, tuple) and e[0] != 'var':
          pass
        head.append((f, ('e', e)))
      else:
        if op == 'Count':
          e = self.expr_of(self.count_arg[f], bound, 1)
        elif op in ('List', 'Set'):
          e = self.expr_of(t[1], bound, 1)
        else:
          e = self.expr_of(t, bound, 1)
        head.append((f, ('agg', op, e)))
    if bagcols:
      sig = dict(sig, bagcols=set(sig.get('bagcols', ())) | bagcols)
    if given_sig and not sig['distinct'] and r.random() < 0.6:
      # a later rule of the predicate writes its named columns in another order
      named = [h for h in head if isinstance(h[0], str) and h[0] != 'logica_value']
      if len(named) >= 2:
        r.shuffle(named)
        it = iter(named)
        head = [next(it) if isinstance(h[0], str) and h[0] != 'logica_value' else h for h in head]
    return {'head': head, 'distinct': sig['distinct'], 'body': body, 'sig': sig}

  def gen_table_func(self, name):
    """Functional predicate with a finite extension: G(a) = b :- T(a, b); several values per argument and
    duplicate rows are possible, so every occurrence of a call multiplies the derivations."""
    r = self.r
    cands = [d for d in self.prog if d.get('ext') and len(d['types']) >= 2 and
             all(t in ('int', 'str') for t in d['types'].values())]
    if not cands:
      return None
    d = r.choice(cands)
    fs = list(d['types'].items())
    (fa, ta), (fb, tb) = fs[0], fs[1]
    if tb != 'int':
      return None
    head = [(0, ('e', ('var', 'a'))), ('logica_value', ('e', ('var', 'b')))]
    body = ('and', [('c', ('atom', d['name'], [(fa, ('var', 'a')), (fb, ('var', 'b'))]))])
    g = {'name': name, 'kind': 'table', 'rules': [{'head': head, 'distinct': False, 'body': body}],
         'types': {0: ta, 'logica_value': tb}, 'argtypes': [ta], 'functional': True, 'bagcols': set()}
    self.prog.append(g)
    return g

  def gen_func(self, name):
    """Injectible functional predicate F(a, b) = expr."""
    self.matrices = []
    r = self.r
    argtypes = [r.choice(['int', 'int', 'str']) for _ in range(r.choice([1, 2]))]
    names = ['a', 'b'][:len(argtypes)]
    bound = dict(zip(names, argtypes))
    ty = r.choice(['int', 'int', 'str'])
    saved, self.pf = self.pf, dict(self.pf, func_calls=0.0)
    e = self.expr_of(ty, bound, 2)
    self.pf = saved
    if e[0] == 'var':
      # not the identity: `c == F(c)` would become `c == c` after injection, which the compiler drops even when c
      # is null (the reference semantics compares with SQL equality) - outside what the properties state
      e = ('bin', '+', e, ('int', 0)) if ty == 'int' else ('bin', '++', e, ('str', 'a'))
    head = [(i, ('e', ('var', n))) for i, n in enumerate(names)] + [('logica_value', ('e', e))]
    d = {'name': name, 'kind': 'func', 'rules': [{'head': head, 'distinct': False, 'body': None}],
         'types': dict(list(enumerate(argtypes)) + [('logica_value', ty)]), 'argtypes': argtypes,
         'functional': True, 'bagcols': set()}
    self.prog.append(d)
    return d

  def generate(self):
    r = self.r
    for i in range(r.choice([1, 2, 2, 3])):
      self.gen_facts('T%d' % i)
    if self.p('func_calls'):
      self.gen_func('F0')
    if self.p('table_funcs'):
      self.gen_table_func('G0')
    k = 0
    for i in range(r.choice([1, 2, 3, 4])):
      d = self.gen_derived('D%d' % k)
      if d is not None:
        k += 1
    if self.p('share_names'):
      share_variable_names(self.prog, r)
    return self.prog


def strip_internal(prog):
  return [{k: v for k, v in d.items()} for d in prog]


POOL = ['x', 'y', 'z', 'a', 'b', 'k', 'n', 'u', 'v', 'w', 'p', 'q', 'r', 's', 't']


def _rename_vars(x, f):
  if isinstance(x, tuple):
    if x and x[0] == 'var':
      return ('var', f(x[1]))
    return tuple(_rename_vars(y, f) for y in x)
  if isinstance(x, list):
    return [_rename_vars(y, f) for y in x]
  return x


def share_variable_names(prog, r):
  """Renames the variables of every rule to a small common pool (in order of appearance, pool shuffled once
  per program), so that callers, callees and the locals of their combines use the same names: a pure
  renaming, which must not matter, but provokes variable capture when a predicate is injected."""
  for d in prog:
    if d.get('ext'):
      continue
    for rule in d['rules']:
      seen = []
      _rename_vars((rule['head'], rule.get('body')), lambda v: (seen.append(v) if v not in seen else None) or v)
      n = len(seen)
      pool = POOL[:max(n + 1, 5)] if n + 1 <= len(POOL) else POOL + ['v%d' % i for i in range(n)]
      chosen = r.sample(pool, n)
      names = dict(zip(seen, chosen))
      rule['head'] = _rename_vars(rule['head'], lambda v: names[v])
      if rule.get('body') is not None:
        rule['body'] = _rename_vars(rule['body'], lambda v: names[v])
