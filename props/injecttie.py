"""Correspondence between Core/Inject.v and universe.LogicaProgram.RunInjections / InjectStructure.

For every rule of generated programs whose body calls single-rule predicates, the real ExtractRuleStructure +
RunInjections is run with a fresh allocator; the structure it leaves (select, unifications, constraints, column
map, table list) must equal the model's `run_injections` (or both must reject).  Table names are mapped to
allocation numbers by logging AllocateTable.  The side conditions of InjectProofs.inject_denotes are evaluated
per instance by `judge_side`.
"""
import contextlib
import copy
import io

from vlib import logica_run
from props import elimtie as E


def cases_of_program(text):
  """Returns (cases, skipped); a case = (rule text, judge_inject term, judge_side term, n_injectible)."""
  parse, universe, rule_translate = logica_run.modules()[:3]
  with contextlib.redirect_stdout(io.StringIO()), contextlib.redirect_stderr(io.StringIO()):
    rules = parse.ParseFile(text)['rule']
    program = universe.LogicaProgram(rules)
  out, skipped = [], 0
  for name, rule in program.rules:
    if name.startswith('@') or 'body' not in rule:
      continue
    try:
      cx = E.Ctx()
      caller, natoms = E.crule_of(rule, cx)
      alloc = program.NewNamesAllocator()
      log = []
      orig = alloc.AllocateTable

      def logged(hint=None, _orig=orig, _log=log):
        t = _orig(hint)
        _log.append(t)
        return t
      alloc.AllocateTable = logged
      s = rule_translate.ExtractRuleStructure(copy.deepcopy(rule), alloc, None)
      if s.unnestings or len(s.tables) != natoms:
        raise E.Unsupported('outside the fragment')
      # the injectible predicates reachable from this rule, as the real test decides them
      defs, seen, todo = [], set(), list(s.tables.values())
      while todo:
        p = todo.pop()
        if p in seen:
          continue
        seen.add(p)
        prules = list(program.GetPredicateRules(p))
        if len(prules) == 1 and 'distinct_denoted' not in prules[0] and program.annotations.OkInjection(p):
          cr, n = E.crule_of(prules[0], cx)
          s2 = rule_translate.ExtractRuleStructure(copy.deepcopy(prules[0]), rule_translate.NamesAllocator(), None)
          if s2.unnestings or len(s2.tables) != n:
            raise E.Unsupported('callee outside the fragment')
          defs.append('(%d, %s)' % (cx.pred(p), cr))
          todo.extend(s2.tables.values())
      if not defs:
        continue
      try:
        with contextlib.redirect_stdout(io.StringIO()), contextlib.redirect_stderr(io.StringIO()):
          program.RunInjections(s, alloc)
        if s.unnestings:
          raise E.Unsupported('unnesting after injection')
        tid = {t: i for i, t in enumerate(log)}
        cols = '[%s]' % '; '.join('(%d, (%d, %d))' % (cx.var(xv), tid[tn], cx.field(tv))
                                  for xv, (tn, tv) in s.inv_vars_map.items())
        tabs = '[%s]' % '; '.join('(%d, %d)' % (tid[t], cx.pred(p)) for t, p in s.tables.items())
        real = '(Some (%s, %s, %s))' % (E.structure(s, cx), cols, tabs)
      except rule_translate.RuleCompileException:
        real = 'None'
      isx = '(fun v => Nat.leb 1000 v)'
      d = '[%s]' % '; '.join(defs)
      out.append((rule.get('full_text', ''), 'judge_inject %s %s %s %s' % (isx, d, caller, real),
                  'judge_side %s %s %s' % (isx, d, caller), len(defs)))
    except (E.Unsupported, AssertionError, KeyError, RecursionError):
      skipped += 1
  return out, skipped


HEADER = ('From Coq Require Import List ZArith Arith. Import ListNotations.\n'
          'From LV Require Import Core.Syntax Core.Eval Core.Elim Core.Extract Core.Inject.\n')


def run_tie(texts, jobs=8):
  from concurrent.futures import ThreadPoolExecutor
  from vlib import coqrun
  items, skipped, failed = [], 0, 0
  for t in texts:
    try:
      cs, sk = cases_of_program(t)
    except Exception:  # pylint: disable=broad-except
      failed += 1
      continue
    items.extend(cs)
    skipped += sk
  chunks = [items[i:i + 40] for i in range(0, len(items), 40)]

  def one(ch):
    text = HEADER + 'Eval vm_compute in [%s].\n' % ';\n'.join('%s; %s' % (c[1], c[2]) for c in ch)
    rc, out = coqrun.coq_eval(text, timeout=300)
    ls = coqrun.parse_vm_list(out) if rc == 0 else []
    if rc != 0 or len(ls) != 1 or len(ls[0]) != 2 * len(ch):
      return None, out[-2000:]
    v = [int(x) for x in ls[0]]
    return list(zip(v[0::2], v[1::2])), ''

  codes, err = [], None
  with ThreadPoolExecutor(max_workers=jobs) as ex:
    for vals, out in ex.map(one, chunks):
      if vals is None:
        err = out
        codes.extend([(None, None)] * 40)
      else:
        codes.extend(vals)
  codes = codes[:len(items)]
  mism = [(items[i][0], c[0]) for i, c in enumerate(codes) if c[0] not in (0, 1)]
  return {'rules': len(items), 'exact': sum(1 for c in codes if c[0] == 0), 'both_reject': sum(1 for c in codes if c[0] == 1),
          'hypotheses_of_inject_denotes_hold': sum(1 for c in codes if c[0] == 0 and c[1] == 1),
          'hypotheses_unmet_rules': [items[i][0] for i, c in enumerate(codes) if c[0] == 0 and c[1] == 0][:5],
          'injectible_callees': sum(it[3] for it in items), 'skipped_unsupported': skipped, 'programs_not_compiling': failed,
          'mismatches': mism, 'error': err}


# ---------- a generator aimed at injection: chains of single-rule conjunctive predicates over integer tables ----------
VARS = ['a', 'b', 'c', 'x', 'y']


def gen_inject_program(r):
  """r: random.Random.  Integer-only programs; every Dk has one rule; shared variable names across rules."""
  lines = ['@Engine("sqlite");']
  sigs = {}                     # predicate -> list of field names (int position or str)
  for t in range(r.randint(1, 3)):
    ar = r.randint(1, 3)
    fields = list(range(ar))
    if r.random() < 0.3:
      fields[-1] = 'w'
    sigs['T%d' % t] = fields
    for _ in range(r.randint(2, 4)):
      lines.append('T%d(%s);' % (t, ', '.join(('%s: %d' % (f, r.randint(0, 3)) if isinstance(f, str) else str(r.randint(0, 3)))
                                              for f in fields)))
  if r.random() < 0.4:          # a single fact is an injectible predicate without tables
    sigs['K0'] = [0, 1]
    lines.append('K0(%d, %d);' % (r.randint(0, 3), r.randint(0, 3)))
  nd = r.randint(2, 5)
  for d in range(nd):
    name = 'D%d' % d
    callees = list(sigs)
    bound, body = [], []
    for _ in range(r.randint(1, 3)):
      p = r.choice(callees)
      args = []
      wide_pick = None
      if len(sigs[p]) > 5:        # a wide callee: a few columns, each addressed as colN (col10 and beyond among them)
        wide_pick = set(r.sample(range(len(sigs[p])), 2) + [r.randint(10, len(sigs[p]) - 1)])
      for f in sigs[p]:
        if wide_pick is not None:
          if f in wide_pick:
            v = r.choice(VARS)
            bound.append(v)
            args.append('col%d: %s' % (f, v))
          continue
        if r.random() < 0.2 and not isinstance(f, str) and f != 0:
          break                 # partial positional arguments
        k = r.random()
        if k < 0.7:
          v = r.choice(VARS)
          bound.append(v)
          e = v
        elif k < 0.85 or not bound:
          e = str(r.randint(0, 3))
        else:
          e = '%s + %d' % (r.choice(bound), r.randint(0, 2))
        if isinstance(f, str):
          args.append('%s: %s' % (f, e))
        elif r.random() < 0.15:
          args.append('col%d: %s' % (f, e))
        else:
          args.append(e if all(':' not in a for a in args) else 'col%d: %s' % (f, e))
      if r.random() < 0.05:
        args.append('nosuch: %s' % r.choice(VARS))      # the callee has no such argument
      body.append('%s(%s)' % (p, ', '.join(args)))
    bound = bound or ['a']
    for _ in range(r.randint(0, 2)):
      k = r.random()
      if k < 0.4:
        body.append('%s %s %s' % (r.choice(bound), r.choice(['<', '<=', '!=', '>']), r.choice(bound + [str(r.randint(0, 3))])))
      elif k < 0.8:
        v = r.choice(VARS)
        body.append('%s == %s + %d' % (v, r.choice(bound), r.randint(0, 2)))
        bound.append(v)
      else:
        body.append('%s + 1 == %s + %d' % (r.choice(bound), r.choice(bound), r.randint(0, 2)))
    r.shuffle(body)
    ar = r.randint(1, 3)
    wide = d < nd - 1 and r.random() < 0.08
    if wide:
      ar = r.randint(11, 13)
    fields, head = [], []
    for i in range(ar):
      e = r.choice(bound) if r.random() < 0.75 else '%s + %d' % (r.choice(bound), r.randint(1, 2))
      k = 0.0 if wide else r.random()
      if k < 0.6 and all(':' not in h for h in head):
        fields.append(i)
        head.append(e)
      elif k < 0.8 and all(not isinstance(f, str) for f in fields):
        fields.append(i)
        head.append('col%d: %s' % (i, e))
      else:
        f = 'n%d' % i
        fields.append(f)
        head.append('%s: %s' % (f, e))
    if ar >= 2 and all(isinstance(f, int) for f in fields) and r.random() < 0.3:
      # every column written as colN, in an order that is not the numeric one
      head = ['col%d: %s' % (i, h.split(': ', 1)[1] if h.startswith('col') else h) for i, h in enumerate(head)]
      r.shuffle(head)
    sigs[name] = fields
    lines.append('%s(%s)%s :- %s;' % (name, ', '.join(head), ' distinct' if r.random() < 0.12 else '', ', '.join(body)))
    k = r.random()
    if k < 0.08:
      lines.append('@NoInject(%s);' % name)
    elif k < 0.14:
      lines.append('@Limit(%s, 2);' % name)
    elif k < 0.20:
      lines.append('@OrderBy(%s, "%s");' % (name, 'col0' if fields[0] == 0 else fields[0]))
    elif k < 0.26:
      lines.append('@With(%s);' % name)
  return '\n'.join(lines) + '\n'


def search_failing_input(texts, bad_rules, limit=40):
  """A program where the injected and the @NoInject plan of a predicate return different bags on SQLite."""
  import re
  tried = 0
  for t in texts:
    hit = [b for b in bad_rules if b and b in t]
    if not hit:
      continue
    preds = sorted(set(re.findall(r'^([DK]\d+)\(', t, re.M)))
    noinj = t + ''.join('@NoInject(%s);\n' % p for p in preds if '@NoInject(%s)' % p not in t)
    for b in hit:
      q = b.split('(')[0]
      tried += 1
      if tried > limit:
        return None
      try:
        r1 = logica_run.run_pred(t, q, time_limit=20)
        r2 = logica_run.run_pred(noinj, q, time_limit=20)
      except Exception:  # pylint: disable=broad-except
        continue
      if r1[0] == 'ok' and r2[0] == 'ok' and logica_run.bag(r1[2]) != logica_run.bag(r2[2]):
        return {'program': t, 'predicate': q, 'rows_with_injection': sorted(map(repr, r1[2]))[:20],
                'program_with_NoInject': noinj, 'rows_without_injection': sorted(map(repr, r2[2]))[:20],
                'rule_where_model_and_RunInjections_differ': b}
  return None
