"""C12 — imports isolate modules and mean the same as one flattened program.

Proof: coq/theories/Props/C12.v about Lex/Imports.v (model of ParseFile/ParseImport's import driver, of
the prefix loop and of RenamePredicate, in the variants Py = parser_py/parse.py, Cpp = parser_cpp/
logica_parse.cpp, Full = proposed repair).

Tie: generated import graphs materialised in a scratch directory; the real parse.ParseFile(main,
import_root=...) under LOGICA_PARSER=PY (in process) and =CPP (subprocess, .so rebuilt from the current
source into a scratch cache) against the model evaluated inside Coq: the renamed rule list (every name
occurrence RenamePredicate can touch, in order for PY, as a multiset for CPP), the error kind, and the
rule skeletons (everything but the names) against the per-file parses.

Search oracle (independent of the code): the harness knows the module structure it generated, flattens it
itself with fresh unique names (its own scheme) and decides from the structure whether the program has to
be rejected (cycle, missing file, undefined / unused import, override).  SQLite rows of the multi-file
program must equal the rows of the flattened single-file program, resp. the program must be rejected with
a ParsingException.
"""
import json
import os
import shutil
import subprocess
import sys
import tempfile
import time

from vlib import common, coqrun, proof

PID = 'C12'

ERR_CODES = {1: 'cycle', 2: 'notfound', 3: 'undefined', 4: 'unused', 5: 'override', 6: 'collision',
             7: 'importmain', 8: 'impossible', 9: 'fuel'}


# =====================================================================================================
# generator: a structured description of a multi-file program
# =====================================================================================================
PATH_POOL_PLAIN = ['util', 'lib', 'core', 'd1.alpha', 'd2.beta', 'x.d1.gamma', 'd1.base_x', 'd2.m2']
PATH_POOL_SAME = [['d1.util', 'd2.util'], ['x.d1.util', 'x.d2.util'], ['util', 'd1.util'],
                  ['d1.lib', 'x.d2.lib'], ['x.d1.core', 'x.d2.core', 'd2.core'], ['d1.uTil', 'd2.util'],
                  ['x.d1.util', 'x.d2.util', 'd2.d1.util']]
PRED_NAMES = ['F', 'G', 'H', 'Helper', 'Data', 'P', 'Q']


def base_cap(path):
  return path.split('.')[-1].capitalize() + '_'


def gen_case(r, idx):
  """Returns a description dict.  All decisions come from r."""
  kind = r.random()
  n_roots = 2 if r.random() < 0.35 else 1
  if kind < 0.30:
    group = list(r.choice(PATH_POOL_SAME))
    extra = r.sample(PATH_POOL_PLAIN, r.randint(0, 5 - len(group)))
    paths = group + extra
  else:
    paths = r.sample(PATH_POOL_PLAIN, r.randint(1, 5))
  r.shuffle(paths)
  import_main = r.random() < 0.03
  if import_main:
    paths = paths[:4] + ['main']
  defects = []
  # module contents
  files = {}
  const = [100 * (idx % 7 + 1)]

  def fresh_consts():
    const[0] += 10
    return [const[0] + 1, const[0] + 2] if r.random() < 0.6 else [const[0] + 1]

  for k, p in enumerate(paths):
    names = r.sample(PRED_NAMES, r.randint(1, 3))
    preds = []
    for nm in names:
      preds.append({'name': nm, 'facts': fresh_consts(), 'uses': []})
    # local uses (earlier predicates of the same file)
    for j in range(1, len(preds)):
      if r.random() < 0.5:
        preds[j]['uses'].append([preds[r.randrange(j)]['name'], r.randint(1, 9)])
    if r.random() < 0.35 and p != 'main':
      # a functional predicate and a use of it nested inside its own call: Q(y) :- y == Step(Step(c))
      fname = r.choice(['Step', 'Inc'])
      if fname not in names:
        preds.append({'name': fname, 'facts': [], 'uses': [], 'func': r.randint(1, 5)})
        preds[0].setdefault('nest', []).append([fname, r.randint(1, 9)])
    files[p] = {'root': r.randrange(n_roots), 'preds': preds, 'imports': [], 'functor': None}
  # a functor inside a file: Made := Tmpl(Src: Other)
  for p in paths:
    f = files[p]
    if r.random() < 0.2 and p != 'main':
      f['preds'].append({'name': 'Src', 'facts': fresh_consts(), 'uses': []})
      f['preds'].append({'name': 'Other', 'facts': fresh_consts(), 'uses': []})
      f['preds'].append({'name': 'Tmpl', 'facts': [], 'uses': [['Src', r.randint(1, 9)]]})
      f['functor'] = {'made': 'Made', 'tmpl': 'Tmpl', 'arg': 'Src', 'val': 'Other'}
  # hostile names: a predicate called <Prefix>_<Other predicate of the same file>
  hostile = None
  if r.random() < 0.10:
    cands = [p for p in paths if p != 'main']
    if cands:
      p = r.choice(cands)
      o = files[p]['preds'][0]['name']
      files[p]['preds'].append({'name': base_cap(p) + o, 'facts': fresh_consts(), 'uses': []})
      hostile = p
  main = {'preds': [], 'imports': [], 'functor': None}
  # import graph: file k imports from later files; main imports from anything
  order = list(paths)

  def exported(p):
    ex = [q['name'] for q in files[p]['preds']]
    if files[p]['functor']:
      ex.append(files[p]['functor']['made'])
    return ex

  def add_imports(owner, targets, is_main):
    alias_n = 0
    used_as = set(q['name'] for q in owner['preds'])
    for t in targets:
      ex = exported(t)
      picks = r.sample(ex, min(len(ex), 1 if r.random() < 0.7 else 2))
      if hostile == t and r.random() < 0.8:
        picks = list(dict.fromkeys(picks + [files[t]['preds'][0]['name'], files[t]['preds'][-1]['name']]))
      for pn in picks:
        alias = None
        if r.random() < 0.3 or pn in used_as:
          alias = 'Al%d' % alias_n
          alias_n += 1
        if (alias or pn) in used_as:
          continue
        used_as.add(alias or pn)
        is_func = any(q['name'] == pn and 'func' in q for q in files[t]['preds'])
        owner['imports'].append({'file': t, 'pred': pn, 'alias': alias, 'used': True, 'func': is_func})
        if not is_func and r.random() < 0.15:
          # the same predicate imported once more under another name (both names are used)
          alias2 = 'Al%d' % alias_n
          alias_n += 1
          if alias2 not in used_as:
            used_as.add(alias2)
            owner['imports'].append({'file': t, 'pred': pn, 'alias': alias2, 'used': True, 'func': False})

  for k, p in enumerate(order):
    later = [q for q in order[k + 1:] if q != 'main']
    if later and p != 'main':
      tg = r.sample(later, min(len(later), r.choice([0, 1, 1, 2])))
      add_imports(files[p], tg, False)
  tg = [q for q in r.sample(order, r.randint(1, min(3, len(order)))) if q != 'main']
  if import_main:
    tg.append('main')     # the last import statement of main; the file main.l itself imports nothing
  main['preds'] = [{'name': 'Out', 'facts': [1] if r.random() < 0.3 else [], 'uses': []}]
  if r.random() < 0.5:
    main['preds'].append({'name': r.choice(PRED_NAMES), 'facts': [1, 2], 'uses': []})
    main['preds'][0]['uses'].append([main['preds'][-1]['name'], 1])
  add_imports(main, tg, True)

  # every import is used by some predicate of the importer
  def wire(owner):
    for im in owner['imports']:
      tgt = r.choice(owner['preds'][:2]) if owner is main else r.choice(owner['preds'])
      if owner.get('functor') and tgt['name'] in ('Src', 'Other', 'Tmpl'):
        tgt = owner['preds'][0]
      if 'func' in tgt:
        tgt = owner['preds'][0]
      if im.get('func'):
        tgt.setdefault('nest', []).append([im['alias'] or im['pred'], r.randint(1, 9)])
      else:
        tgt['uses'].append([im['alias'] or im['pred'], r.randint(1, 9)])
  for p in order:
    wire(files[p])
  wire(main)
  if not main['preds'][0]['uses'] and not main['preds'][0]['facts']:
    main['preds'][0]['facts'] = [3]

  # ---- defects (each should be rejected with a ParsingException) ----
  d = 1.0 if import_main else r.random()
  everyone = [main] + [files[p] for p in order]
  with_imports = [o for o in everyone if o['imports']]
  if d < 0.08 and len(order) >= 2:
    # back edge: a later file imports an earlier one (cycle when the earlier one reaches it)
    a, b = sorted(r.sample(range(len(order)), 2))
    if order[a] != 'main' and order[b] != 'main':
      ex = exported(order[a])
      files[order[b]]['imports'].append({'file': order[a], 'pred': ex[0], 'alias': 'Cy', 'used': True})
      files[order[b]]['preds'][0]['uses'].append(['Cy', 1])
      defects.append('backedge')
  elif d < 0.14 and with_imports:
    o = r.choice(with_imports)
    im = r.choice(o['imports'])
    im['pred'] = 'Nope'
    defects.append('undefined')
  elif d < 0.20 and with_imports:
    o = r.choice(with_imports)
    im = r.choice(o['imports'])
    nm = im['alias'] or im['pred']
    for q in o['preds']:
      q['uses'] = [u for u in q['uses'] if u[0] != nm]
      if 'nest' in q:
        q['nest'] = [u for u in q['nest'] if u[0] != nm]
    im['used'] = False
    defects.append('unused')
  elif d < 0.26 and with_imports:
    o = r.choice(with_imports)
    im = r.choice(o['imports'])
    o['preds'].append({'name': im['alias'] or im['pred'], 'facts': [5], 'uses': []})
    defects.append('override')
  elif d < 0.30 and with_imports:
    o = r.choice(with_imports)
    o['imports'].append({'file': 'nowhere.zz', 'pred': 'F', 'alias': 'Nw', 'used': True})
    o['preds'][0]['uses'].append(['Nw', 1])
    defects.append('notfound')
  # shadowing: the same dotted path in both roots (the first root wins)
  shadow = {}
  if n_roots == 2 and r.random() < 0.6:
    cands = [p for p in order if files[p]['root'] == 0 and p != 'main']
    # preferably a file that is imported by a file found in the SECOND root (nested lookups keep the root order)
    nested = [p for p in cands if any(files[q]['root'] == 1 and any(im['file'] == p for im in files[q]['imports'])
                                       for q in order if q != 'main')]
    if nested and r.random() < 0.8:
      cands = nested
    if cands:
      p = r.choice(cands)
      shadow[p] = 'Zz(x) :- x in [999];\n'
  return {'idx': idx, 'n_roots': n_roots, 'order': order, 'files': files, 'main': main,
          'defects': defects, 'hostile': hostile, 'shadow': shadow}


# ---- texts -------------------------------------------------------------------------------------------
def rules_text(owner, rename=None):
  """Logica text of the rules of one file; rename: name -> name (used for the flattened program)."""
  rn = rename or (lambda x: x)
  out = []
  for q in owner['preds']:
    if 'func' in q:
      out.append('%s(x) = x + %d;' % (rn(q['name']), q['func']))
      continue
    if q['facts']:
      out.append('%s(x) :- x in [%s];' % (rn(q['name']), ', '.join(str(c) for c in q['facts'])))
    for u, k in q.get('nest', []):
      out.append('%s(y) :- y == %s(%s(%d));' % (rn(q['name']), rn(u), rn(u), k))
    for u, k in q['uses']:
      out.append('%s(x + %d) :- %s(x);' % (rn(q['name']), k, rn(u)))
  fn = owner.get('functor')
  if fn:
    out.append('%s := %s(%s: %s);' % (rn(fn['made']), rn(fn['tmpl']), rn(fn['arg']), rn(fn['val'])))
  return '\n'.join(out) + '\n'


def imports_text(owner):
  out = []
  for im in owner['imports']:
    s = 'import %s.%s' % (im['file'], im['pred'])
    if im['alias']:
      s += ' as %s' % im['alias']
    out.append(s + ';')
  return '\n'.join(out) + ('\n' if out else '')


def file_text(owner, is_main=False):
  head = '@Engine("sqlite");\n' if is_main else ''
  return head + imports_text(owner) + rules_text(owner)


def effective_files(desc):
  return {p: desc['files'][p] for p in desc['order']}


def expectation(desc):
  """'reject' | 'accept', decided on the description alone."""
  files = effective_files(desc)
  # reachable files in DFS order, with the defects met
  seen = []
  bad = []

  def own_names(o):
    return [q['name'] for q in o['preds']] + ([o['functor']['made']] if o.get('functor') else [])

  def visit(o, stack):
    names = [q['name'] for q in o['preds']]
    if len(set(names)) != len(names):
      pass
    seen_as = set()
    for im in o['imports']:
      t = im['file']
      if t not in files:
        bad.append('notfound')
        continue
      if t == 'main':
        bad.append('importmain')
        continue
      if t in stack:
        bad.append('cycle')
        continue
      if t not in seen:
        seen.append(t)
        visit(files[t], stack + [t])
      if im['pred'] not in own_names(files[t]):
        bad.append('undefined')
      nm = im['alias'] or im['pred']
      used = any(u[0] == nm for q in o['preds'] for u in q['uses'] + q.get('nest', [])) or (
          o.get('functor') and nm in (o['functor']['tmpl'], o['functor']['arg'], o['functor']['val']))
      if not used:
        bad.append('unused')
      if nm in own_names(o):
        bad.append('override')
      if nm in seen_as:
        bad.append('dupalias')
      seen_as.add(nm)

  visit(desc['main'], [])
  return ('reject' if bad else 'accept'), seen, sorted(set(bad))


def flat_program(desc, reachable):
  """The single-file program with fresh unique names (scheme of the harness: Zq<k>q<Name>)."""
  files = effective_files(desc)
  idx_of = {p: k for k, p in enumerate(desc['order'])}

  def uniq(p, n):
    return n if p is None else 'Zq%dq%s' % (idx_of[p], n)

  def renamer(p, o):
    own = set(q['name'] for q in o['preds'])
    if o.get('functor'):
      own.add(o['functor']['made'])
    imp = {}
    for im in o['imports']:
      imp.setdefault(im['alias'] or im['pred'], uniq(im['file'], im['pred']))

    def rn(x):
      if x in own:
        return uniq(p, x)
      if x in imp:
        return imp[x]
      return x
    return rn
  text = '@Engine("sqlite");\n' + rules_text(desc['main'], renamer(None, desc['main']))
  for p in reachable:
    text += rules_text(files[p], renamer(p, files[p]))
  return text


def features(desc, reachable):
  bases = {}
  for p in reachable:
    bases.setdefault(base_cap(p), []).append(p)
  coll = [ps for ps in bases.values() if len(ps) > 1]
  feats = []
  if coll:
    feats.append('basename-collision')
  files = effective_files(desc)
  for p in reachable:
    pre = base_cap(p)
    names = [q['name'] for q in files[p]['preds']]
    if any(n.startswith(pre) and n[len(pre):] in names for n in names):
      feats.append('prefix-capture')
      break
  owners = [desc['main']] + [files[p] for p in reachable]
  if any(im['file'] == 'main' for o in owners for im in o['imports']):
    feats.append('import-main')
  # the importer redefines an imported predicate that its exporter makes with a functor (@Make)
  for o in owners[:1]:
    for im in o['imports']:
      ex = files.get(im['file'])
      if ex and ex.get('functor') and im['pred'] == ex['functor']['made'] and \
          (im['alias'] or im['pred']) in [q['name'] for q in o['preds']]:
        feats.append('override-made')
  return feats, coll


def materialise(desc, top):
  roots = []
  for k in range(desc['n_roots']):
    d = os.path.join(top, 'case%d' % desc['idx'], 'r%d' % k)
    os.makedirs(d, exist_ok=True)
    roots.append(d)
  texts = {}
  for p in desc['order']:
    f = desc['files'][p]
    rel = p.replace('.', '/') + '.l'
    t = file_text(f)
    root = f['root']
    if p in desc['shadow']:
      # the real file sits in root 0 and a decoy with the same dotted path in root 1
      root = 0
      dec = os.path.join(roots[1], rel)
      os.makedirs(os.path.dirname(dec), exist_ok=True)
      with open(dec, 'w') as fh:
        fh.write(desc['shadow'][p])
    path = os.path.join(roots[root], rel)
    os.makedirs(os.path.dirname(path), exist_ok=True)
    with open(path, 'w') as fh:
      fh.write(t)
    texts[p] = t
  return roots, texts


def build_job(desc, top):
  exp, reachable, why = expectation(desc)
  roots, texts = materialise(desc, top)
  files = effective_files(desc)
  job = {
      'idx': desc['idx'],
      'main': file_text(desc['main'], True),
      'roots': roots,
      'alone': {p: rules_text(files[p]) for p in desc['order']},
      'alone_main': '@Engine("sqlite");\n' + rules_text(desc['main']),
      'preds': ['Out'],
      'flat': flat_program(desc, reachable) if exp == 'accept' else None,
      'expect': exp, 'why': why, 'reachable': reachable,
      'file_texts': texts,
      'imports': {p: [[im['file'], im['pred'], im['alias']] for im in files[p]['imports']] for p in desc['order']},
      'imports_main': [[im['file'], im['pred'], im['alias']] for im in desc['main']['imports']],
      'root_of': {p: (0 if p in desc['shadow'] else files[p]['root']) for p in desc['order']},
      'shadow': desc['shadow'],
      'defects': desc['defects'],
  }
  job['features'], job['collisions'] = features(desc, reachable)
  return job


def rematerialise(job, top):
  """For --replay: rebuild the directory tree of a job from its own texts."""
  roots = []
  n = 1 + max([0] + list(job['root_of'].values()) + ([1] if job.get('shadow') else []))
  for k in range(n):
    d = os.path.join(top, 'replay', 'r%d' % k)
    os.makedirs(d, exist_ok=True)
    roots.append(d)
  for p, t in job['file_texts'].items():
    rel = p.replace('.', '/') + '.l'
    path = os.path.join(roots[job['root_of'][p]], rel)
    os.makedirs(os.path.dirname(path), exist_ok=True)
    with open(path, 'w') as fh:
      fh.write(t)
  for p, t in (job.get('shadow') or {}).items():
    path = os.path.join(roots[1], p.replace('.', '/') + '.l')
    os.makedirs(os.path.dirname(path), exist_ok=True)
    with open(path, 'w') as fh:
      fh.write(t)
  job = dict(job)
  job['roots'] = roots
  return job


# =====================================================================================================
# implementation side (runs in this process for PY and in a subprocess for CPP)
# =====================================================================================================
MADE_PATH = ('head', 'record', 'field_value', 0, 'value', 'expression', 'literal', 'the_predicate',
             'predicate_name')


def extract(rule):
  """(head, made or None, other name occurrences in RenamePredicate's traversal order)."""
  occ = []

  def walk(e, path):
    if isinstance(e, dict):
      if 'predicate_name' in e:
        occ.append((path + ('predicate_name',), str(e['predicate_name'])))
      if 'field' in e and isinstance(e['field'], str):
        occ.append((path + ('field',), str(e['field'])))
      for k in e:
        if isinstance(e[k], (dict, list)):
          walk(e[k], path + (k,))
    elif isinstance(e, list):
      for i, x in enumerate(e):
        if isinstance(x, (dict, list)):
          walk(x, path + (i,))
  walk(rule, ())
  head = rule['head']['predicate_name']
  made = None
  body = []
  for path, n in occ:
    if path == ('head', 'predicate_name'):
      continue
    if head == '@Make' and path == MADE_PATH:
      made = n
      continue
    body.append(n)
  return [str(head), made, body]


def skeleton(rule):
  """The rule with every renamable name blanked (and spans dropped), as canonical JSON."""
  def walk(e):
    if isinstance(e, dict):
      out = {}
      for k, v in e.items():
        if k in ('full_text', 'expression_heritage'):
          continue
        if k == 'predicate_name' or (k == 'field' and isinstance(v, str)):
          out[k] = '?'
        else:
          out[k] = walk(v)
      return out
    if isinstance(e, list):
      return [walk(x) for x in e]
    return e
  return json.dumps(walk(rule), sort_keys=True)


def err_kind(e):
  msg = str(e) + ' ' + str(getattr(e, '_formatted_error_text', ''))
  table = [('Circular imports', 'cycle'), ('Imported file not found', 'notfound'),
           ('is not defined', 'undefined'), ('imported but not defined', 'undefined'),
           ('but not used', 'unused'), ('overridden', 'override'),
           ('equal modulo', 'collision'), ('Empty import prefix', 'importmain')]
  for needle, k in table:
    if needle in msg:
      return k
  if isinstance(e, TypeError) and 'NoneType' in msg:
    return 'importmain'
  return 'other'


def run_job(job):
  """Everything the implementation says about one case, under the parser selected by LOGICA_PARSER."""
  import contextlib
  import io
  from vlib import logica_run
  parse = logica_run.modules()[0]
  root = job['roots'][0] if len(job['roots']) == 1 else list(job['roots'])
  out = {'idx': job['idx'], 'alone': {}, 'alone_skel': {}}
  sink = io.StringIO()
  with contextlib.redirect_stdout(sink), contextlib.redirect_stderr(sink):
    for p, t in list(job['alone'].items()) + [('main', None)]:
      key = p
      if t is None:
        key, t = '<main>', job['alone_main']
      try:
        rs = parse.ParseFile(t)['rule']
        out['alone'][key] = [extract(x) for x in rs]
        out['alone_skel'][key] = [skeleton(x) for x in rs]
      except BaseException as e:  # pylint: disable=broad-except
        out['alone'][key] = None
        out['alone_err'] = '%s: %s' % (type(e).__name__, e)
    try:
      res = parse.ParseFile(job['main'], import_root=root)
      rs = res['rule']
      out['multi'] = {'ok': [extract(x) for x in rs], 'skel': [skeleton(x) for x in rs],
                      'imported': [[d['file'], d['predicate_name'], d['synonym']]
                                   for d in res.get('imported_predicates', [])]}
    except BaseException as e:  # pylint: disable=broad-except
      out['multi'] = {'err': logica_run.classify(e), 'kind': err_kind(e),
                      'msg': ('%s %s' % (e, getattr(e, '_formatted_error_text', '')))[:400]}
  # rows
  rows = {}
  for pred in job['preds']:
    st, a, b = logica_run.run_pred(job['main'], pred, import_root=root)
    rows[pred] = ['ok', logica_run.bag(b)] if st == 'ok' else [st, str(a)[:300]]
  out['rows'] = rows
  if job.get('flat'):
    frows = {}
    for pred in job['preds']:
      st, a, b = logica_run.run_pred(job['flat'], pred)
      frows[pred] = ['ok', logica_run.bag(b)] if st == 'ok' else [st, str(a)[:300]]
    out['flat_rows'] = frows
  return out


def worker_main(argv):
  """python -m props.c12 --worker <jobs.json> <out.json>   (LOGICA_PARSER / XDG_CACHE_HOME from env)."""
  with open(argv[0]) as f:
    jobs = json.load(f)
  res = [run_job(j) for j in jobs]
  with open(argv[1], 'w') as f:
    json.dump(res, f)


def start_worker(jobs, top, parser, tag):
  """Starts `python -m props.c12 --worker` on the jobs under the given parser.

  CPP: the shared object is rebuilt from the current source into a scratch cache (XDG_CACHE_HOME)."""
  jf, of = os.path.join(top, 'jobs_%s.json' % tag), os.path.join(top, 'out_%s.json' % tag)
  with open(jf, 'w') as f:
    json.dump(jobs, f)
  env = dict(os.environ)
  env.pop('LOGICA_PARSER', None)
  env.update({'PYTHONHASHSEED': '0', 'PYTHONPATH': common.VERIF, 'PYTHONDONTWRITEBYTECODE': '1'})
  if parser == 'CPP':
    cache = os.path.join(top, 'xdg')
    os.makedirs(cache, exist_ok=True)
    env.update({'LOGICA_PARSER': 'CPP', 'XDG_CACHE_HOME': cache})
  p = subprocess.Popen(['timeout', '7000', common.PY, '-m', 'props.c12', '--worker', jf, of], env=env,
                       cwd=common.VERIF, stdout=subprocess.PIPE, stderr=subprocess.STDOUT, text=True)
  return p, of


def finish_workers(ws):
  """ws: list of (Popen, out file).  Returns (concatenated results | None, log)."""
  res, log, bad = [], '', False
  for p, of in ws:
    out, _ = p.communicate()
    if p.returncode != 0 or not os.path.exists(of):
      bad = True
      log += out[-3000:]
      continue
    with open(of) as f:
      res.extend(json.load(f))
  return (None if bad else res), log


# =====================================================================================================
# model side
# =====================================================================================================
def cq_name(s):
  return '[' + ';'.join(str(ord(c)) for c in s) + ']%N'


def cq_path(p):
  return '[' + ';'.join(cq_name(c) for c in p.split('.')) + ']'


def cq_rule(x):
  head, made, body = x
  return '(mkRule %s %s [%s])' % (cq_name(head), '(Some %s)' % cq_name(made) if made is not None else 'None',
                                  ';'.join(cq_name(b) for b in body))


def cq_file(imports, rules):
  ims = ';'.join('(mkImport %s %s %s)' % (cq_path(f), cq_name(p), '(Some %s)' % cq_name(a) if a else 'None')
                 for f, p, a in imports)
  return '(mkFile [%s] [%s])' % (ims, ';'.join(cq_rule(x) for x in rules))


def cq_case(job, alone):
  fl = ';'.join('(%s, %s)' % (cq_path(p), cq_file(job['imports'][p], alone[p])) for p in job['alone'])
  return '([%s], %s)' % (fl, cq_file(job['imports_main'], alone['<main>']))


def decode_run(nums):
  """Inverse of ImportsCheck.run."""
  if nums[0] == 250:
    return {'err': ERR_CODES[nums[1]], 'nocap': nums[2]}
  assert nums[0] == 251
  nocap = nums[1]
  rules = []
  cur = None
  field = None
  for v in nums[2:]:
    if v == 252:
      cur = ['', None, []]
      rules.append(cur)
      field = 'head'
    elif v == 253:
      field = 'made'
      cur[1] = ''
    elif v == 254:
      field = 'body'
      if cur[1] == '':
        cur[1] = None
    elif v == 255:
      cur[2].append('')
    elif field == 'head':
      cur[0] += chr(v)
    elif field == 'made':
      cur[1] += chr(v)
    else:
      cur[2][-1] += chr(v)
  return {'ok': rules, 'nocap': nocap}


def model_eval(cases, chunk=50):
  """cases: list of Coq case strings.  Returns {mode: [decoded result per case]} or (None, log)."""
  from concurrent.futures import ThreadPoolExecutor
  chunks = [cases[i:i + chunk] for i in range(0, len(cases), chunk)]

  def one(ch):
    text = ('From Coq Require Import List NArith. Import ListNotations.\n'
            'From LV Require Import Lex.Imports Lex.ImportsCheck.\n'
            'Definition cases : list (list (path * file) * file) := [\n%s\n].\n'
            'Eval vm_compute in flat_map (fun c => 248%%N :: run Py c) cases.\n'
            'Eval vm_compute in flat_map (fun c => 248%%N :: run Cpp c) cases.\n'
            'Eval vm_compute in flat_map (fun c => 248%%N :: run Full c) cases.\n' % ';\n'.join(ch))
    rc, out = coqrun.coq_eval(text, timeout=900)
    if rc != 0:
      return None, out
    ls = coqrun.parse_vm_list(out)
    if len(ls) != 3:
      return None, out
    res = []
    for l in ls:
      nums = [int(x) for x in l]
      per, cur = [], None
      for v in nums:
        if v == 248:
          cur = []
          per.append(cur)
        else:
          cur.append(v)
      if len(per) != len(ch):
        return None, out
      res.append([decode_run(x) for x in per])
    return res, out

  acc = {'Py': [], 'Cpp': [], 'Full': []}
  with ThreadPoolExecutor(max_workers=4) as ex:
    for res, out in ex.map(one, chunks):
      if res is None:
        return None, out
      for k, v in zip(('Py', 'Cpp', 'Full'), res):
        acc[k].extend(v)
  return acc, ''


# =====================================================================================================
# judging
# =====================================================================================================
def judge_tie(job, impl, model, parser):
  """Returns None or a description of the disagreement between implementation and model."""
  mm = impl['multi']
  if model.get('err') in ('fuel', 'impossible'):
    return 'the model ran out of fuel / hit an impossible branch (%s)' % model['err']
  if 'err' in model:
    if 'err' not in mm:
      return 'model rejects (%s), implementation accepts' % model['err']
    if mm['kind'] != model['err']:
      return 'model error kind %s, implementation %s (%s)' % (model['err'], mm['kind'], mm['msg'][:120])
    want = 'Parsing'
    if parser == 'PY' and model['err'] == 'collision':
      want = 'Internal:AssertionError'
    if parser == 'PY' and model['err'] == 'importmain':
      want = 'Internal:TypeError'
    if mm['err'] != want:
      return 'model error %s should surface as %s, implementation raised %s' % (model['err'], want, mm['err'])
    return None
  if 'err' in mm:
    return 'model accepts, implementation raises %s / %s (%s)' % (mm['err'], mm['kind'], mm['msg'][:120])
  if model['nocap'] != 1:
    return None   # capture: the order of the set iteration matters; decided by the search oracle
  a, b = mm['ok'], model['ok']
  if parser == 'CPP':
    a, b = sorted(map(json.dumps, a)), sorted(map(json.dumps, b))
  if a != b:
    return 'renamed rules differ: implementation %s vs model %s' % (json.dumps(mm['ok'])[:300],
                                                                  json.dumps(model['ok'])[:300])
  # skeletons: nothing but names changed, every reachable file once
  want = list(impl['alone_skel']['<main>'])
  for p in job['reachable']:
    want += impl['alone_skel'].get(p, [])
  if sorted(want) != sorted(mm['skel']):
    return 'rule skeletons differ from the concatenation of the per-file parses (main + %s)' % job['reachable']
  if parser == 'PY' and want != mm['skel']:
    return 'rule order differs from main + files in first-import order'
  if mm.get('imported') is not None and mm['imported'] != job['imports_main']:
    return 'imported_predicates of main %s differ from the import statements %s' % (mm['imported'],
                                                                                 job['imports_main'])
  return None


def judge_oracle(job, impl):
  """The code-independent oracle.  Returns None or (observed, text)."""
  mm = impl['multi']
  if job['expect'] == 'reject':
    if 'err' not in mm:
      return 'accepted', 'program with %s was accepted' % job['why']
    if mm['err'] != 'Parsing':
      return mm['err'], 'program with %s must be rejected with a parsing error, got %s: %s' % (
          job['why'], mm['err'], mm['msg'][:160])
    for pred, v in impl['rows'].items():
      if v[0] != 'Parsing':
        return v[0], 'running %s of a program with %s gave %s' % (pred, job['why'], v[0])
    return None
  if 'err' in mm:
    return mm['err'], 'valid multi-file program rejected: %s: %s' % (mm['err'], mm['msg'][:200])
  for pred in job['preds']:
    got, want = impl['rows'][pred], impl['flat_rows'][pred]
    if want[0] != 'ok':
      return 'harness', 'flattened program does not run (%s): harness problem' % (want,)
    if got != want:
      return ('wrong-rows' if got[0] == 'ok' else got[0]), 'rows of %s differ: multi-file %s vs flattened %s' % (
          pred, str(got)[:200], str(want)[:200])
  return None


def finding_key(job, parser, observed, impl=None):
  feats = job['features']
  msg = ((impl or {}).get('multi') or {}).get('msg', '')
  if 'basename-collision' in feats:
    if parser == 'PY' and observed == 'Internal:AssertionError':
      return 'basename-collision/PY'
    if parser == 'CPP' and observed == 'Parsing' and 'equal modulo' in msg:
      return 'basename-collision/CPP'
  if 'import-main' in feats and parser == 'PY' and observed == 'Internal:TypeError':
    return 'import-main/PY'
  if 'override-made' in feats and observed == 'accepted' and job['why'] == ['override']:
    return 'override-made/%s' % parser
  if 'prefix-capture' in feats and observed in ('wrong-rows', 'Parsing', 'accepted'):
    return 'prefix-capture/%s' % parser
  return 'case:%s/%s' % (parser, common.short_hash([job['main'], job['file_texts']]))


def replay_of(job, parser, what, impl):
  keep = ('idx', 'main', 'alone', 'alone_main', 'preds', 'flat', 'expect', 'why', 'reachable', 'file_texts',
          'imports', 'imports_main', 'root_of', 'shadow', 'features', 'collisions', 'defects')
  return {'job': {k: job[k] for k in keep}, 'parser': parser, 'what': what,
          'observed': impl['multi'] if 'err' in impl['multi'] else {'rows': impl['rows']},
          'how': 'files under import roots r0[, r1]; parse.ParseFile(main, import_root=roots) with LOGICA_PARSER=%s; '
                 'rows via vlib/logica_run.run_pred on SQLite vs the flattened single-file program "flat"' % parser}


# =====================================================================================================
def logicapath_stream(rep):
  """LOGICAPATH as read by logica.py: the import roots reach the parser in the order written (the first root that has
  the file wins), a single root as a string, no variable as None."""
  import ast
  import os
  import types
  # logica.py is a script with package-relative imports; its function GetImportRoot is compiled from the current source
  path = os.path.join(common.REPO, 'logica.py')
  try:
    tree = ast.parse(open(path).read())
    fn = [n for n in tree.body if isinstance(n, ast.FunctionDef) and n.name == 'GetImportRoot'][0]
    ns = {'os': os}
    exec(compile(ast.Module(body=[fn], type_ignores=[]), path, 'exec'), ns)   # pylint: disable=exec-used
    logica = types.SimpleNamespace(GetImportRoot=ns['GetImportRoot'])
  except Exception as e:  # pylint: disable=broad-except
    rep.violation('logicapath-order', {'broken': 'logica.py GetImportRoot cannot be read: %s' % str(e)[:200]}, no_input=True)
    return 1
  cases = [('zeta/root:alpha/root', ['zeta/root', 'alpha/root']), ('b:a:c', ['b', 'a', 'c']), ('/x/only', '/x/only'),
           ('m:m2:a9', ['m', 'm2', 'a9']), (None, None)]
  old = os.environ.get('LOGICAPATH')
  bad = 0
  try:
    for env, want in cases:
      if env is None:
        os.environ.pop('LOGICAPATH', None)
      else:
        os.environ['LOGICAPATH'] = env
      got = logica.GetImportRoot()
      if got != want:
        bad += 1
        rep.violation('logicapath-order', {'LOGICAPATH': env, 'expected_import_root': want, 'observed': got,
                                           'law': 'the import roots are tried in the order they are written in LOGICAPATH',
                                           'how': 'logica.GetImportRoot() with os.environ["LOGICAPATH"] set'})
        break
  finally:
    if old is None:
      os.environ.pop('LOGICAPATH', None)
    else:
      os.environ['LOGICAPATH'] = old
  rep.coverage['logicapath'] = {'cases': len(cases), 'bad': bad}
  return bad


def run(tier, replay=None):
  rep = common.Report(PID, tier, 'proof')
  rep.assumptions = [
      'model: import statements and rules of a file are given (per-file parser = oracle: the real parser on the '
      'file alone); a rule is reduced to the name occurrences RenamePredicate can touch',
      'model: names are ASCII strings; str.capitalize / toupper / tolower on ASCII',
      'model: file lookup over several roots = first root that has the file (lookup_roots); os.path.exists trusted',
      'model: `import main.X` aborts at the import statement (EImportMain); the real parsers first parse main.l; the tie '
      'only generates this case where both agree (main.l without imports, imported last, by the main file only)',
      'tie: Python set iteration order of DefinedPredicates|MadePredicates is not modelled; cases where the order '
      'matters (capture, nocap = false) are decided by the search oracle only',
      'semantic equality of a program and its predicate-renamed copy is not proved here (DESIGN: spec_rename_preds, '
      'C07); per instance the SQLite rows are compared with the independently flattened program',
      'CPython, g++ and SQLite trusted; harness props/c12.py trusted',
  ]
  ok, info = proof.proof_stage(rep, PID, extra_trusted=[
      'correspondence harness props/c12.py + Lex/ImportsCheck.v (run, fs_of)'])
  t_start = time.time()
  top = tempfile.mkdtemp(prefix='lv_c12_')
  try:
    return _run(rep, tier, replay, ok, info, top, t_start)
  finally:
    shutil.rmtree(top, ignore_errors=True)


def _run(rep, tier, replay, ok, info, top, t_start):
  r = common.rng('c12')
  if replay:
    with open(replay) as f:
      rp = json.load(f)
    jobs = [rematerialise(rp['job'], top)]
  else:
    n = 100 if tier == 'quick' else 2000
    jobs = [build_job(gen_case(r, i), top) for i in range(n)]

  # ---- implementation
  timing = {}
  t0 = time.time()
  wc = [start_worker(jobs, top, 'CPP', 'cpp')]
  k = 1 if len(jobs) < 6 else 3
  size = (len(jobs) + k - 1) // k
  wp = [start_worker(jobs[a:a + size], top, 'PY', 'py%d' % a) for a in range(0, len(jobs), size)]
  impl_py, py_log = finish_workers(wp)
  timing['py_workers_s'] = round(time.time() - t0, 1)
  impl_cpp, cpp_log = finish_workers(wc)
  timing['all_workers_s'] = round(time.time() - t0, 1)
  if impl_py is None:
    rep.violation('tie', {'broken': 'the Python parser worker crashed', 'excerpt': py_log}, no_input=True)
    return rep.finish()

  # ---- model (per-file rules come from the real parser run on each file alone)
  model = None
  model_log = ''
  usable = [i for i, x in enumerate(impl_py) if all(v is not None for v in x['alone'].values())]
  if ok:
    cases = [cq_case(jobs[i], impl_py[i]['alone']) for i in usable]
    t1 = time.time()
    model, model_log = model_eval(cases)
    timing['model_s'] = round(time.time() - t1, 1)
    if model is None:
      ok = False
      info['excerpt'] = model_log[-3000:]

  found = 0
  ties = []
  stats = {'accept': 0, 'reject': 0, 'oracle_failures': {}, 'tie_compared': 0, 'tie_skipped_capture': 0,
           'model_err_kinds': {}, 'features': {}, 'defects': {}, 'cpp_py_same_names': 0, 'cpp_py_differ': 0}
  pos = {i: k for k, i in enumerate(usable)}
  for i, job in enumerate(jobs):
    stats[job['expect']] += 1
    for ft in job['features']:
      stats['features'][ft] = stats['features'].get(ft, 0) + 1
    for dname in job['defects']:
      stats['defects'][dname] = stats['defects'].get(dname, 0) + 1
    for parser, impls, mode in (('PY', impl_py, 'Py'), ('CPP', impl_cpp, 'Cpp')):
      if impls is None:
        continue
      impl = impls[i]
      if any(v is None for v in impl['alone'].values()):
        found += 1
        rep.violation('case:%s/%s' % (parser, common.short_hash(job['file_texts'])),
                      replay_of(job, parser, 'a generated file does not parse alone: %s' % impl.get('alone_err'), impl))
        continue
      if parser == 'CPP' and impl['alone'] != impl_py[i]['alone']:
        ties.append((job, parser, 'per-file parses differ between the parsers'))
      bad = judge_oracle(job, impl)
      if bad is not None:
        observed, text = bad
        key = finding_key(job, parser, observed, impl)
        stats['oracle_failures'][key.split(':')[0]] = stats['oracle_failures'].get(key.split(':')[0], 0) + 1
        if found >= 6 and rep.known.lookup(PID, key) is None:
          found += 1
          stats['violations_not_printed'] = stats.get('violations_not_printed', 0) + 1
        elif rep.violation(key, replay_of(job, parser, text, impl)):
          found += 1
        continue
      if model is not None and i in pos:
        mres = model[mode][pos[i]]
        if parser == 'PY':
          k = mres.get('err', 'ok')
          stats['model_err_kinds'][k] = stats['model_err_kinds'].get(k, 0) + 1
        if ('ok' in mres and mres['nocap'] != 1) or 'prefix-capture' in job['features']:
          # the iteration order of the set Defined|Made matters here (hash seed / std::set order): not modelled
          stats['tie_skipped_capture'] += 1
        else:
          stats['tie_compared'] += 1
          t = judge_tie(job, impl, mres, parser)
          if t is not None:
            ties.append((job, parser, t))
    if impl_cpp is not None and 'ok' in impl_py[i]['multi'] and 'ok' in impl_cpp[i]['multi']:
      same = sorted(map(json.dumps, impl_py[i]['multi']['ok'])) == sorted(map(json.dumps, impl_cpp[i]['multi']['ok']))
      stats['cpp_py_same_names' if same else 'cpp_py_differ'] += 1

  if impl_cpp is None and not found:
    rep.violation('tie', {'broken': 'the C++ parser worker failed (build or crash)', 'excerpt': cpp_log}, no_input=True)
    found += 1
  if not ok and not found:
    rep.violation('proof', {'broken': 'theories/Props/C12.v, its dependencies or the model evaluation no longer check',
                            'failing_files': info.get('failing'), 'excerpt': info.get('excerpt', '')[:3000]},
                  no_input=True)
  elif ties and not found:
    # the model no longer describes the code, and the independent oracle found nothing wrong with these cases
    job, parser, t = ties[0]
    rep.violation('tie', {'broken': 'correspondence parse.ParseFile (%s) vs Lex/Imports.v' % parser, 'first': t,
                          'count': len(ties), 'job': replay_of(job, parser, t, (impl_py if parser == 'PY' else impl_cpp)[jobs.index(job)])['job'],
                          'parser': parser}, no_input=True)

  rep.coverage.update({
      'evaluations': len(jobs) * 2,
      'distinct_nontrivial': len(set(common.short_hash([j['main'], j['file_texts']]) for j in jobs
                                     if len(j['reachable']) >= 2)),
      'rule': 'generated import graphs (<= 5 files, <= 3 directory levels, <= 2 roots) x {PY, CPP}; '
              'non-trivial = at least two files reachable from main',
      'exhaustive': False,
      'samples': [{'main': jobs[k]['main'], 'files': jobs[k]['file_texts'], 'expect': jobs[k]['expect']}
                  for k in (0, len(jobs) // 2) if k < len(jobs)],
      'distribution': stats,
      'tie_disagreements': len(ties),
      'tie_examples': [{'idx': j['idx'], 'parser': p, 'what': t[:400]} for j, p, t in ties[:5]],
      'timing': timing,
      'tie_wall_s': round(time.time() - t_start, 1),
  })
  logicapath_stream(rep)
  return rep.finish()


if __name__ == '__main__':
  if len(sys.argv) >= 4 and sys.argv[1] == '--worker':
    worker_main(sys.argv[2:])
