"""C08 — plan-selecting annotations never change results."""
from vlib import common, proof
from props import coregen as G, corecheck as K, variants as V

PID = 'C08'
PROFILE = dict(named_cols=0.4, partial_args=0.3, inclusion=0.25, assign=0.6, lists=0.2, records=0.2, combine=0.25,
               disjunction=0.3, filter=0.4, negation=0.2, two_rules=0.3, distinct=0.25, aggregation=0.25,
               ifthenelse=0.4, builtins=0.3, func_calls=0.5, share_names=0.5, table_funcs=0.5, dup_calls=0.5, set_agg=0.0)


def distinct_callee(rep, tier):
  """A `distinct` (deduplicating) single-rule predicate read by aggregating, distinct and plain callers: the rows of
  the caller, computed directly from the facts, must come out under every plan annotation of the callee."""
  from vlib import logica_run
  r = common.rng('c08-distinct-callee')
  n = 10 if tier == 'quick' else 150
  runs = bad = 0
  for _ in range(n):
    edges = [(r.randint(0, 3), r.randint(0, 3)) for _ in range(r.randint(3, 7))]
    filt = r.choice([None, None, 1, 2])
    two_cols = r.random() < 0.3
    # the callee: distinct projection of Edge
    if two_cols:
      callee = 'Source(x, y) distinct :- Edge(x, y)%s;' % ('' if filt is None else ', y >= %d' % filt)
      src = sorted(set((x, y) for x, y in edges if filt is None or y >= filt))
    else:
      callee = 'Source(x) distinct :- Edge(x, y)%s;' % ('' if filt is None else ', y >= %d' % filt)
      src = sorted(set((x,) for x, y in edges if filt is None or y >= filt))
    call = 'Source(x, y)' if two_cols else 'Source(x)'
    kind = r.choice(['count', 'count', 'sum', 'plain', 'distinct', 'total', 'join'])
    if kind == 'count':
      caller = 'Q(x, n? += 1) distinct :- %s;' % call
      want = sorted((k, sum(1 for t in src if t[0] == k)) for k in set(t[0] for t in src))
    elif kind == 'sum':
      caller = 'Q(x, n? += x + 1) distinct :- %s;' % call
      want = sorted((k, sum(k + 1 for t in src if t[0] == k)) for k in set(t[0] for t in src))
    elif kind == 'total':
      caller = 'Q() += 1 :- %s;' % call
      want = [(len(src),)] if src else []
    elif kind == 'plain':
      caller = 'Q(x) :- %s;' % call
      want = sorted((t[0],) for t in src)
    elif kind == 'distinct':
      caller = 'Q(x) distinct :- %s;' % call
      want = sorted(set((t[0],) for t in src))
    else:
      caller = 'Q(x, n? += 1) distinct :- %s, Edge(x, z);' % call
      want = sorted((k, sum(1 for t in src if t[0] == k) * sum(1 for e in edges if e[0] == k)) for k in set(t[0] for t in src))
    base = '@Engine("sqlite");\n' + ''.join('Edge(%d, %d);\n' % e for e in edges) + callee + '\n' + caller + '\n'
    plans = [('default', ''), ('NoInject', '@NoInject(Source);\n'), ('With', '@With(Source);\n'), ('NoWith', '@NoWith(Source);\n'),
             ('Ground', '@AttachDatabase("logica_home", ":memory:");\n@Ground(Source);\n')]
    for pname, ann in plans:
      t = base + ann
      st, a, b = logica_run.run_pred(t, 'Q')
      runs += 1
      rows = sorted(tuple(x) for x in b) if st == 'ok' else a
      if (st != 'ok' or rows != want) and bad < 3:
        bad += 1
        rep.violation('distinct-callee:%s:%s' % (pname, st if st != 'ok' else 'rows'), {
            'program_text': t, 'predicate': 'Q', 'expected_rows': want, 'observed': [st, rows if st == 'ok' else str(rows)[:300]],
            'plan': pname, 'law': 'the rows of Q do not depend on how Source is planned (injected, WITH, inlined, grounded); '
                                  'Source is distinct, so each of its rows counts once',
            'how': 'vlib.logica_run.run_pred(program_text, "Q")'})
  # a callee with @Limit (with or without @OrderBy): its readers see at most K rows under every plan
  for _ in range(n):
    vals = r.sample(range(1, 30), r.randint(3, 7))
    k = r.randint(1, len(vals) - 1)
    ordered = r.random() < 0.5
    desc = r.random() < 0.5
    base = '@Engine("sqlite");\n' + ''.join('Item(%d);\n' % v for v in vals) + 'Sample(x) :- Item(x);\n@Limit(Sample, %d);\n' % k
    if ordered:
      base += '@OrderBy(Sample, "col0%s");\n' % (' desc' if desc else '')
    kind = r.choice(['count', 'rows' if ordered else 'count', 'join'])
    if kind == 'count':
      caller, want = 'Q() += 1 :- Sample(x);\n', [(k,)]
    elif kind == 'rows':
      caller, want = 'Q(x) :- Sample(x);\n', sorted((v,) for v in sorted(vals, reverse=desc)[:k])
    else:
      caller, want = 'Q() += 1 :- Sample(x), Item(y);\n', [(k * len(vals),)]
    for pname, ann in [('default', ''), ('NoInject', '@NoInject(Sample);\n'), ('With', '@With(Sample);\n'),
                       ('Ground', '@AttachDatabase("logica_home", ":memory:");\n@Ground(Sample);\n')]:
      t = base + caller + ann
      st, a, b = logica_run.run_pred(t, 'Q')
      runs += 1
      rows = sorted(tuple(x) for x in b) if st == 'ok' else a
      if (st != 'ok' or rows != want) and bad < 3:
        bad += 1
        rep.violation('limited-callee:%s:%s' % (pname, st if st != 'ok' else 'rows'), {
            'program_text': t, 'predicate': 'Q', 'expected_rows': want, 'observed': [st, rows if st == 'ok' else str(rows)[:300]],
            'plan': pname, 'law': 'a predicate limited to K rows gives its readers K rows however it is planned',
            'how': 'vlib.logica_run.run_pred(program_text, "Q")'})
  # a callee with more than ten positional columns: readers address col10, col11, ... by name or by position
  for _ in range(n):
    w = r.randint(11, 14)
    facts = [tuple(100 * i + j for j in range(w)) for i in range(1, r.randint(2, 4))]
    head = ', '.join('c%d' % j for j in range(w))
    base = '@Engine("sqlite");\n' + ''.join('Fact(%s);\n' % ', '.join(map(str, f)) for f in facts)
    shift = r.randint(0, 3)
    base += 'Wide(%s) :- Fact(%s);\n' % (', '.join('c%d + %d' % (j, shift) for j in range(w)), head)
    cols = sorted(r.sample(range(w), r.randint(1, 3)) + [r.randint(10, w - 1)])
    cols = sorted(set(cols))
    if r.random() < 0.5:
      call = 'Wide(%s)' % ', '.join('col%d: v%d' % (c, c) for c in cols)
    else:
      call = 'Wide(%s)' % ', '.join('v%d' % c if c in cols else '_x%d' % c for c in range(max(cols) + 1)).replace('_x', 'u')
    caller = 'Q(%s) :- %s;\n' % (', '.join('v%d' % c for c in cols), call)
    want = sorted(tuple(f[c] + shift for c in cols) for f in facts)
    for pname, ann in [('default', ''), ('NoInject', '@NoInject(Wide);\n'), ('With', '@With(Wide);\n'), ('NoWith', '@NoWith(Wide);\n'),
                       ('Ground', '@AttachDatabase("logica_home", ":memory:");\n@Ground(Wide);\n')]:
      t = base + caller + ann
      st, a, b = logica_run.run_pred(t, 'Q')
      runs += 1
      rows = sorted(tuple(x) for x in b) if st == 'ok' else a
      if (st != 'ok' or rows != want) and bad < 3:
        bad += 1
        rep.violation('wide-callee:%s:%s' % (pname, st if st != 'ok' else 'rows'), {
            'program_text': t, 'predicate': 'Q', 'expected_rows': want, 'observed': [st, rows if st == 'ok' else str(rows)[:300]],
            'plan': pname, 'law': 'a reader of column col10 and beyond gets that column however the callee is planned',
            'how': 'vlib.logica_run.run_pred(program_text, "Q")'})
  rep.coverage['distinct_callee_runs'] = runs
  rep.coverage['evaluations'] = rep.coverage.get('evaluations', 0) + runs


def run(tier, replay=None):
  rep = common.Report(PID, tier, 'other')
  if replay and K.replay_program_rows(rep, replay):
    return rep.finish()
  rep.assumptions = [
      'oracle: Core/Eval.v on the un-annotated program; every annotation assignment must return that bag on SQLite',
      '@Ground is exercised with @AttachDatabase("logica_home", ":memory:")',
  ]
  from translators import planrules
  gen_ok, gen_msg = planrules.generate()   # gen/PlanRules.v from the current compiler/universe.py (fail closed)
  ok, info = proof.proof_stage(rep, PID, extra_trusted=['props/variants.py (annotation assignment)', 'props/coregen.py printers',
                                                       'translators/planrules.py + Exec/PyVal.v (OkInjection rendered in Gallina)'])
  ok = ok and gen_ok
  variants = [
      ('plain', lambda prog, r: G.p_program(prog)),
      ('caller_uses_callee_local_names', V.capture_bait),
      ('all_NoInject', lambda prog, r: V.annotate_all(prog, 'NoInject')),
      ('all_With', lambda prog, r: V.annotate_all(prog, 'With')),
      ('all_NoWith', lambda prog, r: V.annotate_all(prog, 'NoWith')),
      ('all_Ground', lambda prog, r: V.annotate_all(prog, 'Ground')),
      ('random_1', lambda prog, r: V.annotate(prog, r)),
      ('random_2', lambda prog, r: V.annotate(prog, r)),
  ]
  found = K.run_core(rep, PID, tier, PROFILE, variants, 50, 500, 'c08', replay=replay, ok=ok, info=info, metamorphic=True)
  if not replay:
    distinct_callee(rep, tier)
  # --- tie of the injection model (Core/Inject.v) to LogicaProgram.RunInjections / InjectStructure
  if ok and not replay:
    import random
    from props import injecttie
    n = 70 if tier == 'quick' else 1500
    texts = [injecttie.gen_inject_program(random.Random('c08-inject/%d/%d' % (common.seed(), i))) for i in range(n)]
    tie = injecttie.run_tie(texts)
    rep.coverage['injection_tie'] = {k: v for k, v in tie.items() if k != 'mismatches'}
    rep.coverage['injection_tie']['mismatching_rules'] = [t for t, _ in tie['mismatches'][:5]]
    rep.coverage['traces_validated_against_impl'] = (rep.coverage.get('traces_validated_against_impl') or 0) + \
        tie['exact'] + tie['both_reject']
    if (tie['mismatches'] or tie['error']) and not found:
      bad = [t for t, _ in tie['mismatches'][:5]]
      wit = injecttie.search_failing_input(texts, bad) if bad else None
      if wit:
        rep.violation('injection-changes-rows', wit)
      else:
        rep.violation('tie-injection', {
            'broken': 'correspondence Core/Inject.v run_injections vs universe.LogicaProgram.RunInjections + InjectStructure '
                      '(theorems C08_injection_is_invisible / C08_injected_query_sound are about the model)',
            'rules': bad, 'codes': [c for _, c in tie['mismatches'][:5]], 'error': tie['error']}, no_input=True)
  return rep.finish()
