"""C18 — order_by and limit select the first K rows in the given order.

Proof: coq/theories/Props/C18.v.
  (a) `limit_clause`, `orderby_clause`, `ok_injection` are REGENERATED on every run from the
      current compiler/universe.py by translators/planrules.py (fail closed) and the theorems are
      re-checked by make; coq/status/C18_*.v decide which disjunct of the two K = 0 dichotomies holds.
  (b) oracle `order_limit_rows keys (Some K) rows = firstn K (sort rows)` with sortedness,
      K-smallest, determinism theorems.
Tie / search: generated programs run through the real parser + compiler + SQLite
(vlib/logica_run.run_pred); the ordered predicate as final predicate (ordered list compared) and as
input of other rules (bag of the consumer compared), annotation and denotation forms, plan
annotations (@With/@NoWith/@Ground/@NoInject), all K in 0..n+1.  Oracle: Python firstn/sort over
the facts (code independent), cross-checked against the Coq oracle evaluated with vm_compute.
"""
import functools
import itertools
import json
import re
from concurrent.futures import ThreadPoolExecutor

from translators import planrules
from vlib import common, coqrun, proof, parse_cache, logica_run as lr

PID = 'C18'
VARS = ['a', 'b', 'c', 'g', 'h', 'k']
NAMES = ['x', 'y', 'z', 'u', 'v', 'w']
STRS = ['a', 'b', 'B', 'ab', 'ba', '', 'c d']
PSHAPES = ['copy', 'filter', 'union', 'agg', 'aggunion']
CONSUMERS = ['final', 'map', 'group', 'join', 'chain', 'twice']
PLANS = ['', 'with', 'nowith', 'ground', 'noinject']


# ----------------------------------------------------------------------------- case -> program
def lit(v):
  return json.dumps(v) if isinstance(v, str) else ('%d' % v if v >= 0 else '(%d)' % v)


def colnames(case):
  n = case['arity']
  return NAMES[:n] if case['named'] else ['col%d' % i for i in range(n)]


def head_args(case, vs, agg_last=False):
  n = case['arity']
  if case['named']:
    parts = ['%s: %s' % (NAMES[i], vs[i]) for i in range(n)]
    if agg_last:
      parts[-1] = '%s? Max= %s' % (NAMES[n - 1], vs[n - 1])
    return ', '.join(parts)
  return ', '.join(vs[:n])


def order_args(case):
  out = []
  for col, desc, style in case['keys']:
    name = colnames(case)[col]
    if style == 'sep':
      out.append(json.dumps(name))
      if desc:
        out.append('"DESC"')
    elif style == 'asc' and not desc:
      out.append(json.dumps(name + ' asc'))
    else:
      out.append(json.dumps(name + (' desc' if desc else '')))
  return ', '.join(out)


def program(case):
  n = case['arity']
  vs = VARS[:n]
  lines = ['@Engine("sqlite");']
  for r in case['rows']:
    lines.append('D(%s);' % ', '.join(lit(v) for v in r))
  if case['pshape'] in ('union', 'aggunion'):
    for r in case['rows2']:
      lines.append('E(%s);' % ', '.join(lit(v) for v in r))
  deno = ''
  if case['form'] == 'denotation':
    if case['keys']:
      deno += ' order_by(%s)' % order_args(case)
    if case['k'] is not None:
      deno += ' limit(%d)' % case['k']
  else:
    if case['keys']:
      lines.append('@OrderBy(P, %s);' % order_args(case))
    if case['k'] is not None:
      lines.append('@Limit(P, %d);' % case['k'])
  dbody = 'D(%s)' % ', '.join(vs)
  ps = case['pshape']
  first_rule = len(lines)
  if ps == 'copy':
    lines.append('P(%s)%s :- %s;' % (head_args(case, vs), deno, dbody))
  elif ps == 'filter':
    lines.append('P(%s)%s :- %s, a >= %s;' % (head_args(case, vs), deno, dbody, lit(case['t'])))
  elif ps == 'union':
    lines.append('P(%s)%s :- %s;' % (head_args(case, vs), deno, dbody))
    lines.append('P(%s) :- E(%s);' % (head_args(case, vs), ', '.join(vs)))
  elif ps == 'agg':
    lines.append('P(%s) distinct%s :- %s;' % (head_args(case, vs, agg_last=True), deno, dbody))
  elif ps == 'aggunion':     # multi-body aggregation (rewritten through an auxiliary predicate by the parser)
    if case.get('or_form'):
      lines.append('P(%s) distinct%s :- %s | E(%s);' % (head_args(case, vs, agg_last=True), deno, dbody, ', '.join(vs)))
    else:
      lines.append('P(%s) distinct%s :- %s;' % (head_args(case, vs, agg_last=True), deno, dbody))
      lines.append('P(%s) distinct :- E(%s);' % (head_args(case, vs, agg_last=True), ', '.join(vs)))
  if case.get('made'):
    # the rules and annotations written above define the template Tpl over the parameter Src; P is made from it
    import re as _re
    for i in range(len(lines)):
      if lines[i].startswith('@OrderBy(P,') or lines[i].startswith('@Limit(P,'):
        lines[i] = lines[i].replace('(P,', '(Tpl,', 1)
      elif i >= first_rule:
        lines[i] = _re.sub(r'^P\(', 'Tpl(', lines[i]).replace(dbody, 'Src(%s)' % ', '.join(vs))
    lines.append('Src(%s) :- D(%s), a > 1000;' % (', '.join(vs), ', '.join(vs)))
    lines.append('P := Tpl(Src: D);')
  plan = {'': None, 'with': '@With(P);', 'nowith': '@NoWith(P);', 'ground': '@Ground(P);',
          'noinject': '@NoInject(P);'}[case['plan']]
  if plan:
    lines.append(plan)
  patom = lambda vv: 'P(%s)' % head_args(case, vv)
  c = case['consumer']
  main = 'Q'
  if c == 'final':
    main = 'P'
  elif c == 'map':
    lines.append('Q(%s) :- %s;' % (', '.join(reversed(vs)), patom(vs)))
  elif c == 'group':
    lines.append('Q(a, n? += 1) distinct :- %s;' % patom(vs))
  elif c == 'join':
    dv = ['a'] + ['d%d' % i for i in range(1, n)]
    lines.append('Q(%s) :- %s, D(%s);' % (', '.join(vs + dv[1:]), patom(vs), ', '.join(dv)))
  elif c == 'chain':
    lines.append('Q(%s) :- %s;' % (', '.join(reversed(vs)), patom(vs)))
    lines.append('R(%s) :- Q(%s);' % (', '.join(vs), ', '.join(reversed(vs))))
    main = 'R'
  elif c == 'twice':
    v2 = ['e0', 'b'] + ['e%d' % i for i in range(2, n)]
    lines.append('Q(a, e0) :- %s, %s;' % (patom(vs), patom(v2)))
  return '\n'.join(lines) + '\n', main


# ----------------------------------------------------------------------------- oracle (code independent)
def cmp_val(x, y):
  return (x > y) - (x < y)


def p_rows(case):
  """The bag P denotes before ordering/limiting, in some arrival order."""
  rows = [tuple(r) for r in case['rows']]
  ps = case['pshape']
  if ps == 'filter':
    rows = [r for r in rows if r[0] >= case['t']]
  elif ps == 'union':
    rows = rows + [tuple(r) for r in case['rows2']]
  elif ps in ('agg', 'aggunion'):
    if ps == 'aggunion':
      rows = rows + [tuple(r) for r in case['rows2']]
    groups = {}
    for r in rows:
      groups.setdefault(r[:-1], []).append(r[-1])
    rows = [k + (max(v),) for k, v in groups.items()]
  return rows


def row_cmp(keys):
  def f(r, s):
    for col, desc, _ in keys:
      c = cmp_val(r[col], s[col])
      if c:
        return -c if desc else c
    return 0
  return f


def is_total(keys, rows):
  """No two different rows compare equal under the keys."""
  proj = {}
  for r in rows:
    k = tuple(r[c] for c, _, _ in keys)
    if proj.setdefault(k, r) != r:
      return False
  return True


def oracle_p(case, k='case'):
  """firstn K (sort rows) — only meaningful when the case has keys."""
  rows = sorted(p_rows(case), key=functools.cmp_to_key(row_cmp(case['keys'])))
  k = case['k'] if k == 'case' else k
  return rows if k is None else rows[:k]


def consume(case, prow):
  """What the consumer derives from the list `prow` of P (a bag)."""
  c = case['consumer']
  if c == 'final':
    return list(prow)
  if c == 'map':
    return [tuple(reversed(r)) for r in prow]
  if c == 'chain':
    return list(prow)
  if c == 'group':
    cnt = {}
    for r in prow:
      cnt[r[0]] = cnt.get(r[0], 0) + 1
    return [(a, n) for a, n in cnt.items()]
  if c == 'join':
    return [r + tuple(d[1:]) for r in prow for d in map(tuple, case['rows']) if d[0] == r[0]]
  if c == 'twice':
    return [(r[0], s[0]) for r in prow for s in prow if r[1] == s[1]]
  raise ValueError(c)


def sub_bag(small, big):
  big = list(big)
  for x in small:
    if x in big:
      big.remove(x)
    else:
      return False
  return True


# ----------------------------------------------------------------------------- generator
def gen_case(r, k_mode='all'):
  n = r.choice([2, 2, 3])
  wide = r.random() < 0.12      # many sort keys with stand-alone "DESC" markers: ten and more @OrderBy items
  if wide:
    n = r.choice([5, 6])
  with_str = r.random() < 0.3
  nrows = r.choice([1, 2, 3, 3, 4, 4, 5])

  def row():
    vals = [r.randint(-2, 4) for _ in range(n)]
    if with_str:
      vals[1] = r.choice(STRS)
    return vals
  case = {'arity': n, 'rows': [row() for _ in range(nrows)]}
  if r.random() < 0.35 and nrows > 1:        # duplicate rows / shared key prefixes
    case['rows'][-1] = list(case['rows'][0])
  case['pshape'] = r.choice(PSHAPES)
  case['named'] = True if case['pshape'] in ('agg', 'aggunion') else r.random() < 0.4
  case['or_form'] = r.random() < 0.5
  if case['pshape'] in ('union', 'aggunion'):
    case['rows2'] = [row() for _ in range(r.choice([1, 2, 3]))]
  if case['pshape'] == 'filter':
    case['t'] = r.choice([-2, 0, 1, 3, 9])
  case['form'] = r.choice(['annotation', 'annotation', 'denotation'])
  # P made by a functor from an ordered / limited template: P := Tpl(Src: D) inherits the ORDER BY / LIMIT of Tpl
  case['made'] = r.random() < 0.2
  case['plan'] = r.choice(PLANS + [''])
  case['consumer'] = r.choice(CONSUMERS)
  mode = r.random()
  if mode < 0.12:
    case['keys'] = []                         # limit only
  else:
    cols = list(range(n))
    r.shuffle(cols)
    m = r.randint(1, n)
    keys = [[c, r.random() < 0.5, r.choice(['inline', 'inline', 'sep', 'asc'])] for c in cols[:m]]
    if wide:
      m = n
      keys = [[c, i % 2 == 0 or r.random() < 0.5, 'sep'] for i, c in enumerate(cols)]
    case['keys'] = keys
    case['k'] = None
    if not is_total(keys, p_rows(case)):      # make the order total on the rows at hand
      keys += [[c, r.random() < 0.5, r.choice(['inline', 'sep'])] for c in cols[m:]]
  return case


def ks_for(case, r):
  n = len(p_rows(case))
  ks = list(range(0, n + 2))
  if case['keys']:
    ks.append(None)                           # order only
  return ks


# ----------------------------------------------------------------------------- one evaluation
def same_bag(x, y):
  return sorted(map(common.canon, x)) == sorted(map(common.canon, y))


def limit_only_ok(case, obs, k):
  """LIMIT without ORDER BY: the engine may keep ANY min(K, n) rows of P.  Exact check: some
  sub-bag S of P of that size explains the observation (n <= 8, all subsets tried)."""
  prow = p_rows(case)
  want = min(k, len(prow))
  for idx in itertools.combinations(range(len(prow)), want):
    exp = consume(case, [prow[i] for i in idx])
    if same_bag(obs, exp):
      return True
  return False


def run_case(case):
  """Returns {'ok': bool, 'why': str, 'observed': ..., 'expected': ..., 'zero_signature': bool}."""
  parse_cache.install()
  text, main = program(case)
  res = {'program': text, 'main': main}
  st, comp = lr.compile_pred(text, main)
  if st != 'ok':
    res.update(ok=False, why='the program does not compile: %s %s' % (st, str(comp)[:300]), observed=None)
    return res
  try:
    _, rows = lr.execute([comp['preamble']] + comp['defines_and_exports'] + [comp['main']], decode=False)
  except Exception as e:  # pylint: disable=broad-except
    res.update(ok=False, why='SQLite rejects the script: %s: %s' % (type(e).__name__, e), observed=None)
    return res
  obs = [tuple(x) for x in rows]
  res['observed'] = obs
  k = case['k']
  final = case['consumer'] == 'final'
  if case['keys']:
    exp = consume(case, oracle_p(case))
    good = (obs == exp) if final else same_bag(obs, exp)
    res['expected'] = exp
    if not good and k == 0:
      nolim = consume(case, oracle_p(case, None))
      res['zero_signature'] = (obs == nolim) if final else same_bag(obs, nolim)
  else:
    good = limit_only_ok(case, obs, k)
    res['expected'] = 'what any %d rows of P give' % min(k, len(p_rows(case)))
    if not good and k == 0:
      res['zero_signature'] = same_bag(obs, consume(case, p_rows(case)))
  # structural: the LIMIT must still be in the script when P is read by another rule
  if good and k and not final:
    if len(re.findall(r'\bLIMIT %d\b' % k, comp['sql'])) < 1:
      good = False
      res['why'] = 'LIMIT %d does not occur in the compiled script although P is limited' % k
  res['ok'] = good
  if not good and 'why' not in res:
    res['why'] = ('ordered list differs from firstn K (sort rows)' if final and case['keys']
                  else 'rows differ from what the first K rows of P give')
  return res


def run_all(cases, workers=4):
  if len(cases) < 8:
    return [run_case(c) for c in cases]
  import multiprocessing
  lr.modules()                                        # import the implementation before forking
  with multiprocessing.get_context('fork').Pool(workers) as pool:
    return pool.map(run_case, cases, chunksize=max(1, min(50, len(cases) // (workers * 4))))


# ----------------------------------------------------------------------------- Coq oracle
def intern_tables(case):
  rows = p_rows(case)
  tabs = []
  for c in range(case['arity']):
    vals = sorted(set(r[c] for r in rows))
    tabs.append({v: i for i, v in enumerate(vals)})
  return tabs


def coq_case(case):
  tabs = intern_tables(case)
  rows = p_rows(case)
  keys = '; '.join('(%d, %s)' % (c, 'true' if d else 'false') for c, d, _ in case['keys'])
  lim = 'None' if case['k'] is None else '(Some %d)' % case['k']
  rws = '; '.join('[%s]' % '; '.join('%d' % tabs[c][r[c]] for c in range(case['arity'])) for r in rows)
  return '([%s], %s, [%s]%%Z)' % (keys, lim, rws)


def coq_oracle(cases, chunk=700):
  """Evaluates order_limit_rows inside Coq for every case; returns list of row lists (ranks) or None."""
  def one(cs):
    text = ('From Coq Require Import List ZArith. Import ListNotations.\n'
            'From LV Require Import Exec.OrderLimit Exec.OrderLimitCheck.\n'
            'Definition cases : list ol_case := [\n%s\n].\n'
            'Eval vm_compute in run_cases cases.\n' % ';\n'.join(coq_case(c) for c in cs))
    rc, out = coqrun.coq_eval(text, timeout=600)
    if rc != 0:
      return None, out
    m = re.search(r'=\s*\[(.*?)\]\s*:\s*list Z', out, re.S)
    if not m:
      return None, out
    toks = [int(t.replace('(', '').replace(')', '').replace('%Z', '').strip())
            for t in m.group(1).split(';') if t.strip()]
    res, cur, row = [], [], []
    for t in toks:
      if t == -1:
        cur.append(tuple(row))
        row = []
      elif t == -2:
        res.append(cur)
        cur = []
      else:
        row.append(t)
    if len(res) != len(cs):
      return None, out
    return res, ''
  chunks = [cases[i:i + chunk] for i in range(0, len(cases), chunk)]
  out_all = []
  with ThreadPoolExecutor(max_workers=4) as ex:
    for res, out in ex.map(one, chunks):
      if res is None:
        return None, out
      out_all.extend(res)
  return out_all, ''


# ----------------------------------------------------------------------------- status of the K = 0 dichotomies
STATUS = {
    'limit_clause_all_k': 'C18_limit_all_k.v',
    'limit_clause_all_k_refuted': 'C18_limit_all_k_refuted.v',
    'ordered_not_injected': 'C18_not_injected.v',
    'ordered_not_injected_refuted': 'C18_not_injected_refuted.v',
}


def status_files():
  import os

  def one(item):
    name, fn = item
    with open(os.path.join(common.COQ, 'status', fn)) as f:
      rc, out = coqrun.coq_eval(f.read(), timeout=300, name='status')
    return name, rc == 0
  with ThreadPoolExecutor(max_workers=4) as ex:
    return dict(ex.map(one, STATUS.items()))


WITNESS_LIMIT0 = {'arity': 2, 'rows': [[1, 2], [0, 5], [3, 3]], 'pshape': 'copy', 'named': False,
                  'form': 'annotation', 'plan': '', 'consumer': 'final', 'keys': [[0, False, 'inline']], 'k': 0}
WITNESS_INJECT0 = {'arity': 2, 'rows': [[1, 2], [0, 5], [3, 3]], 'pshape': 'copy', 'named': False,
                   'form': 'annotation', 'plan': '', 'consumer': 'map', 'keys': [], 'k': 0}


def case_key(case, res):
  if case['k'] == 0 and res.get('zero_signature'):
    return 'limit-zero'
  return 'case:%s' % common.short_hash(case)


def report_case(rep, case, res):
  rep.violation(case_key(case, res), {
      'case': case, 'program': res['program'], 'run': res['main'], 'observed': res.get('observed'),
      'expected': res.get('expected'), 'why': res.get('why'),
      'how': 'PYTHONPATH=$REPO python3 logica.py <program file> run %s (sqlite); oracle firstn K (sort rows)' % res['main']})


def run(tier, replay=None):
  rep = common.Report(PID, tier, 'proof')
  rep.assumptions = [
      'translators/planrules.py (Python ast -> Gallina, fail closed) and Exec/PyVal.v (Python truthiness, %d, join) are trusted to render the three methods faithfully',
      'SQLite ORDER BY / LIMIT semantics are modelled by Exec/OrderLimit.v and validated per instance by the runs',
      'placement of the clauses by PredicateSql / WITH / @Ground / injection is checked per instance (SQLite runs), not proved',
      'harness props/c18.py and its Python oracle trusted; Coq oracle cross-checks the Python oracle on every case with keys',
  ]
  gen_ok, gen_msg = planrules.generate()
  ok, info = proof.proof_stage(rep, PID, extra_trusted=[
      'translators/planrules.py + Exec/PyVal.v', 'props/c18.py (generator, Python oracle, comparison)'])
  cok, clog, _ = coqrun.build(['theories/Exec/OrderLimitCheck.vo'])
  status = status_files() if ok else {}
  rep.coverage['translator'] = {'ok': gen_ok, 'message': gen_msg}
  rep.coverage['status_theorems'] = status
  r = common.rng('c18')

  # ---- cases
  cases = []
  if replay:
    with open(replay) as f:
      rp = json.load(f)
    if 'case' in rp:
      cases = [rp['case']]
  else:
    n_prog = 100 if tier == 'quick' else 4000
    cases += [dict(WITNESS_LIMIT0, k=k) for k in (0, 1, 2, 3, 4)]
    cases += [dict(WITNESS_INJECT0, k=k) for k in (0, 1, 4)]
    for _ in range(n_prog):
      base = gen_case(r)
      for k in ks_for(base, r):
        if not base['keys'] and k is None:
          continue
        cases.append(dict(base, k=k))

  found = 0
  keys_hit = {}
  dist = {'pshape': {}, 'consumer': {}, 'plan': {}, 'form': {}, 'k0': 0, 'limit_only': 0, 'order_only': 0,
          'with_strings': 0, 'failed_to_run': 0}
  results = run_all(cases)
  for case, res in zip(cases, results):
    for f in ('pshape', 'consumer', 'plan', 'form'):
      dist[f][case[f]] = dist[f].get(case[f], 0) + 1
    dist['k0'] += case['k'] == 0
    dist['limit_only'] += not case['keys']
    dist['order_only'] += case['k'] is None
    dist['with_strings'] += any(isinstance(v, str) for row in case['rows'] for v in row)
    if not res['ok']:
      if res.get('observed') is None:
        dist['failed_to_run'] += 1
      key = case_key(case, res)
      keys_hit[key] = keys_hit.get(key, 0) + 1
      if keys_hit[key] == 1 and (key == 'limit-zero' or found < 6):
        if key != 'limit-zero':
          found += 1
        report_case(rep, case, res)
      elif key != 'limit-zero':
        found += 1

  # ---- Coq oracle on the same inputs (cases with keys): Coq result vs Python oracle vs SQLite (final)
  coq_checked = coq_mismatch = 0
  keyed = [(c, res) for c, res in zip(cases, results) if c['keys']]
  if cok and keyed:
    outs, cout = coq_oracle([c for c, _ in keyed])
    if outs is None:
      rep.violation('tie', {'broken': 'Coq oracle evaluation failed', 'excerpt': cout[-2000:]}, no_input=True)
    else:
      for (case, res), co in zip(keyed, outs):
        tabs = intern_tables(case)
        enc = lambda row: tuple(tabs[c].get(row[c], -7) for c in range(case['arity']))
        coq_checked += 1
        if [enc(x) for x in oracle_p(case)] != co:
          coq_mismatch += 1
          if coq_mismatch <= 3:
            rep.violation('tie', {'broken': 'Python oracle and Coq order_limit_rows disagree', 'case': case,
                                  'coq': co, 'python': oracle_p(case)}, no_input=True)
        elif case['consumer'] == 'final' and res['ok'] and res.get('observed') is not None:
          if [enc(x) for x in res['observed']] != co:
            coq_mismatch += 1
  elif keyed and not cok:
    rep.violation('tie', {'broken': 'theories/Exec/OrderLimitCheck.v does not build', 'excerpt': clog[-2000:]},
                  no_input=True)

  # ---- proof obligations / status
  if not gen_ok or not ok:
    if not found and not keys_hit:
      rep.violation('proof', {'broken': 'coq/gen/PlanRules.v (regenerated from compiler/universe.py) or theories/Props/C18.v no longer check',
                              'translator': gen_msg, 'failing_files': info.get('failing'),
                              'excerpt': info.get('excerpt', '')[:3000]}, no_input=True)
    elif not found:
      # only known findings were hit but the obligations are broken as well: still a violation
      rep.violation('proof', {'broken': 'obligations of C18 no longer check (besides known findings)',
                              'translator': gen_msg, 'failing_files': info.get('failing'),
                              'excerpt': info.get('excerpt', '')[:3000]}, no_input=True)
  elif not replay:
    lim_ok, lim_ref = status.get('limit_clause_all_k'), status.get('limit_clause_all_k_refuted')
    inj_ok, inj_ref = status.get('ordered_not_injected'), status.get('ordered_not_injected_refuted')
    if lim_ok == lim_ref or inj_ok == inj_ref:
      rep.violation('proof', {'broken': 'status theorems inconsistent', 'status': status}, no_input=True)
    if lim_ref and 'limit-zero' not in keys_hit:
      # the model refutes limit_clause_all_k at K = 0: replay the witness on the implementation
      res = run_case(WITNESS_LIMIT0)
      if not res['ok']:
        report_case(rep, WITNESS_LIMIT0, res)
      else:
        rep.violation('tie', {'broken': 'limit_clause_all_k is refuted in the model at K = 0 but the implementation handles @Limit(P, 0)'},
                      no_input=True)
    if inj_ref and not lim_ref:
      res = run_case(WITNESS_INJECT0)
      if not res['ok']:
        report_case(rep, WITNESS_INJECT0, res)
      else:
        rep.violation('tie', {'broken': 'ordered_not_injected is refuted in the model at @Limit(P, 0) but the run agrees with the oracle'},
                      no_input=True)

  rep.coverage.update({
      'evaluations': len(cases) + coq_checked,
      'distinct_nontrivial': len(set(common.canon(c) for c in cases if len(p_rows(c)) >= 2)),
      'rule': 'generated programs x every K in 0..n+1 (+ order only); SQLite run of the ordered predicate (ordered list) '
              'or of a consumer (bag) vs firstn K (sort rows); non-trivial = P has at least 2 rows; Coq oracle evaluated on every case with keys',
      'exhaustive': False,
      'samples': [{'program': results[i]['program'], 'run': results[i]['main'], 'observed': results[i].get('observed')}
                  for i in (9, len(cases) // 2, len(cases) - 1) if 0 <= i < len(cases)],
      'distribution': dist,
      'coq_oracle_cases': coq_checked, 'coq_oracle_mismatch': coq_mismatch,
      'failing_keys': keys_hit,
  })
  return rep.finish()
