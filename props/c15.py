"""C15 — layout, comments and string contents never change what is parsed.

Proof (for all strings): coq/theories/Props/C15.v over Lex/Traverse.v, Split.v, Span.v (models of
parse.Traverse, RemoveComments, IsWhole, StripSpaces, Strip, SplitRaw, Split, SplitOnWhitespace,
HeritageAwareString.GetSlice).
Tie: the same functions of parser_py/parse.py are called on generated strings and the flat encodings of
the results are compared with the model inside Coq (vm_compute).
Per instance (both parsers, worker processes; the C++ shared object is rebuilt from the current source):
layout noise at token boundaries of generated programs, redundant parentheses, trailing semicolon,
string contents, exactness of every span in the parsed trees.  Oracle: the law itself (the tree of the
plain text), independent of the code.
"""
import ast
import re
import json
import warnings

from vlib import common, proof
from props import lexobs, parsers, textgen

PID = 'C15'

# Deterministic probes (base, variant): both texts must parse to the same rules.
PROBES = [
    ('probe:newline-after-in', 'Q(x) :- x in [1, 2];', 'Q(x) :- x in\n[1, 2];'),
    ('probe:tab-before-in', 'Q(x) :- x in [1, 2];', 'Q(x) :- x \tin [1, 2];'),
    ('probe:tab-after-if', 'Q(y) :- y == (if 1 > 2 then 3 else 4);', 'Q(y) :- y == (if\t1 > 2 then 3 else 4);'),
    ('probe:newline-after-if', 'Q(y) :- y == (if 1 > 2 then 3 else 4);', 'Q(y) :- y == (if\n1 > 2 then 3 else 4);'),
    ('probe:newline-after-combine', 'Q(y) :- y == (combine Sum= x :- P(x));', 'Q(y) :- y == (combine\nSum= x :- P(x));'),
    ('probe:space-in-operand-of-glued-comparison', 'Q(x) :- P(x), x*2>= 2;', 'Q(x) :- P(x), x* 2>= 2;'),
    ('probe:minus-glued-to-call', 'Q(y) :- P(x), y == x - F(1);', 'Q(y) :- P(x), y == x-F(1);'),
    ('probe:minus-glued-to-parenthesis', 'Q(y) :- P(x), y == x - (1);', 'Q(y) :- P(x), y == x-(1);'),
    ('probe:identifier-ending-in-_then', 'Q(y) :- y == (if a_then||b then 3 else 4);', 'Q(y) :- y == (if a_then || b then 3 else 4);'),
    ('probe:comment-between-tokens', 'Q(x) :- P(x), R(x);', 'Q(x) /* ( " */ :- P(x), # ;\n R(x);'),
    ('probe:trailing-semicolon', 'Q(x) :- P(x)', 'Q(x) :- P(x);'),
    ('probe:redundant-parens', 'Q(x) :- P(x), x > 1;', 'Q(x) :- ((P(x))), (x > (1));'),
    ('probe:string-with-syntax', 'Q("zz") :- P("zz");', None),   # handled by the string check below
]
PROBES = [p for p in PROBES if p[2] is not None]


def string_value(lit):
  if lit.startswith('"""'):
    return lit[3:-3]
  if lit.startswith('"'):
    return lit[1:-1]
  with warnings.catch_warnings():
    warnings.simplefilter('ignore')
    return ast.literal_eval(lit)


def string_key(lit):
  if lit.startswith("'"):
    body = lit[1:-1]
    for i in range(len(body) - 1):
      if body[i] == '\\' and body[i + 1] in '()[]{}':
        return 'string:single-quote-escaped-bracket'
  return 'string:%s' % common.short_hash(lit)


def lexical_cases(r, n):
  parse = lexobs.parse_mod()
  cases, meta, crashes = [], [], []
  kinds = [0, 1, 2, 3, 4, 5, 5, 5, 6, 6, 7]
  for i in range(n):
    kind = r.choice(kinds)
    sep = ''
    if kind in (5, 6):
      sep = r.choice(lexobs.SEPARATORS)
      frs = [lexobs.rand_fragment(r) for _ in range(r.randint(1, 5))]
      s = ''
      for f in frs:
        s += f + (r.choice([sep, sep, ' ' + sep, sep + '|', 'a' + sep + 'b', '']) if r.random() < 0.7 else '')
      if r.random() < 0.15:
        s = lexobs.rand_lex_string(r)
    else:
      s = lexobs.rand_lex_string(r)
    obs = lexobs.observe(parse, kind, s, sep)
    if isinstance(obs, tuple):
      crashes.append((kind, s, sep, obs[1]))
      continue
    cases.append(lexobs.coq_case(kind, s, sep, obs))
    meta.append((kind, s, sep, obs))
  for i in range(n // 8):
    s = lexobs.rand_lex_string(r)
    m = len(s)
    st = r.randint(0, m)
    sp = r.randint(st, m)
    sep = (st, sp, r.randint(-m - 2, m + 2), r.randint(-m - 2, m + 2))
    obs = lexobs.observe(parse, 8, s, sep)
    cases.append(lexobs.coq_case(8, s, sep, obs))
    meta.append((8, s, list(sep), obs))
  allc = ''.join(chr(c) for c in list(range(0, 592)) + [5760, 8192, 8200, 8202, 8232, 8233, 8239, 8287, 12288])
  obs = lexobs.observe(parse, 9, allc, '')
  cases.append(lexobs.coq_case(9, allc, '', obs))
  meta.append((9, allc, '', obs))
  return cases, meta, crashes


def lexical_laws(parse, r, n):
  """The proved laws evaluated directly on parse.py (oracle independent of the model)."""
  H = parse.HeritageAwareString
  bad = []
  for i in range(n):
    s = lexobs.rand_lex_string(r)
    try:
      clean = parse.RemoveComments(H(s))
    except parse.ParsingException:
      continue
    # only texts that end in code state are extended (and whose last lexeme cannot merge with what follows)
    ev = list(parse.Traverse(s))
    if s and not (ev and ev[-1][0] == len(s) - 1 and ev[-1][2] == 'OK' and (ev[-1][1] == '' or ev[-1][1][-1] in '([{')):
      continue
    if s.endswith('/') or s.endswith('"'):
      continue
    body = textgen.rand_comment_body(r, True)
    rest = lexobs.rand_lex_string(r)
    try:
      a = parse.RemoveComments(H(s + '/*' + body + '*/' + rest))
      b = parse.RemoveComments(H(s + rest))
      if a != b:
        bad.append(('law:block-comment', s + '/*' + body + '*/' + rest, s + rest))
    except parse.ParsingException:
      try:
        parse.RemoveComments(H(s + rest))
        bad.append(('law:block-comment', s + '/*' + body + '*/' + rest, s + rest))
      except parse.ParsingException:
        pass
    for sep in (',', ';', ':-', '|'):
      try:
        parts = parse.SplitRaw(H(s), sep)
      except parse.ParsingException:
        continue
      if sep.join(str(p) for p in parts) != s:
        bad.append(('law:split-join', s, sep))
      for p in parts:
        if p.heritage[p.start:p.stop] != str(p):
          bad.append(('law:split-span', s, sep))
  return bad


def build_text_cases(r, nprog, nnoise):
  """Returns (cases for the workers, checks).  A check: dict(kind, key, base id, variant id, info)."""
  cases, checks = [], []
  feats = {}
  nid = [0]

  def add(text):
    nid[0] += 1
    cases.append({'id': nid[0], 'text': text})
    return nid[0]

  for pi in range(nprog):
    g = textgen.Gen(r)
    toks = g.program()
    for f in g.features:
      feats[f] = feats.get(f, 0) + 1
    vis = textgen.visible(toks)
    bases = {}
    for style in (0, 1):
      bases[style] = add(textgen.render(toks, style))
    # layout noise
    idxs = [j for j in range(len(vis) - 1) if textgen.boundary(vis[j], vis[j + 1]) != 'glue']
    plain_idxs = [j for j in idxs if not any(t[1] == 'kw' and t[0] in ('in', 'if', 'combine')
                                             for t in (vis[j], vis[j + 1]))]
    for _ in range(nnoise):
      style = r.randint(0, 1)
      if r.random() < 0.75 or len(plain_idxs) < 3:
        js = [r.choice(idxs)]
      else:   # several insertions at once: not next to in / if / combine (kept apart, see known findings)
        js = r.sample(plain_idxs, r.randint(2, min(6, len(plain_idxs))))
      noise = {}
      kinds = []
      for j in js:
        kind, text = textgen.rand_noise(r)
        noise[j] = (text, r.randint(0, 1))
        kinds.append(kind)
      j0 = js[0]
      kws = sorted(set(t[0] for j in js for t in (vis[j], vis[j + 1]) if t[1] == 'kw' and t[0] in ('in', 'if', 'combine')))
      if kws and len(js) == 1:
        key = 'layout:adjacent-to-keyword-%s' % kws[0]
      else:
        key = 'layout:%s@%s' % ('+'.join(sorted(set(kinds))), textgen.boundary_class(vis[j0], vis[j0 + 1]))
      v = add(textgen.render(toks, style, noise))
      checks.append({'kind': 'layout', 'key': key, 'base': bases[style], 'var': v,
                     'reject_only': key.startswith('layout:adjacent-to-keyword')})
    # redundant parentheses
    ids = textgen.pair_ids(toks)
    if ids:
      for _ in range(2):
        sub = [p for p in ids if r.random() < 0.5] or [r.choice(ids)]
        style = r.randint(0, 1)
        v = add(textgen.render(toks, style, None, sub))
        checks.append({'kind': 'parens', 'key': 'parens:%s' % common.short_hash(cases[-1]['text']),
                       'base': bases[style], 'var': v})
    # trailing semicolon / no trailing semicolon / doubled
    base_text = textgen.render(toks, 0)
    stripped = base_text.rstrip()
    if stripped.endswith(';'):
      v = add(stripped[:-1])
      checks.append({'kind': 'trailing', 'key': 'trailing-semicolon', 'base': bases[0], 'var': v})
      v = add(stripped + r.choice([';', ' ;', '\n;\n', ' /* end */ ']))
      checks.append({'kind': 'trailing', 'key': 'trailing-semicolon', 'base': bases[0], 'var': v})
    # string contents: the k-th literal replaced by a harmless one is the base
    sidx = [j for j, t in enumerate(vis) if t[1] == 's']
    if sidx:
      benign = [list(t) for t in vis]
      for k, j in enumerate(sidx):
        benign[j] = ['"zz%d"' % k, 's']
      b = add(textgen.render(benign, 0))
      for k, j in enumerate(sidx[:4]):
        one = [list(t) for t in benign]
        one[j] = list(vis[j])
        v = add(textgen.render(one, 0))
        try:
          val = string_value(vis[j][0])
        except Exception:
          continue
        checks.append({'kind': 'string', 'key': string_key(vis[j][0]), 'base': b, 'var': v,
                       'marker': 'zz%d' % k, 'value': val, 'literal': vis[j][0]})
  for key, base, var in PROBES:
    b, v = add(base), add(var)
    checks.append({'kind': 'probe', 'key': key, 'base': b, 'var': v})
  return cases, checks, feats


def tree_diff(a, b, path=''):
  """Paths where two JSON trees differ: [(path, value in a, value in b)]."""
  if isinstance(a, dict) and isinstance(b, dict):
    out = []
    for k in sorted(set(a) | set(b)):
      out += tree_diff(a.get(k), b.get(k), '%s/%s' % (path, k))
    return out
  if isinstance(a, list) and isinstance(b, list) and len(a) == len(b):
    out = []
    for i, (x, y) in enumerate(zip(a, b)):
      out += tree_diff(x, y, '%s/%d' % (path, i))
    return out
  return [] if a == b else [(path, str(a)[:160], str(b)[:160])]


def judge(check, rb, rv):
  """rb, rv: results of one parser for base and variant.  Returns None or a description of the violation."""
  if rb['status'] != 'ok':
    return None     # the plain text is not a program for this parser: nothing to compare
  if rv['status'] == 'crash':
    return 'variant crashes the parser: %s' % rv.get('msg')
  if rv['status'] != 'ok':
    return 'variant is rejected (%s) although the plain text parses' % rv.get('msg')
  if check.get('reject_only'):
    pass
  if check['kind'] == 'string':
    if rb['h_nostr'] != rv['h_nostr']:
      return 'the content of the string literal changed the shape of the parsed rules'
    if len(rb['strings']) != len(rv['strings']):
      return 'different number of string literals'
    for x, y in zip(rb['strings'], rv['strings']):
      want = check['value'] if x == check['marker'] else x
      if y != want:
        return 'string literal read as %r, expected %r' % (y, want)
    return None
  if rb['h_mask'] != rv['h_mask']:
    return 'variant parses to different rules'
  return None


def run(tier, replay=None):
  rep = common.Report(PID, tier, 'proof')
  rep.assumptions = [
      'for-all theorems cover the lexical layer (scanner, comment removal, strip, split, spans) of the Gallina model; '
      'the model is tied to parse.py by running both on the same strings on every run',
      'whole-grammar layout invariance, redundant parentheses, trailing semicolon and span exactness of parsed trees '
      'are decided per instance on both parsers (not a theorem: the parser is not token based)',
      'is_alnum of the model is exact below U+0250 only (checked); generated strings stay in that range for alnum-sensitive checks',
      'C++ parser reached only through whole-file parses',
  ]
  ok, info = proof.proof_stage(rep, PID, extra_trusted=[
      'correspondence harness props/c15.py, props/lexobs.py + Lex/LexCheck.v (judge)',
      'generator props/textgen.py (what counts as a token boundary)', 'g++ (builds the C++ parser)'])
  import time
  found = 0
  timing = {}
  t0 = time.time()
  r = common.rng('c15')
  parse = lexobs.parse_mod()

  if replay:
    with open(replay) as f:
      rp = json.load(f)
    if 'lex' in rp:
      kind, s, sep = rp['lex']['kind'], rp['lex']['s'], rp['lex']['sep']
      if kind == 8:
        sep = tuple(sep)
      obs = lexobs.observe(parse, kind, s, sep)
      model = lexobs.model_output(kind, s, sep)
      print('replay %s s=%r sep=%r\n  parse.py: %s\n  model:    %s' % (lexobs.KIND_NAMES[kind], s, sep, obs, model))
      if obs != model:
        rep.violation(rp.get('key', 'lex'), rp)
      return rep.finish()
    okb, blog = parsers.build_cpp()
    cases = [{'id': 1, 'text': rp['base']}, {'id': 2, 'text': rp['variant']}]
    res = parsers.parse_all(cases, full=False)
    for m in ('PY', 'CPP'):
      why = judge(rp['check'], res[1][m], res[2][m])
      bad = res[1][m].get('bad_spans') or res[2][m].get('bad_spans')
      print('replay %s: base %s, variant %s -> %s' % (m, res[1][m]['status'], res[2][m]['status'], why or 'same'))
      if why or bad:
        rep.violation(rp.get('key', 'replay'), rp)
    return rep.finish()

  # ---------------- 1. lexical tie: model vs parse.py ----------------
  n_lex = 1600 if tier == 'quick' else 40000
  cases, meta, crashes = lexical_cases(r, n_lex)
  for kind, s, sep, msg in crashes[:3]:
    found += 1
    rep.violation('lex-crash:%s' % lexobs.KIND_NAMES[kind],
                  {'lex': {'kind': kind, 's': s, 'sep': sep}, 'what': 'parse.%s raised %s' % (lexobs.KIND_NAMES[kind], msg)})
  codes = None
  if ok:
    codes, out = lexobs.judge_cases(cases, chunk=500 if tier == 'quick' else 1500, workers=4)
    if codes is None:
      ok = False
      info['excerpt'] = out[-3000:]
  tie_bad = [m for m, c in zip(meta, codes or []) if c]
  law_bad = lexical_laws(parse, r, 400 if tier == 'quick' else 5000)
  for key, a, b in law_bad[:3]:
    found += 1
    rep.violation(key, {'law': key, 'text': a, 'other': b,
                        'what': 'the proved law fails on parse.py itself (RemoveComments / SplitRaw called directly)'})

  timing['lexical_tie_s'] = round(time.time() - t0, 1)
  t0 = time.time()
  # ---------------- 2. programs: layout, parentheses, semicolon, strings, spans; both parsers ----------------
  nprog, nnoise = (110, 7) if tier == 'quick' else (3000, 12)
  tcases, checks, feats = build_text_cases(r, nprog, nnoise)
  okb, blog = parsers.build_cpp()
  timing['cpp_build_s'] = round(time.time() - t0, 1)
  t0 = time.time()
  modes = ('PY', 'CPP') if okb else ('PY',)
  res = parsers.parse_all(tcases, modes=modes, workers=4)
  timing['parse_s'] = round(time.time() - t0, 1)
  text_of = {c['id']: c['text'] for c in tcases}
  if not okb:
    found += 1
    rep.violation('cpp-build', {'what': 'parser_cpp/logica_parse.cpp does not build', 'log': blog}, no_input=True)
  stats = {'checks': len(checks), 'texts': len(tcases), 'base_ok': {}, 'by_kind': {}, 'span_nodes': 0}
  reported = set()
  for m in modes:
    for cid, rr in res.items():
      x = rr.get(m, {})
      if x.get('status') == 'ok':
        stats['span_nodes'] += x['nspans']
        if x['bad_spans'] and ('span', m) not in reported:
          reported.add(('span', m))
          found += 1
          rep.violation('span:%s' % m, {'base': text_of[cid], 'variant': text_of[cid], 'check': {'kind': 'span'},
                                         'parser': m, 'bad_spans': x['bad_spans'],
                                         'what': 'a span attached to a parsed node is not the text at that position'})
      elif x.get('status') == 'crash' and ('crash', m) not in reported:
        reported.add(('crash', m))
        found += 1
        rep.violation('crash:%s:%s' % (m, common.short_hash(text_of[cid])),
                      {'base': text_of[cid], 'variant': text_of[cid], 'check': {'kind': 'crash'}, 'parser': m,
                       'what': x.get('msg')})
  # the texts attached to the nodes (full_text, expression_heritage) are literal source text, so they are the same
  # texts under both parsers whenever the trees are the same
  stats['span_texts_compared'] = 0
  if len(modes) == 2:
    for cid, rr in res.items():
      a, b = rr.get('PY', {}), rr.get('CPP', {})
      if a.get('status') == 'ok' and b.get('status') == 'ok' and a['h_mask'] == b['h_mask']:
        stats['span_texts_compared'] += 1
        if a['h_full'] != b['h_full'] and ('span-text', 'CPP') not in reported:
          reported.add(('span-text', 'CPP'))
          found += 1
          full = parsers.parse_all([{'id': 1, 'text': text_of[cid]}], modes=modes, workers=1, full=True)[1]
          diffs = tree_diff(full['PY'].get('tree'), full['CPP'].get('tree'))[:4]
          rep.violation('span-text:parsers-differ', {
              'base': text_of[cid], 'variant': text_of[cid], 'check': {'kind': 'span-text'}, 'differences': diffs,
              'what': 'the same tree carries different full_text / expression_heritage texts under the Python and the C++ '
                      'parser: one of them is not the literal source text of the node'})
  per_key = {}
  for c in checks:
    stats['by_kind'][c['kind']] = stats['by_kind'].get(c['kind'], 0) + 1
    for m in modes:
      rb, rv = res[c['base']].get(m), res[c['var']].get(m)
      if not rb or not rv:
        continue
      if rb['status'] == 'ok':
        stats['base_ok'][m] = stats['base_ok'].get(m, 0) + 1
      why = judge(c, rb, rv)
      if why:
        k = c['key']
        if k.startswith('layout:adjacent-to-keyword') and 'rejected' not in why:
          k = 'layout:%s' % common.short_hash(text_of[c['var']])
        # an identifier that ends / begins with a keyword after / before an underscore (a_then, else_b) is cut at the
        # keyword as soon as white space follows it: one class, whatever layout change exposed it
        mk = re.search(r'split by \S*?(then|else)', why)
        if mk and 'rejected' in why and re.search(r'\w_%s\b|\b%s_\w' % (mk.group(1), mk.group(1)), text_of[c['base']]):
          k = 'layout:keyword-inside-identifier'
        per_key.setdefault(k, []).append((m, c, why))
  for k, lst in sorted(per_key.items()):
    m, c, why = min(lst, key=lambda x: len(text_of[x[1]['var']]))
    if rep.violation(k, {'base': text_of[c['base']], 'variant': text_of[c['var']], 'check': c, 'parser': m,
                         'what': why, 'count': len(lst), 'parsers': sorted(set(x[0] for x in lst))}):
      found += 1
    if found > 12:
      break

  # ---------------- 3. what broke without an input ----------------
  if tie_bad and not found:
    for kind, s, sep, obs in sorted(tie_bad, key=lambda x: len(x[1]))[:3]:
      # the model and the code disagree: decide with the laws (oracle independent of both)
      rep.violation('tie:%s' % lexobs.KIND_NAMES[kind],
                    {'lex': {'kind': kind, 's': s, 'sep': sep}, 'observed': obs, 'model': lexobs.model_output(kind, s, sep),
                     'what': 'parse.%s no longer behaves as the verified model Lex/*.v on this string' % lexobs.KIND_NAMES[kind]})
      found += 1
  if not ok and not found:
    rep.violation('proof', {'broken': 'theories/Props/C15.v or its dependencies no longer check',
                            'failing_files': info.get('failing'), 'excerpt': info.get('excerpt', '')[:3000]}, no_input=True)

  kinds = {}
  for m in meta:
    kinds[lexobs.KIND_NAMES[m[0]]] = kinds.get(lexobs.KIND_NAMES[m[0]], 0) + 1
  multi = sum(1 for m in meta if m[0] in (5, 6) and m[3][0] == 0 and m[3][1] > 1)
  rep.coverage.update({
      'evaluations': len(cases) + len(tcases) * len(modes),
      'distinct_nontrivial': len(set((m[0], m[1], str(m[2])) for m in meta if len(m[1]) > 2)) + len(set(text_of.values())),
      'rule': 'lexical: one call of a parse.py function per case, compared with the model in Coq; non-trivial = string longer '
              'than 2 characters.  programs: distinct texts parsed by each parser',
      'exhaustive': False,
      'samples': [{'lexical': {'fn': lexobs.KIND_NAMES[m[0]], 's': m[1], 'sep': m[2]}} for m in meta[:3]] +
                 [{'base': text_of[c['base']], 'variant': text_of[c['var']], 'kind': c['kind']} for c in checks[:3]],
      'distribution': {'lexical_by_function': kinds, 'splits_with_more_than_one_part': multi,
                       'tie_mismatches': len(tie_bad), 'law_checks_failed': len(law_bad),
                       'program_checks': stats, 'construct_histogram': feats, 'parsers': list(modes), 'timing': timing},
  })
  return rep.finish()
