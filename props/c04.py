"""C04 — functor application is predicate substitution.

Proof: coq/theories/Props/C04.v (Functors/Program.v model, Functors/Functor.v proofs).
Tie, on generated programs with `:=` (chains/diamonds of intermediates, several arguments, functor of a
functor result, equal and different bindings, constants as arguments, inherited annotations):
  (a) Functors(rules).args_of restricted to user predicates == reachability over the generator's own
      dependency graph; after MakeAll, args_of == reachability over the final rule list;
  (b) LogicaProgram.rules after RunMakes (dialect library removed) == the rule list computed by the Coq model
      make_all (vm_compute), as a multiset of (head, set of used predicates, fingerprint of the rule tree
      with predicate names blanked);
  (b') the implementation's own rule list, read in the free (symbolic) semantics inside Coq (Functors/Exec.v
      verify_real): every N := F(s) unfolds to F with its arguments redefined, and every original predicate
      that does not depend on a made one unfolds as before -- independent of the model's cloning policy;
  (c) rows on SQLite of every predicate (made and original) == rows of the program in which the harness
      did the substitution by hand (no `:=` at all; fresh names, no sharing), which is the code-independent
      oracle of the failing-input search.
"""
import contextlib
import io
import json
import time
from concurrent.futures import ThreadPoolExecutor

from vlib import common, coqrun, proof, logica_run

PID = 'C04'
ANNOT = ['@Limit', '@OrderBy', '@Ground', '@NoInject', '@Iteration']

# ---- rule templates over unary predicates ('u') and nullary functions ('c') -----------------------------
# (kinds of the used predicates, text); {H} head, {U0},{U1} used predicates
TEMPLATES = [
    ('uu', '{H}(x) :- {U0}(x), {U1}(x);'),
    ('uu', '{H}(x) :- {U0}(x) | {U1}(x);'),
    ('u', '{H}(x + 1) :- {U0}(x);'),
    ('u', '{H}(x * 2) :- {U0}(x);'),
    ('uu', '{H}(x) :- {U0}(x), ~{U1}(x);'),
    ('uu', '{H}(x) distinct :- {U0}(x), {U1}(y), x < y;'),
    ('u', '{H}(s) :- s = Sum{{x :- {U0}(x)}};'),
    ('uc', '{H}(x) :- {U0}(x), x > {U1}();'),
    ('uc', '{H}(x + {U1}()) :- {U0}(x);'),
    ('uuu', '{H}(x) :- {U0}(x), {U1}(x) | {U2}(x);'),
    ('u', '{H}(x) :- {U0}(x);'),
]
DISTINCT_T = 5


def fmt(t, head, uses):
  d = {'H': head}
  for i, u in enumerate(uses):
    d['U%d' % i] = u
  return TEMPLATES[t][1].format(**d) if isinstance(t, int) else t.format(**d)


def reach(graph, p):
  seen, todo = set(), list(graph.get(p, ()))
  while todo:
    x = todo.pop()
    if x not in seen:
      seen.add(x)
      todo.extend(graph.get(x, ()))
  return seen


class Gen:
  """Builds the program with `:=` (impl) and the hand-substituted one (spec) side by side."""

  def __init__(self, r, size):
    self.r = r
    self.kind = {}            # name -> 'u' | 'c'
    self.rules = {}           # spec program: name -> list of (template, [uses])
    self.annot = {}           # name -> list of annotation templates  '@Limit({P}, 2);'
    self.order = []           # names in definition order
    self.impl_stmts = []
    self.makes = []           # [N, F, [[arg, value], ...]]  value: name or int
    self.lits = {}            # int -> spec constant name
    self.features = set()
    self.orig = []            # rule-defined (user written) predicates
    self.written = {}         # user written predicate -> predicates its rules mention
    self.size = size

  def define(self, name, kind, rules, impl=True):
    self.kind[name] = kind
    self.rules[name] = rules
    self.order.append(name)
    if impl:
      self.orig.append(name)
      self.written[name] = sorted(set(u for _, us in rules for u in us))
      for t, us in rules:
        self.impl_stmts.append(fmt(t, name, us))

  def graph(self):
    return {p: sorted(set(u for _, us in rs for u in us)) for p, rs in self.rules.items()}

  def lit(self, v):
    if v not in self.lits:
      nm = 'Lit%d' % v
      self.lits[v] = nm
      self.kind[nm] = 'c'
      self.rules[nm] = [('{H}() = %d;' % v, [])]
    return self.lits[v]

  def make(self, N, F, binds):
    """Hand substitution: N = F with every a in binds redefined as its value."""
    g = self.graph()
    sigma = {a: (self.lit(v) if isinstance(v, int) else v) for a, v in binds}
    dom = set(sigma)
    memo = {}

    def clone(q, top=False):
      if q in sigma:
        return sigma[q]
      if not (reach(g, q) & dom):
        return q
      if q in memo:
        return memo[q]
      new = N if top else '%s_s%s' % (q, N)
      memo[q] = new
      self.kind[new] = self.kind[q]
      self.rules[new] = [(t, [clone(u) for u in us]) for t, us in self.rules[q]]
      self.annot[new] = list(self.annot.get(q, []))
      return new
    clone(F, top=True)
    self.order.append(N)
    self.makes.append([N, F, [[a, v] for a, v in binds]])
    self.impl_stmts.append('%s := %s(%s);' % (N, F, ', '.join('%s: %s' % (a, v) for a, v in binds)))

  def build(self):
    r = self.r
    for k, nm in enumerate('ABCD'):
      vals = [r.randrange(0, 6) for _ in range(r.randrange(1, 4))] + \
             [10 * (k + 1) + r.randrange(0, 3) for _ in range(r.randrange(1, 3))]
      r.shuffle(vals)
      if r.random() < 0.3:
        self.define(nm, 'u', [('{H}(%d);' % v, []) for v in vals[:3]])
      else:
        self.define(nm, 'u', [('{H}(x) :- x in %s;' % json.dumps(vals), [])])
    for nm in 'KL':
      self.define(nm, 'c', [('{H}() = %d;' % r.randrange(0, 4), [])])
    n_mid, n_make = self.size
    todo = ['r'] * n_mid + ['m'] * n_make
    # two rule-defined predicates first, then a random interleaving
    rest = todo[2:]
    r.shuffle(rest)
    todo = todo[:2] + rest
    pi = ni = 0
    for what in todo:
      us = [p for p in self.order if self.kind[p] == 'u']
      cs = [p for p in self.order if self.kind[p] == 'c']
      if what == 'r':
        pi += 1
        name = 'P%d' % pi
        rules = []
        first = r.randrange(len(TEMPLATES))
        for k in range(1 if r.random() < 0.7 else 2):
          t = first if k == 0 else r.randrange(len(TEMPLATES))
          if k > 0 and (t == DISTINCT_T) != (first == DISTINCT_T):
            t = first
          # bias towards recently defined predicates: chains and diamonds of intermediates
          pick = lambda pool: pool[-1 - min(int(r.expovariate(0.45)), len(pool) - 1)]
          rules.append((t, [pick(us) if k == 'u' else r.choice(cs) for k in TEMPLATES[t][0]]))
        self.define(name, 'u', rules)
        if r.random() < 0.12:
          a = ['@OrderBy({P}, "col0");', '@Limit({P}, 2);']
          self.annot[name] = a
          self.features.add('annotation')
          for x in a:
            self.impl_stmts.append(x.format(P=name))
      else:
        g = self.graph()
        cands = [p for p in us if p not in 'ABCD' and '_s' not in p and any(
            a in self.kind and not a.startswith('Lit') and '_s' not in a for a in reach(g, p))]
        if not cands:
          continue
        ni += 1
        N = 'N%d' % ni
        prev = [m for m in self.makes]
        if prev and r.random() < 0.35:
          # same functor again: equal or different bindings (cache)
          _, F, b0 = r.choice(prev)
          if F not in cands:
            F = r.choice(cands)
            b0 = None
          self.features.add('same_functor_again')
        else:
          F, b0 = r.choice(cands), None
        if F.startswith('N'):
          self.features.add('functor_of_functor_result')
        args = sorted(a for a in reach(g, F) if a in self.kind and not a.startswith('Lit') and '_s' not in a)
        if b0 is not None and r.random() < 0.5 and all(a in args for a, _ in b0):
          binds = [list(x) for x in b0]
          self.features.add('equal_bindings')
          if r.random() < 0.5:          # change or add one binding that may be irrelevant to some intermediates
            extra = [a for a in args if a not in [x[0] for x in binds]]
            if extra:
              a = r.choice(extra)
              binds.append([a, self.value_for(a, us, cs, N)])
        else:
          k = 1 if r.random() < 0.5 else (2 if r.random() < 0.7 else 3)
          binds = [[a, self.value_for(a, us, cs, N)] for a in r.sample(args, min(k, len(args)))]
        if len(binds) > 1:
          self.features.add('several_args')
        if any(isinstance(v, int) for _, v in binds):
          self.features.add('constant_arg')
        if any(a not in 'ABCDKL' for a, _ in binds):
          self.features.add('intermediate_as_arg')
        if any(isinstance(v, str) and v.startswith('N') for _, v in binds):
          self.features.add('made_predicate_as_value')
        r.shuffle(binds)
        self.make(N, F, binds)
    return self

  def value_for(self, a, us, cs, N):
    r = self.r
    if self.kind[a] == 'c':
      return r.randrange(0, 4) if r.random() < 0.6 else r.choice(cs)
    return r.choice(us)

  def case(self):
    stmts = list(self.impl_stmts)
    self.r.shuffle(stmts)
    spec = []
    for p, rs in self.rules.items():
      for t, us in rs:
        spec.append(fmt(t, p, us))
      for a in self.annot.get(p, []):
        spec.append(a.format(P=p))
    g = self.graph()
    pos = {s: i for i, s in enumerate(stmts)}
    self.makes.sort(key=lambda m: pos['%s := %s(%s);' % (m[0], m[1], ', '.join('%s: %s' % (a, v) for a, v in m[2]))])
    return {
        'impl': '@Engine("sqlite");\n' + '\n'.join(stmts) + '\n',
        'spec': '@Engine("sqlite");\n' + '\n'.join(spec) + '\n',
        'preds': [p for p in self.order],
        'makes': self.makes,
        'orig_graph': {p: sorted(reach(self.written, p)) for p in self.orig},
        'features': sorted(self.features),
    }


def family_cases(r):
  """Small programs built on purpose, one per feature named in the property."""
  T = {t[1]: i for i, t in enumerate(TEMPLATES)}
  AND, OR, INC, DBL, NOT, LT, SUM, GTC, ADDC, COPY = (
      T['{H}(x) :- {U0}(x), {U1}(x);'], T['{H}(x) :- {U0}(x) | {U1}(x);'], T['{H}(x + 1) :- {U0}(x);'],
      T['{H}(x * 2) :- {U0}(x);'], T['{H}(x) :- {U0}(x), ~{U1}(x);'],
      T['{H}(x) distinct :- {U0}(x), {U1}(y), x < y;'], T['{H}(s) :- s = Sum{{x :- {U0}(x)}};'],
      T['{H}(x) :- {U0}(x), x > {U1}();'], T['{H}(x + {U1}()) :- {U0}(x);'], T['{H}(x) :- {U0}(x);'])

  def base(feature):
    g = Gen(r, (0, 0))
    g.features.add(feature)
    for nm, vals in (('A', [1, 2, 3, 4]), ('B', [3, 4, 5, 6, 6]), ('C', [2, 4, 6, 8]), ('D', [1, 5, 9])):
      g.define(nm, 'u', [('{H}(x) :- x in %s;' % json.dumps(vals), [])])
    g.define('K', 'c', [('{H}() = 2;', [])])
    g.define('L', 'c', [('{H}() = 5;', [])])
    return g
  out = []
  for k in (1, 2, 3, 4):                      # chains of k intermediates
    for t in ((INC, DBL, SUM) if k < 4 else (COPY,)):
      g = base('chain_%d' % k)
      prev = 'A'
      for i in range(k):
        g.define('P%d' % (i + 1), 'u', [(t if i % 2 == 0 else INC, [prev])])
        prev = 'P%d' % (i + 1)
      g.define('F', 'u', [(OR, [prev, 'C'])])
      g.make('N1', 'F', [['A', 'B']])
      out.append(g)
  for k in (2, 3):                            # the same functor applied twice, the argument behind a chain of k helpers
    g = base('chain_%d_two_applications' % k)
    prev = 'A'
    for i in range(k):
      g.define('P%d' % (i + 1), 'u', [(INC if i % 2 else DBL, [prev])])
      prev = 'P%d' % (i + 1)
    g.define('F', 'u', [(COPY, [prev])])
    g.make('N1', 'F', [['A', 'B']]); g.make('N2', 'F', [['A', 'D']]); g.make('M0', 'F', [['A', 'C']])
    out.append(g)
  g = base('diamond')
  g.define('P1', 'u', [(INC, ['A'])]); g.define('P2', 'u', [(DBL, ['A'])])
  g.define('P3', 'u', [(OR, ['P1', 'P2'])]); g.define('F', 'u', [(NOT, ['P3', 'C'])])
  g.make('N1', 'F', [['A', 'B']]); g.make('N2', 'F', [['A', 'D'], ['C', 'A']])
  out.append(g)
  for vals in (('B', 'C'), ('B', 'B'), ('C', 'B')):     # same functor: different / equal bindings
    g = base('different_bindings' if vals[0] != vals[1] else 'equal_bindings')
    g.define('P1', 'u', [(INC, ['A'])]); g.define('F', 'u', [(OR, ['P1', 'D'])])
    g.make('N1', 'F', [['A', vals[0]]]); g.make('N2', 'F', [['A', vals[1]]])
    g.make('N3', 'F', [['A', vals[0]], ['D', 'A']])     # P1 may be shared with N1, F itself must not
    out.append(g)
  g = base('functor_of_functor_result')
  g.define('P1', 'u', [(INC, ['A'])]); g.define('F', 'u', [(AND, ['P1', 'C'])])
  g.make('N1', 'F', [['A', 'B']]); g.make('N2', 'N1', [['B', 'D'], ['C', 'A']]); g.make('N3', 'N2', [['D', 'C']])
  out.append(g)
  g = base('made_predicate_as_value')
  g.define('P1', 'u', [(DBL, ['A'])]); g.define('F', 'u', [(OR, ['P1', 'A'])])
  g.define('G', 'u', [(LT, ['C', 'D'])])
  g.make('N1', 'F', [['A', 'B']]); g.make('Z1', 'G', [['D', 'N1']]); g.make('M1', 'F', [['A', 'Z1']])
  out.append(g)
  for v in (0, 3, 'L'):
    g = base('constant_arg')
    g.define('P1', 'u', [(GTC, ['A', 'K'])]); g.define('F', 'u', [(ADDC, ['P1', 'K'])])
    g.make('N1', 'F', [['K', v]]); g.make('N2', 'F', [['K', v], ['A', 'B']])
    out.append(g)
  g = base('intermediate_as_arg')
  g.define('P1', 'u', [(INC, ['A'])]); g.define('P2', 'u', [(DBL, ['P1'])]); g.define('F', 'u', [(OR, ['P2', 'P1'])])
  g.make('N1', 'F', [['P1', 'B']]); g.make('N2', 'F', [['P1', 'C'], ['A', 'D']]); g.make('N3', 'F', [['P2', 'A']])
  out.append(g)
  g = base('annotation')
  g.define('P1', 'u', [(INC, ['A'])])
  g.annot['P1'] = ['@OrderBy({P}, "col0");', '@Limit({P}, 2);']
  g.impl_stmts += [x.format(P='P1') for x in g.annot['P1']]
  g.define('F', 'u', [(DBL, ['P1'])])
  g.annot['F'] = ['@OrderBy({P}, "col0 desc");', '@Limit({P}, 1);']
  g.impl_stmts += [x.format(P='F') for x in g.annot['F']]
  g.make('N1', 'F', [['A', 'B']])
  out.append(g)
  g = base('user_of_made_predicate')
  g.define('P1', 'u', [(INC, ['A'])]); g.define('F', 'u', [(OR, ['P1', 'C'])])
  g.make('N1', 'F', [['A', 'B']])
  g.define('Q', 'u', [(AND, ['N1', 'B'])])
  g.make('N0', 'Q', [['B', 'C']])           # sorts before N1: MakeAll has to postpone it
  out.append(g)
  for via in (COPY, INC):
    g = base('user_of_made_predicate_through_intermediate')
    g.define('P1', 'u', [(INC, ['A'])]); g.define('F', 'u', [(OR, ['P1', 'C'])])
    g.make('N1', 'F', [['A', 'B']])
    g.define('W', 'u', [(via, ['N1'])])       # the made predicate is reached only through W
    g.define('Q', 'u', [(OR, ['W', 'B'])])
    g.make('N0', 'Q', [['B', 'C']])           # sorts before N1 and does not mention it directly
    g.make('Z0', 'Q', [['B', 'C']])           # the same application under a name that sorts after N1
    out.append(g)
  return [g.case() for g in out]


# ---- implementation side ---------------------------------------------------------------------------
def blank(x):
  if isinstance(x, dict):
    return {k: ('?' if k == 'predicate_name' else blank(v)) for k, v in x.items() if k != 'full_text'}
  if isinstance(x, list):
    return [blank(v) for v in x]
  return x


def names_in(x, acc):
  """Predicate occurrences in traversal order (deep copies made by functors.py keep that order)."""
  if isinstance(x, dict):
    if 'predicate_name' in x:
      acc.append(x['predicate_name'])
    for v in x.values():
      names_in(v, acc)
  elif isinstance(x, list):
    for v in x:
      names_in(v, acc)


def shape(rule):
  """(head, [predicate occurrences in order; the annotated predicate first for annotation rules], fingerprint)."""
  acc = []
  names_in(rule['head']['record'], acc)
  if 'body' in rule:
    names_in(rule['body'], acc)
  head = rule['head']['predicate_name']
  uses = acc
  if head in ANNOT:
    try:
      subj = rule['head']['record']['field_value'][0]['value']['expression']['literal'][
          'the_predicate']['predicate_name']
      if not uses or uses[0] != subj:
        uses = [subj] + uses
    except (KeyError, IndexError, TypeError):
      pass
  return str(head), [str(u) for u in uses], common.short_hash(blank(rule))


def quiet():
  return contextlib.redirect_stdout(io.StringIO())


_NLIB = {}
_PARSED = {}


def cache_library_parse():
  """LogicaProgram parses the dialect library (~0.25 s) on every construction; memoise ParseFile for texts
  seen before (deep copies are handed out).  Harness-side speed-up only; the parser is not what C04 is about."""
  import copy
  parse = logica_run.modules()[0]
  if getattr(parse.ParseFile, '_lv_cached', False):
    return
  orig = parse.ParseFile

  def cached(content, *a, **kw):
    if a or kw or len(content) < 2000:
      return orig(content, *a, **kw)
    if content not in _PARSED:
      _PARSED[content] = orig(content)
    return copy.deepcopy(_PARSED[content])
  cached._lv_cached = True
  parse.ParseFile = cached


def library_size(engine):
  if engine not in _NLIB:
    parse = logica_run.modules()[0]
    from compiler import dialects
    with quiet():
      _NLIB[engine] = len(parse.ParseFile(dialects.Get(engine).LibraryProgram())['rule'])
  return _NLIB[engine]


def real_side(text):
  """Returns dict: status, pre (shapes of parsed rules), post (shapes after RunMakes), args_of pre/post."""
  cache_library_parse()
  parse, universe, _, functors = logica_run.modules()[:4]
  out = {}
  try:
    with quiet(), contextlib.redirect_stderr(io.StringIO()):
      rules = parse.ParseFile(text)['rule']
      out['pre'] = [shape(r) for r in rules]
      f0 = functors.Functors(rules)
      out['args_pre'] = {str(p): sorted(str(x) for x in v) for p, v in f0.args_of.items()}
      program = universe.LogicaProgram(rules)
    out['status'] = 'ok'
    if program.functors is None:
      out['post'] = list(out['pre'])
      out['args_post'] = out['args_pre']
    else:
      # LogicaProgram.rules = rules after RunMakes followed by the dialect library
      nlib = library_size(program.annotations.Engine())
      post = [r for _, r in program.rules]
      out['post'] = [shape(r) for r in post[:len(post) - nlib]]
      out['args_post'] = {str(p): sorted(str(x) for x in v) for p, v in program.functors.args_of.items()}
  except Exception as e:  # pylint: disable=broad-except
    out['status'] = logica_run.classify(e)
    out['message'] = str(e)[:300]
  return out


def rows_of(program, pred):
  try:
    with quiet(), contextlib.redirect_stderr(io.StringIO()):
      program.FormattedPredicateSql(pred)
      ex = program.execution
      stmts = [ex.preamble] + list(ex.defines_and_exports) + [ex.main_predicate_sql]
    _, rows = logica_run.execute(stmts)
    return 'ok', logica_run.bag(rows)
  except Exception as e:  # pylint: disable=broad-except
    c = logica_run.classify(e)
    return (c if not c.startswith('Internal:Operational') else 'SqlError'), str(e)[:200]


def program_of(text):
  cache_library_parse()
  parse, universe = logica_run.modules()[:2]
  try:
    with quiet(), contextlib.redirect_stderr(io.StringIO()):
      return 'ok', universe.LogicaProgram(parse.ParseFile(text)['rule'])
  except Exception as e:  # pylint: disable=broad-except
    return logica_run.classify(e), str(e)[:300]


# ---- model side --------------------------------------------------------------------------------------
ERR = {1: 'Functor', 2: 'Functor', 3: 'Functor', 4: 'Functor', 5: 'Internal:KeyError'}


class Interner:
  def __init__(self):
    self.names, self.ix = [], {}

  def __call__(self, s):
    if s not in self.ix:
      self.ix[s] = len(self.names)
      self.names.append(s)
    return self.ix[s]


def const_names(makes):
  """GetConstantFunction numbering: first appearance, instructions in program order, fields in order."""
  m = {}
  for _, _, binds in makes:
    for _, v in binds:
      if isinstance(v, int) and v not in m:
        m[v] = 'LogicaCompilerConstant%d' % len(m)
  return m


def const_shape(name, v):
  parse = logica_run.modules()[0]
  with quiet():
    r = parse.ParseFile('%s() = %d;' % (name, v))['rule'][0]
  return shape(r)


def coq_case(pre, makes_in_text_order):
  """Coq term evaluating the model on one program; returns (term, decoder)."""
  it = Interner()
  fps = Interner()
  rules = []
  for h, us, fp in pre:
    rules.append('mkRule %d%%N [%s] %d' % (it(h), '; '.join('%d%%N' % it(u) for u in us), fps(fp)))
  cn = const_names(makes_in_text_order)
  consts = []
  for v, nm in cn.items():
    h, us, fp = const_shape(nm, v)
    consts.append('mkRule %d%%N [] %d' % (it(h), fps(fp)))
  mk = []
  for N, F, binds in sorted(makes_in_text_order, key=lambda m: m[0]):
    bs = sorted(((a, cn[v] if isinstance(v, int) else v) for a, v in binds))
    mk.append('(%d%%N, %d%%N, [%s])' % (it(N), it(F), '; '.join('(%d%%N, %d%%N)' % (it(a), it(v)) for a, v in bs)))
  ann = [it.ix[a] for a in ANNOT if a in it.ix]
  base = len(it.names)
  width = len(makes_in_text_order) + 1
  term = ('run_flat %d %d [%s] [%s] [%s] [%s]' % (
      base, width, '; '.join('%d%%N' % a for a in ann), ';\n '.join(rules), '; '.join(mk), '; '.join(consts)))

  def name(x):
    if x < base:
      return it.names[x]
    q, n = divmod(x - base, width)
    return '%s_f%d' % (name(q), n)

  def decode(flat):
    if flat and flat[0] == 0:
      return ERR[flat[1]], None
    k = flat[1]
    bits = flat[2:2 + k]
    i, res = 2 + k, []
    while i < len(flat):
      h, b, k = flat[i], flat[i + 1], flat[i + 2]
      us = flat[i + 3:i + 3 + k]
      i += 3 + k
      res.append((name(h), sorted(set(name(u) for u in us)), fps.names[b]))
    return 'ok', (res, bits)
  return term, decode


def coq_real(pre, post, makes, origs):
  """verify_real on the implementation's rule lists (names interned as they are, clones included)."""
  it, fps = Interner(), Interner()

  def enc(shapes):
    return '; '.join('mkRule %d%%N [%s] %d' % (it(h), '; '.join('%d%%N' % it(u) for u in us), fps(fp))
                     for h, us, fp in shapes)
  cn = const_names(makes)
  mk = ['(%d%%N, %d%%N, [%s])' % (it(N), it(F), '; '.join(
      '(%d%%N, %d%%N)' % (it(a), it(cn[v] if isinstance(v, int) else v)) for a, v in binds))
        for N, F, binds in makes]
  return 'verify_real [%s] [%s] [%s] [%s]' % (enc(pre), enc(post), '; '.join(mk),
                                               '; '.join('%d%%N' % it(o) for o in origs))


def eval_models(terms):
  """terms: list of Coq terms of type list N.  Returns list of int lists (None on failure), log."""
  def one(chunk):
    text = ('From Coq Require Import List NArith. Import ListNotations.\n'
            'From LV Require Import Functors.Program Functors.Exec.\n' +
            ''.join('Eval vm_compute in (%s).\n' % t for t in chunk))
    rc, out = coqrun.coq_eval(text, timeout=600)
    if rc != 0:
      return None, out
    ls = coqrun.parse_vm_list(out)
    if len(ls) != len(chunk):
      return None, out
    return [[int(x) for x in l] for l in ls], out
  size = max(5, min(40, (len(terms) + 3) // 4))
  chunks = [terms[i:i + size] for i in range(0, len(terms), size)]
  res = []
  with ThreadPoolExecutor(max_workers=4) as ex:
    for vals, out in ex.map(one, chunks):
      if vals is None:
        return None, out
      res.extend(vals)
  return res, ''


# ---- one case ------------------------------------------------------------------------------------------
def multiset(shapes, with_uses_of_annotation_order=False):
  return sorted((h, tuple(sorted(set(us))), fp) for h, us, fp in shapes)


def check_rows(case):
  """Search oracle: rows of the program with `:=` vs rows of the hand-substituted program (worker process)."""
  problems = []
  st, spec_prog = program_of(case['spec'])
  if st != 'ok':
    return [{'what': 'the hand-substituted program does not compile (harness defect?)', 'detail': spec_prog}], 0
  st, impl_prog = program_of(case['impl'])
  if st != 'ok':
    return [{'what': 'program with functor applications rejected: %s' % st, 'detail': impl_prog}], 0
  n = 0
  for p in case['preds']:
    a = rows_of(impl_prog, p)
    b = rows_of(spec_prog, p)
    n += 1
    if a != b:
      problems.append({'what': 'rows differ', 'pred': p, 'with_functors': a, 'substituted_by_hand': b})
  return problems, n


def check_args(case, real):
  problems = []
  if 'args_pre' not in real:
    return problems
  user = set(case['preds'])
  for p, exp in case['orig_graph'].items():
    got = sorted(set(real['args_pre'].get(p, [])) & user)
    if got != exp:
      problems.append({'what': 'Functors.args_of differs from reachability', 'pred': p, 'args_of': got,
                       'reachable': exp})
  if real.get('status') == 'ok':
    g = {}
    for h, us, _ in real['post']:
      g.setdefault(h, set()).update(us)
    for p in g:
      if p.startswith('@') or p.startswith('LogicaCompilerConstant'):
        continue   # UpdateStructure does not refresh direct_args_of of annotation heads; nothing reads them
      exp = sorted(reach(g, p))
      got = real['args_post'].get(p)
      if got != exp:
        problems.append({'what': 'args_of after MakeAll differs from reachability over the final rules',
                         'pred': p, 'args_of': got, 'reachable': exp})
        break
  return problems


def run(tier, replay=None):
  rep = common.Report(PID, tier, 'proof')
  rep.assumptions = [
      'rule semantics is abstract: any gsem satisfying locality and renaming (Section hypotheses of Functors/Functor.v)',
      'programs are acyclic at the time of the functor application (recursion is unfolded before RunMakes)',
      'freshness of clone names (no user predicate is called X_f<n> / equals the new name) is a hypothesis of the theorems',
      'oracle of the row comparison: the same pipeline on the hand-substituted program without `:=`',
  ]
  ok, info = proof.proof_stage(rep, PID, extra_trusted=[
      'Section hypotheses gsem_local, gsem_rename (Functors/Functor.v): assumed laws of the rule semantics, '
      'instantiated (proved) for the positional semantics in Props/C04.v',
      'correspondence harness props/c04.py + Functors/Exec.v (run_flat)'])
  built, log, _ = coqrun.build(['theories/Functors/Exec.vo'])
  t0 = time.time()
  if replay:
    with open(replay) as f:
      rp = json.load(f)
    cases = [rp['case']] if 'case' in rp else [e['case'] for e in rp.get('examples', [])]
  else:
    r = common.rng('c04')
    n = 25 if tier == 'quick' else 400
    cases = family_cases(r)
    for i in range(n):
      size = (r.randrange(2, 7), r.randrange(1, 5))
      cases.append(Gen(r, size).build().case())
    cases = [c for c in cases if c['makes']]

  from concurrent.futures import ProcessPoolExecutor
  with ProcessPoolExecutor(max_workers=4) as ex:
    reals = list(ex.map(real_side, [c['impl'] for c in cases], chunksize=2))
    row_futures = ex.map(check_rows, cases, chunksize=2)     # keeps running while the Coq side is evaluated
    row_results = None
  t_real = time.time() - t0
  found = 0
  n_rows = 0
  tie_broken = []
  stats = {'features': {}, 'makes': 0, 'clones': 0, 'shared': 0, 'status': {}}
  # (a) args_of
  for c, real in zip(cases, reals):
    for pr in check_args(c, real):
      found += 1
      if found <= 5:
        rep.violation('case:%s' % common.short_hash(c['impl']), {'case': c, 'problem': pr})
  # (b) rule lists: model vs implementation
  models = None
  if built:
    enc = [coq_case(real['pre'], c['makes']) if 'pre' in real else None for c, real in zip(cases, reals)]
    made = [set(m[0] for m in c['makes']) for c in cases]
    origs = [[p for p, rs in c['orig_graph'].items() if not (set(rs) & md)] for c, md in zip(cases, made)]
    sym = [(i, coq_real(real['pre'], real['post'], c['makes'], og))
           for i, (c, real, og) in enumerate(zip(cases, reals, origs)) if real.get('status') == 'ok']
    svals, out = eval_models([t for _, t in sym])
    if svals is not None:
      for (i, _), bits in zip(sym, svals):
        c = cases[i]
        stats['symbolic_checks_on_impl_rules'] = stats.get('symbolic_checks_on_impl_rules', 0) + len(bits)
        if 0 in bits:
          k = len(c['makes'])
          found += 1
          if found <= 5:
            rep.violation('case:%s' % common.short_hash(c['impl']), {'case': c, 'problem': {
                'what': 'the rule list after RunMakes, read symbolically (free semantics in Coq), is not the '
                        'substitution / changes an original predicate',
                'makes_wrong': [m for m, b in zip(c['makes'], bits[:k]) if b == 0],
                'originals_changed': [p for p, b in zip(origs[i], bits[k:]) if b == 0]}})
    vals, out = (None, out) if svals is None else eval_models([e[0] for e in enc if e])
    if vals is None:
      built = False
      log = out
    else:
      models, k = [], 0
      for e in enc:
        if e is None:
          models.append(None)
        else:
          models.append(e[1](vals[k]))
          k += 1
  for i, (c, real) in enumerate(zip(cases, reals)):
    stats['status'][real['status']] = stats['status'].get(real['status'], 0) + 1
    for f in c['features']:
      stats['features'][f] = stats['features'].get(f, 0) + 1
    stats['makes'] += len(c['makes'])
    if models and models[i] is not None:
      mst, mrules = models[i]
      bits = []
      if mst == 'ok':
        mrules, bits = mrules
      same = mst == 'ok' and real['status'] == 'ok' and multiset(mrules) == multiset(real['post'])
      if 0 in bits and same:
        # the model's own output, read in the free (symbolic) semantics, is not the substitution
        found += 1
        ms = sorted(c['makes'], key=lambda m: m[0])
        rep.violation('case:%s' % common.short_hash(c['impl']), {
            'case': c, 'problem': {'what': 'symbolic meaning of the made predicate differs from the functor with '
                                           'its arguments redefined (free semantics, evaluated in Coq)',
                                   'makes': [m for m, b in zip(ms, bits) if b == 0]}})
      stats['symbolic_checks'] = stats.get('symbolic_checks', 0) + len(bits)
      if mst != real['status']:
        tie_broken.append({'case': c, 'model_status': mst, 'impl_status': real['status']})
      elif mst == 'ok' and multiset(mrules) != multiset(real['post']):
        a, b = multiset(mrules), multiset(real['post'])
        tie_broken.append({'case': c, 'only_in_model': [x for x in a if x not in b][:6],
                           'only_in_impl': [x for x in b if x not in a][:6]})
      if mst == 'ok':
        stats['clones'] += len(mrules) - len(real['pre'])
  # (c) rows
  t_model = time.time() - t0 - t_real
  rows_checked = 0
  row_results = list(row_futures)
  for c, (problems, k) in zip(cases, row_results):
    n_rows += k
    rows_checked += 1
    for pr in problems:
      found += 1
      if found <= 5:
        rep.violation('case:%s' % common.short_hash(c['impl']), {'case': c, 'problem': pr})
      break
  if not found:
    if not ok:
      rep.violation('proof', {'broken': 'theories/Props/C04.v or its dependencies no longer check',
                              'failing_files': info.get('failing'), 'excerpt': info.get('excerpt', '')[:3000]},
                    no_input=True)
    elif not built:
      rep.violation('tie', {'broken': 'Functors/Exec.v (executable model) does not build or evaluate',
                            'excerpt': coqrun.error_excerpt(log)[:3000]}, no_input=True)
    elif tie_broken:
      rep.violation('tie', {'broken': 'functors.extended_rules after RunMakes vs Coq model make_all '
                                      '(rows still equal the hand-substituted program on every case tried)',
                            'count': len(tie_broken), 'examples': tie_broken[:3]}, no_input=True)
  rep.coverage.update({
      'evaluations': len(cases) + n_rows,
      'distinct_nontrivial': len(set(c['impl'] for c in cases if len(c['features']) > 0)),
      'rule': 'generated programs with 1-4 functor applications over 2-6 rule-defined predicates; '
              'non-trivial = at least one of: several args, same functor again, functor of functor result, '
              'constant arg, intermediate as arg, made predicate as value, annotation',
      'exhaustive': False,
      'samples': [c['impl'] for c in cases[:2]],
      'distribution': dict(stats, programs=len(cases), seconds={'impl_rules': round(t_real, 1), 'coq_model': round(t_model, 1),
                                                                'total': round(time.time() - t0, 1)}, programs_rows_checked=rows_checked,
                           predicate_row_comparisons=n_rows, rule_list_ties=len([m for m in (models or []) if m]),
                           rule_list_mismatches=len(tie_broken)),
  })
  return rep.finish()
