"""Correspondence between Core/Elim.v and rule_translate.RuleStructure.ElliminateInternalVariables.

For each rule of generated programs (parsed by the real parser) the real ExtractRuleStructure output
(select, vars_unification, constraints, extracted variables) is converted to a Coq `rs`; the model's
`eliminate` must return exactly the structure the real ElliminateInternalVariables +
UnificationsToConstraints leave (or reject when the real one raises RuleCompileException).
"""
import copy
import re

from vlib import common, logica_run
from props import coregen as G, corerun as R

INFIX = {'+': 'OAdd', '-': 'OSub', '*': 'OMul', '++': 'OConcat', '<': 'OLt', '<=': 'OLe', '>': 'OGt', '>=': 'OGe',
         '==': 'OEq', '!=': 'ONe', '&&': 'OAnd', '||': 'OOr'}


class Unsupported(Exception):
  pass


class Ctx:
  def __init__(self):
    self.vars = {}
    self.funs = {}
    self.fields = {}

  def var(self, name):
    m = re.fullmatch(r'x_(\d+)', str(name))
    if m:
      return 1000 + int(m.group(1))
    if name not in self.vars:
      self.vars[name] = len(self.vars)
      if len(self.vars) >= 1000:
        raise Unsupported('too many variables')
    return self.vars[name]

  def fun(self, name):
    return self.funs.setdefault(name, len(self.funs))

  def pred(self, name):
    if not hasattr(self, 'preds'):
      self.preds = {}
    return self.preds.setdefault(name, len(self.preds))

  def field(self, f):
    if isinstance(f, int):
      return f
    if f == 'logica_value':
      return 99
    if isinstance(f, str) and re.fullmatch(r'col(0|[1-9]\d*)', f):     # positional N and named colN are one column
      return int(f[3:])
    return 100 + self.fields.setdefault(f, len(self.fields))


def conv(e, cx):
  if 'variable' in e:
    return '(PVar %d)' % cx.var(e['variable']['var_name'])
  if 'literal' in e:
    l = e['literal']
    if 'the_number' in l:
      n = l['the_number']['number']
      if not re.fullmatch(r'-?\d+', str(n)):
        raise Unsupported('non-integer literal')
      return '(PLit (VInt (%d)%%Z))' % int(n)
    if 'the_string' in l:
      return '(PLit (VStr %s))' % G.c_str(l['the_string']['the_string'])
    if 'the_null' in l:
      return '(PLit VNull)'
    raise Unsupported('literal %s' % list(l))
  if 'call' in e:
    name = e['call']['predicate_name']
    fvs = e['call']['record']['field_value']
    args = [conv(fv['value']['expression'], cx) for fv in fvs]
    if name in INFIX and len(args) == 2 and [fv['field'] for fv in fvs] == ['left', 'right']:
      return '(PBin %s %s %s)' % (INFIX[name], args[0], args[1])
    return '(PApp %d [%s])' % (cx.fun(name), '; '.join(args))
  if 'implication' in e:
    out = conv(e['implication']['otherwise'], cx)
    for it in reversed(e['implication']['if_then']):
      out = '(PIf %s %s %s)' % (conv(it['condition'], cx), conv(it['consequence'], cx), out)
    return out
  raise Unsupported('expression %s' % [k for k in e if k not in ('expression_heritage', 'type')])


def structure(s, cx):
  sel = '[%s]' % '; '.join('(%d, %s)' % (cx.field(k), conv(v, cx)) for k, v in s.select.items())
  un = '[%s]' % '; '.join('(%s, %s)' % (conv(u['left'], cx), conv(u['right'], cx)) for u in s.vars_unification)
  co = '[%s]' % '; '.join(conv(c, cx) for c in s.constraints)
  return '{| sel := %s; unifs := %s; cons := %s |}' % (sel, un, co)


CONSTRAINT_PREDICATES = ('<=', '<', '>', '>=', '!=', '&&', '||', '!', 'IsNull', 'Like', 'Constraint', 'is', 'is not', '~')


def crule_of(rule, cx):
  """The parsed rule as a Coq `crule` (Core/Extract.v); Unsupported outside the fragment."""
  head = []
  for fv in rule['head']['record']['field_value']:
    if 'expression' not in fv['value']:
      raise Unsupported('aggregation in head')
    head.append('(%d, %s)' % (cx.field(fv['field']), conv(fv['value']['expression'], cx)))
  if not head:
    raise Unsupported('empty head')
  if 'distinct_denoted' in rule:
    raise Unsupported('distinct')
  body = []
  natoms = 0
  for c in (rule['body']['conjunction']['conjunct'] if 'body' in rule else []):
    if 'predicate' in c:
      name = c['predicate']['predicate_name']
      if name in CONSTRAINT_PREDICATES:
        body.append('(KCond %s)' % conv({'call': c['predicate']}, cx))
      else:
        args = []
        for fv in c['predicate']['record']['field_value']:
          if 'except' in fv or 'expression' not in fv['value'] or fv['field'] == '*':
            raise Unsupported('argument form')
          args.append('(%d, %s)' % (cx.field(fv['field']), conv(fv['value']['expression'], cx)))
        body.append('(KAtom %d [%s])' % (cx.pred(name), '; '.join(args)))
        natoms += 1
    elif 'unification' in c:
      body.append('(KUnify %s %s)' % (conv(c['unification']['left_hand_side'], cx),
                                      conv(c['unification']['right_hand_side'], cx)))
    else:
      raise Unsupported('conjunct %s' % list(c))
  return '{| k_head := [%s]; k_body := [%s] |}' % ('; '.join(head), '; '.join(body)), natoms


def extract_case(rule, s, cx):
  """Coq `judge_extract` argument text, or None when the rule is outside the extraction fragment."""
  import copy as _copy
  try:
    cr, natoms = crule_of(rule, cx)
  except Unsupported:
    return None
  if len(s.tables) != natoms:      # calls of user predicates inside expressions were inlined as extra tables
    return None
  tnames = list(s.tables)
  cols = []
  for xv, (tn, tv) in s.inv_vars_map.items():
    if tn is None:
      return None
    cols.append('(%d, (%d, %d))' % (cx.var(xv), tnames.index(tn), cx.field(tv)))
  tabs = '[%s]' % '; '.join(str(cx.pred(s.tables[t])) for t in tnames)
  return 'judge_extract %s %s [%s] %s' % (cr, structure(s, cx), '; '.join(cols), tabs)


def cases_of_program(text):
  """Yields (rule text, coq `judge_elim` argument text) for the rules of the program the model covers."""
  parse, universe, rule_translate = logica_run.modules()[:3]
  rules = logica_run.parse_rules(text)
  out = []
  skipped = 0
  extract_cases = []
  for rule in rules:
    if rule['head']['predicate_name'].startswith('@') or 'body' not in rule:
      continue
    try:
      alloc = rule_translate.NamesAllocator()
      s = rule_translate.ExtractRuleStructure(copy.deepcopy(rule), alloc, None)
      if s.unnestings:
        raise Unsupported('unnesting')
      cx = Ctx()
      ec = extract_case(rule, s, cx)
      if ec:
        extract_cases.append((rule.get('full_text', ''), ec))
      s0 = structure(s, cx)
      ext = '[%s]' % '; '.join(str(cx.var(v)) for v in sorted(s.ExtractedVariables(), key=str))
      try:
        s.ElliminateInternalVariables(assert_full_ellimination=True)
        s.UnificationsToConstraints()
        s.vars_unification = []
        real = '(Some %s)' % structure(s, cx)
      except rule_translate.RuleCompileException:
        real = 'None'
      out.append((rule.get('full_text', ''), 'judge_elim (fun v => Nat.leb 1000 v) %s %s %s' % (ext, s0, real)))
    except Unsupported:
      skipped += 1
    except AssertionError:
      skipped += 1
  return out, skipped, extract_cases


HEADER = ('From Coq Require Import List ZArith Arith. Import ListNotations.\n'
          'From LV Require Import Core.Syntax Core.Eval Core.Elim Core.Extract.\n')


def run_tie(texts, jobs=8):
  """texts: list of program texts.  Returns dict(counts, mismatches=[(rule_text, code)], skipped)."""
  from concurrent.futures import ThreadPoolExecutor
  from vlib import coqrun
  items = []
  xitems = []
  skipped = 0
  for t in texts:
    try:
      cs, sk, xs = cases_of_program(t)
    except Exception:  # pylint: disable=broad-except
      continue
    items.extend(cs)
    xitems.extend(xs)
    skipped += sk
  n_elim = len(items)
  items = items + xitems
  chunks = [items[i:i + 60] for i in range(0, len(items), 60)]

  def one(ch):
    text = HEADER + 'Eval vm_compute in [%s].\n' % ';\n'.join(c for _, c in ch)
    rc, out = coqrun.coq_eval(text, timeout=300)
    ls = coqrun.parse_vm_list(out) if rc == 0 else []
    if rc != 0 or len(ls) != 1 or len(ls[0]) != len(ch):
      return None, out[-2000:]
    return [int(x) for x in ls[0]], ''

  codes = []
  err = None
  with ThreadPoolExecutor(max_workers=jobs) as ex:
    for vals, out in ex.map(one, chunks):
      if vals is None:
        err = out
        codes.extend([None] * 60)
      else:
        codes.extend(vals)
  codes = codes[:len(items)]
  ecodes, xcodes = codes[:n_elim], codes[n_elim:]
  mism = [(items[i][0], c) for i, c in enumerate(ecodes) if c not in (0, 1)]
  xmism = [(items[n_elim + i][0], c) for i, c in enumerate(xcodes) if c != 0]
  return {'rules': n_elim, 'exact': ecodes.count(0), 'both_reject': ecodes.count(1), 'skipped_unsupported': skipped,
          'mismatches': mism, 'error': err,
          'extract_rules': len(xcodes), 'extract_exact': xcodes.count(0), 'extract_mismatches': xmism}
