"""Lexical layer of parse.py observed in the flat format of coq/theories/Lex/LexCheck.v (C15, C06).

kinds: 0 Traverse, 1 RemoveComments, 2 IsWhole, 3 StripSpaces, 4 Strip, 5 SplitRaw, 6 Split,
7 SplitOnWhitespace, 8 GetSlice, 9 isspace/isalnum.
"""
from concurrent.futures import ThreadPoolExecutor

from vlib import common, coqrun

OFF = 1000
KIND_NAMES = ['Traverse', 'RemoveComments', 'IsWhole', 'StripSpaces', 'Strip', 'SplitRaw', 'Split',
              'SplitOnWhitespace', 'GetSlice', 'charclass']

SEPARATORS = [',', ';', ':-', '|', '||', ' in ', 'distinct', 'then', 'else', 'else if', '=', '==', '->', '-->',
              '.', ':', '?', '~', '+', '++', ' is not ', ' is ', '<=>', '=>', ':=', '&&', '-', ' as ', 'in', 'if', ' ']

SPECIAL = list('"\'`\\#/*(){}[]|,;: \n\t=-')
PLAIN = list('abinx1Q_') + ['\xe9', '\xa0', '\xdf', 'ł', '\x85', '\xb2']


def parse_mod():
  common.repo_path()
  from parser_py import parse
  return parse


def codes(s):
  return [ord(c) for c in s]


def enc_h(h):
  return [h.start, h.stop] + codes(str(h))


def enc_parts(parts):
  out = [0, len(parts)]
  for p in parts:
    out += [p.start, p.stop, len(p)] + codes(str(p))
  return out


def observe(parse, kind, s, sep):
  """Runs the real function; returns the flat list of naturals (or ('crash', text))."""
  H = parse.HeritageAwareString
  try:
    if kind == 0:
      out = []
      for idx, state, status in parse.Traverse(s):
        code = {'OK': 0, 'Unmatched': 1, 'EOL in string': 2}[status]
        out += [idx, code] + ([len(state)] + codes(state) if state is not None else [0])
      return out
    if kind == 1:
      try:
        return [0] + codes(parse.RemoveComments(H(s)))
      except parse.ParsingException as e:
        k = {'Parenthesis matches nothing.': 1, 'End of line in string.': 2}[str(e)]
        return [k, e.location.start, e.location.stop]
    if kind == 2:
      return [1 if parse.IsWhole(s) else 0]
    if kind == 3:
      return enc_h(parse.StripSpaces(H(s)))
    if kind == 4:
      return enc_h(parse.Strip(H(s)))
    if kind in (5, 6):
      try:
        f = parse.SplitRaw if kind == 5 else parse.Split
        return enc_parts(f(H(s), sep))
      except parse.ParsingException as e:
        if str(e) != 'Parenthesis matches nothing.':
          raise
        return [1, e.location.start]
      except StopIteration:
        return [2]
    if kind == 7:
      try:
        return enc_parts(parse.SplitOnWhitespace(H(s)))
      except parse.ParsingException:
        return [1]
    if kind == 8:
      st, sp, a, b = sep
      h = H(s).GetSlice(st, sp)
      g = h.GetSlice(a, b)
      return [g.start + OFF, g.stop + OFF] + codes(str(g))
    if kind == 9:
      return [(1 if c.isspace() else 0) + 2 * (1 if c.isalnum() else 0) for c in s]
  except Exception as e:  # anything else is a crash of the implementation: reported by the caller
    return ('crash', '%s: %s' % (type(e).__name__, e))
  raise AssertionError(kind)


def coq_list(xs):
  return '[' + '; '.join(str(x) for x in xs) + ']'


def coq_case(kind, s, sep, obs):
  sep_codes = ([sep[0], sep[1], sep[2] + OFF, sep[3] + OFF] if kind == 8 else codes(sep or ''))
  return '(%d, %s, %s, %s)' % (kind, coq_list(codes(s)), coq_list(sep_codes), coq_list(obs))


HEADER = ('From Coq Require Import List NArith. Import ListNotations.\n'
          'From LV Require Import Lex.Traverse Lex.Split Lex.Span Lex.LexCheck.\nOpen Scope N_scope.\n')


def judge_cases(cases, chunk=400, workers=4):
  """cases: list of coq_case strings.  Returns list of ints (0 = model and code agree) or (None, log)."""
  chunks = [cases[i:i + chunk] for i in range(0, len(cases), chunk)]

  def one(ch):
    text = HEADER + 'Definition cases : list case := [\n%s\n].\nEval vm_compute in map judge cases.\n' % ';\n'.join(ch)
    rc, out = coqrun.coq_eval(text, timeout=900)
    if rc != 0:
      return None, out
    ls = coqrun.parse_vm_list(out)
    if len(ls) != 1 or len(ls[0]) != len(ch):
      return None, out
    return [int(x) for x in ls[0]], out

  res = []
  with ThreadPoolExecutor(max_workers=workers) as ex:
    for vals, out in ex.map(one, chunks):
      if vals is None:
        return None, out
      res.extend(vals)
  return res, ''


def model_output(kind, s, sep):
  """What the model says for one case (for replays / messages)."""
  sep_codes = ([sep[0], sep[1], sep[2] + OFF, sep[3] + OFF] if kind == 8 else codes(sep or ''))
  text = HEADER + 'Eval vm_compute in model_out %d %s %s.\n' % (kind, coq_list(codes(s)), coq_list(sep_codes))
  rc, out = coqrun.coq_eval(text, timeout=300)
  if rc != 0:
    return None
  ls = coqrun.parse_vm_list(out)
  return [int(x) for x in ls[0]] if ls else None


# ---------------- generators of lexical strings ----------------
def rand_chars(r, n, special=0.6):
  return ''.join(r.choice(SPECIAL) if r.random() < special else r.choice(PLAIN) for _ in range(n))


def rand_fragment(r, depth=2):
  k = r.random()
  body = rand_chars(r, r.randint(0, 5), 0.5)
  if k < 0.12:
    return '"' + body.replace('"', r.choice(['', ';'])).replace('\n', r.choice(['', ' ', '\n'] if r.random() < 0.1 else [' '])) + '"'
  if k < 0.20:
    return '`' + body.replace('`', '') + '`'
  if k < 0.28:
    return "'" + body.replace("'", r.choice(['', "\\'"])) + "'"
  if k < 0.36:
    if r.random() < 0.35:   # several lines, one of which looks like a full-line comment
      body = r.choice(['a', '', 'x y']) + '\n' + r.choice(['', ' ', '\t']) + '#' + body.replace('"', '') + \
          r.choice(['\n', '\nb', '\n/* c', ''])
    return '"""' + body.replace('"', r.choice(['', '"'])) + '"""'
  if k < 0.44:
    return '/*' + body.replace('*/', '*') + '*/'
  if k < 0.50:
    return '#' + body.replace('\n', '') + '\n'
  if k < 0.70 and depth > 0:
    o, c = r.choice(['()', '[]', '{}'])
    return o + ''.join(rand_fragment(r, depth - 1) for _ in range(r.randint(0, 3))) + c
  if k < 0.85:
    return r.choice(SEPARATORS)
  return r.choice(PLAIN) * r.randint(1, 2) + r.choice(['', ' ', '  ', '\t', '\n'])


def rand_lex_string(r):
  k = r.random()
  if k < 0.25:
    return rand_chars(r, r.randint(0, 10))
  s = ''.join(rand_fragment(r) for _ in range(r.randint(1, 5)))
  if k < 0.45:   # damage it
    if s:
      i = r.randrange(len(s))
      s = s[:i] + r.choice(['', r.choice(SPECIAL)]) + s[i + 1:]
  if k > 0.8:
    s = r.choice([' ', '(', '((', ' ( ', '\n(']) + s + r.choice([' ', ')', '))', ' ) ', ')\t'])
  return s
