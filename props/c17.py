"""C17 — grounded predicates are materialised faithfully and re-running is idempotent.

Proof: coq/theories/Props/C17.v over the model Exec/Ground.v (traversal of
TranslateTable / TranslateTableAttachedToFile with its memo map, the emitted
"DROP TABLE IF EXISTS t; CREATE TABLE t AS q" statements, their execution on a persistent store).

Tie / search: generated programs with >= 1 grounded intermediates, compiled by the real compiler and
run like logica.py does (sqlite3_logica semantics, vlib/logica_run.execute) against ONE SQLite file
in a scratch directory, over histories of requests (same predicate twice, different predicates
interleaved, the grounded predicate itself).  After every run:
  * order of the export statements == the model's `script_of` (evaluated inside Coq) on the
    dependency graph read off the real parser's output;
  * every CREATE after the CREATEs of the tables its query mentions, nothing written twice, no
    statement for the requested predicate, tables mentioned by each query == the model's frontier;
  * tables in the file == the tables the model's store holds, and every table's bag == the bag of
    that predicate computed WITHOUT @Ground (second, independent plan through the compiler);
  * rows returned == that oracle's bag for the requested predicate (hence re-runs are equal).
"""
import json
import os
import re
import shutil
import sqlite3
import tempfile

from vlib import common, coqrun, proof, parse_cache, logica_run as lr

PID = 'C17'
FILE_TOKEN = '<FILE>'


# ----------------------------------------------------------------------------- generator
def gen_case(r):
  """A program spec: facts, derived predicates P1.. (each reads earlier ones), grounding, history."""
  case = {'db': r.choice(['home', 'home', 'db', 'test', 'dataset'])}   # dataset: @Dataset("wh") next to an attached logica_home
  case['D'] = [[r.randint(0, 3), r.randint(0, 3)] for _ in range(r.randint(1, 4))]
  case['E'] = [[r.randint(0, 3), r.randint(0, 3)] for _ in range(r.randint(1, 3))]
  m = r.randint(2, 5)
  preds = []
  names = ['D', 'E']
  for i in range(1, m + 1):
    name = 'P%d' % i
    later = names[2:]                                  # prefer derived predicates as sources
    def src():
      return r.choice(later) if later and r.random() < 0.75 else r.choice(names)
    nrules = 2 if r.random() < 0.25 else 1
    distinct = r.random() < 0.2
    rules = []
    for _ in range(nrules):
      shape = r.choice(['filter', 'swap', 'join', 'join', 'plus', 'copy'])
      rule = {'shape': shape, 's1': src()}
      if shape == 'join':
        rule['s2'] = src()
      if shape == 'filter':
        rule['c'] = r.randint(0, 2)
      rules.append(rule)
    preds.append({'name': name, 'rules': rules, 'distinct': distinct, 'ground': False, 'table': None, 'plan': ''})
    names.append(name)
  # at least one grounded predicate that something else reads
  for p in preds:
    if r.random() < 0.6:
      p['ground'] = True
  if not any(p['ground'] for p in preds[:-1]):
    preds[r.randrange(0, len(preds) - 1)]['ground'] = True
  for p in preds:
    if p['ground']:
      if case['db'] == 'db' or r.random() < 0.4:
        p['table'] = '%s.t_%s' % ({'db': 'db', 'home': 'logica_home', 'test': 'logica_test', 'dataset': 'wh'}[case['db']], p['name'].lower())
    elif r.random() < 0.3:
      p['plan'] = r.choice(['with', 'nowith'])
    if p['ground'] and r.random() < 0.2:
      p['plan'] = r.choice(['with', 'nowith'])      # @Ground decides: the plan annotation must not undo it
  case['preds'] = preds
  # a flag parameter used in the definitions (also of grounded predicates): default or a command line value
  if r.random() < 0.35:
    case['flag'] = {'default': str(r.randint(0, 3)), 'user': r.choice([None, str(r.randint(0, 3))])}
    users = [p for p in preds if r.random() < 0.5] or [r.choice(preds)]
    if not any(p['ground'] for p in users):
      users.append(r.choice([p for p in preds if p['ground']]))
    for p in users:
      p['rules'][0] = dict(p['rules'][0], shape='flag')
  pn = [p['name'] for p in preds]
  pn = pn + pn[len(pn) // 2:] * 2                       # later predicates (more dependencies) more often
  gn = [p['name'] for p in preds if p['ground']]
  # some files are not empty to begin with: junk tables under the names the program will write
  case['prefill'] = [g for g in gn if r.random() < 0.3]
  hist = []
  style = r.random()
  if style < 0.3:                                       # same predicate twice (+ others)
    x = r.choice(pn)
    hist = [x, x, r.choice(pn), x]
  elif style < 0.6:                                     # interleaved, includes a grounded predicate itself
    g = r.choice(gn)
    hist = [r.choice(pn), g, r.choice(pn), g]
    r.shuffle(hist)
  else:
    hist = [r.choice(pn) for _ in range(4)]
  case['history'] = hist
  return case


def rule_text(p, rule):
  head = '%s(%%s)%s' % (p['name'], ' distinct' if p['distinct'] else '')
  s = rule['shape']
  if s == 'copy':
    return head % 'x, y' + ' :- %s(x, y);' % rule['s1']
  if s == 'filter':
    return head % 'x, y' + ' :- %s(x, y), x >= %d;' % (rule['s1'], rule['c'])
  if s == 'flag':
    return head % 'x, y' + ' :- %s(x, y), ToString(x) != "${lim}";' % rule['s1']
  if s == 'swap':
    return head % 'y, x' + ' :- %s(x, y);' % rule['s1']
  if s == 'plus':
    return head % 'x, y + 1' + ' :- %s(x, y);' % rule['s1']
  if s == 'join':
    return head % 'x, z' + ' :- %s(x, y), %s(y, z);' % (rule['s1'], rule['s2'])
  raise ValueError(s)


def program(case, grounded=True, file_path=FILE_TOKEN):
  lines = ['@Engine("sqlite");']
  if grounded:
    if case['db'] == 'dataset':
      # the grounded tables live in the dataset the program names, although logica_home is attached as well
      lines.append('@AttachDatabase("logica_home", "%s");' % (file_path + '.home'))
      lines.append('@AttachDatabase("wh", "%s");' % file_path)
      lines.append('@Dataset("wh");')
    else:
      lines.append('@AttachDatabase("%s", "%s");' % ({'db': 'db', 'home': 'logica_home', 'test': 'logica_test'}[case['db']], file_path))
  if case.get('flag'):
    lines.append('@DefineFlag("lim", "%s");' % case['flag']['default'])
  for n in ('D', 'E'):
    for row in case[n]:
      lines.append('%s(%d, %d);' % (n, row[0], row[1]))
  for p in case['preds']:
    if grounded and p['ground']:
      lines.append('@Ground(%s%s);' % (p['name'], ', "%s"' % p['table'] if p['table'] else ''))
    if p['plan']:
      lines.append('@%s(%s);' % ('With' if p['plan'] == 'with' else 'NoWith', p['name']))
    for rule in p['rules']:
      lines.append(rule_text(p, rule))
  return '\n'.join(lines) + '\n'


def table_of(case, p):
  return p['table'] or ('%s.%s' % ({'test': 'logica_test', 'dataset': 'wh'}.get(case['db'], 'logica_home'), p['name']))


# ----------------------------------------------------------------------------- dependency graph from the real parser
def walk_preds(node, acc):
  if isinstance(node, dict):
    for k, v in node.items():
      if k == 'predicate' and isinstance(v, dict) and 'predicate_name' in v:
        acc.append(str(v['predicate_name']))
      walk_preds(v, acc)
  elif isinstance(node, list):
    for v in node:
      walk_preds(v, acc)


def graph(text):
  """(names in dependency order, deps as index lists, grounded-name -> table) from parse.ParseFile."""
  rules = lr.parse_rules(text)
  defined, deps = [], {}
  for rule in rules:
    h = str(rule['head']['predicate_name'])
    if h.startswith('@'):
      continue
    if h not in deps:
      deps[h] = []
      defined.append(h)
  for rule in rules:
    h = str(rule['head']['predicate_name'])
    if h.startswith('@'):
      continue
    acc = []
    walk_preds(rule.get('body', {}), acc)
    deps[h].extend(acc)
  for h in deps:
    deps[h] = [d for d in deps[h] if d in deps]
  order, state = [], {}

  def dfs(n):
    if state.get(n) == 2:
      return True
    if state.get(n) == 1:
      return False
    state[n] = 1
    for d in deps[n]:
      if not dfs(d):
        return False
    state[n] = 2
    order.append(n)
    return True
  for n in defined:
    if not dfs(n):
      return None
  idx = {n: i for i, n in enumerate(order)}
  return order, [[idx[d] for d in deps[n]] for n in order]


def frontier(order, deps, grounded_names, i, memo=None):
  """Grounded predicates reached from i through non-grounded ones (set of indices)."""
  out = set()
  for d in deps[i]:
    if order[d] in grounded_names:
      out.add(d)
    else:
      out |= frontier(order, deps, grounded_names, d)
  return out


# ----------------------------------------------------------------------------- running one history
EXPORT_RE = re.compile(r'^DROP TABLE IF EXISTS ([A-Za-z0-9_.]+);\s*CREATE TABLE ([A-Za-z0-9_.]+) AS (.*)$', re.S)


def read_file_tables(path):
  if not os.path.exists(path):
    return {}
  con = sqlite3.connect(path)
  try:
    names = [x[0] for x in con.execute("select name from sqlite_master where type='table'").fetchall()]
    return {n: lr.bag(con.execute('select * from "%s"' % n).fetchall()) for n in names}
  finally:
    con.close()


def mentioned(sql, tables):
  return set(t for t in tables if re.search(r'(?<![A-Za-z0-9_.])%s(?![A-Za-z0-9_])' % re.escape(t), sql))


def run_history(case):
  """Runs case['history'] against one scratch file.  Returns a dict with 'problems' (list of str),
  'steps' (observed scripts as index lists + mains, for the Coq comparison) and the graph."""
  parse_cache.install()
  res = {'problems': [], 'steps': [], 'program': program(case)}
  d = tempfile.mkdtemp(prefix='lv_c17_')
  try:
    path = os.path.join(d, 'ground.db')
    text = program(case, file_path=path)
    plain = program(case, grounded=False)
    g = graph(plain)
    if g is None:
      res['problems'].append('generator produced a cyclic program')
      return res
    order, deps = g
    uflags = {'lim': case['flag']['user']} if case.get('flag') and case['flag']['user'] is not None else {}
    res['user_flags'] = uflags
    idx = {n: i for i, n in enumerate(order)}
    gp = {p['name']: p for p in case['preds'] if p['ground']}
    tab = {n: table_of(case, p) for n, p in gp.items()}
    by_table = {t: n for n, t in tab.items()}
    res['graph'] = {'order': order, 'deps': deps, 'grounded': [n in gp for n in order]}
    # oracle: bags computed without @Ground (a different plan through the compiler)
    oracle = {}
    for n in set(case['history']) | set(gp):
      st, h, rows = lr.run_pred(plain, n, decode=False, user_flags=uflags)
      if st != 'ok':
        res['problems'].append('oracle run (program without @Ground) of %s failed: %s %s' % (n, st, str(h)[:200]))
        return res
      oracle[n] = lr.bag(rows)
    written = set()                                   # model store: which grounded predicates have a table
    junk = set(case.get('prefill', []))               # model store: tables holding foreign content
    if junk:
      con = sqlite3.connect(path)
      for n in sorted(junk):
        con.execute('create table "%s" (junk)' % tab[n].split('.', 1)[1])
        con.execute('insert into "%s" values (99)' % tab[n].split('.', 1)[1])
      con.commit()
      con.close()
    for step, main in enumerate(case['history']):
      tag = 'step %d (run %s): ' % (step, main)
      st, comp = lr.compile_pred(text, main, user_flags=uflags)
      if st != 'ok':
        res['problems'].append(tag + 'does not compile: %s %s' % (st, str(comp)[:300]))
        break
      exports = []
      for s in comp['defines_and_exports']:
        m = EXPORT_RE.match(s.strip())
        if m:
          if m.group(1) != m.group(2):
            res['problems'].append(tag + 'DROP and CREATE name different tables: %s / %s' % (m.group(1), m.group(2)))
          exports.append((m.group(2), m.group(3)))
        elif not s.strip().startswith('--'):
          res['problems'].append(tag + 'unexpected statement in defines_and_exports: %r' % s[:120])
      names = []
      for t, q in exports:
        if t not in by_table:
          res['problems'].append(tag + 'export of an unknown table %s' % t)
          continue
        n = by_table[t]
        before = set(tab[x] for x in names)
        reads = mentioned(q, tab.values())
        want = set(tab[order[j]] for j in frontier(order, deps, gp, idx[n]))
        if not reads <= before:
          res['problems'].append(tag + 'CREATE of %s comes before the CREATE of %s which its query reads' % (t, sorted(reads - before)))
        if reads != want:
          res['problems'].append(tag + 'query of %s mentions tables %s, the grounded frontier is %s' % (t, sorted(reads), sorted(want)))
        if n in names:
          res['problems'].append(tag + 'table %s is written twice' % t)
        names.append(n)
      if main in names:
        res['problems'].append(tag + 'the requested predicate itself is written to its table')
      want_main = set(tab[order[j]] for j in frontier(order, deps, gp, idx[main]))
      got_main = mentioned(comp['main'], tab.values())
      if got_main != want_main:
        res['problems'].append(tag + 'the SELECT of %s mentions tables %s, expected %s (dependants read the table)' % (
            main, sorted(got_main), sorted(want_main)))
      if not want_main <= set(tab[x] for x in names):
        res['problems'].append(tag + 'the SELECT reads a table no statement of this script writes')
      res['steps'].append({'main': idx[main], 'script': [idx[n] for n in names]})
      stmts = [comp['preamble']] + comp['defines_and_exports'] + [comp['main']]
      try:
        # the path of `logica.py <file> run <pred>`: common.sqlite3_logica.RunSqlScript on the whole script
        import csv as _csv
        import io as _io
        real_out = lr.modules()[4].RunSqlScript(stmts, 'csv')
        real_rows = sorted(list(x) for x in list(_csv.reader(_io.StringIO(real_out)))[1:])
      except Exception as e:  # pylint: disable=broad-except
        res['problems'].append(tag + 'sqlite3_logica.RunSqlScript (the path of `logica.py run`) fails on the script: %s: %s'
                               % (type(e).__name__, e))
        break
      try:
        _, rows = lr.execute(stmts, decode=False)
      except Exception as e:  # pylint: disable=broad-except
        res['problems'].append(tag + 'SQLite rejects the script: %s: %s' % (type(e).__name__, e))
        break
      if real_rows != sorted(['' if v is None else str(v) for v in row] for row in rows):
        res['problems'].append(tag + 'RunSqlScript returned %s, statement-by-statement execution %s' % (real_rows[:6], rows[:6]))
      if lr.bag(rows) != oracle[main]:
        res['problems'].append(tag + 'rows returned differ from the bag %s denotes: %s vs %s' % (main, lr.bag(rows)[:8], oracle[main][:8]))
      written |= set(names)
      junk -= set(names)
      filetabs = read_file_tables(path)
      want_tabs = set(tab[n].split('.', 1)[1] for n in written | junk)
      if set(filetabs) != want_tabs:
        res['problems'].append(tag + 'tables in the file %s, expected %s' % (sorted(filetabs), sorted(want_tabs)))
      for n in written:
        t = tab[n].split('.', 1)[1]
        if t in filetabs and filetabs[t] != oracle[n]:
          res['problems'].append(tag + 'table %s holds %s, %s denotes %s' % (t, filetabs[t][:8], n, oracle[n][:8]))
      if case['db'] == 'dataset' and read_file_tables(path + '.home'):
        res['problems'].append(tag + 'tables %s were written to the attached logica_home, the program names @Dataset("wh")'
                               % sorted(read_file_tables(path + '.home')))
      for n in junk:
        t = tab[n].split('.', 1)[1]
        if t in filetabs and filetabs[t] != lr.bag([(99,)]):
          res['problems'].append(tag + 'table %s (not in the script of this run) was modified' % t)
    return res
  finally:
    shutil.rmtree(d, ignore_errors=True)


def run_all(cases, workers=4):
  if len(cases) < 6:
    return [run_history(c) for c in cases]
  import multiprocessing
  lr.modules()                                        # import the implementation before forking
  with multiprocessing.get_context('fork').Pool(workers) as pool:
    return pool.map(run_history, cases, chunksize=max(1, min(20, len(cases) // (workers * 4))))


# ----------------------------------------------------------------------------- the model inside Coq
def coq_scripts(items, chunk=600):
  """items: list of (grounded bools, deps index lists, main).  Returns list of (script, ok) or None."""
  from concurrent.futures import ThreadPoolExecutor

  def one(cs):
    body = ';\n'.join('([%s], [%s], %d)' % ('; '.join('true' if b else 'false' for b in g),
                                            '; '.join('[%s]' % '; '.join(map(str, ds)) for ds in d), m)
                      for g, d, m in cs)
    text = ('From Coq Require Import List. Import ListNotations.\nFrom LV Require Import Exec.Ground.\n'
            'Definition cases : list (list bool * list (list nat) * nat) := [\n%s\n].\n'
            'Eval vm_compute in flat_map (fun c => let \'(g, d, m) := c in map S (fst (script_of g d m)) ++ [0]) cases.\n'
            'Eval vm_compute in map (fun c => let \'(g, d, m) := c in snd (script_of g d m)) cases.\n' % body)
    rc, out = coqrun.coq_eval(text, timeout=600)
    if rc != 0:
      return None, out
    ls = coqrun.parse_vm_list(out)
    if len(ls) != 2:
      return None, out
    scripts, cur = [], []
    for t in ls[0]:
      v = int(t)
      if v == 0:
        scripts.append(cur)
        cur = []
      else:
        cur.append(v - 1)
    oks = [x == 'true' for x in ls[1]]
    if len(scripts) != len(cs) or len(oks) != len(cs):
      return None, out
    return list(zip(scripts, oks)), ''
  chunks = [items[i:i + chunk] for i in range(0, len(items), chunk)]
  res = []
  with ThreadPoolExecutor(max_workers=4) as ex:
    for r_, out in ex.map(one, chunks):
      if r_ is None:
        return None, out
      res.extend(r_)
  return res, ''


def run(tier, replay=None):
  rep = common.Report(PID, tier, 'proof')
  rep.assumptions = [
      'model Exec/Ground.v: predicates numbered in dependency order (acyclic programs); a non-grounded predicate is compiled where it is used; '
      'hypotheses reads_frontier / deterministic / queries_correct are about the SQL of single queries (C01) and are checked per instance by the runs',
      "SQLite's ATTACH, DROP TABLE IF EXISTS, CREATE TABLE AS are modelled (store update), validated by the runs; crash points are out of scope",
      'oracle for table contents: the same program compiled WITHOUT @Ground by the same compiler (independent plan, not independent code)',
      'harness props/c17.py trusted',
  ]
  ok, info = proof.proof_stage(rep, PID, extra_trusted=['props/c17.py (generator, graph extraction from parse.ParseFile, comparisons)'])
  r = common.rng('c17')
  if replay:
    with open(replay) as f:
      rp = json.load(f)
    cases = [rp['case']] if 'case' in rp else []
  else:
    n = 80 if tier == 'quick' else 1500
    cases = [gen_case(r) for _ in range(n)]
  results = run_all(cases)

  found = 0
  steps = 0
  dist = {'grounded_per_program': {}, 'prefilled_files': sum(1 for c in cases if c.get('prefill')), 'history_has_repeat': 0, 'history_requests_grounded': 0, 'db': {},
          'steps_with_exports': 0, 'chained_exports': 0}
  for case, res in zip(cases, results):
    k = sum(1 for p in case['preds'] if p['ground'])
    dist['grounded_per_program'][k] = dist['grounded_per_program'].get(k, 0) + 1
    dist['db'][case['db']] = dist['db'].get(case['db'], 0) + 1
    dist['history_has_repeat'] += len(set(case['history'])) < len(case['history'])
    gn = set(p['name'] for p in case['preds'] if p['ground'])
    dist['history_requests_grounded'] += any(h in gn for h in case['history'])
    for s in res['steps']:
      steps += 1
      dist['steps_with_exports'] += bool(s['script'])
      dist['chained_exports'] += len(s['script']) >= 2
    if res['problems']:
      found += 1
      if found <= 6:
        rep.violation('case:%s' % common.short_hash(case), {
            'case': case, 'program': res['program'], 'history': case['history'], 'problems': res['problems'][:10],
            'how': 'replace %s by a scratch path; for each predicate of the history: python3 logica.py prog.l run <pred>; '
                   'inspect the SQLite file after each run' % FILE_TOKEN})

  # ---- model (Coq) vs observed export order
  items, where = [], []
  for ci, res in enumerate(results):
    if 'graph' not in res:
      continue
    for s in res['steps']:
      items.append((res['graph']['grounded'], res['graph']['deps'], s['main']))
      where.append((ci, s))
  tie_broken = []
  model_ok = None
  if ok and items:
    model_ok, out = coq_scripts(items)
    if model_ok is None:
      rep.violation('tie', {'broken': 'evaluation of Exec/Ground.script_of failed', 'excerpt': out[-2000:]}, no_input=True)
    else:
      for (ci, s), (script, fuel_ok) in zip(where, model_ok):
        if not fuel_ok or script != s['script']:
          tie_broken.append(ci)
      for ci in sorted(set(tie_broken)):
        if results[ci]['problems']:
          continue                                       # already reported with its failing input
        found += 1
        if found <= 6:
          g = results[ci]['graph']
          rep.violation('case:%s' % common.short_hash(cases[ci]), {
              'case': cases[ci], 'program': results[ci]['program'], 'history': cases[ci]['history'],
              'problems': ['order of the export statements differs from the model (TranslateTableAttachedToFile: memo, then dependencies, then append)'],
              'observed': [[g['order'][i] for i in s['script']] for s in results[ci]['steps']],
              'model': [[g['order'][i] for i in sc] for (c2, _), (sc, _) in zip(where, model_ok) if c2 == ci]})
  if not ok and not found:
    rep.violation('proof', {'broken': 'theories/Props/C17.v or its dependencies no longer check',
                            'failing_files': info.get('failing'), 'excerpt': info.get('excerpt', '')[:3000]}, no_input=True)

  rep.coverage.update({
      'evaluations': steps + len(items),
      'distinct_nontrivial': len(set(common.canon(c) for c, res in zip(cases, results)
                                     if any(len(s['script']) >= 1 for s in res['steps']))),
      'rule': 'programs x histories of 4 requests against one SQLite file; an evaluation = one compiled+executed request (all checks) '
              '+ one Coq evaluation of script_of; non-trivial = at least one request of the history emitted an export statement',
      'exhaustive': False,
      'samples': [{'program': results[i]['program'], 'history': cases[i]['history'],
                   'scripts': [s['script'] for s in results[i]['steps']]} for i in (0, len(cases) // 2) if i < len(cases)],
      'distribution': dist,
      'programs': len(cases), 'requests': steps, 'model_vs_compiler_order_mismatches': len(set(tie_broken)),
  })
  return rep.finish()
