"""Correspondence between Core/Unnest.v and rule_translate.RuleStructure.SortUnnestings.

Random sets of unnestings (variable names x_N with one and two digit numbers, so that Python's string order
differs from the numeric one; lists that mention other unnesting variables, directly or inside a combine, and
unrelated variables; some cyclic) plus the unnestings of real rules (dependent `in` conjuncts) are sorted by the
real SortUnnestings; the model must give the same order, or both must reject.
"""
import copy

from vlib import logica_run, coqrun


def c_str(s):
  return '"%s"' % s


def gen_case(r):
  n = r.randint(1, 6)
  pool = r.sample([1, 2, 3, 7, 9, 10, 11, 12, 20, 21, 100], n)
  names = ['x_%d' % k for k in pool]
  r.shuffle(names)
  acyclic = r.random() < 0.75
  order = list(names)
  r.shuffle(order)
  items = []
  for nm in names:
    if acyclic:
      cands = order[:order.index(nm)]
    else:
      cands = [x for x in names if x != nm] + ([nm] if r.random() < 0.1 else [])
    deps = [x for x in cands if r.random() < 0.45]
    others = [r.choice(['a', 'b', 'x_50', 'zq']) for _ in range(r.randint(0, 2))]
    ms = deps + others
    r.shuffle(ms)
    items.append((nm, ms, r.random() < 0.3))
  return items


def expr_of(ms, in_combine):
  elems = [{'variable': {'var_name': v}} for v in ms]
  lst = {'literal': {'the_list': {'element': elems}}}
  if in_combine and elems:
    # the list is an aggregating sub-query that mentions the variables in its body
    return {'combine': {'head': {'predicate_name': 'Combine', 'record': {'field_value': []}},
                        'body': {'conjunction': {'conjunct': [{'unification': {'left_hand_side': e, 'right_hand_side': e}}
                                                              for e in elems]}}, 'full_text': ''}}
  return lst


def real_sort(items):
  rule_translate = logica_run.modules()[2]
  s = rule_translate.RuleStructure(rule_translate.NamesAllocator(), None)
  s.full_rule_text = ''
  s.unnestings = [[{'variable': {'var_name': nm}}, expr_of(ms, comb)] for nm, ms, comb in items]
  try:
    s.SortUnnestings()
    return [u[0]['variable']['var_name'] for u in s.unnestings]
  except rule_translate.RuleCompileException:
    return None


def cases_from_program(text):
  """The unnestings of the real rules of a program, as the compiler sorts them (after elimination)."""
  parse, universe, rule_translate = logica_run.modules()[:3]
  out = []
  for rule in logica_run.parse_rules(text):
    if rule['head']['predicate_name'].startswith('@') or 'body' not in rule:
      continue
    try:
      s = rule_translate.ExtractRuleStructure(copy.deepcopy(rule), rule_translate.NamesAllocator(), None)
      s.ElliminateInternalVariables(assert_full_ellimination=False)
    except Exception:  # pylint: disable=broad-except
      continue
    if len(s.unnestings) < 2:
      continue
    items = [(u[0]['variable']['var_name'],
              sorted(str(v) for v in rule_translate.AllMentionedVariables(u[1], dive_in_combines=True)), None)
             for u in s.unnestings]
    if len(set(i[0] for i in items)) != len(items):
      continue
    try:
      s.SortUnnestings()
      real = [u[0]['variable']['var_name'] for u in s.unnestings]
    except rule_translate.RuleCompileException:
      real = None
    out.append((items, real))
  return out


def coq_case(items, real):
  us = '[%s]' % '; '.join('(%s, [%s])' % (c_str(nm), '; '.join(c_str(v) for v in ms)) for nm, ms, _ in items)
  rl = 'None' if real is None else '(Some [%s])' % '; '.join(c_str(v) for v in real)
  return 'judge_unnest %s %s' % (us, rl)


HEADER = ('From Coq Require Import List String. Import ListNotations. Local Open Scope string_scope.\n'
          'From LV Require Import Core.Unnest.\n')


def run_tie(r, n, program_texts=()):
  cases = []
  for _ in range(n):
    items = gen_case(r)
    cases.append((items, real_sort(items)))
  n_synth = len(cases)
  for t in program_texts:
    try:
      cases.extend(cases_from_program(t))
    except Exception:  # pylint: disable=broad-except
      pass
  codes, err = [], None
  for i in range(0, len(cases), 400):
    ch = cases[i:i + 400]
    rc, out = coqrun.coq_eval(HEADER + 'Eval vm_compute in [%s].\n' % ';\n'.join(coq_case(a, b) for a, b in ch), timeout=300)
    ls = coqrun.parse_vm_list(out) if rc == 0 else []
    if rc != 0 or len(ls) != 1 or len(ls[0]) != len(ch):
      err = out[-1500:]
      codes.extend([None] * len(ch))
    else:
      codes.extend(int(x) for x in ls[0])
  mism = [{'unnestings': [[nm, ms] for nm, ms, _ in cases[i][0]], 'real_order': cases[i][1], 'code': c}
          for i, c in enumerate(codes) if c not in (0, 1)]
  return {'cases': len(cases), 'synthetic': n_synth, 'from_programs': len(cases) - n_synth, 'same_order': codes.count(0),
          'both_reject': codes.count(1), 'mismatches': mism[:5], 'n_mismatches': len(mism), 'error': err}
