"""C07 — results do not depend on the textual order or naming used in a program."""
from vlib import common, proof
from props import coregen as G, corecheck as K, variants as V

PID = 'C07'
PROFILE = dict(named_cols=0.4, partial_args=0.3, inclusion=0.3, assign=0.6, lists=0.25, records=0.25, combine=0.3,
               disjunction=0.35, filter=0.4, negation=0.25, two_rules=0.4, distinct=0.3, aggregation=0.3,
               ifthenelse=0.4, builtins=0.3, func_calls=0.4, set_agg=0.15)


def run(tier, replay=None):
  rep = common.Report(PID, tier, 'other')
  rep.assumptions = [
      'oracle: Core/Eval.v on the ORIGINAL program; every permuted / renamed text must return that bag on SQLite',
      'List/Set element order and ArgMin/ArgMax ties are exempt (list-valued aggregate columns compared sorted)',
  ]
  ok, info = proof.proof_stage(rep, PID, extra_trusted=['props/variants.py (permutation and renaming of the AST)',
                                                       'props/coregen.py printers', 'Core/Check.v'])
  variants = [
      ('plain', lambda prog, r: G.p_program(prog)),
      ('permute_statements', lambda prog, r: V.permute(prog, r, rules=True, conj=False, disj=False)),
      ('permute_conjuncts', lambda prog, r: V.permute(prog, r, rules=False, conj=True, disj=False)),
      ('permute_disjuncts', lambda prog, r: V.permute(prog, r, rules=False, conj=False, disj=True)),
      ('permute_all', lambda prog, r: V.permute(prog, r)),
      ('rename_variables', lambda prog, r: V.rename(prog, r, variables=True, predicates=False)),
      ('rename_predicates', lambda prog, r: V.rename(prog, r, variables=False, predicates=True)),
  ]
  K.run_core(rep, PID, tier, PROFILE, variants, 60, 1500, 'c07', replay=replay, ok=ok, info=info, metamorphic=True)
  return rep.finish()
