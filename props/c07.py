"""C07 — results do not depend on the textual order or naming used in a program."""
from vlib import common, proof
from props import coregen as G, corecheck as K, variants as V

PID = 'C07'
PROFILE = dict(named_cols=0.4, partial_args=0.3, inclusion=0.3, assign=0.6, lists=0.25, records=0.25, combine=0.45,
               disjunction=0.35, filter=0.4, negation=0.25, two_rules=0.4, distinct=0.3, aggregation=0.3,
               ifthenelse=0.4, builtins=0.3, func_calls=0.4, share_names=0.5, multi_combine=0.6, set_agg=0.15)


AGG_TEMPLATE = """@Engine("sqlite");
%s
Top2(x) = ArgMaxK(x, 2);
Low2(x) = ArgMinK(x, 2);
Top3(x) = ArgMaxK(x, 3);
Low3(x) = ArgMinK(x, 3);
A1(g) Top2= (n -> s) :- Score(g, n, s);
A2(g) Low2= (n -> s) :- Score(g, n, s);
A3(g) Top3= (n -> s) :- Score(g, n, s);
A4(g) Low3= (n -> s) :- Score(g, n, s);
A5(g) ArgMax= (n -> s) :- Score(g, n, s);
A6(g) ArgMin= (n -> s) :- Score(g, n, s);
A7(g, t? += s, lo? Min= s, hi? Max= s, c? Count= n, st? Set= s) distinct :- Score(g, n, s);
A8(g) Array= (s -> n) :- Score(g, n, s);
A9(g, st? Set= v, c? Count= v) distinct :- Opt(g, v);
"""
AGG_PREDS = ['A1', 'A2', 'A3', 'A4', 'A5', 'A6', 'A7', 'A8', 'A9']


def arrival_order(rep, tier):
  """Aggregated values must not depend on the order in which the rows arrive (ties excluded: all
  aggregated values within a group are distinct; List is not used).  Every aggregate is evaluated under
  permutations of the fact statements; the first order is the reference."""
  import itertools
  import json as _json
  from vlib import logica_run
  r = common.rng('c07-arrival')
  n_tables = 2 if tier == 'quick' else 8
  runs = bad = 0
  for t in range(n_tables):
    n = r.choice([4, 5])
    scores = r.sample(range(1, 60), n)
    facts = ['Score("g%d", "n%d", %d);' % (i % 2, i, sc) for i, sc in enumerate(scores)]
    # values that may be null (a set of numbers and nulls), permuted together with the other facts
    facts += ['Opt("g%d", %s);' % (i % 2, v) for i, v in enumerate(['null', str(scores[0]), str(scores[1] * 2), 'null'][:n - 1])]
    perms = list(itertools.permutations(facts))
    if len(perms) > (24 if tier == 'quick' else 120):
      perms = [perms[0]] + r.sample(perms[1:], 23 if tier == 'quick' else 119)
    ref = None
    for pm in perms:
      text = AGG_TEMPLATE % '\n'.join(pm)
      rules = logica_run.parse_rules(text)
      out = {}
      for p in AGG_PREDS:
        st, a, b = logica_run.run_pred(text, p, rules=rules, decode=True)
        out[p] = (st, sorted(common.canon(list(x)) for x in b) if st == 'ok' else a)
        runs += 1
      if ref is None:
        ref = (pm, out)
        continue
      for p in AGG_PREDS:
        if out[p] != ref[1][p] and bad < 3:
          bad += 1
          rep.violation('arrival-order:%s' % p, {
              'predicate': p, 'law': 'aggregated values do not depend on the order in which the rows arrive (no ties here)',
              'program_text': text, 'observed': out[p], 'reference_order_program': AGG_TEMPLATE % '\n'.join(ref[0]),
              'reference_result': ref[1][p], 'how': 'vlib.logica_run.run_pred(program_text, predicate)'})
  rep.coverage['arrival_order_runs'] = runs
  rep.coverage['evaluations'] = rep.coverage.get('evaluations', 0) + runs


def sibling_scopes(rep, tier, salt='c07-siblings'):
  """Sibling aggregating expressions / negations of one rule that use the SAME local variable name, a later
  one using the value of an earlier one: renaming the locals apart must not change the rows, and both must
  be the rows computed directly from the facts."""
  from vlib import logica_run
  r = common.rng(salt)
  n = 12 if tier == 'quick' else 200
  runs = bad = 0
  AGG = {'Sum': sum, 'Max': max, 'Min': min}
  for _ in range(n):
    vals = [r.randint(0, 5) for _ in range(r.randint(2, 4))]
    facts = ''.join('T(%d);\n' % v for v in vals)
    k = r.choice([2, 2, 3])
    ops = [r.choice(list(AGG)) for _ in range(k)]
    uses_prev = [False] + [r.random() < 0.8 for _ in range(k - 1)]
    in_filter = [r.random() < 0.3 for _ in range(k)]
    neg = r.random() < 0.3

    def text(names):
      conj, prev = [], None
      for i in range(k):
        v, x = 'a%d' % i, names[i]
        e = x
        cond = 'T(%s)' % x
        if uses_prev[i] and prev:
          if in_filter[i]:
            cond += ', %s <= %s' % (x, prev)
          else:
            e = '%s + %s' % (x, prev)
        conj.append('%s == %s{%s :- %s}' % (v, ops[i], e, cond))
        prev = v
      if neg:
        conj.append('~(T(%s), %s > %s + 100)' % (names[-1], names[-1], prev))
      r.shuffle(conj)
      return '@Engine("sqlite");\n' + facts + 'Q(%s) :- %s;\n' % (', '.join('a%d' % i for i in range(k)), ', '.join(conj))

    # expected row, computed from the facts
    exp, prev = [], None
    for i in range(k):
      xs = list(vals)
      if uses_prev[i] and prev is not None and in_filter[i]:
        xs = [x for x in xs if x <= prev]
      if uses_prev[i] and prev is not None and not in_filter[i]:
        xs = [x + prev for x in xs]
      cur = AGG[ops[i]](xs) if xs else None
      exp.append(cur)
      prev = cur
    if any(v is None for v in exp):
      continue          # null arithmetic is not the point here
    want = [tuple(exp)]
    outs = {}
    for label, names in (('same_names', ['x'] * k), ('renamed_apart', ['x', 'y', 'z'][:k])):
      t = text(names)
      st, a, b = logica_run.run_pred(t, 'Q')
      outs[label] = (st, [tuple(x) for x in b] if st == 'ok' else a, t)
      runs += 1
    for label in outs:
      st, rows, t = outs[label]
      if (st != 'ok' or rows != want) and bad < 3:
        # the order dependence of variable elimination (known finding) can reject a shuffled rule
        if st == 'RuleCompile' and outs['same_names'][0] == outs['renamed_apart'][0] == 'RuleCompile':
          continue
        bad += 1
        rep.violation('sibling-scopes:%s:%s' % (label, st), {
            'program_text': t, 'predicate': 'Q', 'expected_rows': want, 'observed': [st, rows],
            'other_naming': {'text': outs['renamed_apart' if label == 'same_names' else 'same_names'][2],
                             'observed': outs['renamed_apart' if label == 'same_names' else 'same_names'][:2]},
            'law': 'consistently renaming variables that are local to aggregating expressions does not change the rows',
            'how': 'vlib.logica_run.run_pred(program_text, "Q")'})
  rep.coverage['sibling_scope_runs'] = runs
  rep.coverage['evaluations'] = rep.coverage.get('evaluations', 0) + runs


def record_patterns(rep, tier):
  """Record patterns (nested, with bound, fresh and literal fields) as arguments and in unifications: every order
  of the conjuncts must return the rows computed directly from the facts."""
  import itertools
  from vlib import logica_run
  r = common.rng('c07-record-patterns')
  n = 10 if tier == 'quick' else 150
  runs = bad = 0
  for _ in range(n):
    depth = r.choice([1, 2, 2, 3])
    # a fact: {a: i, x: {b: j, y: {c: k}}} down to `depth` levels
    keys = [('a', 'x'), ('b', 'y'), ('c', 'z')]
    facts = [tuple(r.randint(0, 2) for _ in range(depth)) for _ in range(r.randint(2, 5))]
    svals = [r.randint(0, 2) for _ in range(r.randint(1, 3))]

    def rec(vals, lvl=0):
      k, nxt = keys[lvl]
      if lvl == len(vals) - 1:
        return '{%s: %s}' % (k, vals[lvl])
      return '{%s: %s, %s: %s}' % (k, vals[lvl], nxt, rec(vals, lvl + 1))
    # each level: 'bound' (a variable bound by S), 'fresh' (a new variable), 'lit' (a constant)
    kinds = [r.choice(['bound', 'fresh', 'fresh', 'lit']) for _ in range(depth)]
    if 'fresh' not in kinds:
      kinds[-1] = 'fresh'
    pat, outv, conj_extra, lits = [], [], [], {}
    for i, kd in enumerate(kinds):
      v = 'v%d' % i
      if kd == 'lit':
        lits[i] = r.randint(0, 2)
        pat.append(str(lits[i]))
      else:
        pat.append(v)
        outv.append((i, v))
        if kd == 'bound':
          conj_extra.append('S(%s)' % v)
    form = r.choice(['arg', 'arg', 'unify_right', 'unify_left'])
    if form == 'arg':
      conj = ['T(%s)' % rec(pat)]
    elif form == 'unify_right':
      conj = ['T(r)', 'r == %s' % rec(pat)]
    else:
      conj = ['T(r)', '%s == r' % rec(pat)]
    conj += conj_extra
    head = ', '.join(v for _, v in outv)
    want = []
    for f in facts:
      if any(f[i] != c for i, c in lits.items()):
        continue
      mult = 1
      for i, kd in enumerate(kinds):
        if kd == 'bound':
          mult *= svals.count(f[i])
      want += [tuple(f[i] for i, _ in outv)] * mult
    want = sorted(want)
    base = '@Engine("sqlite");\n' + ''.join('T(%s);\n' % rec(f) for f in facts) + ''.join('S(%d);\n' % v for v in svals)
    orders = list(itertools.permutations(conj))
    if len(orders) > 6:
      orders = r.sample(orders, 6)
    outs = []
    for order in orders:
      t = base + 'Q(%s) :- %s;\n' % (head, ', '.join(order))
      st, a, b = logica_run.run_pred(t, 'Q')
      runs += 1
      outs.append((st, sorted(tuple(x) for x in b) if st == 'ok' else a, t))
    if all(o[0] == 'RuleCompile' for o in outs):
      continue      # rejected in every order: not an order question (and not this property)
    for st, rows, t in outs:
      if (st != 'ok' or rows != want) and bad < 3:
        if st == 'RuleCompile':
          key = 'record-pattern:rejected-in-some-order'
        else:
          key = 'record-pattern:%s' % (st if st != 'ok' else 'rows')
        bad += 1
        rep.violation(key, {
            'program_text': t, 'predicate': 'Q', 'expected_rows': want, 'observed': [st, rows if st == 'ok' else str(rows)[:300]],
            'other_orders': [[o[0], o[2].strip().split('\n')[-1]] for o in outs],
            'law': 'the rows of a rule do not depend on the order of its conjuncts (record patterns bind their fresh '
                   'fields and compare their bound and constant fields)',
            'how': 'vlib.logica_run.run_pred(program_text, "Q")'})
  rep.coverage['record_pattern_runs'] = runs
  rep.coverage['evaluations'] = rep.coverage.get('evaluations', 0) + runs


def unnest_order(rep, tier):
  """RuleStructure.SortUnnestings on a set of unnestings given in two different orders: the same result
  (theorem C07_from_order_independent_of_conjunct_order is about the model Core/Unnest.v, tied in the C09 check)."""
  from props import unnesttie
  r = common.rng('c07-unnest-order')
  n = 300 if tier == 'quick' else 5000
  bad = 0
  for _ in range(n):
    items = unnesttie.gen_case(r)
    a = unnesttie.real_sort(items)
    shuffled = list(items)
    r.shuffle(shuffled)
    b = unnesttie.real_sort(shuffled)
    if a != b and bad < 2:
      bad += 1
      rep.violation('unnest-order-depends-on-input-order', {
          'unnestings': [[nm, ms, comb] for nm, ms, comb in items], 'order_1': a,
          'unnestings_shuffled': [[nm, ms, comb] for nm, ms, comb in shuffled], 'order_2': b,
          'law': 'the order of the UNNEST items of the FROM list does not depend on the order of the `in` conjuncts',
          'how': 'props.unnesttie.real_sort (RuleStructure.SortUnnestings)'})
  # the theorem about this order (C07_from_order_independent_of_conjunct_order) is about Core/Unnest.v: the model and
  # the real function must agree on the same inputs
  tie = unnesttie.run_tie(r, 150 if tier == 'quick' else 2000)
  rep.coverage['unnest_order_tie'] = {k: v for k, v in tie.items() if k != 'mismatches'}
  if tie['mismatches'] or tie['error']:
    m = (tie['mismatches'] or [None])[0]
    if m:
      rep.violation('unnest-order-differs-from-model', dict(
          m, law='RuleStructure.SortUnnestings orders the UNNEST items as the model Core/Unnest.v does (smallest ready name '
                 'first, dependencies through aggregating expressions included), so that the order does not depend on the '
                 'order of the `in` conjuncts', how='props.unnesttie.real_sort on these unnestings'))
    else:
      rep.violation('tie-unnest', {'broken': 'Core/Unnest.v could not be evaluated: %s' % str(tie['error'])[-300:]}, no_input=True)
  rep.coverage['unnest_order_runs'] = 2 * n
  rep.coverage['evaluations'] = rep.coverage.get('evaluations', 0) + 2 * n


LONG_NAME_PROGRAM = """@Engine("sqlite");
%(T0)s("b", "b");
%(T1)s(1, "a", tag: 1);
%(T1)s(0, "a", tag: 2);
%(D0)s("a") distinct :- %(T1)s(2, "a", tag: x9), c17 == Sum{(c14 + c14) :- %(T0)s(x15, x15), %(T1)s(x9, "b", tag: x16)}, c14 == Sum{x13 :- %(T1)s(x9, x10, tag: x11), %(T1)s(x9, x12, tag: x13), x11 >= (x11 * x11)}, c21 == Sum{(c14 + c17) :- %(T1)s(x9, x18, tag: (x9 * c17)), %(T1)s(c14, x19, tag: x20)};
%(D1)s((x24 ++ x24), m0? Min= (if (c26 < c26) then x24 else x24)) distinct :- (c26 == (c26 * c26) | c26 != c26 | c26 != (c26 + c26)), %(T1)s(1, x24, tag: 2), %(T0)s(x24), c26 == Sum{x25 :- %(T1)s(x25, x24, tag: x25), x25 > (x25 - x25)};
%(D2)s(x27, x27) :- %(T1)s(x27, "a", tag: x27), %(T1)s(x27, "a", tag: 2);
%(D2)s(c29, c29) :- c29 == Count{(1 - 1) :- %(D0)s(x28), x28 <= (x28 ++ x28)}, (d30 == x28 | d30 == (x28 ++ x28)), %(D0)s(x28), %(D1)s(x28, m0: x28);
"""


def long_name_probe(rep):
  """A program (found by the long-name renaming variant, reduced) in which three predicates have names of 100
  characters or more: renaming them to short names must not matter.  Known finding: NamesAllocator.AllocateTable
  drops the name hint at 100 characters, and the allocators of different rules then hand out the same WITH name."""
  from vlib import logica_run
  pad = lambda c, n: (c + 'LongPredicateName' * 7)[:n]
  long_ = {'T0': pad('Tzero', 108), 'T1': pad('Tone', 104), 'D0': pad('Dzero', 104), 'D1': pad('Done', 41), 'D2': pad('Dtwo', 92)}
  short = {k: v[:5] for k, v in long_.items()}
  outs = {}
  for label, nm in (('short', short), ('long', long_)):
    st, a, b = logica_run.run_pred(LONG_NAME_PROGRAM % nm, nm['D2'])
    outs[label] = (st, sorted(map(tuple, b)) if st == 'ok' else str(a)[-80:])
  rep.coverage['long_name_probe'] = {k: v[0] for k, v in outs.items()}
  if outs['short'] != outs['long']:
    rep.violation('predicate-names-of-100-characters', {
        'program_text': LONG_NAME_PROGRAM % long_, 'predicate': long_['D2'], 'outcome_with_short_names': outs['short'],
        'outcome_with_long_names': outs['long'], 'law': 'consistently renaming predicates does not change the rows',
        'how': 'vlib.logica_run.run_pred(program_text, predicate)'})


def functor_renaming(rep, tier):
  """Programs with functor applications (the families of props/c04.py): renaming the made predicates so that their
  alphabetical order changes must not change the rows of any of them."""
  import re
  from props import c04
  r = common.rng('c07-functor-renaming')
  cases = c04.family_cases(r)
  if tier == 'quick':
    cases = [c for c in cases if any(k in str(c.get('features')) for k in ('two_applications', 'different_bindings',
                                                                            'functor_of_functor', 'intermediate'))][:8]
  runs = bad = 0
  for case in cases:
    text = case['impl']
    made = sorted(set(re.findall(r'^(\w+) := ', text, re.M)))
    if len(made) < 2:
      continue
    # new names in the reverse alphabetical order of the old ones
    news = ['R%s%s' % (chr(ord('a') + len(made) - 1 - i), m) for i, m in enumerate(made)]
    renamed = text
    for old, new in zip(made, news):
      renamed = re.sub(r'\b%s\b' % old, new, renamed)
    st1, p1 = c04.program_of(text)
    st2, p2 = c04.program_of(renamed)
    if st1 != 'ok' or st2 != 'ok':
      if st1 != st2 and bad < 2:
        bad += 1
        rep.violation('functor-renaming:%s-vs-%s' % (st1, st2), {
            'program_text': text, 'renamed_program_text': renamed, 'observed': [st1, st2],
            'law': 'consistently renaming predicates does not change the outcome'})
      continue
    for old, new in zip(made, news):
      a, b = c04.rows_of(p1, old), c04.rows_of(p2, new)
      runs += 2
      if a != b and bad < 2:
        bad += 1
        rep.violation('functor-renaming:rows', {
            'program_text': text, 'predicate': old, 'rows': a, 'renamed_program_text': renamed, 'renamed_predicate': new,
            'rows_after_renaming': b, 'law': 'consistently renaming predicates (here: the names of functor applications, '
                                             'so that their alphabetical order changes) does not change the rows',
            'how': 'props.c04.program_of(text) / rows_of(program, predicate)'})
  rep.coverage['functor_renaming_runs'] = runs
  rep.coverage['evaluations'] = rep.coverage.get('evaluations', 0) + runs


def mixed_aggregation_heads(rep, tier):
  """Rules of one predicate whose heads aggregate differently (another operator, aggregated vs plain, distinct vs
  not): whatever the compiler makes of it, the two orders of the rules must give the same outcome."""
  from vlib import logica_run
  r = common.rng('c07-mixed-heads')
  ops = ['Max', 'Min', 'Sum', 'Count', 'List']
  runs = bad = 0
  for it in range(12 if tier == 'quick' else 120):
    o1, o2 = r.sample(ops, 2)
    kind = ['operators', 'operators', 'agg-vs-plain', 'distinct-vs-not'][it % 4]
    if kind == 'operators':
      rules = ['M(k: "k", v? %s= a) distinct :- A(a);' % o1, 'M(k: "k", v? %s= b) distinct :- B(b);' % o2]
    elif kind == 'agg-vs-plain':
      rules = ['M(k: "k", v? %s= a) distinct :- A(a);' % o1, 'M(k: "k", v: b) distinct :- B(b);']
    else:
      rules = ['M(k: "k", v: a) distinct :- A(a);', 'M(k: "k", v: b) :- B(b);']
    facts = ''.join('A(%d);\n' % r.randint(1, 9) for _ in range(3)) + ''.join('B(%d);\n' % r.randint(1, 9) for _ in range(3))
    outs = []
    for order in (rules, rules[::-1]):
      t = '@Engine("sqlite");\n' + facts + '\n'.join(order) + '\n'
      st, a, b = logica_run.run_pred(t, 'M')
      runs += 1
      # a rejection is a rejection: which of the four diagnostic classes reports it may depend on which rule is seen first
      st = 'rejected' if st in logica_run.DIAGNOSTIC else st
      outs.append((st, sorted(map(repr, b)) if st == 'ok' else None, t))
    if (outs[0][0], outs[0][1]) != (outs[1][0], outs[1][1]) and bad < 2:
      bad += 1
      rep.violation('mixed-aggregation-heads:%s' % kind, {
          'program_text': outs[0][2], 'observed': list(outs[0][:2]), 'program_text_other_order': outs[1][2],
          'observed_other_order': list(outs[1][:2]), 'predicate': 'M',
          'law': 'the order of the rules of a predicate does not change the outcome (rows, or the class of the diagnostic)',
          'how': 'vlib.logica_run.run_pred(program_text, "M")'})
  rep.coverage['mixed_head_runs'] = runs
  rep.coverage['evaluations'] = rep.coverage.get('evaluations', 0) + runs


def run(tier, replay=None):
  rep = common.Report(PID, tier, 'other')
  if replay and K.replay_program_rows(rep, replay):
    return rep.finish()
  rep.assumptions = [
      'oracle: Core/Eval.v on the ORIGINAL program; every permuted / renamed text must return that bag on SQLite',
      'List/Set element order and ArgMin/ArgMax ties are exempt (list-valued aggregate columns compared sorted)',
  ]
  ok, info = proof.proof_stage(rep, PID, extra_trusted=['props/variants.py (permutation and renaming of the AST)',
                                                       'props/coregen.py printers', 'Core/Check.v'])
  variants = [
      ('plain', lambda prog, r: G.p_program(prog)),
      ('permute_statements', lambda prog, r: V.permute(prog, r, rules=True, conj=False, disj=False)),
      ('permute_conjuncts', lambda prog, r: V.permute(prog, r, rules=False, conj=True, disj=False)),
      ('permute_disjuncts', lambda prog, r: V.permute(prog, r, rules=False, conj=False, disj=True)),
      ('permute_all', lambda prog, r: V.permute(prog, r)),
      ('caller_uses_callee_local_names', V.capture_bait),
      ('sibling_combines_share_local_names', V.siblings_share_local_names),
      ('rename_variables', lambda prog, r: V.rename(prog, r, variables=True, predicates=False)),
      ('rename_predicates', lambda prog, r: V.rename(prog, r, variables=False, predicates=True)),
      ('rename_predicates_long_names', lambda prog, r: V.rename(prog, r, variables=False, predicates=True, long_names=True)),
  ]
  K.run_core(rep, PID, tier, PROFILE, variants, 60, 150, 'c07', replay=replay, ok=ok, info=info, metamorphic=True)
  if not replay:
    arrival_order(rep, tier)
    sibling_scopes(rep, tier)
    record_patterns(rep, tier)
    unnest_order(rep, tier)
    long_name_probe(rep)
    functor_renaming(rep, tier)
    mixed_aggregation_heads(rep, tier)
  return rep.finish()
