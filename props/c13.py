"""C13 — compilation is a deterministic, history-free function of the program.

Proof (partial, level `other`): coq/theories/Props/C13.v about Lex/Session.v, the model of the module-level
parser switch parse.TOO_MUCH (EnactIncantations) and of ParseGenericCall's good_chars test: history freedom
holds if the switch is recomputed per main file; with the sticky switch it is refuted by a concrete witness.
Tie: the incantation literal is read from parse.py (ast); parse.ParseGenericCall / ParseExpression under both
values of the switch vs the model's call_head / read on generated texts.

What the model cannot exhibit (hash-randomised set/dict iteration, module- and class-level state of the
compiler, cross-process state) is decided by exploration of the real code only:
  * fresh subprocesses with PYTHONHASHSEED in 0..15 (thorough 0..127) compile generated + corpus programs;
  * one process compiles the same programs under histories: every other program first, a program with the
    incantation first, the same parsed rules object reused, a type-checked dialect first;
  * byte comparison of FormattedPredicateSql, execution.preamble / defines_and_exports / table_to_export_map
    and of the parsed rules (JSON), with the time-stamped stop-file name masked, against a fresh process
    (one process per program, PYTHONHASHSEED=0).
"""
import ast
import json
import os
import re
import shutil
import subprocess
import sys
import tempfile
import time

from vlib import common, coqrun, proof

PID = 'C13'
MASK = re.compile(r'logical_stop_\d+_')


# =====================================================================================================
# programs
# =====================================================================================================
def incantation_from_source():
  """The literal tested by EnactIncantations, read from the current parse.py (fail closed)."""
  with open(os.path.join(common.REPO, 'parser_py', 'parse.py')) as f:
    tree = ast.parse(f.read())
  for node in ast.walk(tree):
    if isinstance(node, ast.FunctionDef) and node.name == 'EnactIncantations':
      for n in ast.walk(node):
        if isinstance(n, ast.Compare) and isinstance(n.ops[0], ast.In) and isinstance(n.left, ast.Constant) \
            and isinstance(n.left.value, str):
          return n.left.value
  raise RuntimeError('EnactIncantations: cannot find `<literal> in main_code`')


def hand_programs(inc):
  P = []

  def add(pid, text, pred, family, **kw):
    P.append(dict(id=pid, text=text, pred=pred, family=family, **kw))
  add('plain_star_call', '@Engine("sqlite");\nF(x) = x + 1;\nP(y) :- y == 2*F(3);\n', 'P', 'switch-sensitive')
  add('plain_div_call', '@Engine("sqlite");\nG(x) = x + 1;\nP(y) :- y == 10/G(1);\n', 'P', 'switch-sensitive')
  add('with_incantation', '@Engine("sqlite");\n# %s\nF(x) = x + 1;\nP(y) :- y == 2 * F(3);\n' % inc, 'P',
      'incantation')
  add('functor_chain', '''@Engine("sqlite");
A(x) :- x in [1, 2, 3];
B(x) :- x in [10, 20];
C(x) :- x in [7];
T(x + y) :- A(x), B(y);
U(x) :- T(x) | C(x);
T1 := T(A: B);
T2 := T(B: C);
U1 := U(T: T1, C: A);
U2 := U(T: T2);
U3 := U1(A: C);
Out(x) :- U1(x) | U2(x) | U3(x) | T2(x);
''', 'Out', 'functors')
  add('recursion_default', '''@Engine("sqlite");
E(1, 2); E(2, 3); E(3, 4); E(4, 1);
TC(a, b) distinct :- E(a, b);
TC(a, c) distinct :- TC(a, b), E(b, c);
Odd(a, b) distinct :- E(a, b);
Odd(a, c) distinct :- Even(a, b), E(b, c);
Even(a, c) distinct :- Odd(a, b), E(b, c);
Out(a, b) :- TC(a, b), Odd(a, b) | Even(a, b);
''', 'Out', 'recursion')
  add('recursion_equal_length_names', '''@Engine("sqlite");
N(x) :- x in Range(30);
Even(x) distinct :- x == 0;
Even(x) distinct :- Odds(y), N(x), x == y + 1;
Odds(x) distinct :- Even(y), N(x), x == y + 1;
Zeta(x) distinct :- x == 0;
Zeta(x) distinct :- Yoda(y), N(x), x == y + 2;
Yoda(x) distinct :- Zeta(y), N(x), x == y + 1;
Out(m, k) :- m == Max{x :- Even(x)}, k == Max{x :- Yoda(x)};
''', 'Out', 'recursion')
  add('recursion_deep', '''@Engine("sqlite");
@Recursive(N, 25);
N(0);
N(n + 1) :- N(n), n < 40;
M(x) :- N(x);
@Recursive(K, 3);
K(0);
K(n + 1) :- K(n), M(n);
Out(x) :- K(x) | N(x);
''', 'Out', 'recursion')
  add('recursion_iterative', '''@Engine("sqlite");
@Recursive(N, 9, iterative: true);
N(0);
N(n + 1) :- N(n), n < 40;
@Recursive(A, 6, iterative: true);
A(0);
A(n + 1) :- B(n);
B(n + 1) :- A(n), n < 9;
Out(x) :- A(x) | B(x) | N(x);
''', 'Out', 'recursion')
  add('recursion_stop', '''@Engine("duckdb");
@OrderBy(N, "logica_value", "col0");
N(0) = 0;
N(i + 1) = 0 :- N(i) = 0;
N(i + 1) = n + 1 :- n = N(i), n < 7;
PN() = N();
@Recursive(N, mode: "diamond", stop: Stop);
Stop() :- Max{N()} == Max{PN()};
@Recursive(Q, 30, stop: QStop);
Q(0);
Q(x + 1) :- Q(x), x < 5;
QStop() :- Q(5);
Test := N();
Out(x) :- Q(x), Test(x);
''', 'Out', 'recursion-stop')
  add('ground', '''@Engine("sqlite");
@Ground(A);
A(x) :- x in [1, 2];
@Ground(B);
B(x + 1) :- A(x);
@Ground(C, "my_c");
C(x) :- B(x) | A(x);
D(x) :- C(x), B(x);
Out(x) :- D(x) | C(x);
''', 'Out', 'ground')
  add('typed_psql', '''@Engine("psql");
P(a: 1, b: "x", c: [1, 2], d: {e: 1.5, f: ["u"]});
Q(x, y) :- P(a: x, d: y);
R(z) :- Q(x, y), z = {p: x, q: y.f};
Out(z, n) :- R(z), n = Size(z.q);
''', 'Out', 'typed')
  add('sqlite_log', '@Engine("sqlite");\nP(y, z) :- y == Log(8.0), z == ToInt64(2.5);\n', 'P', 'builtin-cache')
  add('typed_duckdb', '''@Engine("duckdb");
P(a: 1, b: "x", c: [1, 2], d: {e: 1.5, f: ["u"]});
Q(x, y) :- P(a: x, d: y);
R(z) :- Q(x, y), z = {p: x, q: y.f};
S(k) Max= v :- R(z), k = z.p, v in z.q;
Out(z, n) :- R(z), n = Size(z.q), S(z.p);
''', 'Out', 'typed')
  add('udf_preamble', '''@Engine("bigquery");
@CompileAsUdf(Triple);
Triple(x) = 3 * x;
@CompileAsUdf(Shifted);
Shifted(x) = x + 7;
@CompileAsUdf(Halved);
Halved(x) = x / 2;
@CompileAsUdf(Squared);
Squared(x) = x * x;
@CompileAsUdf(Nested);
Nested(x) = Triple(Shifted(x));
T(x) :- x in [1, 2, 3];
Out(a: Triple(x), b: Shifted(x), c: Halved(x), d: Squared(x), e: Nested(x)) :- T(x);
''', 'Out', 'udf-preamble')
  return P


UDF_WORDS = ['Alpha', 'Bravo', 'Coral', 'Delta', 'Ember', 'Fjord', 'Gamma', 'Helix', 'Ionic', 'Jolly', 'Kappa', 'Lumen']


def gen_udf_program(r, k):
  """A generated BigQuery program whose preamble holds several CREATE TEMP FUNCTION definitions."""
  names = r.sample(UDF_WORDS, r.randint(3, 7))
  lines = ['@Engine("bigquery");']
  for i, n in enumerate(names):
    lines.append('@CompileAsUdf(%s);' % n)
    if i and r.random() < 0.3:
      lines.append('%s(x) = %s(x) + %d;' % (n, r.choice(names[:i]), i))
    else:
      lines.append('%s(x) = x %s %d;' % (n, r.choice('+-*'), r.randint(2, 9)))
  lines.append('T(x) :- x in [1, 2, 3];')
  used = r.sample(names, r.randint(2, len(names)))
  lines.append('Mid(%s) :- T(x);' % ', '.join('f%d: %s(x)' % (i, n) for i, n in enumerate(used[:len(used) // 2 + 1])))
  lines.append('Out(%s) :- T(x), Mid(f0: y);' % ', '.join(['y'] + ['%s(x)' % n for n in used]))
  return dict(id='udf%d' % k, text='\n'.join(lines) + '\n', pred='Out', family='generated:udf-preamble')


def gen_program(r, k):
  """A generated SQLite program mixing functors, mutual recursion and @Ground."""
  n_base = r.randint(2, 4)
  lines = ['@Engine("sqlite");']
  base = ['B%d' % i for i in range(n_base)]
  for i, b in enumerate(base):
    lines.append('%s(x) :- x in [%s];' % (b, ', '.join(str(10 * i + j) for j in range(r.randint(1, 3)))))
  lines.append('Tm(x + y) :- %s(x), %s(y);' % (base[0], base[1]))
  lines.append('Um(x) :- Tm(x) | %s(x);' % base[-1])
  made = []
  deps = {'Tm': {base[0], base[1]}, 'Um': {base[0], base[1], base[-1]}}
  for i in range(r.randint(2, 4)):
    src = r.choice(['Tm', 'Um'] + made)
    avail = sorted(deps[src])
    if not avail:
      continue
    args = r.sample(avail, r.randint(1, min(2, len(avail))))
    vals = [r.choice(base) for _ in args]
    name = 'F%d' % i
    lines.append('%s := %s(%s);' % (name, src, ', '.join('%s: %s' % (a, v) for a, v in zip(args, vals))))
    deps[name] = (deps[src] - set(args)) | set(vals)
    made.append(name)
  # a mutual recursion group
  g = r.randint(1, 3)
  rec = ['R%d' % i for i in range(g)]
  mode = r.choice(['default', 'deep', 'iterative'])
  if mode == 'deep':
    lines.append('@Recursive(%s, %d);' % (rec[0], r.randint(21, 26)))
  elif mode == 'iterative':
    lines.append('@Recursive(%s, %d, iterative: true);' % (rec[0], r.randint(5, 9)))
  lines.append('%s(x) distinct :- %s(x);' % (rec[0], r.choice(base)))
  for i in range(g):
    lines.append('%s(x + 1) distinct :- %s(x), x < %d;' % (rec[(i + 1) % g], rec[i], r.randint(20, 40)))
  for nm in r.sample(base + made, r.randint(0, 2)):
    lines.append('@Ground(%s);' % nm)
  outs = r.sample(made + rec + base, r.randint(2, 4))
  lines.append('Out(x) :- %s;' % ' | '.join('%s(x)' % o for o in outs))
  return dict(id='gen%d' % k, text='\n'.join(lines) + '\n', pred='Out', family='generated:' + mode)


def import_program(top):
  d = os.path.join(top, 'imp')
  os.makedirs(os.path.join(d, 'd1'), exist_ok=True)
  os.makedirs(os.path.join(d, 'd2'), exist_ok=True)
  with open(os.path.join(d, 'd1', 'alpha.l'), 'w') as f:
    f.write('import d2.beta.G;\nimport d2.gamma.H as Hh;\nHelper(x) :- x in [1, 2];\nF(x + 1) :- Helper(x) | G(x) | Hh(x);\n')
  with open(os.path.join(d, 'd2', 'beta.l'), 'w') as f:
    f.write('import d2.gamma.H;\nHelper(x) :- x in [10];\nG(x) :- Helper(x) | H(x);\n')
  with open(os.path.join(d, 'd2', 'gamma.l'), 'w') as f:
    f.write('Helper(x) :- x in [100];\nH(x) :- Helper(x);\n')
  return dict(id='imports', text='@Engine("sqlite");\nimport d1.alpha.F;\nimport d2.beta.G as Gg;\nOut(x) :- F(x) | Gg(x);\n',
              pred='Out', family='imports', import_root=d)


def corpus_programs(tier, r):
  d = os.path.join(common.REPO, 'integration_tests')
  names = sorted(n for n in os.listdir(d) if n.endswith('.l'))
  out = []
  buckets = {}
  for n in names:
    with open(os.path.join(d, n)) as f:
      t = f.read()
    if not re.search(r'^Test\b', t, re.M) or n.startswith('import_root'):
      continue
    if 'bigquery' in t or '@Engine' not in t:
      fam = 'corpus:default-engine'
    else:
      fam = 'corpus:' + (re.search(r'@Engine\("(\w+)"', t) or [None, '?'])[1]
    feats = [k for k, pat in (('rec', '@Recursive'), ('functor', ':='), ('ground', '@Ground'), ('import', '\nimport '))
             if pat in t]
    item = dict(id='corpus/' + n, text=t, pred='Test', family=fam, import_root=common.REPO, feats=feats)
    out.append(item)
    for ft in feats or ['plain']:
      buckets.setdefault(ft, []).append(item)
  if tier == 'thorough':
    return out
  pick = []
  for ft in ('rec', 'functor'):
    c = [x for x in buckets.get(ft, []) if x not in pick]
    pick += r.sample(c, min(1, len(c)))
  return pick


def all_programs(tier, r, top):
  inc = incantation_from_source()
  P = hand_programs(inc)
  P.append(import_program(top))
  for k in range(2 if tier == 'quick' else 40):
    P.append(gen_program(r, k))
  for k in range(2 if tier == 'quick' else 12):
    P.append(gen_udf_program(r, k))
  P += corpus_programs(tier, r)
  return P, inc


# =====================================================================================================
# worker: one process = one history
# =====================================================================================================
def mask(x):
  if isinstance(x, str):
    return MASK.sub('logical_stop_T_', x)
  if isinstance(x, list):
    return [mask(v) for v in x]
  if isinstance(x, dict):
    return {mask(k): mask(v) for k, v in x.items()}
  return x


def observe_step(step, cache):
  """Parses/compiles one program in this process and returns the observation."""
  import contextlib
  import io
  from vlib import logica_run
  parse, universe = logica_run.modules()[:2]
  obs = {'id': step['id'], 'kind': step['kind']}
  sink = io.StringIO()
  try:
    with contextlib.redirect_stdout(sink), contextlib.redirect_stderr(sink):
      root = step.get('import_root')
      if step['kind'] == 'parse':
        rules = parse.ParseFile(step['text'], import_root=root)['rule']
        obs['rules'] = json.dumps(rules, sort_keys=False, default=str)
        obs['status'] = 'ok'
      else:
        if step['kind'] == 'reuse' and step['id'] in cache:
          rules = cache[step['id']]
        else:
          rules = parse.ParseFile(step['text'], import_root=root)['rule']
          cache[step['id']] = rules
        before = json.dumps(rules, sort_keys=False, default=str)
        program = universe.LogicaProgram(rules, user_flags=step.get('flags') or {})
        closure = program.PerformIterationClosure

        def counted_closure(allocator):
          n0 = len(program.execution.defines_and_exports)
          closure(allocator)
          obs['closure_added'] = len(program.execution.defines_and_exports) - n0
        program.PerformIterationClosure = counted_closure
        sql = program.FormattedPredicateSql(step['pred'])
        ex = program.execution
        obs.update({'status': 'ok', 'rules': before, 'sql': sql, 'preamble': ex.preamble,
                    'defines': list(ex.defines_and_exports),
                    'export': [[k, v] for k, v in ex.table_to_export_map.items()],
                    'rules_unchanged': json.dumps(rules, sort_keys=False, default=str) == before})
  except BaseException as e:  # pylint: disable=broad-except
    obs['status'] = logica_run.classify(e)
    obs['message'] = ('%s' % (e,))[:500]
  obs['too_much'] = parse.TOO_MUCH
  return mask(obs)


def heads_step(step):
  """Tie of Lex/Session.v: ParseGenericCall / ParseExpression under both values of the switch."""
  from vlib import logica_run
  parse = logica_run.modules()[0]
  out = {'heads': [], 'reads': []}
  saved = parse.TOO_MUCH
  try:
    for s in step['heads']:
      row = []
      for val in ('too much', 'fun'):
        parse.TOO_MUCH = val
        try:
          g = parse.ParseGenericCall(parse.HeritageAwareString(s), '(', ')')
          row.append(None if g is None else [str(g[0]), str(g[1])])
        except BaseException as e:  # pylint: disable=broad-except
          row.append(['!' + type(e).__name__, ''])
      out['heads'].append(row)
    for s in step['reads']:
      row = []
      for val in ('too much', 'fun'):
        parse.TOO_MUCH = val
        try:
          e = parse.ParseExpression(parse.HeritageAwareString(s))
          row.append(shape(e))
        except BaseException as ex:  # pylint: disable=broad-except
          row.append(['!' + type(ex).__name__])
      out['reads'].append(row)
  finally:
    parse.TOO_MUCH = saved
  return out


def arg_text(fv):
  v = fv['value']['expression']
  if 'literal' in v and 'the_number' in v['literal']:
    return v['literal']['the_number']['number']
  if 'variable' in v:
    return v['variable']['var_name']
  return None


def shape(e):
  """['call', p, arg] | ['times', l, 'call', p, arg] | ['times', l, 'atom', r] | ['atom', s] | ['other']."""
  if 'call' in e:
    c = e['call']
    fvs = c['record']['field_value']
    if c['predicate_name'] == '*' and len(fvs) == 2:
      l = str(fvs[0]['value']['expression'].get('expression_heritage', '')) or arg_text(fvs[0])
      rexp = fvs[1]['value']['expression']
      if l is None:
        return ['other']
      if 'call' in rexp and rexp['call']['predicate_name'] != '*' and len(rexp['call']['record']['field_value']) == 1:
        return ['times', l, 'call', rexp['call']['predicate_name'], arg_text(rexp['call']['record']['field_value'][0])]
      ra = arg_text(fvs[1])
      return ['times', l, 'atom', ra] if ra is not None else ['other']
    if len(fvs) == 1 and arg_text(fvs[0]) is not None:
      return ['call', c['predicate_name'], arg_text(fvs[0])]
    return ['other']
  if 'variable' in e:
    return ['atom', e['variable']['var_name']]
  if 'literal' in e and 'the_number' in e['literal']:
    return ['atom', e['literal']['the_number']['number']]
  return ['other']


def worker_main(argv):
  with open(argv[0]) as f:
    spec = json.load(f)
  cache = {}
  res = []
  for step in spec['steps']:
    if step['kind'] == 'heads':
      res.append(heads_step(step))
    else:
      res.append(observe_step(step, cache))
  with open(argv[1], 'w') as f:
    json.dump(res, f)


class Pool:
  """At most `width` worker subprocesses at a time."""

  def __init__(self, top, width=4):
    self.top, self.width = top, width
    self.jobs = []

  def add(self, tag, steps, seed=0, parser=None):
    self.jobs.append({'tag': tag, 'steps': steps, 'seed': seed, 'parser': parser})

  def run(self):
    running, results, queue = [], {}, list(self.jobs)
    n = 0
    while queue or running:
      while queue and len(running) < self.width:
        j = queue.pop(0)
        n += 1
        sf, of = os.path.join(self.top, 'spec%d.json' % n), os.path.join(self.top, 'out%d.json' % n)
        with open(sf, 'w') as f:
          json.dump({'steps': j['steps']}, f)
        env = dict(os.environ)
        env.pop('LOGICA_PARSER', None)
        env.update({'PYTHONHASHSEED': str(j['seed']), 'PYTHONPATH': common.VERIF, 'PYTHONDONTWRITEBYTECODE': '1'})
        if j['parser'] == 'CPP':
          cache = os.path.join(self.top, 'xdg')
          os.makedirs(cache, exist_ok=True)
          env.update({'LOGICA_PARSER': 'CPP', 'XDG_CACHE_HOME': cache})
        p = subprocess.Popen(['timeout', '3000', common.PY, '-m', 'props.c13', '--worker', sf, of], env=env,
                             cwd=common.VERIF, stdout=subprocess.PIPE, stderr=subprocess.STDOUT, text=True)
        running.append((j, p, of))
      for item in list(running):
        j, p, of = item
        if p.poll() is not None:
          running.remove(item)
          out = p.stdout.read()
          if p.returncode == 0 and os.path.exists(of):
            with open(of) as f:
              results[j['tag']] = json.load(f)
          else:
            results[j['tag']] = {'crash': out[-2000:]}
      time.sleep(0.05)
    return results


# =====================================================================================================
# model side (tie of Lex/Session.v)
# =====================================================================================================
def cq_text(s):
  return '[' + ';'.join(str(ord(c)) for c in s) + ']'


def split_on(nums, sep):
  out, cur = [], []
  for v in nums:
    if v == sep:
      out.append(cur)
      cur = []
    else:
      cur.append(v)
  out.append(cur)
  return out


def txt(nums):
  return ''.join(chr(v) for v in nums)


def decode_head(nums):
  if nums == [0]:
    return None
  p, a = split_on(nums[1:], 249)
  return [txt(p), txt(a)]


def decode_tree(nums):
  k = nums[0]
  parts = [txt(x) for x in split_on(nums[1:], 249)]
  if k == 1:
    return ['call', parts[0], parts[1]]
  if k == 2:
    return ['times', parts[0], 'call', parts[1], parts[2]]
  if k == 3:
    return ['times', parts[0], 'atom', parts[1]]
  if k == 4:
    return ['atom', parts[0]]
  return ['other']


def model_tie(heads, reads, inc):
  text = ('From Coq Require Import List NArith. Import ListNotations.\n'
          'From LV Require Import Lex.Session Lex.SessionCheck.\nOpen Scope N_scope.\n'
          'Eval vm_compute in heads [%s].\nEval vm_compute in reads [%s].\nEval vm_compute in (incantation ++ []).\n'
          % (';'.join(cq_text(s) for s in heads), ';'.join(cq_text(s) for s in reads)))
  rc, out = coqrun.coq_eval(text, timeout=600)
  if rc != 0:
    return None, out
  ls = coqrun.parse_vm_list(out)
  if len(ls) != 3:
    return None, out
  res = {'heads': [], 'reads': []}
  for key, dec, l in (('heads', decode_head, ls[0]), ('reads', decode_tree, ls[1])):
    for case in split_on([int(x) for x in l], 248)[1:]:
      a, b = split_on(case, 247)
      res[key].append([dec(a), dec(b)])
  res['incantation'] = txt([int(x) for x in ls[2]])
  return res, out


def tie_texts(r, n):
  alpha = 'abFGxyZ019_.@+-*/%^'
  heads = ['2*F(3)', 'F(3)', '10/G(1)', '(3)', 'a b(1)', 'F(3', 'x(1)y']
  for _ in range(n):
    h = ''.join(r.choice(alpha) for _ in range(r.randint(1, 4)))
    if '/*' in h:      # opens a comment: outside the model
      continue
    heads.append('%s(%d)' % (h, r.randint(0, 99)))
  reads = ['2*F(3)', 'x*G(1)', 'F(3)', '2*Ab(7)', 'a*b', '7', 'x', '3*y', 'Q(x)', '2*a*F(1)']
  return heads, reads


# =====================================================================================================
# comparison
# =====================================================================================================
FIELDS = ('status', 'message', 'rules', 'sql', 'preamble', 'defines', 'export')


def diff_obs(ref, obs):
  """Names of the fields in which two observations of the same program differ."""
  return [k for k in FIELDS if ref.get(k) != obs.get(k)]


def closure_order_only(ref, obs):
  """Only the order (and allocator numbering) of the statements that PerformIterationClosure appended differs."""
  if any(ref.get(k) != obs.get(k) for k in ('status', 'message', 'rules', 'preamble')):
    return False
  a, b = ref.get('defines') or [], obs.get('defines') or []
  ca = ref.get('closure_added') or 0
  # statements compiled inside the closure also draw their table aliases (x_23) from the shared allocator
  norm = lambda l: sorted(re.sub(r'_\d+', '_N', x) for x in l)
  if ca < 2 or ca != obs.get('closure_added') or norm(a) != norm(b):
    return False
  return a[:len(a) - ca] == b[:len(b) - ca]


OPNAME = re.compile(r'"predicate_name": "[^"]*[A-Za-z0-9][*/%^][^"]*"')


def switch_signature(ref, obs):
  """The observed rules call a predicate whose name contains * / % ^ and the fresh rules do not."""
  return bool(OPNAME.search(obs.get('rules') or '')) and not OPNAME.search(ref.get('rules') or '')


def first_difference(a, b):
  a, b = str(a), str(b)
  for i, (x, y) in enumerate(zip(a, b)):
    if x != y:
      return i, a[max(0, i - 60):i + 60], b[max(0, i - 60):i + 60]
  return min(len(a), len(b)), a[-80:], b[-80:]


def run(tier, replay=None):
  rep = common.Report(PID, tier, 'other')
  rep.assumptions = [
      'model (Lex/Session.v): only the parser switch parse.TOO_MUCH and ParseGenericCall\'s good_chars test on texts '
      'head(args) / l*head(args) without strings, nesting, spaces or comment openers; non-ASCII operator symbols outside the model',
      'hash-seed independence and history independence of the compiler (universe.py, functors.py, expr_translate.py '
      'class-level caches) are NOT proved: they are explored on the real code for the listed programs, seeds and histories',
      'fresh reference = one subprocess per program with PYTHONHASHSEED=0; stop-file names logical_stop_<time>_ masked',
      'CPython trusted; harness props/c13.py trusted',
  ]
  ok, info = proof.proof_stage(rep, PID, extra_trusted=[
      'correspondence harness props/c13.py + Lex/SessionCheck.v'])
  top = tempfile.mkdtemp(prefix='lv_c13_')
  try:
    return _run(rep, tier, replay, ok, info, top)
  finally:
    shutil.rmtree(top, ignore_errors=True)


def step_of(p, kind='compile'):
  return {'id': p['id'], 'kind': kind, 'text': p['text'], 'pred': p['pred'], 'import_root': p.get('import_root')}


def _run(rep, tier, replay, ok, info, top):
  r = common.rng('c13')
  t0 = time.time()
  programs, inc = all_programs(tier, r, top)
  seeds = list(range(16 if tier == 'quick' else 128))
  histories = ['others-first', 'incantation-first', 'failed-incantation-first', 'reuse-rules', 'typed-first', 'incantation-first/CPP']
  if replay:
    with open(replay) as f:
      rp = json.load(f)
    programs = [p for p in programs if p['id'] in (rp['program']['id'], 'with_incantation', 'typed_psql')]
    if rp['program']['id'] not in [p['id'] for p in programs]:
      programs.append(rp['program'])
    seeds = [rp['seed']] if rp.get('seed') is not None else []
    histories = [rp['history']] if rp.get('history') else []
  by_id = {p['id']: p for p in programs}
  inc_prog = by_id.get('with_incantation') or hand_programs(inc)[2]
  typed = by_id.get('typed_psql') or hand_programs(inc)[-2]

  pool = Pool(top, 4)
  # the slow, history-carrying processes first
  plain = [p for p in programs if p['family'] != 'incantation']
  if 'others-first' in histories:
    pool.add('hist/others-first', [step_of(p) for p in reversed(programs)] + [step_of(p) for p in plain])
  if 'incantation-first' in histories:
    pool.add('hist/incantation-first', [step_of(inc_prog, 'parse')] + [step_of(p) for p in plain])
  if 'failed-incantation-first' in histories:
    # a main file with the incantation that does NOT parse (unbalanced rule, then a missing import), then plain programs
    broken = dict(step_of(inc_prog, 'parse'), id='failed_incantation', text=inc_prog['text'] + '\nBrokenRule(x :- ;\n')
    broken2 = dict(step_of(inc_prog, 'parse'), id='failed_incantation_import', text='import nowhere.zz.Nope;\n' + inc_prog['text'])
    pool.add('hist/failed-incantation-first', [broken, broken2] + [step_of(p) for p in plain])
  if 'reuse-rules' in histories:
    pool.add('hist/reuse-rules', [s for p in plain for s in (step_of(p, 'reuse'), step_of(p, 'reuse'))])
  if 'typed-first' in histories:
    pool.add('hist/typed-first', [step_of(typed)] + [step_of(p) for p in plain])
  sens = [p for p in programs if p['family'] == 'switch-sensitive']
  if 'incantation-first/CPP' in histories and sens:
    pool.add('hist/incantation-first/CPP', [step_of(inc_prog, 'parse')] + [step_of(p) for p in sens], parser='CPP')
    for p in sens:
      pool.add('fresh/CPP/' + p['id'], [step_of(p)], parser='CPP')
  core = [p for p in programs if p['family'] not in ('switch-sensitive', 'incantation', 'typed', 'builtin-cache')
          and p['id'] != 'recursion_default' and (not p['id'].startswith('corpus/') or 'rec' in p.get('feats', []))] \
      if tier == 'quick' and not replay else programs
  if tier == 'thorough' and not replay:
    core = [p for p in programs if not p['id'].startswith('corpus/')]
  seed_programs = {s: (programs if (s < (1 if tier == 'quick' else 8) or replay) else core) for s in seeds}
  for s in seeds:
    pool.add('seed/%d' % s, [step_of(p) for p in seed_programs[s]], seed=s)
  for p in programs:
    pool.add('fresh/' + p['id'], [step_of(p)])
  heads, reads = tie_texts(r, 120 if tier == 'quick' else 1500)
  if not replay:
    pool.add('tie', [{'kind': 'heads', 'heads': heads, 'reads': reads}])
  results = pool.run()
  t_workers = time.time() - t0

  found = 0
  crashes = [k for k, v in results.items() if isinstance(v, dict) and 'crash' in v]
  stats = {'programs': len(programs), 'families': {}, 'seeds': len(seeds), 'histories': histories,
           'status_of_fresh': {}, 'seed_comparisons': 0, 'history_comparisons': 0, 'differences': {}}
  for p in programs:
    stats['families'][p['family']] = stats['families'].get(p['family'], 0) + 1
  fresh = {}
  for p in programs:
    v = results.get('fresh/' + p['id'])
    if isinstance(v, list):
      fresh[p['id']] = v[0]
      stats['status_of_fresh'][v[0]['status']] = stats['status_of_fresh'].get(v[0]['status'], 0) + 1

  def report(key, p, where, ref, obs, seed=None, history=None):
    nonlocal found
    fields = diff_obs(ref, obs)
    k = fields[0]
    pos, a, b = first_difference(ref.get(k), obs.get(k))
    stats['differences'][key] = stats['differences'].get(key, 0) + 1
    if rep.known.lookup(PID, key) and stats['differences'][key] > 1:
      return
    if rep.violation(key, {
        'program': {kk: p[kk] for kk in ('id', 'text', 'pred', 'family', 'import_root') if kk in p},
        'seed': seed, 'history': history, 'where': where, 'fields_differing': fields,
        'first_difference': {'field': k, 'offset': pos, 'fresh': a, 'observed': b},
        'too_much_after': obs.get('too_much'),
        'how': 'fresh: one process, PYTHONHASHSEED=0, parse.ParseFile + universe.LogicaProgram(...).FormattedPredicateSql(pred); '
               'observed: the same call %s' % where}):
      found += 1

  # seeds
  for s in seeds:
    v = results.get('seed/%d' % s)
    if not isinstance(v, list):
      continue
    for p, obs in zip(seed_programs[s], v):
      ref = fresh.get(p['id'])
      if ref is None:
        continue
      stats['seed_comparisons'] += 1
      if diff_obs(ref, obs):
        # same history under seed 0?  then the history (programs compiled before) matters, else the seed
        v0 = results.get('seed/0')
        same_hist_seed0 = v0[programs.index(p)] if isinstance(v0, list) else None
        if s == 0 or (same_hist_seed0 is not None and not diff_obs(same_hist_seed0, obs)):
          key = 'history:sequence/%s' % p['id']
        elif closure_order_only(ref, obs):
          key = 'hashseed-iteration-closure'
        else:
          key = 'seed:%s' % p['id']
        if found < 6 or rep.known.lookup(PID, key):
          report(key, p, 'in a process with PYTHONHASHSEED=%d after compiling the programs listed before it' % s,
                 ref, obs, seed=s)
  # histories
  for h in histories:
    v = results.get('hist/' + h)
    if not isinstance(v, list):
      continue
    cpp = h.endswith('/CPP')
    if h == 'others-first':
      pairs = list(zip(plain, v[len(programs):]))
    elif h == 'reuse-rules':
      pairs = list(zip(plain, v[1::2]))
    elif h == 'failed-incantation-first':
      pairs = list(zip(plain, v[2:]))
    elif cpp:
      pairs = list(zip(sens, v[1:]))
    else:
      pairs = list(zip(plain, v[1:]))
    for p, obs in pairs:
      ref = fresh.get(p['id'])
      if cpp:
        rv = results.get('fresh/CPP/' + p['id'])
        ref = rv[0] if isinstance(rv, list) else None
      if ref is None:
        continue
      stats['history_comparisons'] += 1
      if h == 'reuse-rules':
        # the property speaks about the SQL; whether compiling changed the caller's rules object is only recorded
        if obs.get('rules') != ref.get('rules') or obs.get('rules_unchanged') is False:
          stats.setdefault('rules_object_changed_by_compiling', []).append(p['id'])
        obs = dict(obs, rules=ref.get('rules'))
      if diff_obs(ref, obs):
        if switch_signature(ref, obs) and (cpp or (obs.get('too_much') == 'fun' and ref.get('too_much') == 'too much')):
          key = 'sticky-too-much' + ('/CPP' if cpp else '')
        else:
          key = 'history:%s/%s' % (h, p['id'])
        if found < 6 or rep.known.lookup(PID, key):
          report(key, p, 'in one process, history = %s' % h, ref, obs, history=h)

  # tie of the Session model
  tie_bad = []
  if not replay:
    impl = results.get('tie')
    model, mlog = (None, '')
    if ok:
      model, mlog = model_tie(heads, reads, inc)
      if model is None:
        ok = False
        info['excerpt'] = mlog[-3000:]
    if model is not None and isinstance(impl, list):
      im = impl[0]
      if model['incantation'] != inc:
        tie_bad.append('incantation literal: parse.py %r vs model %r' % (inc, model['incantation']))
      for s, a, b in zip(heads, im['heads'], model['heads']):
        if a != b:
          tie_bad.append('ParseGenericCall(%r) under (off, on): %s, model call_head: %s' % (s, a, b))
      for s, a, b in zip(reads, im['reads'], model['reads']):
        if a != b:
          tie_bad.append('ParseExpression(%r) under (off, on): %s, model read: %s' % (s, a, b))
    elif ok:
      tie_bad.append('tie worker failed: %s' % (impl,))
  if crashes and not found:
    rep.violation('tie', {'broken': 'worker processes crashed', 'which': crashes[:5],
                          'excerpt': results[crashes[0]]['crash']}, no_input=True)
    found += 1
  if not ok and not found:
    rep.violation('proof', {'broken': 'theories/Props/C13.v, its dependencies or the model evaluation no longer check',
                            'failing_files': info.get('failing'), 'excerpt': info.get('excerpt', '')[:3000]},
                  no_input=True)
  elif tie_bad and not found:
    rep.violation('tie', {'broken': 'correspondence parse.py (TOO_MUCH, ParseGenericCall) vs Lex/Session.v',
                          'examples': tie_bad[:5], 'count': len(tie_bad)}, no_input=True)

  rep.coverage.update({
      'evaluations': stats['seed_comparisons'] + stats['history_comparisons'] + 2 * (len(heads) + len(reads)),
      'distinct_nontrivial': len([p for p in programs if fresh.get(p['id'], {}).get('status') == 'ok']),
      'rule': 'programs (hand-written families, generated, corpus integration_tests/*.l with a Test predicate) x hash seeds '
              'x histories, each compared byte for byte with a fresh process; non-trivial = the program compiles',
      'exhaustive': False,
      'samples': [{'id': p['id'], 'family': p['family'], 'text': p['text'][:400]} for p in programs[3:6]],
      'distribution': stats,
      'tie_disagreements': len(tie_bad),
      'tie_examples': tie_bad[:5],
      'workers_wall_s': round(t_workers, 1),
  })
  return rep.finish()


if __name__ == '__main__':
  if len(sys.argv) >= 4 and sys.argv[1] == '--worker':
    worker_main(sys.argv[2:])
