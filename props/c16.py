"""C16 — type unification is a symmetric idempotent meet; clash iff no common type.

Proof: coq/theories/Props/C16.v (pure meet model).  Tie: reference_algebra.Unify on freshly built,
tree-shaped references vs. the model's meet, evaluated inside Coq (vm_compute).
Search oracle: the laws themselves on the implementation (symmetry, both sides equal,
idempotence, field preservation) and the model's has_bad / inst (proved: clash iff no instance).
"""
import itertools
import json

from vlib import common, coqrun, proof

PID = 'C16'
ATOMS = ['Any', 'Singular', 'Sequential', 'Num', 'Str', 'Bool', 'Time']
FIELDS = ['a', 'b', 0]


# ---- terms: 'Any' | ... | ['list', t] | ['rec', closed, [[field, t], ...]] ----
def depth1_terms():
  ts = list(ATOMS) + [['list', a] for a in ATOMS]
  opts = [None, 'Any', 'Num', 'Str']
  for closed in (False, True):
    for combo in itertools.product(opts, repeat=3):
      ts.append(['rec', closed, [[f, t] for f, t in zip(FIELDS, combo) if t is not None]])
  return ts


def rand_term(r, depth):
  k = r.random()
  if depth == 0 or k < 0.3:
    return r.choice(ATOMS)
  if k < 0.5:
    return ['list', rand_term(r, depth - 1)]
  fs = [f for f in FIELDS + ['c', 1] if r.random() < 0.45]
  items = [[f, rand_term(r, depth - 1)] for f in fs]
  if len(items) >= 2 and r.random() < 0.25:     # two fields of the same type (built as ONE shared reference when ground)
    items[-1][1] = items[0][1]
  return ['rec', r.random() < 0.4, items]


def rand_related(r, t, depth):
  """A term that often unifies with t (mostly-valid stream)."""
  k = r.random()
  if k < 0.15:
    return rand_term(r, depth)
  if isinstance(t, str):
    if k < 0.5:
      return t
    return r.choice(['Any', 'Singular', 'Sequential', t])
  if t[0] == 'list':
    if k < 0.3:
      return r.choice(['Any', 'Sequential'])
    return ['list', rand_related(r, t[1], depth - 1)]
  fs = []
  for f, v in t[2]:
    if r.random() < 0.7:
      fs.append([f, rand_related(r, v, depth - 1)])
  if r.random() < 0.3:
    extra = [f for f in FIELDS + ['c', 1] if f not in [x[0] for x in t[2]]]
    if extra:
      fs.append([r.choice(extra), rand_term(r, max(depth - 1, 0))])
  return ['rec', r.random() < 0.3, fs]


def depth_of(t):
  if isinstance(t, str):
    return 0
  if t[0] == 'list':
    return 1 + depth_of(t[1])
  return 1 + max([depth_of(v) for _, v in t[2]] + [0])


# ---- to Coq ----
NAMES = {'a': 0, 'b': 1, 'c': 2}


def coq_field(f):
  return '(FPos %d)' % f if isinstance(f, int) else '(FName %d)' % NAMES[f]


def coq_term(t):
  if t == 'Bad':
    return 'TBad'
  if isinstance(t, str):
    return {'Any': 'TAny', 'Singular': 'TSingular', 'Sequential': 'TSequential'}.get(
        t, '(TAtom A%s)' % t)
  if t[0] == 'list':
    return '(TList %s)' % coq_term(t[1])
  return '(TRec %s [%s])' % ('true' if t[1] else 'false',
                             '; '.join('(%s, %s)' % (coq_field(f), coq_term(v)) for f, v in t[2]))


# ---- implementation side ----
def impl():
  common.repo_path()
  from type_inference.research import reference_algebra as ra
  return ra


def build_ref(ra, t, r=None, share=False):
  x = build_ref_plain(ra, t, r, share)
  # alias chains: a reference whose target is another reference denotes what that one denotes (union-find links,
  # as left behind by earlier unifications); the type is the same, every chain-following path is exercised
  while r is not None and r.random() < 0.25:
    x = ra.TypeReference(x)
  return x


def is_ground(t):
  """Fully defined: nothing a later unification could refine (sharing such a sub-reference changes nothing)."""
  if isinstance(t, str):
    return t in ('Num', 'Str', 'Bool', 'Time')
  if t[0] == 'list':
    return is_ground(t[1])
  return t[1] and all(is_ground(v) for _, v in t[2])


def build_ref_plain(ra, t, r=None, share=False):
  if isinstance(t, str):
    return ra.TypeReference(t)
  if t[0] == 'list':
    e = t[1]
    if isinstance(e, str) and r is not None and r.random() < 0.3:
      return ra.TypeReference([e])          # concrete element, as the inference engine also builds
    return ra.TypeReference([build_ref(ra, e, r, share)])
  cls = ra.ClosedRecord if t[1] else ra.OpenRecord
  d = {}
  local = {}            # ground, non-atomic field types seen in this record: the same reference object is used again
  for f, v in t[2]:
    if isinstance(v, str) and r is not None and r.random() < 0.3:
      d[f] = v
    else:
      key = json.dumps(v)
      if share and r is not None and not isinstance(v, str) and is_ground(v) and key in local and r.random() < 0.7:
        d[f] = local[key]
      else:
        d[f] = build_ref(ra, v, r, share)
        local[key] = d[f]
  return ra.TypeReference(cls(d))


def read_back(ra, ref):
  def conv(c):
    if isinstance(c, ra.BadType):
      return 'Bad'
    if isinstance(c, str):
      return c
    if isinstance(c, list):
      return ['list', conv(c[0])]
    if isinstance(c, dict):
      return ['rec', isinstance(c, ra.ClosedRecord),
              sorted(([f, conv(v)] for f, v in c.items()), key=lambda x: (isinstance(x[0], int), x[0]))]
    raise AssertionError(type(c))
  return conv(ra.VeryConcreteType(ref))


def has_bad(t):
  if t == 'Bad':
    return True
  if isinstance(t, str):
    return False
  if t[0] == 'list':
    return has_bad(t[1])
  return any(has_bad(v) for _, v in t[2])


def top_fields(t):
  return set(json.dumps(f) for f, _ in t[2]) if isinstance(t, list) and t[0] == 'rec' else set()


def run_pair(ra, a, b, r=None):
  """Returns (ra_readback, rb_readback, list of law violations seen on the implementation)."""
  laws = []
  try:
    x, y = build_ref(ra, a, r), build_ref(ra, b, r)
    ra.Unify(x, y)
    rx, ry = read_back(ra, x), read_back(ra, y)

    def same(u, v):
      # a clash is a clash: where inside the term the BadType sits is not part of the statement
      return u == v or (has_bad(u) and has_bad(v))
    if not same(rx, ry):
      laws.append('the two sides read back different types: %s vs %s' % (rx, ry))
    ra.Unify(x, y)
    if not same(read_back(ra, x), rx) or not same(read_back(ra, y), ry):
      laws.append('repeating the unification changed the result')
    ra.Unify(y, x)
    if not same(read_back(ra, x), rx) or not same(read_back(ra, y), ry):
      laws.append('repeating the unification with swapped arguments changed the result')
    x2, y2 = build_ref(ra, a, r), build_ref(ra, b, r)
    ra.Unify(y2, x2)
    if not same(read_back(ra, x2), rx):
      laws.append('argument order matters: Unify(a,b) gives %s, Unify(b,a) gives %s' % (rx, read_back(ra, x2)))
    if not has_bad(rx):
      if not (top_fields(a) | top_fields(b)) <= top_fields(rx) and isinstance(a, list) and isinstance(b, list) \
          and a[0] == 'rec' and b[0] == 'rec':
        laws.append('a record field known on one side was lost')
    return rx, ry, laws
  except Exception as e:  # the implementation must not crash on well-formed types
    return 'Bad', 'Bad', ['exception %s: %s' % (type(e).__name__, e)]


ORDERS = list(itertools.permutations([0, 1, 2]))


def run_triple(ra, ts, r=None):
  """All six orders of unifying three fresh references pairwise; read-backs of all three each time."""
  outs = []
  for p in ORDERS:
    try:
      refs = [build_ref(ra, t, r) for t in ts]
      ra.Unify(refs[p[0]], refs[p[1]])
      ra.Unify(refs[p[1]], refs[p[2]])
      outs.append([read_back(ra, x) for x in refs])
    except Exception as e:
      outs.append(['Bad', 'Bad', 'Bad'])
  return outs


def gen_history(r):
  """k tree-shaped references (Any often: it becomes a link in a reference chain) and a list of operations."""
  k = r.choice([3, 3, 4])
  base = rand_term(r, 2)
  if isinstance(base, str) or base[0] != 'rec':
    base = ['rec', False, [[f, rand_term(r, 1)] for f in FIELDS if r.random() < 0.6]]
  terms = []
  for _ in range(k):
    q = r.random()
    terms.append('Any' if q < 0.4 else (rand_related(r, base, 2) if q < 0.85 else rand_term(r, 2)))
  ops = []
  for _ in range(r.randint(3, 7)):
    if r.random() < 0.3:
      ops.append(['close', r.randrange(k)])
    else:
      i, j = r.sample(range(k), 2)
      ops.append(['unify', i, j])
  return terms, ops


def run_history(ra, terms, ops, r=None):
  """Returns the steps actually performed: [(op, [read-back of every reference])]; a close is performed only on a
  reference that currently reads back as an open record; the run stops after the first step that shows a clash."""
  refs = [build_ref(ra, t, r) for t in terms]
  steps = []
  for op in ops:
    try:
      if op[0] == 'close':
        cur = read_back(ra, refs[op[1]])
        if not (isinstance(cur, list) and cur[0] == 'rec' and not cur[1]):
          continue
        refs[op[1]].CloseRecord()
      else:
        ra.Unify(refs[op[1]], refs[op[2]])
      view = [read_back(ra, x) for x in refs]
    except Exception as e:  # the implementation must not crash on well-formed types
      view = ['Bad'] * len(refs)
    steps.append((op, view))
    if any(has_bad(v) for v in view):
      break
  return steps


def coq_history(terms, steps):
  def cop(op):
    return '(HClose %d)' % op[1] if op[0] == 'close' else '(HUnify %d %d)' % (op[1], op[2])
  return '([%s], [%s])' % ('; '.join(coq_term(t) for t in terms),
                           '; '.join('(%s, [%s])' % (cop(op), '; '.join(coq_term(v) for v in view)) for op, view in steps))


def run_shared(ra, a, b, r):
  """Unify on references in which equal ground sub-terms of one record are ONE shared reference object."""
  try:
    x, y = build_ref(ra, a, r, share=True), build_ref(ra, b, r, share=True)
    ra.Unify(x, y)
    return read_back(ra, x), read_back(ra, y)
  except Exception as e:  # pylint: disable=broad-except
    return 'Bad', 'Bad'


def run_elem(ra, a, b, r=None):
  """`b in a`: UnifyListElement on fresh references; read-backs of the list and of the element."""
  try:
    x, y = build_ref(ra, a, r), build_ref(ra, b, r)
    ra.UnifyListElement(x, y)
    return read_back(ra, x), read_back(ra, y)
  except Exception as e:  # the implementation must not crash on well-formed types
    return 'Bad', 'Bad'


def eval_cases(kind, chunks):
  """kind: 'judge' | 'judge3'.  chunks: list of lists of Coq case strings.  Returns flat list of ints or None."""
  from concurrent.futures import ThreadPoolExecutor

  def one(chunk):
    text = ('From Coq Require Import List. Import ListNotations.\n'
            'From LV Require Import Types.TypeAlgebra Types.TypeHist Types.TypeElem Types.TypeCheck.\n'
            'Definition cases := [\n%s\n].\n'
            'Eval vm_compute in map %s cases.\n' % (';\n'.join(chunk), kind))
    rc, out = coqrun.coq_eval(text, timeout=900)
    if rc != 0:
      return None, out
    ls = coqrun.parse_vm_list(out)
    if len(ls) != 1 or len(ls[0]) != len(chunk):
      return None, out
    return [int(x) for x in ls[0]], out

  res = []
  with ThreadPoolExecutor(max_workers=12) as ex:
    for vals, out in ex.map(one, chunks):
      if vals is None:
        return None, out
      res.extend(vals)
  return res, ''


def chunked(xs, n):
  return [xs[i:i + n] for i in range(0, len(xs), n)]


def run(tier, replay=None):
  rep = common.Report(PID, tier, 'proof')
  rep.assumptions = [
      'model: pure meet over tree-shaped types (no sharing between the two arguments); BadType payload ignored',
      'tie: reference_algebra.Unify/VeryConcreteType run on the same terms, compared inside Coq (teqb)',
      'CPython dict/list semantics trusted; harness (props/c16.py) trusted',
  ]
  ok, info = proof.proof_stage(rep, PID, extra_trusted=[
      'correspondence harness props/c16.py + Types/TypeCheck.v (judge)'])
  if ok:
    ok = coqrun.build(['theories/Types/TypeCheck.vo'])[0]     # the judges used by the correspondence run
  ra = impl()
  r = common.rng('c16')

  if replay:
    with open(replay) as f:
      rp = json.load(f)
    pairs = [(rp['a'], rp['b'])] if 'a' in rp else []
    triples = [tuple(rp['terms'])] if 'terms' in rp and 'ops' not in rp else []
    hists = [(rp['terms'], rp['ops'])] if 'ops' in rp else []
    elems = [(rp['list'], rp['element'])] if 'element' in rp else []
  else:
    d1 = depth1_terms()
    pairs = [(a, b) for a in d1 for b in d1]
    n_rand = 6000 if tier == 'quick' else 150000
    for _ in range(n_rand):
      a = rand_term(r, 3)
      b = rand_related(r, a, 3) if r.random() < 0.7 else rand_term(r, 3)
      pairs.append((a, b) if r.random() < 0.5 else (b, a))
    triples = []
    n_tri = 1500 if tier == 'quick' else 30000
    for _ in range(n_tri):
      a = rand_term(r, 3)
      triples.append((a, rand_related(r, a, 3), rand_related(r, a, 3)))
    hists = [gen_history(r) for _ in range(1500 if tier == 'quick' else 40000)]
    # `b in a`: list side x element side over all depth-1 terms + random deeper ones
    lists = ['Any', 'Sequential', 'Singular', 'Str', 'Num'] + [['list', t] for t in d1[:60:3]] + [['list', ['list', 'Num']]]
    elems = [(a, b) for a in lists for b in d1[::2]]
    for _ in range(2000 if tier == 'quick' else 60000):
      b = rand_term(r, 2)
      k = r.random()
      a = ['list', rand_related(r, b, 2)] if k < 0.6 else (rand_term(r, 3) if k < 0.8 else r.choice(['Any', 'Sequential']))
      elems.append((a, b))

  # --- implementation runs
  pair_cases, pair_laws = [], []
  stats = {'clash': 0, 'clean': 0, 'depth': {}}
  for a, b in pairs:
    rx, ry, laws = run_pair(ra, a, b, r)
    pair_cases.append('(%s, %s, %s, %s)' % (coq_term(a), coq_term(b), coq_term(rx), coq_term(ry)))
    pair_laws.append(laws)
    stats['clash' if has_bad(rx) else 'clean'] += 1
    d = max(depth_of(a), depth_of(b))
    stats['depth'][d] = stats['depth'].get(d, 0) + 1
  tri_outs = [run_triple(ra, ts, r) for ts in triples]
  tri_cases = []
  for ts, outs in zip(triples, tri_outs):
    rs = [x for o in outs for x in o]
    tri_cases.append('(%s, %s, %s, [%s])' % (coq_term(ts[0]), coq_term(ts[1]), coq_term(ts[2]),
                                            '; '.join(coq_term(x) for x in rs)))

  shared_pairs = [] if replay else [p for p in pairs[len(depth1_terms()) ** 2:] if '"rec"' in json.dumps(p)][:3000 if tier == 'quick' else 60000]
  shared_obs = [run_shared(ra, a, b, r) for a, b in shared_pairs]
  shared_cases = ['(%s, %s, %s, %s)' % (coq_term(a), coq_term(b), coq_term(x), coq_term(y)) for (a, b), (x, y) in zip(shared_pairs, shared_obs)]
  elem_obs = [run_elem(ra, a, b, r) for a, b in elems]
  elem_cases = ['(%s, %s, %s, %s)' % (coq_term(a), coq_term(b), coq_term(x), coq_term(y)) for (a, b), (x, y) in zip(elems, elem_obs)]
  hist_steps = [run_history(ra, ts, ops, r) for ts, ops in hists]
  hist_cases = [coq_history(ts, st) for (ts, _), st in zip(hists, hist_steps)]

  # --- model side
  codes = codes3 = codesh = codese = codess = None
  if ok:
    codes, out = eval_cases('judge', chunked(pair_cases, 1500))
    if codes is not None:
      codes3, out = eval_cases('judge3', chunked(tri_cases, 500)) if tri_cases else ([], '')
    if codes3 is not None:
      codesh, out = eval_cases('judge_hist', chunked(hist_cases, 500)) if hist_cases else ([], '')
    if codesh is not None:
      codese, out = eval_cases('judge_elem', chunked(elem_cases, 1500)) if elem_cases else ([], '')
    if codese is not None:
      codess, out = eval_cases('judge_sh', chunked(shared_cases, 1500)) if shared_cases else ([], '')
    if codes is None or codes3 is None or codesh is None or codese is None or codess is None:
      ok = False
      info['excerpt'] = out[-3000:]

  found = 0
  broken_ties = []
  # law violations observed on the implementation alone (no model needed)
  for (a, b), laws in zip(pairs, pair_laws):
    if laws:
      found += 1
      rep.violation('pair:%s' % common.short_hash([a, b]),
                    {'a': a, 'b': b, 'law': laws, 'how': 'reference_algebra.Unify on fresh references'})
      if found > 5:
        break
  if codes is not None:
    for (a, b), c in zip(pairs, codes):
      if c == 2:
        found += 1
        if found <= 8:
          rx, ry, _ = run_pair(ra, a, b)
          rep.violation('pair:%s' % common.short_hash([a, b]), {
              'a': a, 'b': b, 'observed': [rx, ry],
              'law': 'clash reported iff no common instance / result has exactly the common instances (oracle: Coq meet, proved against inst)'})
      elif c == 1:
        broken_ties.append((a, b))
    for ts, c in zip(triples, codes3):
      if c == 2:
        found += 1
        if found <= 8:
          rep.violation('triple:%s' % common.short_hash(list(ts)), {
              'terms': list(ts), 'observed': run_triple(ra, ts),
              'law': 'for a clash-free set of constraints every unification order reads back the meet of all'})
      elif c == 1:
        broken_ties.append(ts)
  if codess is not None:
    for (a, b), (x, y), c in zip(shared_pairs, shared_obs, codess):
      if c != 0:
        # 3: the tree reading clashes, the implementation (with a shared sub-reference) reports nothing - known finding
        key = 'shared-subreference:lost-clash' if c == 3 else 'shared:%s:%s' % ('spurious-clash' if c == 4 else 'types', common.short_hash([a, b]))
        if (found < 8 or key == 'shared-subreference:lost-clash') and rep.violation(key, {'a': a, 'b': b, 'observed': [x, y], 'judge_code': c,
                               'law': 'a record in which two fields hold the SAME reference object (a ground type) unifies like the '
                                      'record with two separate references of that type (oracle: Coq meet on the tree reading)',
                               'how': 'props.c16.run_shared: build_ref(..., share=True) on both terms, reference_algebra.Unify'}):
          found += 1
  if codese is not None:
    for (a, b), (x, y), c in zip(elems, elem_obs, codese):
      if c != 0:
        found += 1
        if found <= 8:
          rep.violation('element:%s' % common.short_hash([a, b]), {
              'list': a, 'element': b, 'observed': {'list': x, 'element': y},
              'law': '`b in a`: the list admits exactly the lists of non-list values both sides admit, the element '
                     'exactly their elements; a list as element is a clash (oracle: Types/TypeElem.v unify_list_element)',
              'how': 'reference_algebra.UnifyListElement on fresh references built from the two terms'})
  if codesh is not None:
    for (ts, ops), st, c in zip(hists, hist_steps, codesh):
      if c != 0:
        found += 1
        if found <= 8:
          rep.violation('history:%s' % common.short_hash([ts, ops]), {
              'terms': ts, 'ops': ops, 'observed_steps': [[op, view] for op, view in st],
              'law': 'references unified at some point denote the same type ever after, and every reference reads back '
                     'the meet of its class (oracle: Types/TypeHist.v view after every operation)',
              'how': 'props.c16.run_history(reference_algebra, terms, ops)'})
  if not ok and not found:
    rep.violation('proof', {'broken': 'theories/Props/C16.v or its dependencies no longer check',
                            'failing_files': info.get('failing'), 'excerpt': info.get('excerpt', '')[:3000]},
                  no_input=True)
  elif broken_ties and not found:
    rep.violation('tie', {'broken': 'correspondence reference_algebra.Unify vs Types/TypeAlgebra.meet',
                          'examples': broken_ties[:5], 'count': len(broken_ties)}, no_input=True)

  nontrivial = len(set(common.canon(p) for p in pairs if not (isinstance(p[0], str) and isinstance(p[1], str))))
  rep.coverage.update({
      'evaluations': len(pairs) + 6 * len(triples) + sum(len(st) for st in hist_steps),
      'distinct_nontrivial': nontrivial + len(set(common.canon(t) for t in triples)),
      'rule': 'all 142^2 pairs of depth<=1 terms over fields {a,b,0} (exhaustive) + random depth<=3 pairs '
              '(70% built to be related) + random triples x 6 orders + histories of Unify/CloseRecord on 3-4 references (every reference read back after every operation); non-trivial = at least one side is a list or record',
      'exhaustive': False,
      'samples': [{'a': pairs[i][0], 'b': pairs[i][1]} for i in (200, 5000, len(pairs) - 1) if i < len(pairs)] +
                 [{'terms': list(triples[0])}] if triples else [],
      'distribution': {'pairs': len(pairs), 'triples': len(triples), 'histories': len(hists), 'element_pairs': len(elems), 'shared_pairs': len(shared_pairs), 'shared_tie_codes': {str(k): (codess or []).count(k) for k in (0, 2, 3, 4)},
                       'element_tie_exact': (codese or []).count(0),
                       'history_steps': sum(len(st) for st in hist_steps), 'history_closes': sum(1 for st in hist_steps for op, _ in st if op[0] == 'close'),
                       'histories_ending_in_clash': sum(1 for st in hist_steps if st and any(has_bad(v) for v in st[-1][1])),
                       'history_tie_exact': (codesh or []).count(0), 'pairs_clash': stats['clash'],
                       'pairs_clean': stats['clean'], 'by_max_depth': stats['depth'],
                       'triples_clash_free': (codes3 or []).count(0) + (codes3 or []).count(1) + (codes3 or []).count(2),
                       'tie_exact': (codes or []).count(0), 'tie_differs_same_meaning': (codes or []).count(1)},
  })
  return rep.finish()
