"""C19 — invalid programs are rejected with a diagnostic, never compiled to wrong SQL.

Every single-point corruption (fixed catalogue) of every generated valid program must end in one of
the tool's four diagnostic exceptions (ParsingException, RuleCompileException, FunctorError,
TypeErrorCaughtException) that names the offender; 'ok' (SQL was produced) or any other exception is a
violation.  Oracle for the semantic classes: the reference evaluator Core/Eval.v refuses the corrupted
AST with the expected code (E_UNSAFE = not range restricted, E_DISTINCT) - corruptions that the
evaluator still accepts are not used.
"""
import collections
import copy
import json
import random
import re

from vlib import common, proof, logica_run
from props import coregen as G, corecheck as K, corerun as R

PID = 'C19'
PROFILE = dict(named_cols=0.4, partial_args=0.3, inclusion=0.25, assign=0.5, lists=0.15, records=0.15, combine=0.3,
               disjunction=0.25, filter=0.4, negation=0.3, two_rules=0.45, distinct=0.4, aggregation=0.5,
               ifthenelse=0.3, builtins=0.2, func_calls=0.3, share_names=0.5, set_agg=0.0)
DIAG = ('Parsing', 'RuleCompile', 'Functor', 'TypeError')


def derived(prog):
  return [d for d in prog if d['kind'] == 'table' and not d.get('ext')]


def preds_used(x, acc):
  if isinstance(x, tuple):
    if x and x[0] in ('atom', 'call'):
      acc.add(x[1])
    for y in x:
      preds_used(y, acc)
  elif isinstance(x, list):
    for y in x:
      preds_used(y, acc)
  return acc


def deps(prog, name, seen=None):
  seen = seen if seen is not None else set()
  for d in prog:
    if d['name'] == name:
      for r in d['rules']:
        for p in preds_used((r['head'], r.get('body')), set()):
          if p not in seen:
            seen.add(p)
            deps(prog, p, seen)
  return seen


def replace_rule(prog, dname, k, new_rule):
  out = []
  for d in prog:
    if d['name'] == dname:
      d = dict(d, rules=d['rules'][:k] + [new_rule] + d['rules'][k + 1:])
    out.append(d)
  return out


def body_items(rule):
  b = rule.get('body')
  if b is None:
    return []
  return list(b[1]) if b[0] == 'and' else [b]


# ---- the catalogue: each returns None or dict(text, pred, offender, expect_codes, model_prog)
def c_head_unbound(prog, r):
  ds = [d for d in derived(prog)]
  r.shuffle(ds)
  for d in ds:
    k = r.randrange(len(d['rules']))
    rule = d['rules'][k]
    idx = [i for i, (f, hv) in enumerate(rule['head']) if hv[0] == 'e']
    if not idx:
      continue
    i = r.choice(idx)
    head = list(rule['head'])
    head[i] = (head[i][0], ('e', ('var', 'zz9')))
    np_ = replace_rule(prog, d['name'], k, dict(rule, head=head))
    return dict(text=G.p_program(np_), pred=d['name'], offender='zz9', expect=(1,), model=np_)


def c_cmp_unbound(prog, r):
  d = r.choice(derived(prog))
  k = r.randrange(len(d['rules']))
  rule = d['rules'][k]
  cond = ('c', ('cond', ('bin', r.choice(['<', '>', '!=']), ('var', 'zz9'), ('int', 1))))
  np_ = replace_rule(prog, d['name'], k, dict(rule, body=('and', body_items(rule) + [cond])))
  return dict(text=G.p_program(np_), pred=d['name'], offender='zz9', expect=(1,), model=np_)


def c_cmp_unbound_captured(prog, r):
  """An unbound comparison variable in a (possibly injectible) callee rule that is NAMED like a variable the calling
  rule binds; the caller is asked for: the name must not be captured, the program stays invalid."""
  types = {d['name']: d['types'] for d in prog}
  cands = []
  for caller in derived(prog):
    for rule in caller['rules']:
      # the callee must be needed for the caller's rows: an atom at the top level of the body (a call inside an
      # aggregating expression whose value is not used is dropped by the compiler together with the callee)
      top = [it[1][1] for it in body_items(rule) if it[0] == 'c' and it[1][0] == 'atom']
      callees = [p for p in top if p != caller['name'] and any(d['name'] == p for d in derived(prog))]
      if not callees:
        continue
      # int variables of the caller's rule: arguments at int columns of body atoms
      ivars = set()

      def scan(x):
        if isinstance(x, tuple):
          if x and x[0] == 'atom' and x[1] in types:
            for f, e in x[2]:
              if isinstance(e, tuple) and e and e[0] == 'var' and types[x[1]].get(f) == 'int':
                ivars.add(e[1])
          if x and x[0] in ('combine', 'not'):
            return
          for y in x:
            scan(y)
        elif isinstance(x, list):
          for y in x:
            scan(y)
      scan(rule.get('body'))
      for c in callees:
        for v in ivars:
          cands.append((caller['name'], c, v))
  r.shuffle(cands)
  for caller_name, callee, v in cands:
    d = [x for x in prog if x['name'] == callee][0]
    k = r.randrange(len(d['rules']))
    rule = d['rules'][k]
    if v in G._vars_in((rule['head'], rule.get('body'))) if hasattr(G, '_vars_in') else v in str((rule['head'], rule.get('body'))):
      continue
    cond = ('c', ('cond', ('bin', r.choice(['<', '>', '!=']), ('var', v), ('int', 1))))
    np_ = replace_rule(prog, callee, k, dict(rule, body=('and', body_items(rule) + [cond])))
    return dict(text=G.p_program(np_), pred=caller_name, offender=v, offender_optional=True, expect=(1,), model=np_)
  return None


def c_neg_unbound(prog, r):
  d = r.choice(derived(prog))
  k = r.randrange(len(d['rules']))
  rule = d['rules'][k]
  idx = [i for i, (f, hv) in enumerate(rule['head']) if hv[0] == 'e' and d['types'].get(f) in ('int', 'str')]
  tabs = [t for t in prog if t.get('ext')]
  if not idx or not tabs:
    return None
  i = r.choice(idx)
  ty = d['types'][rule['head'][i][0]]
  cands = [(t, f) for t in tabs for f, ft in t['types'].items() if ft == ty and isinstance(f, int) and f == 0]
  if not cands:
    return None
  t, f = r.choice(cands)
  head = list(rule['head'])
  head[i] = (head[i][0], ('e', ('var', 'zz9')))
  neg = ('c', ('not', [('atom', t['name'], [(f, ('var', 'zz9'))])]))
  np_ = replace_rule(prog, d['name'], k, dict(rule, head=head, body=('and', body_items(rule) + [neg])))
  return dict(text=G.p_program(np_), pred=d['name'], offender='zz9', expect=(1,), model=np_)


def c_agg_without_distinct(prog, r):
  ds = [d for d in derived(prog) if any(hv[0] == 'agg' and f != 'logica_value' for rl in d['rules'] for f, hv in rl['head'])]
  if not ds:
    return None
  d = r.choice(ds)
  rules = [dict(rl, distinct=False) for rl in d['rules']]
  np_ = [dict(x, rules=rules) if x['name'] == d['name'] else x for x in prog]
  return dict(text=G.p_program(np_), pred=d['name'], offender=d['name'], expect=(4,), model=np_, offender_optional=True)


def c_distinct_inconsistent(prog, r):
  ds = [d for d in derived(prog) if len(d['rules']) >= 2 and
        not any(hv[0] == 'agg' for rl in d['rules'] for f, hv in rl['head'])]
  if not ds:
    return None
  d = r.choice(ds)
  flag = not d['rules'][0]['distinct']
  rules = [dict(d['rules'][0], distinct=flag)] + [dict(rl, distinct=not flag) for rl in d['rules'][1:]]
  np_ = [dict(x, rules=rules) if x['name'] == d['name'] else x for x in prog]
  return dict(text=G.p_program(np_), pred=d['name'], offender=d['name'], expect=(4,), model=np_)


def c_recursion_no_base(prog, r):
  text = G.p_program(prog)
  text += r.choice(['Rz9(x) :- Rz9(x);\n', 'Rz9(x) :- Ry9(x);\nRy9(x) :- Rz9(x), x > 0;\n',
                    'Rz9(x) distinct :- Rz9(y), x == y + 1, x < 5;\n'])
  # asked for directly, or through a consumer that has other rules / alternatives, a negation or an aggregate
  consumer, pred = r.choice([
      ('', 'Rz9'), ('', 'Rz9'),
      ('Qz9(x) :- x in [10, 20];\nQz9(x) :- Rz9(x);\n', 'Qz9'),
      ('Qz9(x) :- x in [1, 2] | Rz9(x);\n', 'Qz9'),
      ('Qz9(x) :- x in [1, 2], ~Rz9(x);\n', 'Qz9'),
      ('Qz9() += 1 :- Rz9(x);\n', 'Qz9'),
      ('Qz9(x) :- x in [1, 2], c == Sum{y :- Rz9(y)}, x > c;\n', 'Qz9')])
  return dict(text=text + consumer, pred=pred, offender='z9', expect=None, model=None)


def c_functor_bad_argument(prog, r):
  ds = derived(prog)
  r.shuffle(ds)
  for d in ds:
    dep = deps(prog, d['name'])
    others = [t for t in prog if t.get('ext') and t['name'] not in dep]
    if len(others) >= 1:
      t = r.choice(others)
      sub = r.choice([x for x in prog if x.get('ext')])
      good = [x for x in prog if x.get('ext') and x['name'] in dep]
      if good and r.random() < 0.5:
        # one applicable argument next to the inapplicable one: still an error
        g = r.choice(good)
        pair = ['%s: %s' % (g['name'], g['name']), '%s: %s' % (t['name'], sub['name'])]
        r.shuffle(pair)
        text = G.p_program(prog) + 'Nf9 := %s(%s);\n' % (d['name'], ', '.join(pair))
      else:
        text = G.p_program(prog) + 'Nf9 := %s(%s: %s);\n' % (d['name'], t['name'], sub['name'])
      return dict(text=text, pred='Nf9', offender=t['name'], expect=None, model=None)
  return None


def c_annotation_missing(prog, r):
  ann = r.choice(['@OrderBy(Missing9, "col0");', '@Limit(Missing9, 3);', '@NoInject(Missing9);',
                  '@With(Missing9);'])
  d = r.choice(derived(prog))
  return dict(text=G.p_program(prog, annotations=[ann]), pred=d['name'], offender='Missing9', expect=None, model=None)


def c_unbalanced(prog, r):
  d = r.choice(derived(prog))
  k = r.randrange(len(d['rules']))
  line = G.p_rule(d['name'], d['rules'][k])
  kind = r.choice(['drop_close', 'extra_close', 'drop_open', 'cut_string', 'drop_brace', 'drop_bracket'])
  new = None
  if kind == 'drop_close' and ')' in line:
    i = r.choice([m.start() for m in re.finditer(r'\)', line)])
    new = line[:i] + line[i + 1:]
  elif kind == 'extra_close':
    i = r.choice([m.start() for m in re.finditer(r'\)', line)])
    new = line[:i] + ')' + line[i:]
  elif kind == 'drop_open' and '(' in line:
    i = r.choice([m.start() for m in re.finditer(r'\(', line)])
    new = line[:i] + line[i + 1:]
  elif kind == 'cut_string' and '"' in line:
    qs = [m.start() for m in re.finditer('"', line)]
    i = qs[2 * r.randrange(len(qs) // 2) + 1]     # a closing quote
    new = line[:i] + line[i + 1:]
  elif kind == 'drop_brace' and '}' in line:
    i = r.choice([m.start() for m in re.finditer(r'\}', line)])
    new = line[:i] + line[i + 1:]
  elif kind == 'drop_bracket' and ']' in line:
    i = r.choice([m.start() for m in re.finditer(r'\]', line)])
    new = line[:i] + line[i + 1:]
  if new is None:
    return None
  text = G.p_program(prog).replace(line, new, 1)
  return dict(text=text, pred=d['name'], offender=None, expect=None, model=None, only=('Parsing',), sub=kind)


CATALOGUE = [
    ('head_variable_unbound', c_head_unbound),
    ('comparison_variable_unbound', c_cmp_unbound),
    ('comparison_variable_unbound_named_like_a_caller_variable', c_cmp_unbound_captured),
    ('negation_variable_unbound', c_neg_unbound),
    ('aggregation_without_distinct', c_agg_without_distinct),
    ('distinct_inconsistent', c_distinct_inconsistent),
    ('recursion_without_base', c_recursion_no_base),
    ('functor_on_independent_predicate', c_functor_bad_argument),
    ('annotation_of_missing_predicate', c_annotation_missing),
    ('unbalanced', c_unbalanced),
]


def clean(msg):
  return re.sub(r'\x1b\[[0-9;]*m', '', str(msg))


def _worker(job):
  text, pred = job
  st, a = logica_run.compile_pred(text, pred)
  if st == 'ok':
    return ('ok', a['sql'][:400])
  return (st, clean(a)[:400])


def run(tier, replay=None):
  rep = common.Report(PID, tier, 'other')
  rep.assumptions = [
      'oracle for the semantic classes: Core/Eval.v refuses the corrupted AST (Fail 1 = not range restricted, Fail 4 = '
      'aggregation/distinct inconsistency); for the textual classes the corruption is invalid by construction',
      'the four diagnostic classes are those caught by logica.py main',
  ]
  ok, info = proof.proof_stage(rep, PID, extra_trusted=['props/c19.py (corruption catalogue)', 'props/coregen.py printers'])
  n = 60 if tier == 'quick' else 1500
  base = common.seed()
  cases = []
  if replay:
    with open(replay) as f:
      rp = json.load(f)
    cases = [dict(seed=rp.get('gen_seed'), cname=rp['corruption'], text=rp['program_text'], pred=rp['predicate'],
                  offender=rp.get('offender'), expect=None, model=None, only=tuple(rp.get('only') or ()) or None)]
  else:
    for i in range(n):
      s = 'c19/%d/%d' % (base, i)
      prog = K.gen_program(s, PROFILE)
      if not derived(prog):
        continue
      for cname, fn in CATALOGUE:
        r = random.Random(s + '/' + cname)
        try:
          c = fn(prog, r)
        except Exception:  # pylint: disable=broad-except
          c = None
        if c:
          c.update(seed=s, cname=cname)
          if any(d['name'] == c['pred'] for d in prog):
            c['base_text'] = G.p_program(prog)
          cases.append(c)
  import multiprocessing
  from concurrent.futures import ProcessPoolExecutor
  base_jobs = sorted(set((c['base_text'], c['pred']) for c in cases if c.get('base_text')))
  if len(base_jobs) > 8:
    with ProcessPoolExecutor(max_workers=8, mp_context=multiprocessing.get_context('spawn')) as ex:
      base_res = list(ex.map(_worker, base_jobs, chunksize=8))
  else:
    base_res = [_worker(j) for j in base_jobs]
  base_ok = {j: (res[0] == 'ok') for j, res in zip(base_jobs, base_res)}
  base_rejected = 0
  kept = []
  for c in cases:
    if c.get('base_text') and not base_ok.get((c['base_text'], c['pred']), True):
      base_rejected += 1
      continue
    kept.append(c)
  cases = kept
  # oracle: the evaluator must refuse the corrupted AST of the semantic classes
  items = []
  idx = []
  for k, c in enumerate(cases):
    if c.get('model') is not None:
      nm = G.Names()
      for d in c['model']:
        nm.pred(d['name'])
      items.append('[status %s]' % G.c_program(c['model'], nm))
      idx.append(k)
  vals = R.eval_batch(items) if (items and ok) else [None] * len(items)
  confirmed = {}
  for k, v in zip(idx, vals):
    confirmed[k] = v[0] if v else None
  # the uncorrupted program must compile for the predicate that is going to be asked for (a valid program that
  # the compiler rejects - known findings of C01/C07 - says nothing about the corruption)
  jobs, used = [], []
  not_invalid = 0
  for k, c in enumerate(cases):
    if c.get('model') is not None and ok:
      if confirmed.get(k) is None or confirmed[k] not in c['expect']:
        not_invalid += 1      # the corruption did not make the program invalid for the evaluator (or too slow)
        continue
    jobs.append((c['text'], c['pred']))
    used.append(c)
  # implementation
  if len(jobs) > 8:
    with ProcessPoolExecutor(max_workers=8, mp_context=multiprocessing.get_context('spawn')) as ex:
      results = list(ex.map(_worker, jobs, chunksize=8))
  else:
    results = [_worker(j) for j in jobs]
  by_class = collections.Counter()
  found = 0
  per_key = {}
  weak_msgs = collections.Counter()
  for c, (st, msg) in zip(used, results):
    by_class['%s:%s' % (c['cname'], st)] += 1
    problem = None
    if st == 'ok':
      problem = 'SQL was produced for an invalid program'
    elif st not in DIAG:
      problem = 'internal error %s instead of a diagnostic' % st
    elif c.get('only') and st not in c['only']:
      problem = 'diagnostic class %s, expected %s' % (st, c['only'])
    elif c.get('offender') and not c.get('offender_optional') and c['offender'] not in msg:
      weak_msgs[c['cname']] += 1   # recorded, see below
      problem = 'the diagnostic does not name the offender %s: %s' % (c['offender'], msg[:160])
    if problem:
      found += 1
      key = '%s:%s' % (c['cname'] + ('/' + c['sub'] if c.get('sub') else ''),
                       'accepted' if st == 'ok' else (st if st not in DIAG else 'offender-not-named'))
      per_key[key] = per_key.get(key, 0) + 1
      if per_key[key] > 3 or found > 12:       # a few replays per class are enough
        continue
      rep.violation(key, {'gen_seed': c['seed'], 'corruption': c['cname'], 'predicate': c['pred'],
                          'offender': c.get('offender'), 'only': c.get('only'), 'problem': problem,
                          'program_text': c['text'], 'observed': [st, msg],
                          'how': 'vlib.logica_run.compile_pred(program_text, predicate)'})
  if not ok and not found:
    rep.violation('proof', {'broken': 'theories/Props/C19.v or its dependencies no longer check',
                            'failing_files': info.get('failing'), 'excerpt': info.get('excerpt', '')[:3000]},
                  no_input=True)
  rep.coverage.update({
      'evaluations': len(used),
      'distinct_nontrivial': len(set((c['text'], c['pred']) for c in used)),
      'rule': 'generated valid Core programs x the catalogue %s; semantic corruptions are kept only when the reference '
              'evaluator refuses the corrupted AST with the expected code; non-trivial = distinct (text, predicate)' %
              [c for c, _ in CATALOGUE],
      'explanation': 'every corruption must end in one of the four diagnostic exceptions naming the offender; theorems of '
                     'Props/C19.v are about the range-restriction decision of the reference evaluator',
      'corruptions_not_invalid_for_the_evaluator': not_invalid,
      'dropped_because_the_uncorrupted_program_is_rejected': base_rejected,
      'outcome_histogram': dict(by_class),
      'samples': [{'corruption': c['cname'], 'predicate': c['pred'], 'text': c['text'][-600:]} for c in used[:3]],
  })
  return rep.finish()
