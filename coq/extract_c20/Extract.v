(* C20: extraction of the judge used for the high-volume ArgMin/ArgMax stream.
   Directives: ExtrOcamlBasic only (bool, option, unit, list, prod, sumbool as OCaml types);
   Z / positive / nat stay Coq datatypes.  Compiled in a scratch directory by props/c20.py. *)
Require Extraction.
Require ExtrOcamlBasic.
From LV Require Import Udf.ArgMinMax Udf.UdfCheck.
Extraction "udf_model.ml" judge_idx.
