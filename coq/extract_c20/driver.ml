(* Reads cases for Udf_model.judge_idx from stdin, prints one digit per case.
   Lines:  T <scalar> <scalar>      a row (value, arg) of the table
           A <scalar>               an entry of the arg table
           R                        reset both tables
           C <is_max 0|1> <limit: N or int> <err> | <row idx...> | <kept idx...> | <output arg idx...>
   scalar: n<int>  or  s<codepoint>,<codepoint>,...  (s alone = empty string) *)
open Udf_model

let rec pos_of_int n =
  if n = 1 then XH else if n land 1 = 0 then XO (pos_of_int (n lsr 1)) else XI (pos_of_int (n lsr 1))
let z_of_int n = if n = 0 then Z0 else if n > 0 then Zpos (pos_of_int n) else Zneg (pos_of_int (- n))
let rec int_of_nat = function O -> 0 | S n -> 1 + int_of_nat n

let scalar_of s =
  let body = String.sub s 1 (String.length s - 1) in
  if s.[0] = 'n' then SNum (z_of_int (int_of_string body))
  else SStr (if body = "" then [] else List.map (fun x -> z_of_int (int_of_string x)) (String.split_on_char ',' body))

let words s = List.filter (fun x -> x <> "") (String.split_on_char ' ' s)
let ints s = List.map (fun x -> z_of_int (int_of_string x)) (words s)

let () =
  let tbl = ref [] and atbl = ref [] in
  let buf = Buffer.create 65536 in
  (try
    while true do
      let line = input_line stdin in
      if line = "" then ()
      else match line.[0] with
      | 'R' -> tbl := []; atbl := []
      | 'T' -> (match words line with
                | [_; v; a] -> tbl := !tbl @ [(scalar_of v, scalar_of a)]
                | _ -> failwith "bad T")
      | 'A' -> (match words line with [_; a] -> atbl := !atbl @ [scalar_of a] | _ -> failwith "bad A")
      | 'C' ->
          (match String.split_on_char '|' (String.sub line 1 (String.length line - 1)) with
           | [h; ris; sis; fis] ->
               (match words h with
                | [m; k; err] ->
                    let k = if k = "N" then None else Some (z_of_int (int_of_string k)) in
                    let c = (((((m = "1", k), ints ris), z_of_int (int_of_string err)), ints sis), ints fis) in
                    Buffer.add_string buf (string_of_int (int_of_nat (judge_idx !tbl !atbl c)))
                | _ -> failwith "bad C head")
           | _ -> failwith "bad C")
      | _ -> failwith "bad line"
    done
  with End_of_file -> ());
  print_string (Buffer.contents buf)
