(* Histories of operations on references (reference_algebra.TypeReference is a union-find style store):
   a fixed set of references, each starting as its own tree-shaped type; Unify(i, j) makes the two
   references aliases denoting the meet; CloseRecord(i) closes the record the reference denotes.
   The model keeps, per reference, its class, and per class its type.  Tied to the code by props/c16.py
   (history stream): after every operation the read-back of EVERY reference must equal `view`.
   Theorems: references unified at some point denote the same type ever after (whatever happens to either
   of them later), and a repeated unification changes nothing. *)
From Coq Require Import List Bool Arith Lia.
Import ListNotations.
From LV Require Import Types.TypeAlgebra.

Inductive hop := HUnify (i j : nat) | HClose (i : nat).

Record hst := { cls : list nat; tys : list ty }.

Definition hinit (ts : list ty) : hst := {| cls := seq 0 (length ts); tys := ts |}.

Fixpoint set_at (n : nat) (t : ty) (l : list ty) : list ty :=
  match n, l with
  | _, [] => []
  | O, _ :: l' => t :: l'
  | S n', x :: l' => x :: set_at n' t l'
  end.

Definition close_ty (t : ty) : ty := match t with TRec _ fs => TRec true fs | _ => t end.

Definition class_of (s : hst) (i : nat) : nat := nth i (cls s) 0.
Definition type_of (s : hst) (i : nat) : ty := nth (class_of s i) (tys s) TAny.

Definition hstep (s : hst) (o : hop) : hst :=
  match o with
  | HUnify i j =>
      let ci := class_of s i in
      let cj := class_of s j in
      if Nat.eqb ci cj then s
      else {| cls := map (fun c => if Nat.eqb c cj then ci else c) (cls s);
              tys := set_at ci (meet (type_of s i) (type_of s j)) (tys s) |}
  | HClose i => {| cls := cls s; tys := set_at (class_of s i) (close_ty (type_of s i)) (tys s) |}
  end.

Definition hrun (s : hst) (ops : list hop) : hst := fold_left hstep ops s.

(* what VeryConcreteType reads back from every reference *)
Definition view (s : hst) : list ty := map (fun c => nth c (tys s) TAny) (cls s).

(* ---------- aliases stay aliases ---------- *)
Lemma nth_map_lt {A B} (f : A -> B) l i d d' : i < length l -> nth i (map f l) d = f (nth i l d').
Proof. revert i. induction l as [|x l IH]; intros [|i] H; simpl in *; try lia; [reflexivity|]. apply IH. lia. Qed.

Lemma class_of_step s o i j : i < length (cls s) -> j < length (cls s) ->
  class_of s i = class_of s j -> class_of (hstep s o) i = class_of (hstep s o) j.
Proof.
  intros Hi Hj H. destruct o as [a b|a]; cbn [hstep].
  - destruct (Nat.eqb (class_of s a) (class_of s b)); [exact H|].
    unfold class_of in *. cbn [cls].
    rewrite (nth_map_lt _ _ i 0 0 Hi), (nth_map_lt _ _ j 0 0 Hj), H. reflexivity.
  - exact H.
Qed.

Lemma length_cls_step s o : length (cls (hstep s o)) = length (cls s).
Proof.
  destruct o as [a b|a]; cbn [hstep]; [|reflexivity].
  destruct (Nat.eqb (class_of s a) (class_of s b)); [reflexivity|]. cbn [cls]. apply map_length.
Qed.

Lemma aliases_run ops : forall s i j, i < length (cls s) -> j < length (cls s) ->
  class_of s i = class_of s j -> class_of (hrun s ops) i = class_of (hrun s ops) j.
Proof.
  induction ops as [|o ops IH]; intros s i j Hi Hj H; [exact H|]. cbn [hrun fold_left].
  apply IH; rewrite ?length_cls_step; auto. apply class_of_step; assumption.
Qed.

Lemma unify_makes_aliases s i j : i < length (cls s) -> j < length (cls s) ->
  class_of (hstep s (HUnify i j)) i = class_of (hstep s (HUnify i j)) j.
Proof.
  intros Hi Hj. cbn [hstep]. destruct (Nat.eqb (class_of s i) (class_of s j)) eqn:E; [apply Nat.eqb_eq, E|].
  unfold class_of in *. cbn [cls].
  rewrite (nth_map_lt _ _ i 0 0 Hi), (nth_map_lt _ _ j 0 0 Hj), E, Nat.eqb_refl. reflexivity.
Qed.

(* BOTH SIDES DENOTE THE SAME TYPE, FOR EVER: after Unify(i, j), whatever operations follow (on i, on j or on
   anything else), the two references read back the same type. *)
Theorem unified_references_stay_equal s i j later :
  i < length (cls s) -> j < length (cls s) ->
  let s' := hrun (hstep s (HUnify i j)) later in type_of s' i = type_of s' j.
Proof.
  intros Hi Hj s'. unfold type_of. f_equal. unfold s'.
  apply aliases_run; rewrite ?length_cls_step; auto. apply unify_makes_aliases; assumption.
Qed.

(* repeating a unification changes nothing, in any later state *)
Theorem repeated_unification_is_identity s i j :
  class_of s i = class_of s j -> hstep s (HUnify i j) = s.
Proof. intros H. cbn [hstep]. rewrite H, Nat.eqb_refl. reflexivity. Qed.

Theorem unify_then_repeat s i j : i < length (cls s) -> j < length (cls s) ->
  hstep (hstep s (HUnify i j)) (HUnify i j) = hstep s (HUnify i j) /\
  hstep (hstep s (HUnify i j)) (HUnify j i) = hstep s (HUnify i j).
Proof.
  intros Hi Hj. pose proof (unify_makes_aliases s i j Hi Hj) as H.
  split; apply repeated_unification_is_identity; [exact H | symmetry; exact H].
Qed.

(* the type two freshly unified references denote is the meet of what they denoted *)
Theorem unify_gives_meet s i j : i < length (cls s) -> class_of s i < length (tys s) ->
  class_of s i <> class_of s j ->
  type_of (hstep s (HUnify i j)) i = meet (type_of s i) (type_of s j).
Proof.
  intros Hi Hc Hne. cbn [hstep]. destruct (Nat.eqb (class_of s i) (class_of s j)) eqn:E; [apply Nat.eqb_eq in E; contradiction|].
  unfold type_of at 1. unfold class_of at 1. cbn [cls tys].
  rewrite (nth_map_lt _ _ i 0 0 Hi). fold (class_of s i). rewrite E.
  revert Hc. generalize (class_of s i) (tys s). intros n l. revert n.
  induction l as [|x l IH]; intros [|n] H; simpl in *; try lia; [reflexivity|]. apply IH. lia.
Qed.

(* ---------- comparison with the implementation ---------- *)
Definition any_bad (l : list ty) : bool := existsb has_bad l.
