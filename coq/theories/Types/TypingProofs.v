(* Proofs about Types/Typing.v.
   Part A: the constraint view of inference (on top of the C16 laws).
   Part B: value soundness of the ground typing judgment. *)
From Coq Require Import List Bool Arith ZArith NArith Lia Permutation.
Import ListNotations.
From LV Require Import Types.TypeAlgebra Types.TypeAlgebraProofs Types.TypeLaws Types.TypeCheck Types.Typing.

(* ================================================================== Part A *)

Lemma on_In cs n t : In t (on n cs) <-> In (n, t) cs.
Proof.
  unfold on. rewrite in_map_iff. split.
  - intros [[m t'] [E H]]. simpl in E. subst t'. apply filter_In in H as [H E].
    simpl in E. apply N.eqb_eq in E. subst. exact H.
  - intros H. exists (n, t). split; [reflexivity|]. apply filter_In. split; [exact H|].
    simpl. apply N.eqb_refl.
Qed.

Lemma cs_wf_spec cs : cs_wf cs = true <-> forall n t, In (n, t) cs -> wf t = true.
Proof.
  unfold cs_wf. rewrite forallb_forall. split.
  - intros H n t Hin. apply (H (n, t) Hin).
  - intros H [n t] Hin. apply (H n t Hin).
Qed.

Lemma on_wf cs n : cs_wf cs = true -> Forall (fun t => wf t = true) (on n cs).
Proof.
  intros W. apply Forall_forall. intros t Ht. apply on_In in Ht.
  exact (proj1 (cs_wf_spec cs) W n t Ht).
Qed.

Lemma infer_wf cs n : cs_wf cs = true -> wf (infer cs n) = true.
Proof. intros W. apply fold_meet_wf; [reflexivity | apply on_wf, W]. Qed.

(* the instances of the inferred type are exactly the common instances of the constraints *)
Lemma infer_inst cs n g : cs_wf cs = true ->
  inst (infer cs n) g = forallb (fun t => inst t g) (on n cs).
Proof.
  intros W. unfold infer, meet_all. rewrite fold_meet_inst; [reflexivity | reflexivity | apply on_wf, W].
Qed.

Lemma rejects_spec cs : rejects cs = true <-> exists n t, In (n, t) cs /\ has_bad (infer cs n) = true.
Proof.
  unfold rejects. rewrite existsb_exists. split.
  - intros [n [Hin Hb]]. apply in_map_iff in Hin as [[m t] [E Hin]]. simpl in E. subst m.
    exists n, t. split; assumption.
  - intros [n [t [Hin Hb]]]. exists n. split; [|exact Hb].
    apply in_map_iff. exists (n, t). split; [reflexivity | exact Hin].
Qed.

(* (a) ground completeness: a ground typing that satisfies every constraint is never rejected,
   and it is an instance of what is inferred for every node. *)
Theorem infer_complete_ground cs (gm : N -> gty) :
  cs_wf cs = true ->
  (forall n t, In (n, t) cs -> inst t (gm n) = true) ->
  rejects cs = false /\ forall n, inst (infer cs n) (gm n) = true.
Proof.
  intros W H.
  assert (A : forall n, inst (infer cs n) (gm n) = true).
  { intros n. rewrite infer_inst by exact W. apply forallb_forall. intros t Ht.
    apply on_In in Ht. apply (H n t Ht). }
  split; [|exact A].
  destruct (rejects cs) eqn:E; [|reflexivity].
  apply rejects_spec in E as [n [t [_ Hb]]].
  pose proof (bad_no_inst _ Hb (gm n)) as Hn. rewrite A in Hn. discriminate.
Qed.

(* (a) "exactly that signature": when one of the constraints of a node is its ground type itself
   (a column fed by a literal, a typed column of a callee, a built-in result), everything the
   inferred type admits is admitted by that ground type, and the ground type is admitted. *)
Theorem infer_exact_when_pinned cs (gm : N -> gty) n :
  cs_wf cs = true ->
  (forall m t, In (m, t) cs -> inst t (gm m) = true) ->
  In (n, embed (gm n)) cs ->
  has_bad (infer cs n) = false /\
  inst (infer cs n) (gm n) = true /\
  forall g, inst (infer cs n) g = true -> inst (embed (gm n)) g = true.
Proof.
  intros W H Hpin. destruct (infer_complete_ground cs gm W H) as [R A].
  split; [|split; [apply A|]].
  - destruct (has_bad (infer cs n)) eqn:E; [|reflexivity].
    pose proof (bad_no_inst _ E (gm n)) as Hn. rewrite A in Hn. discriminate.
  - intros g Hg. rewrite infer_inst in Hg by exact W.
    rewrite forallb_forall in Hg. apply Hg. apply on_In. exact Hpin.
Qed.

Lemma cs_wf_perm cs cs' : Permutation cs cs' -> cs_wf cs = true -> cs_wf cs' = true.
Proof.
  intros P W. apply cs_wf_spec. intros n t Hin.
  apply (proj1 (cs_wf_spec cs) W n t). eapply Permutation_in; [apply Permutation_sym, P | exact Hin].
Qed.

(* (b) a node with two constraints that have no common ground instance is reported,
   in whatever order the constraints arrive. *)
Theorem clash_rejected_any_order cs n a b :
  cs_wf cs = true -> In (n, a) cs -> In (n, b) cs ->
  (forall g, inst a g && inst b g = false) ->
  forall cs', Permutation cs cs' -> rejects cs' = true.
Proof.
  intros W Ha Hb Hno cs' P.
  pose proof (cs_wf_perm _ _ P W) as W'.
  assert (Ha' : In (n, a) cs') by (eapply Permutation_in; eassumption).
  assert (Hb' : In (n, b) cs') by (eapply Permutation_in; eassumption).
  apply rejects_spec. exists n, a. split; [exact Ha'|].
  destruct (has_bad (infer cs' n)) eqn:E; [reflexivity|].
  pose proof (inhabited _ (infer_wf cs' n W') E) as Hi.
  rewrite infer_inst in Hi by exact W'. rewrite forallb_forall in Hi.
  pose proof (Hi a (proj2 (on_In cs' n a) Ha')) as Ia.
  pose proof (Hi b (proj2 (on_In cs' n b) Hb')) as Ib.
  specialize (Hno (wit (infer cs' n))). rewrite Ia, Ib in Hno. discriminate.
Qed.

Lemma on_perm cs cs' n : Permutation cs cs' -> Permutation (on n cs) (on n cs').
Proof.
  intros P. unfold on. apply Permutation_map.
  induction P; simpl.
  - constructor.
  - destruct (N.eqb (fst x) n); [constructor|]; exact IHP.
  - destruct (N.eqb (fst x) n), (N.eqb (fst y) n); try apply Permutation_refl.
    apply perm_swap.
  - eapply Permutation_trans; eassumption.
Qed.

Lemma existsb_ext_in {A} (f g : A -> bool) l : (forall x, In x l -> f x = g x) -> existsb f l = existsb g l.
Proof.
  induction l as [|x l IH]; simpl; intros H; [reflexivity|].
  rewrite (H x (or_introl eq_refl)), IH; [reflexivity|]. intros y Hy. apply H. right. exact Hy.
Qed.

Lemma existsb_perm {A} (f : A -> bool) l l' : Permutation l l' -> existsb f l = existsb f l'.
Proof.
  induction 1; simpl; try reflexivity.
  - rewrite IHPermutation. reflexivity.
  - destruct (f x), (f y); reflexivity.
  - congruence.
Qed.

(* (b) in general: verdict and inferred types do not depend on the order of the constraints *)
Theorem verdict_order_independent cs cs' :
  cs_wf cs = true -> Permutation cs cs' ->
  rejects cs = rejects cs' /\ forall n, same (infer cs n) (infer cs' n).
Proof.
  intros W P.
  assert (S : forall n, same (infer cs n) (infer cs' n)).
  { intros n. unfold infer. apply meet_order_independent; [apply on_wf, W | apply on_perm, P]. }
  split; [|exact S].
  unfold rejects. rewrite (existsb_perm _ (map fst cs) (map fst cs')) by (apply Permutation_map, P).
  apply existsb_ext_in. intros n _. apply (proj1 (S n)).
Qed.

(* the verdict is exactly unsatisfiability by ground types *)
Theorem rejects_iff_unsatisfiable cs :
  cs_wf cs = true ->
  (rejects cs = false <-> exists gm : N -> gty, forall n t, In (n, t) cs -> inst t (gm n) = true).
Proof.
  intros W. split.
  - intros R. exists (fun n => wit (infer cs n)). intros n t Hin.
    assert (E : has_bad (infer cs n) = false).
    { destruct (has_bad (infer cs n)) eqn:E; [|reflexivity].
      assert (rejects cs = true) by (apply rejects_spec; eauto). congruence. }
    pose proof (inhabited _ (infer_wf cs n W) E) as Hi.
    rewrite infer_inst in Hi by exact W. rewrite forallb_forall in Hi.
    apply Hi. apply on_In. exact Hin.
  - intros [gm H]. apply (infer_complete_ground cs gm W H).
Qed.

(* embed g is well formed and admits g (for ground types with distinct record keys) *)
Lemma keys_embed_fields fs :
  keys (map (fun kv : field * gty => match kv with (f, x) => (f, embed x) end) fs) = keys fs.
Proof. induction fs as [|[f x] l IH]; simpl; [reflexivity|]. unfold keys in *. simpl. rewrite IH. reflexivity. Qed.

Lemma embed_wf : forall g, gwf g = true -> wf (embed g) = true.
Proof.
  induction g as [a|e IH|fs IH] using gty_ind'; simpl; intros W; try reflexivity.
  - apply IH, W.
  - apply andb_true_iff in W as [ND W].
    change (wf (TRec true (map (fun kv : field * gty => match kv with (f, x) => (f, embed x) end) fs)) = true).
    rewrite wf_rec, keys_embed_fields, ND. simpl.
    apply wf_fields_spec. intros f t Hin. apply in_map_iff in Hin as [[f' x] [E Hin]].
    injection E as E1 E2. subst f t. rewrite Forall_forall in IH. apply (IH (f', x) Hin).
    rewrite forallb_forall in W. apply (W (f', x) Hin).
Qed.

Lemma embed_inst_self : forall g, gwf g = true -> inst (embed g) g = true.
Proof.
  induction g as [a|e IH|fs IH] using gty_ind'; simpl; intros W.
  - destruct a; reflexivity.
  - apply IH, W.
  - apply andb_true_iff in W as [ND W].
    change (inst (TRec true (map (fun kv : field * gty => match kv with (f, x) => (f, embed x) end) fs)) (GRec fs) = true).
    rewrite inst_rec. apply andb_true_iff. split.
    + apply inst_fields_spec. intros f t Hin. apply in_map_iff in Hin as [[f' x] [E Hin]].
      injection E as E1 E2. subst f t. exists x. split.
      * apply In_lookup; [apply nodupf_NoDup, ND | exact Hin].
      * rewrite Forall_forall in IH. apply (IH (f', x) Hin).
        rewrite forallb_forall in W. apply (W (f', x) Hin).
    + rewrite keys_embed_fields. apply subsetf_spec. auto.
Qed.

(* ================================================================== Part B *)
Section ExprInd.
  Variable P : expr -> Prop.
  Hypothesis HNum : forall z, P (ENum z).
  Hypothesis HStr : forall s, P (EStr s).
  Hypothesis HBool : forall b, P (EBool b).
  Hypothesis HVar : forall x, P (EVar x).
  Hypothesis HBin : forall o a b, P a -> P b -> P (EBin o a b).
  Hypothesis HList : forall e0 es, P e0 -> Forall P es -> P (EList e0 es).
  Hypothesis HIn : forall e l, P e -> P l -> P (EIn e l).
  Hypothesis HRec : forall fs, Forall (fun kv => P (snd kv)) fs -> P (ERec fs).
  Hypothesis HField : forall e f, P e -> P (EField e f).
  Hypothesis HCall : forall q args, Forall P args -> P (ECall q args).
  Fixpoint expr_ind' (e : expr) : P e :=
    match e with
    | ENum z => HNum z | EStr s => HStr s | EBool b => HBool b | EVar x => HVar x
    | EBin o a b => HBin o a b (expr_ind' a) (expr_ind' b)
    | EList e0 es =>
        HList e0 es (expr_ind' e0)
          ((fix aux (l : list expr) : Forall P l :=
              match l with [] => Forall_nil _ | x :: l' => Forall_cons x (expr_ind' x) (aux l') end) es)
    | EIn e l => HIn e l (expr_ind' e) (expr_ind' l)
    | ERec fs =>
        HRec fs ((fix aux (l : list (field * expr)) : Forall (fun kv => P (snd kv)) l :=
                    match l with [] => Forall_nil _ | kv :: l' => Forall_cons kv (expr_ind' (snd kv)) (aux l') end) fs)
    | EField e f => HField e f (expr_ind' e)
    | ECall q args =>
        HCall q args
          ((fix aux (l : list expr) : Forall P l :=
              match l with [] => Forall_nil _ | x :: l' => Forall_cons x (expr_ind' x) (aux l') end) args)
    end.
End ExprInd.

Fixpoint geqb_fields (l r : list (field * gty)) : bool :=
  match l, r with
  | [], [] => true
  | (f, x) :: l', (f', y) :: r' => field_eqb f f' && geqb x y && geqb_fields l' r'
  | _, _ => false
  end.

Lemma geqb_rec xs ys : geqb (GRec xs) (GRec ys) = geqb_fields xs ys.
Proof.
  simpl. revert ys. induction xs as [|[f x] l IH]; intros [|[f' y] r]; simpl; try reflexivity.
  all: try (rewrite IH; reflexivity).
Qed.

Lemma geqb_eq : forall a b, geqb a b = true -> a = b.
Proof.
  induction a as [x|e IH|fs IH] using gty_ind'; intros [y|e'|gs] H; try discriminate.
  - simpl in H. apply atom_eqb_eq in H. congruence.
  - simpl in H. f_equal. apply IH, H.
  - rewrite geqb_rec in H. f_equal. revert gs H.
    induction fs as [|[f x] l IHl]; intros [|[f' y] r] H; simpl in H; try discriminate; [reflexivity|].
    apply andb_true_iff in H as [H H3]. apply andb_true_iff in H as [H1 H2].
    apply field_eqb_eq in H1. inversion IH; subst. simpl in *.
    f_equal; [f_equal; auto | apply IHl; assumption].
Qed.

Lemma all_geqb_eq l : forall r, all_geqb l r = true -> l = r.
Proof.
  induction l as [|x l IH]; intros [|y r] H; simpl in H; try discriminate; [reflexivity|].
  apply andb_true_iff in H as [H1 H2]. f_equal; [apply geqb_eq, H1 | apply IH, H2].
Qed.

Lemma map_opt_sound {A B C} (f : A -> option B) (h : A -> option C) (R : C -> B -> Prop) l :
  Forall (fun a => forall b c, f a = Some b -> h a = Some c -> R c b) l ->
  forall bs cs, map_opt f l = Some bs -> map_opt h l = Some cs -> Forall2 R cs bs.
Proof.
  induction 1 as [|a l Ha Hl IH]; simpl; intros bs cs Hb Hc.
  - inversion Hb; inversion Hc; constructor.
  - destruct (f a) as [b|] eqn:Eb; [|discriminate].
    destruct (map_opt f l) as [bs'|] eqn:Ebs; [|discriminate].
    destruct (h a) as [c|] eqn:Ec; [|discriminate].
    destruct (map_opt h l) as [cs'|] eqn:Ecs; [|discriminate].
    inversion Hb; inversion Hc; subst. constructor; [apply Ha; reflexivity | apply IH; reflexivity].
Qed.

Lemma Forall2_In_l {A B} (R : A -> B -> Prop) l l' x :
  Forall2 R l l' -> In x l -> exists y, In y l' /\ R x y.
Proof.
  induction 1 as [|a b l l' Hab H IH]; simpl; [tauto|].
  intros [E|Hin]; [subst; eauto | destruct (IH Hin) as [y [Hy Hr]]; eauto].
Qed.

Lemma Forall2_nth_error {A B} (R : A -> B -> Prop) l l' :
  Forall2 R l l' -> forall i a, nth_error l i = Some a -> exists b, nth_error l' i = Some b /\ R a b.
Proof.
  induction 1 as [|a0 b0 l l' Hab H IH]; intros [|i] a Hn; simpl in *; try discriminate.
  - inversion Hn; subst. eauto.
  - apply IH, Hn.
Qed.

Definition field_rel (kv : field * val) (kg : field * gty) : Prop :=
  fst kv = fst kg /\ has_type (snd kv) (snd kg) = true.

Lemma field_rel_keys vs ts : Forall2 field_rel vs ts -> keys vs = keys ts.
Proof.
  induction 1 as [|[f v] [f' g] l l' [E _] H IH]; [reflexivity|].
  unfold keys in *. simpl in *. congruence.
Qed.

Lemma has_type_rec_intro vs ts :
  Forall2 field_rel vs ts -> nodupf (keys ts) = true -> has_type (VRec vs) (GRec ts) = true.
Proof.
  intros H ND. simpl. apply andb_true_iff. split.
  - apply forallb_forall. intros [f x] Hin.
    destruct (Forall2_In_l _ _ _ _ H Hin) as [[f' g] [Hy [E Ht]]]. simpl in E, Ht. subst f'.
    rewrite (In_lookup f g ts); [exact Ht | apply nodupf_NoDup, ND | exact Hy].
  - rewrite (field_rel_keys _ _ H). apply subsetf_spec. auto.
Qed.

Lemma has_type_field vs ts f v g :
  has_type (VRec vs) (GRec ts) = true -> lookup f vs = Some v -> lookup f ts = Some g ->
  has_type v g = true.
Proof.
  simpl. intros H Hv Hg. apply andb_true_iff in H as [H _]. rewrite forallb_forall in H.
  specialize (H (f, v) (lookup_Some_In _ _ _ Hv)). simpl in H. rewrite Hg in H. exact H.
Qed.

Section Sound.
  Variable F : nat -> list val -> option val.
  Variable Sg : sigma.
  Variable Gm : nat -> option gty.
  Variable rho : nat -> option val.
  Hypothesis HF : fun_ok F Sg.
  Hypothesis Henv : env_ok rho Gm.

  Lemma bin_sound o ta tb va vb g v :
    has_type va ta = true -> has_type vb tb = true ->
    type_bin o ta tb = Some g -> eval_bin o va vb = Some v -> has_type v g = true.
  Proof.
    intros Ha Hb Ht Hv. destruct o.
    - destruct ta as [[]| |], tb as [[]| |]; simpl in Ht; try discriminate. inversion Ht; subst.
      destruct va, vb; simpl in *; try discriminate. inversion Hv. reflexivity.
    - unfold type_bin in Ht. destruct ta as [[]|x|]; try discriminate.
      + destruct tb as [[]| |]; try discriminate. inversion Ht; subst.
        destruct va, vb; simpl in *; try discriminate. inversion Hv. reflexivity.
      + destruct (geqb (GList x) tb) eqn:E; [|discriminate]. apply geqb_eq in E. subst tb.
        inversion Ht; subst.
        destruct va, vb; simpl in *; try discriminate. inversion Hv; subst. simpl.
        rewrite forallb_app, Ha, Hb. reflexivity.
    - unfold type_bin in Ht. destruct (geqb ta tb); [|discriminate]. inversion Ht; subst.
      destruct va, vb; simpl in Hv; try discriminate. inversion Hv. reflexivity.
    - unfold type_bin in Ht. destruct (geqb ta tb); [|discriminate]. inversion Ht; subst.
      simpl in Hv. inversion Hv. reflexivity.
    - destruct ta as [[]| |], tb as [[]| |]; simpl in Ht; try discriminate. inversion Ht; subst.
      destruct va, vb; simpl in *; try discriminate. inversion Hv. reflexivity.
  Qed.

  (* (c) a well-typed expression evaluates, if at all, to a value of its type *)
  Theorem typing_sound : forall e g v,
    type_of Sg Gm e = Some g -> eval F rho e = Some v -> has_type v g = true.
  Proof.
    induction e as [z|s|b|x|o a b IHa IHb|e0 es IH0 IHes|e l IHe IHl|fs IHfs|e f IHe|q args IHargs]
      using expr_ind'; intros g v Ht Hv; simpl in Ht, Hv.
    - inversion Ht; inversion Hv; reflexivity.
    - inversion Ht; inversion Hv; reflexivity.
    - inversion Ht; inversion Hv; reflexivity.
    - eapply Henv; eassumption.
    - destruct (type_of Sg Gm a) as [ta|] eqn:Ea; [|discriminate].
      destruct (type_of Sg Gm b) as [tb|] eqn:Eb; [|discriminate].
      destruct (eval F rho a) as [va|] eqn:Va; [|discriminate].
      destruct (eval F rho b) as [vb|] eqn:Vb; [|discriminate].
      eapply bin_sound; [apply IHa; eauto | apply IHb; eauto | eassumption | eassumption].
    - destruct (type_of Sg Gm e0) as [t|] eqn:E0; [|discriminate].
      destruct (map_opt (type_of Sg Gm) es) as [ts|] eqn:Ets; [|discriminate].
      destruct (negb (is_list t) && forallb (geqb t) ts) eqn:C; [|discriminate].
      inversion Ht; subst g. clear Ht.
      destruct (eval F rho e0) as [v0|] eqn:V0; [|discriminate].
      destruct (map_opt (eval F rho) es) as [vs|] eqn:Vs; [|discriminate].
      inversion Hv; subst v. clear Hv. simpl.
      rewrite (IH0 t v0 eq_refl eq_refl). simpl.
      apply andb_true_iff in C as [_ C].
      pose proof (map_opt_sound _ _ (fun c b => has_type c b = true) es IHes ts vs Ets Vs) as H2.
      clear - H2 C. induction H2 as [|c b cs bs Hcb H IH]; simpl in *; [reflexivity|].
      apply andb_true_iff in C as [C1 C2]. apply geqb_eq in C1. subst b.
      rewrite Hcb. apply IH, C2.
    - destruct (type_of Sg Gm e) as [t|]; [|discriminate].
      destruct (type_of Sg Gm l) as [[| t' |]|]; try discriminate.
      destruct (geqb t' t); [|discriminate]. inversion Ht; subst g.
      destruct (eval F rho e) as [ve|]; [|discriminate].
      destruct (eval F rho l) as [[| | | vs |]|]; try discriminate.
      inversion Hv. reflexivity.
    - destruct (map_opt (on_snd (type_of Sg Gm)) fs) as [ts|] eqn:Ets; [|discriminate].
      destruct (nodupf (keys ts)) eqn:ND; [|discriminate]. inversion Ht; subst g. clear Ht.
      destruct (map_opt (on_snd (eval F rho)) fs) as [vs|] eqn:Vs; [|discriminate].
      inversion Hv; subst v. clear Hv.
      apply has_type_rec_intro; [|exact ND].
      eapply map_opt_sound; [|exact Ets|exact Vs].
      apply Forall_forall. intros [f e] Hin [f1 g1] [f2 v2] H1 H2. simpl in H1, H2.
      destruct (type_of Sg Gm e) as [g'|] eqn:Eg; [|discriminate].
      destruct (eval F rho e) as [v'|] eqn:Ev; [|discriminate].
      inversion H1; inversion H2; subst. split; [reflexivity|]. simpl.
      rewrite Forall_forall in IHfs. apply (IHfs (f2, e) Hin); assumption.
    - destruct (type_of Sg Gm e) as [[| |ts]|] eqn:Et; try discriminate.
      destruct (eval F rho e) as [[| | | |vs]|] eqn:Ev; try discriminate.
      eapply has_type_field; [apply IHe; eauto | exact Hv | exact Ht].
    - destruct (Sg q) as [[targs tres]|] eqn:Eq; [|discriminate].
      destruct (map_opt (type_of Sg Gm) args) as [ts|] eqn:Ets; [|discriminate].
      destruct (all_geqb targs ts) eqn:C; [|discriminate]. inversion Ht; subst g.
      apply all_geqb_eq in C. subst ts.
      destruct (map_opt (eval F rho) args) as [vs|] eqn:Vs; [|discriminate].
      eapply HF; [exact Eq | | exact Hv].
      eapply map_opt_sound; [exact IHargs | exact Ets | exact Vs].
  Qed.

  (* every row a checked rule produces has the declared column types *)
  Theorem rule_head_sound Rs r :
    check_rule Sg Rs Gm r = true ->
    forall row, map_opt (eval F rho) (r_head r) = Some row ->
    exists ts, Rs (r_pred r) = Some ts /\ Forall2 (fun v g => has_type v g = true) row ts.
  Proof.
    unfold check_rule. intros C row Hrow. apply andb_true_iff in C as [_ C].
    destruct (Rs (r_pred r)) as [ts|]; [|discriminate].
    destruct (map_opt (type_of Sg Gm) (r_head r)) as [ts'|] eqn:Ets; [|discriminate].
    apply all_geqb_eq in C. subst ts'. exists ts. split; [reflexivity|].
    eapply map_opt_sound; [|exact Ets|exact Hrow].
    apply Forall_forall. intros e _ b c. apply typing_sound.
  Qed.
End Sound.

(* where the environment hypothesis comes from: a variable that is a direct argument of a body
   atom which the valuation satisfies holds a value of the callee's column type, which the rule
   check made the variable's type *)
Theorem atom_binds F Sg Rs Gm D rho q args :
  db_ok D Rs -> sat_conj F D rho (CAtom q args) -> check_conj Sg Rs Gm (CAtom q args) = true ->
  forall i x, nth_error args i = Some (EVar x) ->
  exists g v, Gm x = Some g /\ rho x = Some v /\ has_type v g = true.
Proof.
  intros HD [row [Hrow Hsat]] C i x Hi. simpl in C.
  destruct (Rs q) as [ts|] eqn:Eq; [|discriminate].
  destruct (map_opt (type_of Sg Gm) args) as [ts'|] eqn:Ets; [|discriminate].
  apply all_geqb_eq in C. subst ts'.
  destruct (Forall2_nth_error _ _ _ Hsat i _ Hi) as [v [Hv Ev]]. simpl in Ev.
  pose proof (HD q ts row Eq Hrow) as Hty.
  destruct (Forall2_nth_error _ _ _ Hty i _ Hv) as [g [Hg Hvg]].
  exists g, v. split; [|split; assumption].
  (* the i-th synthesized type is Gm x *)
  clear - Ets Hi Hg. revert i ts Ets Hi Hg.
  induction args as [|a l IH]; intros [|i] ts Ets Hi Hg; simpl in *; try discriminate.
  - inversion Hi; subst a. simpl in Ets. destruct (Gm x) as [gx|]; [|discriminate].
    destruct (map_opt (type_of Sg Gm) l); [|discriminate]. inversion Ets; subst. simpl in Hg. congruence.
  - destruct (type_of Sg Gm a); [|discriminate].
    destruct (map_opt (type_of Sg Gm) l) as [ts0|] eqn:E; [|discriminate].
    inversion Ets; subst. simpl in Hg. eapply IH; [reflexivity | exact Hi | exact Hg].
Qed.

(* the two other binding forms: x in l and x == e give x a value of its type as soon as the other
   side evaluates to a value of its type (which typing_sound gives for the variables bound before) *)
Theorem in_binds F Sg Rs Gm D rho x l :
  (forall g v, type_of Sg Gm l = Some g -> eval F rho l = Some v -> has_type v g = true) ->
  sat_conj F D rho (CIn (EVar x) l) -> check_conj Sg Rs Gm (CIn (EVar x) l) = true ->
  exists g v, Gm x = Some g /\ rho x = Some v /\ has_type v g = true.
Proof.
  intros Hl [v [vs [Hx [Hvs Hin]]]] C. simpl in C, Hx.
  destruct (Gm x) as [t|] eqn:Ex; [|discriminate].
  destruct (type_of Sg Gm l) as [[| t' |]|] eqn:El; try discriminate.
  apply geqb_eq in C. subst t'.
  exists t, v. split; [reflexivity|]. split; [exact Hx|].
  pose proof (Hl (GList t) (VList vs) eq_refl Hvs) as H. simpl in H.
  rewrite forallb_forall in H. apply H, Hin.
Qed.

Theorem eq_binds F Sg Rs Gm D rho x e :
  (forall g v, type_of Sg Gm e = Some g -> eval F rho e = Some v -> has_type v g = true) ->
  sat_conj F D rho (CEq (EVar x) e) -> check_conj Sg Rs Gm (CEq (EVar x) e) = true ->
  exists g v, Gm x = Some g /\ rho x = Some v /\ has_type v g = true.
Proof.
  intros He [v [Hx Hv]] C. simpl in C, Hx.
  destruct (Gm x) as [t|] eqn:Ex; [|discriminate].
  destruct (type_of Sg Gm e) as [t'|] eqn:Ee; [|discriminate].
  apply geqb_eq in C. subst t'.
  exists t, v. split; [reflexivity|]. split; [exact Hx|]. apply (He t v eq_refl Hv).
Qed.
