(* Model of reference_algebra.UnifyListElement (the analysis of `b in a`): the element is first narrowed to a
   non-list ("Singular"), then the list is unified with [element]; the element reference is shared with the
   list, so afterwards it reads back as the element type of the list.  Tied by props/c16.py (element stream). *)
From Coq Require Import List Bool.
Import ListNotations.
From LV Require Import Types.TypeAlgebra Types.TypeAlgebraProofs.

Definition unify_list_element (a b : ty) : ty * ty :=
  let b1 := meet b TSingular in
  let a' := meet a (TList b1) in
  (a', match a' with TList e => e | _ => b1 end).

Definition scalar (g : gty) : bool := match g with GList _ => false | _ => true end.

Lemma inst_singular g : inst TSingular g = scalar g.
Proof. destruct g; reflexivity. Qed.

(* WHAT `b in a` MEANS: after the analysis the list reference admits exactly the lists of non-list values that
   both the old list type and the old element type admit *)
Theorem list_after_element_analysis a b : wf a = true -> wf b = true ->
  forall g, inst (fst (unify_list_element a b)) (GList g) = inst a (GList g) && (inst b g && scalar g).
Proof.
  intros Wa Wb g. unfold unify_list_element. cbn [fst].
  assert (W1 : wf (meet b TSingular) = true) by (apply meet_wf; [exact Wb | reflexivity]).
  rewrite (meet_sound a Wa (TList (meet b TSingular)) W1 (GList g)). cbn [inst].
  rewrite (meet_sound b Wb TSingular eq_refl g), inst_singular. reflexivity.
Qed.

(* and the element reference admits exactly the elements of those lists *)
Theorem element_after_element_analysis a b e : wf a = true -> wf b = true ->
  fst (unify_list_element a b) = TList e ->
  snd (unify_list_element a b) = e /\
  forall g, inst e g = inst a (GList g) && (inst b g && scalar g).
Proof.
  intros Wa Wb H. split.
  - unfold unify_list_element in *. cbn [fst snd] in *. rewrite H. reflexivity.
  - intros g. rewrite <- (list_after_element_analysis a b Wa Wb g), H. reflexivity.
Qed.

(* a list can never be an element of the analysed list: lists of lists are a clash of `in` *)
Corollary list_element_clashes a b g : wf a = true -> wf b = true ->
  inst (fst (unify_list_element a b)) (GList (GList g)) = false.
Proof. intros Wa Wb. rewrite list_after_element_analysis by assumption. cbn [scalar]. rewrite !andb_false_r. reflexivity. Qed.
