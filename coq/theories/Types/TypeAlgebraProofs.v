(* Proofs about the pure type algebra: meet is the intersection of ground instances,
   a clash is reported iff no common instance exists, and the algebraic laws follow. *)
From Coq Require Import List Bool Arith Lia.
Import ListNotations.
From LV Require Import Types.TypeAlgebra.

(* ---------- induction principle for the nested type ---------- *)
Section TyInd.
  Variable P : ty -> Prop.
  Hypothesis HAny : P TAny.
  Hypothesis HSing : P TSingular.
  Hypothesis HSeq : P TSequential.
  Hypothesis HAtom : forall a, P (TAtom a).
  Hypothesis HList : forall e, P e -> P (TList e).
  Hypothesis HRec : forall c fs, Forall (fun kv => P (snd kv)) fs -> P (TRec c fs).
  Hypothesis HBad : P TBad.
  Fixpoint ty_ind' (t : ty) : P t :=
    match t with
    | TAny => HAny | TSingular => HSing | TSequential => HSeq
    | TAtom a => HAtom a
    | TList e => HList e (ty_ind' e)
    | TRec c fs =>
        HRec c fs ((fix aux (l : list (field * ty)) : Forall (fun kv => P (snd kv)) l :=
                      match l with
                      | [] => Forall_nil _
                      | kv :: l' => Forall_cons kv (ty_ind' (snd kv)) (aux l')
                      end) fs)
    | TBad => HBad
    end.
End TyInd.

Section GtyInd.
  Variable P : gty -> Prop.
  Hypothesis HAtom : forall a, P (GAtom a).
  Hypothesis HList : forall e, P e -> P (GList e).
  Hypothesis HRec : forall fs, Forall (fun kv => P (snd kv)) fs -> P (GRec fs).
  Fixpoint gty_ind' (t : gty) : P t :=
    match t with
    | GAtom a => HAtom a
    | GList e => HList e (gty_ind' e)
    | GRec fs =>
        HRec fs ((fix aux (l : list (field * gty)) : Forall (fun kv => P (snd kv)) l :=
                    match l with
                    | [] => Forall_nil _
                    | kv :: l' => Forall_cons kv (gty_ind' (snd kv)) (aux l')
                    end) fs)
    end.
End GtyInd.

(* ---------- fields, lookup ---------- *)
Lemma field_eqb_eq x y : field_eqb x y = true <-> x = y.
Proof.
  destruct x, y; simpl; try (split; [discriminate | congruence]);
    rewrite Nat.eqb_eq; split; congruence.
Qed.

Lemma field_eqb_refl x : field_eqb x x = true.
Proof. apply field_eqb_eq; reflexivity. Qed.

Lemma field_eqb_neq x y : field_eqb x y = false <-> x <> y.
Proof.
  split; intros H.
  - intros E. apply field_eqb_eq in E. congruence.
  - destruct (field_eqb x y) eqn:E; [apply field_eqb_eq in E; contradiction | reflexivity].
Qed.

Lemma atom_eqb_eq x y : atom_eqb x y = true <-> x = y.
Proof. destruct x, y; simpl; split; congruence. Qed.

Lemma memf_In f l : memf f l = true <-> In f l.
Proof.
  induction l as [|k l IH]; simpl.
  - split; [discriminate | tauto].
  - rewrite orb_true_iff, IH, field_eqb_eq. split; intros [H|H]; auto.
Qed.

Lemma memf_false f l : memf f l = false <-> ~ In f l.
Proof.
  rewrite <- memf_In. destruct (memf f l); split; congruence.
Qed.

Lemma subsetf_spec a b : subsetf a b = true <-> (forall f, In f a -> In f b).
Proof.
  unfold subsetf. rewrite forallb_forall. split; intros H f Hf.
  - apply memf_In, H, Hf.
  - apply memf_In, H, Hf.
Qed.

Lemma nodupf_NoDup l : nodupf l = true <-> NoDup l.
Proof.
  induction l as [|k l IH]; simpl.
  - split; [constructor | reflexivity].
  - rewrite andb_true_iff, negb_true_iff, memf_false, IH. split.
    + intros [H1 H2]. constructor; assumption.
    + intros H. inversion H; subst. split; assumption.
Qed.

Lemma lookup_Some_In {A} f (l : list (field * A)) v : lookup f l = Some v -> In (f, v) l.
Proof.
  induction l as [|[k w] l IH]; simpl; [discriminate|].
  destruct (field_eqb f k) eqn:E.
  - apply field_eqb_eq in E. subst. intros H. inversion H. subst. left. reflexivity.
  - intros H. right. apply IH, H.
Qed.

Lemma lookup_None {A} f (l : list (field * A)) : lookup f l = None <-> ~ In f (keys l).
Proof.
  induction l as [|[k w] l IH]; simpl; [tauto|].
  destruct (field_eqb f k) eqn:E.
  - apply field_eqb_eq in E. subst. split; [discriminate | intros H; exfalso; apply H; left; reflexivity].
  - apply field_eqb_neq in E. rewrite IH. split; intros H.
    + intros [H1|H1]; [congruence | contradiction].
    + intros H1. apply H. right. exact H1.
Qed.

Lemma In_lookup {A} f v (l : list (field * A)) :
  NoDup (keys l) -> In (f, v) l -> lookup f l = Some v.
Proof.
  induction l as [|[k w] l IH]; simpl; [tauto|].
  intros ND [H|H].
  - inversion H; subst. rewrite field_eqb_refl. reflexivity.
  - inversion ND as [|? ? Hk ND']; subst.
    destruct (field_eqb f k) eqn:E.
    + apply field_eqb_eq in E. subst. exfalso. apply Hk.
      change (In (fst (k, v)) (map fst l)). apply in_map, H.
    + apply IH; assumption.
Qed.

Lemma In_keys {A} f (l : list (field * A)) : In f (keys l) <-> exists v, In (f, v) l.
Proof.
  unfold keys. rewrite in_map_iff. split.
  - intros [[k v] [H1 H2]]. simpl in H1. subst. exists v. exact H2.
  - intros [v H]. exists (f, v). split; [reflexivity | exact H].
Qed.

Lemma lookup_Some_key {A} f (l : list (field * A)) v : lookup f l = Some v -> In f (keys l).
Proof. intros H. apply In_keys. exists v. apply lookup_Some_In, H. Qed.

(* ---------- the inner fixpoints as named functions ---------- *)
Fixpoint inst_fields (fs : list (field * ty)) (gs : list (field * gty)) : bool :=
  match fs with
  | [] => true
  | (f, t') :: l' =>
      match lookup f gs with Some g' => inst t' g' | None => false end && inst_fields l' gs
  end.

Lemma inst_rec c fs g :
  inst (TRec c fs) g =
  match g with
  | GRec gs => inst_fields fs gs && (if c then subsetf (keys gs) (keys fs) else true)
  | _ => false
  end.
Proof.
  destruct g; try reflexivity. simpl. f_equal.
  induction fs as [|[f t] l IH]; simpl; [reflexivity|]. rewrite IH. reflexivity.
Qed.

Fixpoint wf_fields (fs : list (field * ty)) : bool :=
  match fs with [] => true | (_, t') :: l' => wf t' && wf_fields l' end.

Lemma wf_rec c fs : wf (TRec c fs) = nodupf (keys fs) && wf_fields fs.
Proof.
  simpl; f_equal; induction fs as [|[f t] l IH]; simpl; rewrite ?IH; reflexivity.
Qed.

Fixpoint bad_fields (fs : list (field * ty)) : bool :=
  match fs with [] => false | (_, t') :: l' => has_bad t' || bad_fields l' end.

Lemma has_bad_rec c fs : has_bad (TRec c fs) = bad_fields fs.
Proof.
  simpl. induction fs as [|[f t] l IH]; simpl; [reflexivity|]. rewrite IH. reflexivity.
Qed.

Fixpoint meet_fields (fb fa : list (field * ty)) : list (field * ty) :=
  match fa with
  | [] => []
  | (f, ta) :: l' =>
      (f, match lookup f fb with Some tb => meet ta tb | None => ta end) :: meet_fields fb l'
  end.

Lemma meet_rec ca fa cb fb :
  meet (TRec ca fa) (TRec cb fb) =
  if records_ok ca cb fa fb
  then TRec (ca || cb) (meet_fields fb fa ++ rest_fields fa fb) else TBad.
Proof.
  simpl. destruct (records_ok ca cb fa fb); [|reflexivity]. f_equal. f_equal.
  induction fa as [|[f t] l IH]; simpl; [reflexivity|]. rewrite IH. reflexivity.
Qed.

Lemma inst_fields_spec fs gs :
  inst_fields fs gs = true <->
  (forall f t, In (f, t) fs -> exists g, lookup f gs = Some g /\ inst t g = true).
Proof.
  induction fs as [|[k t0] l IH]; simpl.
  - split; [intros _ f t [] | reflexivity].
  - rewrite andb_true_iff, IH. split.
    + intros [H1 H2] f t [E|Hin].
      * inversion E; subst. destruct (lookup f gs); [eauto | discriminate].
      * apply H2, Hin.
    + intros H. split.
      * destruct (H k t0 (or_introl eq_refl)) as [g [Hg Hi]]. rewrite Hg. exact Hi.
      * intros f t Hin. apply H. right. exact Hin.
Qed.

Lemma wf_fields_spec fs : wf_fields fs = true <-> (forall f t, In (f, t) fs -> wf t = true).
Proof.
  induction fs as [|[k t0] l IH]; simpl.
  - split; [intros _ f t [] | reflexivity].
  - rewrite andb_true_iff, IH. split.
    + intros [H1 H2] f t [E|Hin]; [inversion E; subst; exact H1 | eapply H2, Hin].
    + intros H. split; [eapply H; left; reflexivity | intros f t Hin; eapply H; right; exact Hin].
Qed.

Lemma wf_fields_In fs f t : wf_fields fs = true -> In (f, t) fs -> wf t = true.
Proof. intros H. apply wf_fields_spec. exact H. Qed.

Lemma bad_fields_spec fs : bad_fields fs = true <-> (exists f t, In (f, t) fs /\ has_bad t = true).
Proof.
  induction fs as [|[k t0] l IH]; simpl.
  - split; [discriminate | intros [f [t [[] _]]]].
  - rewrite orb_true_iff, IH. split.
    + intros [H|[f [t [Hin Hb]]]]; [exists k, t0; auto | exists f, t; auto].
    + intros [f [t [[E|Hin] Hb]]]; [inversion E; subst; auto | right; eauto].
Qed.

Lemma keys_meet_fields fb fa : keys (meet_fields fb fa) = keys fa.
Proof. induction fa as [|[f t] l IH]; simpl; [reflexivity|]. rewrite IH. reflexivity. Qed.

Lemma In_meet_fields fb fa f t :
  In (f, t) (meet_fields fb fa) <->
  exists ta, In (f, ta) fa /\ t = match lookup f fb with Some tb => meet ta tb | None => ta end.
Proof.
  induction fa as [|[k t0] l IH]; simpl.
  - split; [tauto | intros [ta [[] _]]].
  - rewrite IH. split.
    + intros [E|[ta [Hin Ht]]].
      * inversion E; subst. exists t0. split; [left; reflexivity | reflexivity].
      * exists ta. split; [right; exact Hin | exact Ht].
    + intros [ta [[E|Hin] Ht]].
      * inversion E; subst. left. reflexivity.
      * right. exists ta. split; assumption.
Qed.

Lemma In_rest_fields fa fb f t :
  In (f, t) (rest_fields fa fb) <-> In (f, t) fb /\ ~ In f (keys fa).
Proof.
  unfold rest_fields. rewrite filter_In. simpl. rewrite negb_true_iff, memf_false. tauto.
Qed.

(* ---------- wf is preserved ---------- *)
Lemma meet_wf : forall a, wf a = true -> forall b, wf b = true -> wf (meet a b) = true.
Proof.
  induction a as [| | |x|ea IH|ca fa IH|] using ty_ind'; intros Wa b Wb.
  - exact Wb.
  - destruct b; simpl; auto.
  - destruct b as [| | |y| | |]; simpl; auto. destruct y; auto.
  - destruct b as [| | |y| | |]; simpl; auto. { destruct x; auto. } destruct (atom_eqb x y); auto.
  - destruct b as [| | |y|eb| |]; simpl; auto.
    simpl in Wa, Wb. specialize (IH Wa eb Wb). destruct (meet ea eb); simpl; auto.
  - destruct b as [| | |y|eb|cb fb|]; try (simpl; auto; fail).
    rewrite meet_rec. destruct (records_ok ca cb fa fb); [|reflexivity].
    rewrite wf_rec in Wa, Wb |- *. apply andb_true_iff in Wa as [NDa Wfa].
    apply andb_true_iff in Wb as [NDb Wfb].
    apply nodupf_NoDup in NDa. apply nodupf_NoDup in NDb.
    apply andb_true_iff. split.
    + apply nodupf_NoDup. unfold keys. rewrite map_app.
      change (map fst (meet_fields fb fa)) with (keys (meet_fields fb fa)).
      rewrite keys_meet_fields.
      assert (Hr : forall l, NoDup (keys l) -> NoDup (map fst (rest_fields fa l)) /\
                  (forall f, In f (map fst (rest_fields fa l)) -> In f (keys l) /\ ~ In f (keys fa))).
      { clear. induction l as [|[k v] l IHl]; simpl; intros ND.
        - split; [constructor | intros f []].
        - inversion ND as [|? ? Hk ND']; subst. destruct (IHl ND') as [H1 H2].
          unfold rest_fields in *. simpl.
          destruct (memf k (keys fa)) eqn:E; simpl.
          + split; [exact H1 | intros f Hf; destruct (H2 f Hf); auto].
          + split.
            * constructor; [intros Hin; apply H2 in Hin; tauto | exact H1].
            * intros f [Ef|Hf]; [subst; split; [auto | apply memf_false; exact E]
                                | destruct (H2 f Hf); auto]. }
      destruct (Hr fb NDb) as [H1 H2].
      clear Hr. revert H1 H2. generalize (map fst (rest_fields fa fb)). intros r H1 H2.
      induction (keys fa) as [|k l IHl] in NDa, H2 |- *; simpl; [exact H1|].
      inversion NDa as [|? ? Hk ND']; subst. constructor.
      * rewrite in_app_iff. intros [Hin|Hin]; [contradiction | apply H2 in Hin; simpl in Hin; tauto].
      * apply IHl; [exact ND' | intros f Hf; destruct (H2 f Hf) as [A B]; split;
                                 [exact A | intros C; apply B; right; exact C]].
    + apply wf_fields_spec. intros f t Hin. apply in_app_or in Hin as [Hin|Hin].
      * apply In_meet_fields in Hin as [ta [Hta Ht]]. subst t.
        assert (Wta : wf ta = true) by exact (wf_fields_In _ _ _ Wfa Hta).
        destruct (lookup f fb) as [tb|] eqn:El; [|exact Wta].
        rewrite Forall_forall in IH. apply (IH (f, ta) Hta Wta).
        eapply wf_fields_In; [exact Wfb | apply lookup_Some_In, El].
      * apply In_rest_fields in Hin as [Hin _]. exact (wf_fields_In _ _ _ Wfb Hin).
  - reflexivity.
Qed.

(* ---------- meet is intersection of instances ---------- *)
Lemma bool_eq_iff (x y : bool) : (x = true <-> y = true) -> x = y.
Proof. destruct x, y; intros [H1 H2]; auto; try (symmetry; auto). Qed.

Ltac ms_crush g :=
  simpl (meet _ _); rewrite ?inst_rec; simpl; destruct g as [[]| |]; simpl;
  rewrite ?andb_true_r, ?andb_false_r, ?andb_diag; try reflexivity.

Theorem meet_sound : forall a, wf a = true -> forall b, wf b = true ->
  forall g, inst (meet a b) g = inst a g && inst b g.
Proof.
  induction a as [| | |x|ea IH|ca fa IH|] using ty_ind'; intros Wa b Wb g.
  - reflexivity.
  - destruct b as [| | |y|eb|cb fb|]; try solve [ms_crush g].
    all: try solve [destruct y; ms_crush g].
  - destruct b as [| | |y|eb|cb fb|]; try solve [ms_crush g].
    all: try solve [destruct y; ms_crush g].
  - destruct b as [| | |y|eb|cb fb|]; try solve [destruct x; ms_crush g].
    all: try solve [destruct x, y; ms_crush g].
  - destruct b as [| | |y|eb|cb fb|]; try solve [ms_crush g].
    simpl in Wa, Wb. specialize (IH Wa eb Wb).
    simpl. destruct g as [z|ge|gs].
    + destruct (meet ea eb); reflexivity.
    + rewrite <- IH. destruct (meet ea eb); reflexivity.
    + destruct (meet ea eb); reflexivity.
  - destruct b as [| | |y|eb|cb fb|]; try solve [ms_crush g].
    rewrite meet_rec.
    rewrite wf_rec in Wa, Wb. apply andb_true_iff in Wa as [NDa Wfa].
    apply andb_true_iff in Wb as [NDb Wfb].
    apply nodupf_NoDup in NDa. apply nodupf_NoDup in NDb.
    rewrite Forall_forall in IH.
    destruct g as [z|ge|gs];
      [destruct (records_ok ca cb fa fb); rewrite ?inst_rec; reflexivity
      |destruct (records_ok ca cb fa fb); rewrite ?inst_rec; reflexivity|].
    (* the fields part, as propositions *)
    assert (Hfields :
      inst_fields (meet_fields fb fa ++ rest_fields fa fb) gs = true <->
      inst_fields fa gs = true /\ inst_fields fb gs = true).
    { rewrite !inst_fields_spec. split.
      - intros H. split; intros f t Hin.
        + destruct (H f (match lookup f fb with Some tb => meet t tb | None => t end))
            as [g' [Hg Hi]].
          { apply in_or_app. left. apply In_meet_fields. exists t. auto. }
          exists g'. split; [exact Hg|].
          destruct (lookup f fb) as [tb|] eqn:El; [|exact Hi].
          rewrite (IH (f, t) Hin) in Hi.
          * apply andb_true_iff in Hi. tauto.
          * exact (wf_fields_In _ _ _ Wfa Hin).
          * eapply wf_fields_In; [exact Wfb | apply lookup_Some_In, El].
        + destruct (lookup f fa) as [ta|] eqn:Ela.
          * destruct (H f (meet ta t)) as [g' [Hg Hi]].
            { apply in_or_app. left. apply In_meet_fields. exists ta.
              split; [apply lookup_Some_In, Ela|]. rewrite (In_lookup f t fb NDb Hin). reflexivity. }
            exists g'. split; [exact Hg|].
            rewrite (IH (f, ta)) in Hi.
            -- apply andb_true_iff in Hi. tauto.
            -- apply lookup_Some_In, Ela.
            -- eapply wf_fields_In; [exact Wfa | apply lookup_Some_In, Ela].
            -- exact (wf_fields_In _ _ _ Wfb Hin).
          * apply H. apply in_or_app. right. apply In_rest_fields. split; [exact Hin|].
            apply lookup_None, Ela.
      - intros [Ha Hb] f t Hin. apply in_app_or in Hin as [Hin|Hin].
        + apply In_meet_fields in Hin as [ta [Hta Ht]]. subst t.
          destruct (Ha f ta Hta) as [g' [Hg Hi]]. exists g'. split; [exact Hg|].
          destruct (lookup f fb) as [tb|] eqn:El; [|exact Hi].
          rewrite (IH (f, ta) Hta).
          * simpl. rewrite Hi. simpl. destruct (Hb f tb (lookup_Some_In _ _ _ El)) as [g2 [Hg2 Hi2]].
            congruence.
          * exact (wf_fields_In _ _ _ Wfa Hta).
          * eapply wf_fields_In; [exact Wfb | apply lookup_Some_In, El].
        + apply In_rest_fields in Hin as [Hin _]. apply Hb, Hin. }
    assert (Hkeys : forall f, In f (keys (meet_fields fb fa ++ rest_fields fa fb)) <->
                              In f (keys fa) \/ In f (keys fb)).
    { intros f. unfold keys at 1. rewrite map_app, in_app_iff.
      change (map fst (meet_fields fb fa)) with (keys (meet_fields fb fa)).
      rewrite keys_meet_fields.
      change (map fst (rest_fields fa fb)) with (keys (rest_fields fa fb)).
      rewrite (In_keys f (rest_fields fa fb)). split.
      - intros [H|[v H]]; [left; exact H|]. apply In_rest_fields in H as [H _].
        right. apply In_keys. eauto.
      - intros [H|H]; [left; exact H|].
        destruct (memf f (keys fa)) eqn:E; [left; apply memf_In, E|].
        right. apply In_keys in H as [v H]. exists v. apply In_rest_fields.
        split; [exact H | apply memf_false, E]. }
    destruct (records_ok ca cb fa fb) eqn:Eok.
    + rewrite !inst_rec. apply bool_eq_iff.
      rewrite !andb_true_iff, Hfields.
      unfold records_ok in Eok. apply andb_true_iff in Eok as [Ok1 Ok2].
      assert (Hclosed :
        (if ca || cb then subsetf (keys gs) (keys (meet_fields fb fa ++ rest_fields fa fb)) else true)
          = true <->
        (if ca then subsetf (keys gs) (keys fa) else true) = true /\
        (if cb then subsetf (keys gs) (keys fb) else true) = true).
      { destruct ca, cb; simpl; rewrite ?subsetf_spec in *.
        - split.
          + intros H. split; intros f Hf; destruct (proj1 (Hkeys f) (H f Hf)); auto.
          + intros [H1 H2] f Hf. apply Hkeys. left. auto.
        - split.
          + intros H. split; [|reflexivity]. intros f Hf.
            destruct (proj1 (Hkeys f) (H f Hf)); auto.
          + intros [H1 _] f Hf. apply Hkeys. left. auto.
        - split.
          + intros H. split; [reflexivity|]. intros f Hf.
            destruct (proj1 (Hkeys f) (H f Hf)); auto.
          + intros [_ H2] f Hf. apply Hkeys. right. auto.
        - tauto. }
      rewrite Hclosed. tauto.
    + simpl (inst TBad _). symmetry. apply andb_false_iff.
      rewrite !inst_rec.
      destruct (inst_fields fa gs && (if ca then subsetf (keys gs) (keys fa) else true)) eqn:Ea;
        [|left; reflexivity].
      right. apply andb_true_iff in Ea as [Ea1 Ea2].
      destruct (inst_fields fb gs && (if cb then subsetf (keys gs) (keys fb) else true)) eqn:Eb;
        [|reflexivity].
      exfalso. apply andb_true_iff in Eb as [Eb1 Eb2].
      unfold records_ok in Eok. apply andb_false_iff in Eok as [Eok|Eok].
      * destruct cb; [|discriminate].
        assert (subsetf (keys fa) (keys fb) = true); [|congruence].
        apply subsetf_spec. intros f Hf. rewrite subsetf_spec in Eb2. apply Eb2.
        apply In_keys in Hf as [t Hin].
        destruct (proj1 (inst_fields_spec fa gs) Ea1 f t Hin) as [g' [Hg _]].
        eapply lookup_Some_key, Hg.
      * destruct ca; [|discriminate].
        assert (subsetf (keys fb) (keys fa) = true); [|congruence].
        apply subsetf_spec. intros f Hf. rewrite subsetf_spec in Ea2. apply Ea2.
        apply In_keys in Hf as [t Hin].
        destruct (proj1 (inst_fields_spec fb gs) Eb1 f t Hin) as [g' [Hg _]].
        eapply lookup_Some_key, Hg.
  - reflexivity.
Qed.
