(* C05 — model of what the type checker of type_inference/research/infer.py promises.

   Three parts (models only; proofs are in TypingProofs.v):

   1. A small typed core expression language (number / string / boolean literals, variables,
      + ++ < == &&, list literals, `in`, record literals, field access, calls of functional
      predicates with a signature Sigma), values `val`, `has_type : val -> gty -> bool`,
      an evaluator `eval`, and the algorithmic ground typing judgment `type_of`.
      Num is modelled by Z (SQLite's int/float distinction is abstracted away).

   2. Rules over that language: conjuncts (predicate atoms, equalities, inclusions), the
      declarative meaning `sat_conj` of a conjunct under a valuation and a database, and the ground
      rule check `check_rule` (the judgment "every variable and argument has one ground type").
      Aggregation and combines are not part of this core language (they are exercised on the real
      checker and on SQLite by the harness only).

   3. The constraint view of inference.  A rule (a program) generates a list of constraints
      (node, t): "node must be an instance of t", where a node is a variable of a rule, an
      expression site or a predicate column, and t : ty is a type of the C16 algebra.
      Inference is `meet_all` of the constraints of each node; the checker rejects when some
      node's meet contains TBad.  This is the part of TypeInferenceForRule / TypeErrorChecker that
      the C16 theorems speak about.  What is NOT modelled here: how infer.py produces the
      constraints (ActMinding*, ActUnifying, WalkInitializingVariables, the reference heap with
      sharing).  The harness (props/c05.py) emits the constraint list of each generated program;
      that emission is trusted and is tied to the real checker by the correspondence run. *)
From Coq Require Import List Bool Arith ZArith NArith.
Import ListNotations.
From LV Require Import Types.TypeAlgebra Types.TypeLaws Types.TypeCheck.

(* ------------------------------------------------------------------ values *)
Inductive val :=
| VNum (z : Z)
| VStr (s : list nat)
| VBool (b : bool)
| VList (vs : list val)
| VRec (fs : list (field * val)).

Fixpoint has_type (v : val) (g : gty) {struct v} : bool :=
  match v with
  | VNum _ => match g with GAtom ANum => true | _ => false end
  | VStr _ => match g with GAtom AStr => true | _ => false end
  | VBool _ => match g with GAtom ABool => true | _ => false end
  | VList vs => match g with
                | GList ge => forallb (fun x => has_type x ge) vs
                | _ => false
                end
  | VRec fs => match g with
               | GRec gs =>
                   forallb (fun kv => match kv with
                                      | (f, x) => match lookup f gs with
                                                  | Some g' => has_type x g'
                                                  | None => false
                                                  end
                                      end) fs
                   && subsetf (keys gs) (keys fs)
               | _ => false
               end
  end.

Fixpoint veqb (a b : val) {struct a} : bool :=
  match a, b with
  | VNum x, VNum y => Z.eqb x y
  | VStr x, VStr y => if list_eq_dec Nat.eq_dec x y then true else false
  | VBool x, VBool y => Bool.eqb x y
  | VList xs, VList ys =>
      (fix go (l : list val) (r : list val) : bool :=
         match l, r with
         | [], [] => true
         | x :: l', y :: r' => veqb x y && go l' r'
         | _, _ => false
         end) xs ys
  | VRec xs, VRec ys =>
      Nat.eqb (length xs) (length ys) &&
      forallb (fun kv => match kv with
                         | (f, x) => match lookup f ys with
                                     | Some y => veqb x y
                                     | None => false
                                     end
                         end) xs
  | _, _ => false
  end.

(* ------------------------------------------------------------------ expressions *)
Inductive binop := OAdd | OCat | OLt | OEq | OAnd.

Inductive expr :=
| ENum (z : Z)
| EStr (s : list nat)
| EBool (b : bool)
| EVar (x : nat)
| EBin (o : binop) (a b : expr)
| EList (e0 : expr) (es : list expr)         (* non-empty list literal *)
| EIn (e l : expr)                           (* membership, as a boolean *)
| ERec (fs : list (field * expr))
| EField (e : expr) (f : field)
| ECall (q : nat) (args : list expr).        (* functional predicate / built-in with signature *)

Definition map_opt {A B} (f : A -> option B) : list A -> option (list B) :=
  fix go (l : list A) : option (list B) :=
    match l with
    | [] => Some []
    | a :: l' => match f a, go l' with
                 | Some b, Some bs => Some (b :: bs)
                 | _, _ => None
                 end
    end.

Definition on_snd {K A B} (f : A -> option B) (kv : K * A) : option (K * B) :=
  match kv with (k, a) => match f a with Some b => Some (k, b) | None => None end end.

Definition eval_bin (o : binop) (a b : val) : option val :=
  match o, a, b with
  | OAdd, VNum x, VNum y => Some (VNum (x + y))
  | OCat, VStr x, VStr y => Some (VStr (x ++ y))
  | OCat, VList x, VList y => Some (VList (x ++ y))
  | OLt, VNum x, VNum y => Some (VBool (Z.ltb x y))
  | OEq, x, y => Some (VBool (veqb x y))
  | OAnd, VBool x, VBool y => Some (VBool (x && y))
  | _, _, _ => None
  end.

Section Eval.
  (* meaning of the functional predicates: an oracle (the database) *)
  Variable F : nat -> list val -> option val.
  Variable rho : nat -> option val.

  Fixpoint eval (e : expr) : option val :=
    match e with
    | ENum z => Some (VNum z)
    | EStr s => Some (VStr s)
    | EBool b => Some (VBool b)
    | EVar x => rho x
    | EBin o a b =>
        match eval a, eval b with
        | Some va, Some vb => eval_bin o va vb
        | _, _ => None
        end
    | EList e0 es =>
        match eval e0, map_opt eval es with
        | Some v, Some vs => Some (VList (v :: vs))
        | _, _ => None
        end
    | EIn e l =>
        match eval e, eval l with
        | Some v, Some (VList vs) => Some (VBool (existsb (veqb v) vs))
        | _, _ => None
        end
    | ERec fs =>
        match map_opt (on_snd eval) fs with
        | Some vs => Some (VRec vs)
        | None => None
        end
    | EField e f =>
        match eval e with
        | Some (VRec vs) => lookup f vs
        | _ => None
        end
    | ECall q args =>
        match map_opt eval args with
        | Some vs => F q vs
        | None => None
        end
    end.
End Eval.

(* ------------------------------------------------------------------ ground typing *)
Fixpoint geqb (a b : gty) {struct a} : bool :=
  match a, b with
  | GAtom x, GAtom y => atom_eqb x y
  | GList x, GList y => geqb x y
  | GRec xs, GRec ys =>
      (fix go (l : list (field * gty)) (r : list (field * gty)) : bool :=
         match l, r with
         | [], [] => true
         | (f, x) :: l', (f', y) :: r' => field_eqb f f' && geqb x y && go l' r'
         | _, _ => false
         end) xs ys
  | _, _ => false
  end.

Definition is_list (g : gty) : bool := match g with GList _ => true | _ => false end.

Definition type_bin (o : binop) (a b : gty) : option gty :=
  match o with
  | OAdd => match a, b with GAtom ANum, GAtom ANum => Some (GAtom ANum) | _, _ => None end
  | OCat => match a with
            | GAtom AStr => match b with GAtom AStr => Some (GAtom AStr) | _ => None end
            | GList x => if geqb a b then Some a else None
            | _ => None
            end
  | OLt | OEq => if geqb a b then Some (GAtom ABool) else None
  | OAnd => match a, b with GAtom ABool, GAtom ABool => Some (GAtom ABool) | _, _ => None end
  end.

Definition sigma := nat -> option (list gty * gty).

Fixpoint all_geqb (l r : list gty) : bool :=
  match l, r with
  | [], [] => true
  | x :: l', y :: r' => geqb x y && all_geqb l' r'
  | _, _ => false
  end.

Section TypeOf.
  Variable Sg : sigma.
  Variable Gm : nat -> option gty.

  Fixpoint type_of (e : expr) : option gty :=
    match e with
    | ENum _ => Some (GAtom ANum)
    | EStr _ => Some (GAtom AStr)
    | EBool _ => Some (GAtom ABool)
    | EVar x => Gm x
    | EBin o a b =>
        match type_of a, type_of b with
        | Some ta, Some tb => type_bin o ta tb
        | _, _ => None
        end
    | EList e0 es =>
        match type_of e0, map_opt type_of es with
        | Some t, Some ts =>
            if negb (is_list t) && forallb (geqb t) ts then Some (GList t) else None
        | _, _ => None
        end
    | EIn e l =>
        match type_of e, type_of l with
        | Some t, Some (GList t') => if geqb t' t then Some (GAtom ABool) else None
        | _, _ => None
        end
    | ERec fs =>
        match map_opt (on_snd type_of) fs with
        | Some ts => if nodupf (keys ts) then Some (GRec ts) else None
        | None => None
        end
    | EField e f =>
        match type_of e with
        | Some (GRec ts) => lookup f ts
        | _ => None
        end
    | ECall q args =>
        match Sg q, map_opt type_of args with
        | Some (targs, tres), Some ts => if all_geqb targs ts then Some tres else None
        | _, _ => None
        end
    end.
End TypeOf.

(* ------------------------------------------------------------------ rules *)
Inductive conj :=
| CAtom (q : nat) (args : list expr)     (* q(args) holds in the database *)
| CEq (a b : expr)                       (* a == b *)
| CIn (e l : expr).                      (* e in l *)

Record rule := { r_pred : nat; r_head : list expr; r_body : list conj }.

(* database: rows of each predicate; signature of relations *)
Definition db := nat -> list (list val).
Definition rsigma := nat -> option (list gty).

(* declarative meaning of a conjunct under a valuation rho and a database D *)
Definition sat_conj (F : nat -> list val -> option val) (D : db) (rho : nat -> option val) (c : conj) : Prop :=
  match c with
  | CAtom q args => exists row, In row (D q) /\ Forall2 (fun e v => eval F rho e = Some v) args row
  | CEq a b => exists v, eval F rho a = Some v /\ eval F rho b = Some v
  | CIn e l => exists v vs, eval F rho e = Some v /\ eval F rho l = Some (VList vs) /\ In v vs
  end.

Definition db_ok (D : db) (Rs : rsigma) : Prop :=
  forall q ts row, Rs q = Some ts -> In row (D q) -> Forall2 (fun v g => has_type v g = true) row ts.

Definition env_ok (rho : nat -> option val) (Gm : nat -> option gty) : Prop :=
  forall x g v, Gm x = Some g -> rho x = Some v -> has_type v g = true.

Definition fun_ok (F : nat -> list val -> option val) (Sg : sigma) : Prop :=
  forall q targs tres vs v, Sg q = Some (targs, tres) ->
    Forall2 (fun v g => has_type v g = true) vs targs -> F q vs = Some v -> has_type v tres = true.

Definition check_conj (Sg : sigma) (Rs : rsigma) (Gm : nat -> option gty) (c : conj) : bool :=
  match c with
  | CAtom q args =>
      match Rs q, map_opt (type_of Sg Gm) args with
      | Some ts, Some ts' => all_geqb ts ts'
      | _, _ => false
      end
  | CEq a b =>
      match type_of Sg Gm a, type_of Sg Gm b with
      | Some x, Some y => geqb x y
      | _, _ => false
      end
  | CIn e l =>
      match type_of Sg Gm e, type_of Sg Gm l with
      | Some t, Some (GList t') => geqb t' t
      | _, _ => false
      end
  end.

Definition check_rule (Sg : sigma) (Rs : rsigma) (Gm : nat -> option gty) (r : rule) : bool :=
  forallb (check_conj Sg Rs Gm) (r_body r) &&
  match Rs (r_pred r), map_opt (type_of Sg Gm) (r_head r) with
  | Some ts, Some ts' => all_geqb ts ts'
  | _, _ => false
  end.

(* ------------------------------------------------------------------ constraints *)
(* nodes are binary numbers (N): the harness numbers a few hundred nodes per program *)
Definition constr := (N * ty)%type.

Definition on (n : N) (cs : list constr) : list ty :=
  map snd (filter (fun c => N.eqb (fst c) n) cs).

Definition infer (cs : list constr) (n : N) : ty := meet_all (on n cs).

Definition cs_wf (cs : list constr) : bool := forallb (fun c => wf (snd c)) cs.

(* what TypeErrorChecker.SearchTypeErrors reports: some typed node reads back a BadType *)
Definition rejects (cs : list constr) : bool :=
  existsb (fun n => has_bad (infer cs n)) (map fst cs).

Fixpoint embed (g : gty) : ty :=
  match g with
  | GAtom a => TAtom a
  | GList e => TList (embed e)
  | GRec fs => TRec true (map (fun kv => match kv with (f, x) => (f, embed x) end) fs)
  end.

Fixpoint gwf (g : gty) : bool :=
  match g with
  | GAtom _ => true
  | GList e => gwf e
  | GRec fs => nodupf (keys fs) && forallb (fun kv => match kv with (_, x) => gwf x end) fs
  end.

(* used by the correspondence run:
   0                 the model rejects (some node clashes);
   1                 the model accepts and every expected (node, type) equals the inferred one;
   2 + k             the model accepts and the k-th expectation differs. *)
Fixpoint first_diff (cs : list constr) (ex : list (N * ty)) (k : nat) : nat :=
  match ex with
  | [] => 1
  | (n, t) :: ex' => if teqb (infer cs n) t then first_diff cs ex' (S k) else 2 + k
  end.

Definition judge_cs (c : list constr * list (N * ty)) : nat :=
  let '(cs, ex) := c in
  if negb (cs_wf cs) then 1000 else
  if rejects cs then 0 else first_diff cs ex 0.
