(* Pure model of type_inference/research/reference_algebra.py on tree-shaped (unshared) types.

   ty      : what VeryConcreteType reads back from a reference
   meet    : what Unify leaves in BOTH references (rank-ordered case analysis of Unify,
             UnifyFriendlyRecords; BadType without its two-component payload)
   inst    : the ground instances of a type (this is Spec, independent of the code)

   Models only; proofs are in TypeAlgebraProofs.v. *)
From Coq Require Import List Bool Arith.
Import ListNotations.

Inductive field := FPos (n : nat) | FName (s : nat).   (* names interned by the harness *)

Definition field_eqb (x y : field) : bool :=
  match x, y with
  | FPos a, FPos b => Nat.eqb a b
  | FName a, FName b => Nat.eqb a b
  | _, _ => false
  end.

Inductive atom := ANum | AStr | ABool | ATime.

Definition atom_eqb (x y : atom) : bool :=
  match x, y with
  | ANum, ANum | AStr, AStr | ABool, ABool | ATime, ATime => true
  | _, _ => false
  end.

Inductive ty :=
| TAny | TSingular | TSequential
| TAtom (a : atom)
| TList (e : ty)
| TRec (closed : bool) (fs : list (field * ty))
| TBad.

(* Ground types: what a column can actually be. *)
Inductive gty :=
| GAtom (a : atom)
| GList (e : gty)
| GRec (fs : list (field * gty)).

Section Lookup.
  Context {A : Type}.
  Fixpoint lookup (f : field) (l : list (field * A)) : option A :=
    match l with
    | [] => None
    | (k, v) :: l' => if field_eqb f k then Some v else lookup f l'
    end.
  Definition keys (l : list (field * A)) : list field := map fst l.
End Lookup.

Fixpoint memf (f : field) (l : list field) : bool :=
  match l with [] => false | k :: l' => field_eqb f k || memf f l' end.

Definition subsetf (a b : list field) : bool := forallb (fun f => memf f b) a.

Fixpoint nodupf (l : list field) : bool :=
  match l with [] => true | k :: l' => negb (memf k l') && nodupf l' end.

(* Well-formed: record keys are distinct, hereditarily (Python dicts). *)
Fixpoint wf (t : ty) : bool :=
  match t with
  | TList e => wf e
  | TRec _ fs =>
      nodupf (keys fs) &&
      (fix all (l : list (field * ty)) : bool :=
         match l with [] => true | (_, t') :: l' => wf t' && all l' end) fs
  | _ => true
  end.

Fixpoint has_bad (t : ty) : bool :=
  match t with
  | TBad => true
  | TList e => has_bad e
  | TRec _ fs =>
      (fix any (l : list (field * ty)) : bool :=
         match l with [] => false | (_, t') :: l' => has_bad t' || any l' end) fs
  | _ => false
  end.

(* Ground instances. *)
Fixpoint inst (t : ty) (g : gty) {struct t} : bool :=
  match t with
  | TAny => true
  | TSingular => match g with GList _ => false | _ => true end
  | TSequential => match g with GAtom AStr => true | GList _ => true | _ => false end
  | TAtom a => match g with GAtom b => atom_eqb a b | _ => false end
  | TList e => match g with GList ge => inst e ge | _ => false end
  | TRec closed fs =>
      match g with
      | GRec gs =>
          (fix all (l : list (field * ty)) : bool :=
             match l with
             | [] => true
             | (f, t') :: l' =>
                 match lookup f gs with Some g' => inst t' g' | None => false end && all l'
             end) fs
          && (if closed then subsetf (keys gs) (keys fs) else true)
      | _ => false
      end
  | TBad => false
  end.

(* Fields of b that a does not mention. *)
Definition rest_fields (fa fb : list (field * ty)) : list (field * ty) :=
  filter (fun kv => negb (memf (fst kv) (keys fa))) fb.

Definition records_ok (ca cb : bool) (fa fb : list (field * ty)) : bool :=
  (if cb then subsetf (keys fa) (keys fb) else true) &&
  (if ca then subsetf (keys fb) (keys fa) else true).

Fixpoint meet (a b : ty) {struct a} : ty :=
  match a with
  | TBad => TBad
  | TAny => b
  | TSingular =>
      match b with
      | TBad => TBad
      | TAny => TSingular
      | TList _ => TBad
      | TSequential => TAtom AStr
      | _ => b
      end
  | TSequential =>
      match b with
      | TBad => TBad
      | TAny => TSequential
      | TSingular => TAtom AStr
      | TSequential => TSequential
      | TAtom AStr => TAtom AStr
      | TList e => TList e
      | _ => TBad
      end
  | TAtom x =>
      match b with
      | TBad => TBad
      | TAny | TSingular => TAtom x
      | TSequential => match x with AStr => TAtom AStr | _ => TBad end
      | TAtom y => if atom_eqb x y then TAtom x else TBad
      | _ => TBad
      end
  | TList ea =>
      match b with
      | TBad => TBad
      | TAny | TSequential => TList ea
      | TList eb => match meet ea eb with TBad => TBad | m => TList m end
      | _ => TBad
      end
  | TRec ca fa =>
      match b with
      | TBad => TBad
      | TAny | TSingular => TRec ca fa
      | TRec cb fb =>
          if records_ok ca cb fa fb then
            TRec (ca || cb)
              ((fix go (l : list (field * ty)) : list (field * ty) :=
                  match l with
                  | [] => []
                  | (f, ta) :: l' =>
                      (f, match lookup f fb with Some tb => meet ta tb | None => ta end) :: go l'
                  end) fa ++ rest_fields fa fb)
          else TBad
      | _ => TBad
      end
  end.

(* "clash": what the type checker reports. *)
Definition compatible (a b : ty) : bool := negb (has_bad (meet a b)).
