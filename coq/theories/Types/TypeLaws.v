(* Laws of the type meet that follow from meet_sound: clash iff no common instance,
   symmetry, idempotence, order independence. *)
From Coq Require Import List Bool Arith Lia Permutation.
Import ListNotations.
From LV Require Import Types.TypeAlgebra Types.TypeAlgebraProofs.

(* a canonical inhabitant of every bad-free type *)
Fixpoint wit (t : ty) : gty :=
  match t with
  | TAny | TSingular | TBad => GAtom ANum
  | TSequential => GAtom AStr
  | TAtom a => GAtom a
  | TList e => GList (wit e)
  | TRec _ fs =>
      GRec ((fix go (l : list (field * ty)) : list (field * gty) :=
               match l with [] => [] | (f, t') :: l' => (f, wit t') :: go l' end) fs)
  end.

Fixpoint wit_fields (fs : list (field * ty)) : list (field * gty) :=
  match fs with [] => [] | (f, t') :: l' => (f, wit t') :: wit_fields l' end.

Lemma wit_rec c fs : wit (TRec c fs) = GRec (wit_fields fs).
Proof. simpl; f_equal; induction fs as [|[f t] l IH]; simpl; rewrite ?IH; reflexivity. Qed.

Lemma keys_wit_fields fs : keys (wit_fields fs) = keys fs.
Proof. induction fs as [|[f t] l IH]; simpl; rewrite ?IH; reflexivity. Qed.

Lemma In_wit_fields fs f t : In (f, t) fs -> In (f, wit t) (wit_fields fs).
Proof.
  induction fs as [|[k t0] l IH]; simpl; [tauto|].
  intros [E|H]; [inversion E; subst; left; reflexivity | right; apply IH, H].
Qed.

Lemma bad_no_inst : forall t, has_bad t = true -> forall g, inst t g = false.
Proof.
  induction t as [| | |x|e IH|c fs IH|] using ty_ind'; simpl; intros Hb g; try discriminate.
  - destruct g; try reflexivity. apply IH, Hb.
  - change (inst (TRec c fs) g = false). rewrite inst_rec. destruct g as [| |gs]; try reflexivity.
    change (has_bad (TRec c fs) = true) in Hb. rewrite has_bad_rec in Hb.
    apply bad_fields_spec in Hb as [f [t [Hin Ht]]].
    apply andb_false_iff. left.
    destruct (inst_fields fs gs) eqn:E; [|reflexivity].
    destruct (proj1 (inst_fields_spec fs gs) E f t Hin) as [g' [_ Hi]].
    rewrite Forall_forall in IH. pose proof (IH (f, t) Hin Ht g') as Hn. simpl in Hn. congruence.
  - reflexivity.
Qed.

Lemma inhabited : forall t, wf t = true -> has_bad t = false -> inst t (wit t) = true.
Proof.
  induction t as [| | |x|e IH|c fs IH|] using ty_ind'; intros W Hb; try reflexivity.
  - destruct x; reflexivity.
  - simpl in *. apply IH; assumption.
  - rewrite wit_rec, inst_rec. rewrite wf_rec in W. apply andb_true_iff in W as [ND W].
    rewrite has_bad_rec in Hb. apply nodupf_NoDup in ND.
    apply andb_true_iff. split.
    + apply inst_fields_spec. intros f t Hin. exists (wit t). split.
      * apply In_lookup; [rewrite keys_wit_fields; exact ND | apply In_wit_fields, Hin].
      * rewrite Forall_forall in IH. apply (IH (f, t) Hin).
        -- exact (wf_fields_In _ _ _ W Hin).
        -- simpl. destruct (has_bad t) eqn:E; [|reflexivity].
           assert (bad_fields fs = true) by (apply bad_fields_spec; eauto). congruence.
    + destruct c; [|reflexivity]. rewrite keys_wit_fields. apply subsetf_spec. auto.
  - discriminate.
Qed.

(* A clash is reported exactly when the two types have no common ground instance. *)
Theorem clash_iff_empty a b : wf a = true -> wf b = true ->
  (has_bad (meet a b) = true <-> forall g, inst a g && inst b g = false).
Proof.
  intros Wa Wb. split.
  - intros Hb g. rewrite <- meet_sound by assumption. apply bad_no_inst, Hb.
  - intros H. destruct (has_bad (meet a b)) eqn:E; [reflexivity|].
    pose proof (inhabited (meet a b) (meet_wf a Wa b Wb) E) as Hi.
    rewrite meet_sound in Hi by assumption. rewrite H in Hi. discriminate.
Qed.

Corollary compatible_iff_common_instance a b : wf a = true -> wf b = true ->
  (compatible a b = true <-> exists g, inst a g = true /\ inst b g = true).
Proof.
  intros Wa Wb. unfold compatible. rewrite negb_true_iff. split.
  - intros E. exists (wit (meet a b)).
    pose proof (inhabited (meet a b) (meet_wf a Wa b Wb) E) as Hi.
    rewrite meet_sound in Hi by assumption. apply andb_true_iff in Hi. exact Hi.
  - intros [g [Ha Hb]]. destruct (has_bad (meet a b)) eqn:E; [|reflexivity].
    pose proof (proj1 (clash_iff_empty a b Wa Wb) E g) as H. rewrite Ha, Hb in H. discriminate.
Qed.

(* Two types are "the same" when they report a clash together and have the same instances. *)
Definition same (s t : ty) : Prop :=
  has_bad s = has_bad t /\ forall g, inst s g = inst t g.

Lemma same_of_inst s t : wf s = true -> wf t = true ->
  (forall g, inst s g = inst t g) -> same s t.
Proof.
  intros Ws Wt H. split; [|exact H].
  destruct (has_bad s) eqn:Es, (has_bad t) eqn:Et; try reflexivity.
  - pose proof (inhabited t Wt Et) as Hi. rewrite <- H, (bad_no_inst s Es) in Hi. discriminate.
  - pose proof (inhabited s Ws Es) as Hi. rewrite H, (bad_no_inst t Et) in Hi. discriminate.
Qed.

Theorem meet_comm a b : wf a = true -> wf b = true -> same (meet a b) (meet b a).
Proof.
  intros Wa Wb. apply same_of_inst; try (apply meet_wf; assumption).
  intros g. rewrite !meet_sound by assumption. apply andb_comm.
Qed.

Theorem meet_idem a b : wf a = true -> wf b = true ->
  same (meet (meet a b) (meet a b)) (meet a b).
Proof.
  intros Wa Wb. pose proof (meet_wf a Wa b Wb) as Wm.
  apply same_of_inst; try (apply meet_wf; assumption); try assumption.
  intros g. rewrite (meet_sound (meet a b) Wm (meet a b) Wm). apply andb_diag.
Qed.

(* Unifying again with either argument changes nothing. *)
Theorem meet_absorb a b : wf a = true -> wf b = true ->
  same (meet (meet a b) a) (meet a b) /\ same (meet (meet a b) b) (meet a b).
Proof.
  intros Wa Wb. pose proof (meet_wf a Wa b Wb) as Wm.
  split; apply same_of_inst; try (apply meet_wf; assumption); try assumption;
    intros g; rewrite (meet_sound (meet a b) Wm) by assumption;
    rewrite (meet_sound a Wa b Wb); destruct (inst a g), (inst b g); reflexivity.
Qed.

Theorem meet_assoc a b c : wf a = true -> wf b = true -> wf c = true ->
  same (meet (meet a b) c) (meet a (meet b c)).
Proof.
  intros Wa Wb Wc.
  pose proof (meet_wf a Wa b Wb) as Wab. pose proof (meet_wf b Wb c Wc) as Wbc.
  apply same_of_inst; try (apply meet_wf; assumption).
  intros g. rewrite (meet_sound (meet a b) Wab c Wc), (meet_sound a Wa (meet b c) Wbc).
  rewrite (meet_sound a Wa b Wb), (meet_sound b Wb c Wc). symmetry. apply andb_assoc.
Qed.

(* Order independence: folding meet over any permutation of a list of constraints. *)
Definition meet_all (l : list ty) : ty := fold_left meet l TAny.

Lemma fold_meet_wf l : forall acc, wf acc = true -> Forall (fun t => wf t = true) l ->
  wf (fold_left meet l acc) = true.
Proof.
  induction l as [|t l IH]; simpl; intros acc Wacc Wl; [exact Wacc|].
  inversion Wl; subst. apply IH; [apply meet_wf; assumption | assumption].
Qed.

Lemma fold_meet_inst l : forall acc, wf acc = true -> Forall (fun t => wf t = true) l ->
  forall g, inst (fold_left meet l acc) g = inst acc g && forallb (fun t => inst t g) l.
Proof.
  induction l as [|t l IH]; simpl; intros acc Wacc Wl g.
  - rewrite andb_true_r. reflexivity.
  - inversion Wl; subst. rewrite IH by (try apply meet_wf; assumption).
    rewrite meet_sound by assumption. rewrite andb_assoc. reflexivity.
Qed.

Theorem meet_order_independent l l' :
  Forall (fun t => wf t = true) l -> Permutation l l' ->
  same (meet_all l) (meet_all l').
Proof.
  intros Wl P.
  assert (Wl' : Forall (fun t => wf t = true) l').
  { rewrite Forall_forall in *. intros t Ht. apply Wl.
    eapply Permutation_in; [apply Permutation_sym, P | exact Ht]. }
  unfold meet_all. apply same_of_inst; try (apply fold_meet_wf; auto).
  intros g. rewrite !fold_meet_inst by auto. f_equal.
  clear Wl Wl'. induction P; simpl; try reflexivity.
  - rewrite IHP. reflexivity.
  - destruct (inst x g), (inst y g); reflexivity.
  - congruence.
Qed.

(* Nothing known on either side is lost. *)
Theorem meet_below a b : wf a = true -> wf b = true ->
  forall g, inst (meet a b) g = true -> inst a g = true /\ inst b g = true.
Proof.
  intros Wa Wb g H. rewrite meet_sound in H by assumption. apply andb_true_iff, H.
Qed.

Theorem meet_keeps_fields ca fa cb fb c fs :
  meet (TRec ca fa) (TRec cb fb) = TRec c fs ->
  forall f, In f (keys fa) \/ In f (keys fb) -> In f (keys fs).
Proof.
  rewrite meet_rec. destruct (records_ok ca cb fa fb); [|discriminate].
  intros E f H. inversion E; subst. unfold keys. rewrite map_app, in_app_iff.
  change (map fst (meet_fields fb fa)) with (keys (meet_fields fb fa)).
  rewrite keys_meet_fields.
  destruct H as [H|H]; [left; exact H|].
  destruct (memf f (keys fa)) eqn:Em; [left; apply memf_In, Em|].
  right. apply In_keys in H as [v H].
  change (In f (keys (rest_fields fa fb))). apply In_keys. exists v.
  apply In_rest_fields. split; [exact H | apply memf_false, Em].
Qed.

Theorem meet_keeps_atom x b : has_bad (meet (TAtom x) b) = false -> meet (TAtom x) b = TAtom x.
Proof.
  destruct b as [| | |y| | |]; simpl; try discriminate; try reflexivity.
  - destruct x; simpl; try discriminate; reflexivity.
  - destruct (atom_eqb x y); simpl; [reflexivity | discriminate].
Qed.
