(* Executable helpers used by the correspondence run of C16 (props/c16.py).
   judge compares what reference_algebra.Unify left in both references with the model. *)
From Coq Require Import List Bool Arith.
Import ListNotations.
From LV Require Import Types.TypeAlgebra Types.TypeLaws.

(* equality of read-back types, records compared as finite maps (Python dict equality) *)
Fixpoint teqb (a b : ty) {struct a} : bool :=
  match a, b with
  | TAny, TAny | TSingular, TSingular | TSequential, TSequential | TBad, TBad => true
  | TAtom x, TAtom y => atom_eqb x y
  | TList x, TList y => teqb x y
  | TRec ca fa, TRec cb fb =>
      Bool.eqb ca cb && Nat.eqb (length fa) (length fb) &&
      (fix all (l : list (field * ty)) : bool :=
         match l with
         | [] => true
         | (f, ta) :: l' =>
             match lookup f fb with Some tb => teqb ta tb | None => false end && all l'
         end) fa
  | _, _ => false
  end.

(* a fixed sample of ground types, used only to look for a failing input *)
Definition gsample : list gty :=
  let atoms := [GAtom ANum; GAtom AStr; GAtom ABool; GAtom ATime] in
  let fields := [FName 0; FName 1; FPos 0] in
  atoms ++ map GList atoms ++ [GRec []] ++
  flat_map (fun f => map (fun g => GRec [(f, g)]) atoms) fields ++
  flat_map (fun g1 => map (fun g2 => GRec [(FName 0, g1); (FName 1, g2)]) atoms) atoms ++
  flat_map (fun g1 => map (fun g2 => GRec [(FName 0, g1); (FPos 0, g2)]) atoms) atoms ++
  [GRec [(FName 0, GAtom ANum); (FName 1, GAtom AStr); (FPos 0, GAtom ANum)];
   GList (GRec [(FName 0, GAtom ANum)]); GRec [(FName 0, GList (GAtom ANum))];
   GRec [(FName 0, GRec [(FName 1, GAtom AStr)])]].

(* 0: the implementation's read-back equals the model's meet;
   0 also: both report a clash (the position of BadType inside the term is not compared);
   1: it differs, clash free on both sides, with the same instances among gsample and the witnesses
      (the correspondence is broken, no failing input here);
   2: it differs in clash status or in instances: a failing input for the property. *)
Definition judge1 (a b r : ty) : nat :=
  let m := meet a b in
  if teqb m r then 0
  else if negb (Bool.eqb (has_bad m) (has_bad r)) then 2
  else if has_bad m then 0      (* both report a clash; where inside the term the BadType sits is not part of the statement *)
  else if forallb (fun g => Bool.eqb (inst r g) (inst a g && inst b g))
            (wit m :: wit r :: wit a :: wit b :: gsample) then 1 else 2.

Definition judge (c : ty * ty * ty * ty) : nat :=
  let '(a, b, ra, rb) := c in Nat.max (judge1 a b ra) (judge1 a b rb).

(* triples: the model's meet of all three against the three read-backs *)
Definition judge3 (c : ty * ty * ty * list ty) : nat :=
  let '(a, b, c3, rs) := c in
  let m := meet_all [a; b; c3] in
  if has_bad m then 3 (* not clash free: outside the statement *)
  else fold_left Nat.max
         (map (fun r => if teqb m r then 0 else if has_bad r then 2 else
                 if forallb (fun g => Bool.eqb (inst r g) (inst m g)) (wit m :: wit r :: gsample)
                 then 1 else 2) rs) 0.

(* histories (Types/TypeHist.v): after every operation the read-back of every reference against the model's
   view; the run stops at the first clash, which both sides must report at the same step.
   0: agree; 2: differ (the failing history is the input) *)
From LV Require Import Types.TypeHist.
Fixpoint list_teqb (a b : list ty) : bool :=
  match a, b with
  | [], [] => true
  | x :: a', y :: b' => teqb x y && list_teqb a' b'
  | _, _ => false
  end.

Fixpoint judge_hist_go (s : hst) (steps : list (hop * list ty)) : nat :=
  match steps with
  | [] => 0
  | (o, rv) :: rest =>
      let s' := hstep s o in
      let mv := view s' in
      if any_bad mv || any_bad rv then (if any_bad mv && any_bad rv then 0 else 2)
      else if list_teqb mv rv then judge_hist_go s' rest else 2
  end.

Definition judge_hist (c : list ty * list (hop * list ty)) : nat :=
  judge_hist_go (hinit (fst c)) (snd c).

(* `b in a` (Types/TypeElem.v): read-backs of the list and of the element after UnifyListElement.
   0: as the model; 2: differ (clash status or types) *)
From LV Require Import Types.TypeElem.
Definition judge_elem (c : ty * ty * ty * ty) : nat :=
  let '(a, b, ra, rb) := c in
  let '(ma, mb) := unify_list_element a b in
  let mbad := has_bad ma || has_bad mb in
  let rbad := has_bad ra || has_bad rb in
  if mbad || rbad then (if mbad && rbad then 0 else 2)
  else if teqb ma ra && teqb mb rb then 0 else 2.

(* references with SHARED ground sub-references (one reference object under two fields): the pure model is the
   tree reading.  0: as the model; 3: the model reports a clash, the implementation does not; 4: the implementation
   reports a clash, the model does not; 2: both clash free but different types *)
Definition judge_sh (c : ty * ty * ty * ty) : nat :=
  let '(a, b, ra, rb) := c in
  let m := meet a b in
  let rbad := has_bad ra || has_bad rb in
  if has_bad m then (if rbad then 0 else 3)
  else if rbad then 4
  else if teqb m ra && teqb m rb then 0 else 2.
