(* C20 — proofs about Udf/Aggregates.v and the bag-aggregate specs of Udf/BuiltinSpec.v. *)
From Coq Require Import List Bool Arith ZArith Lia Permutation.
Import ListNotations.
From LV Require Import Udf.ArgMinMax Udf.ArgMinMaxProofs Udf.Aggregates Udf.BuiltinSpec.

Section AggFacts.
  Variable X : Type.
  Variable eqb : X -> X -> bool.
  Hypothesis eqb_spec : forall a b, eqb a b = true <-> a = b.

  (* ---- ArrayConcatAgg ---- *)
  Fixpoint somes (rows : list (option (list X))) : list (list X) :=
    match rows with
    | [] => []
    | None :: t => somes t
    | Some l :: t => l :: somes t
    end.

  Lemma aca_from st rows : fold_left aca_step rows st = st ++ concat (somes rows).
  Proof.
    revert st. induction rows as [|[l|] t IH]; intros st; simpl.
    - rewrite app_nil_r; auto.
    - rewrite IH, app_assoc; auto.
    - apply IH.
  Qed.

  Lemma array_concat_agg_ignores_null rows :
    array_concat_agg rows = concat (somes rows) /\
    forall r1 r2 : list (option (list X)),
      array_concat_agg (r1 ++ None :: r2) = array_concat_agg (r1 ++ r2).
  Proof.
    split; [apply (aca_from [])|]. intros r1 r2. unfold array_concat_agg.
    rewrite !aca_from. simpl. f_equal. induction r1 as [|[l|] t IH]; simpl; auto. f_equal; auto.
  Qed.

  (* ---- InList ---- *)
  Lemma in_list_iff x l : in_list eqb x l = true <-> In x l.
  Proof.
    unfold in_list. rewrite existsb_exists. split.
    - intros (y & Hy & E). apply eqb_spec in E. subst; auto.
    - intros H. exists x. split; auto. apply eqb_spec; auto.
  Qed.

  (* ---- DistinctListAgg ---- *)
  Lemma dla_from rows : forall st, NoDup st ->
    NoDup (fold_left (dla_step eqb) rows st) /\
    forall x, In x (fold_left (dla_step eqb) rows st) <-> In x st \/ In x rows.
  Proof.
    induction rows as [|r t IH]; intros st Hst; simpl.
    - split; auto. intros x; tauto.
    - unfold dla_step at 2 4. destruct (in_list eqb r st) eqn:E.
      + apply in_list_iff in E. destruct (IH st Hst) as [A B]. split; auto.
        intros x. rewrite B. split; [tauto|]. intros [H|[<-|H]]; auto.
      + assert (Hn : ~ In r st) by (intros H; apply in_list_iff in H; congruence).
        assert (Hnd : NoDup (st ++ [r])).
        { eapply Permutation_NoDup; [apply Permutation_cons_append|]. constructor; auto. }
        destruct (IH _ Hnd) as [A B]. split; auto.
        intros x. rewrite B, in_app_iff. simpl. tauto.
  Qed.

  (* the Set aggregate returns, as a set, exactly the distinct input values *)
  Theorem set_agg_is_set rows :
    NoDup (distinct_list_agg eqb rows) /\ forall x, In x (distinct_list_agg eqb rows) <-> In x rows.
  Proof.
    destruct (dla_from rows [] (NoDup_nil _)) as [A B]. split; auto.
    intros x. unfold distinct_list_agg. rewrite B. simpl. tauto.
  Qed.

  (* ... and that set does not depend on the arrival order *)
  Theorem set_agg_perm rows rows' : Permutation rows rows' ->
    Permutation (distinct_list_agg eqb rows) (distinct_list_agg eqb rows').
  Proof.
    intros P. destruct (set_agg_is_set rows) as [A B]. destruct (set_agg_is_set rows') as [A' B'].
    apply NoDup_Permutation; auto. intros x. rewrite B, B'. split; intros H.
    - eapply Permutation_in; eauto.
    - eapply Permutation_in; [apply Permutation_sym|]; eauto.
  Qed.

  (* ---- TakeFirst (ANY_VALUE) ---- *)
  Variable truthy : X -> bool.
  Lemma tf_from rows : forall st,
    fold_left (tf_step truthy) rows st = st \/ In (fold_left (tf_step truthy) rows st) rows.
  Proof.
    induction rows as [|r t IH]; intros st; simpl; auto.
    destruct (IH (tf_step truthy st r)) as [E|H]; auto. rewrite E.
    unfold tf_step. destruct st as [x|]; auto. destruct (truthy x); auto.
  Qed.
  Theorem take_first_member rows : take_first truthy rows = None \/ In (take_first truthy rows) rows.
  Proof. apply tf_from. Qed.
End AggFacts.

(* ---- SortList ---- *)
Section SortListFacts.
  Variable X : Type.
  Variable le : X -> X -> bool.
  Hypothesis le_total : forall a b, le a b = true \/ le b a = true.
  Hypothesis le_trans : forall a b c, le a b = true -> le b c = true -> le a c = true.
  Hypothesis le_antisym : forall a b, le a b = true -> le b a = true -> a = b.

  Theorem sortlist_sorted_perm l :
    sorted le (sort_list le l) /\ Permutation (sort_list le l) l /\
    forall l', Permutation l l' -> sort_list le l' = sort_list le l.
  Proof.
    unfold sort_list. split; [apply isort_sorted; auto|split; [apply isort_perm|]].
    intros l' P. apply isort_perm_eq; auto. apply Permutation_sym; auto.
  Qed.
End SortListFacts.

(* ---- integer orders ---- *)
Lemma Zle_total a b : (a <=? b)%Z = true \/ (b <=? a)%Z = true.
Proof. destruct (Z.leb_spec a b); auto. right. apply Z.leb_le. lia. Qed.
Lemma Zle_trans a b c : (a <=? b)%Z = true -> (b <=? c)%Z = true -> (a <=? c)%Z = true.
Proof. rewrite !Z.leb_le. lia. Qed.
Lemma Zle_antisym a b : (a <=? b)%Z = true -> (b <=? a)%Z = true -> a = b.
Proof. rewrite !Z.leb_le. lia. Qed.

Section FlipFacts.
  Variable X : Type.
  Variable le : X -> X -> bool.
  Hypothesis le_total : forall a b, le a b = true \/ le b a = true.
  Hypothesis le_trans : forall a b c, le a b = true -> le b c = true -> le a c = true.
  Hypothesis le_antisym : forall a b, le a b = true -> le b a = true -> a = b.
  Lemma flip_total a b : flip le a b = true \/ flip le b a = true.
  Proof. unfold flip. destruct (le_total a b); auto. Qed.
  Lemma flip_trans a b c : flip le a b = true -> flip le b c = true -> flip le a c = true.
  Proof. unfold flip. eauto. Qed.
  Lemma flip_antisym a b : flip le a b = true -> flip le b a = true -> a = b.
  Proof. unfold flip. auto. Qed.
End FlipFacts.

(* ---- bag aggregates of BuiltinSpec: functions of the bag, not of the arrival order ---- *)
Lemma fold_add_from l : forall a, fold_left Z.add l a = (a + fold_left Z.add l 0)%Z.
Proof.
  induction l as [|x t IH]; intros a; simpl; [lia|]. rewrite (IH (a + x)%Z), (IH x). lia.
Qed.

Lemma sum_perm l l' : Permutation l l' -> sum_list l = sum_list l'.
Proof.
  unfold sum_list. induction 1; simpl; auto.
  - rewrite (fold_add_from l), (fold_add_from l'). lia.
  - rewrite (fold_add_from l (y + x)), (fold_add_from l (x + y)). lia.
  - congruence.
Qed.

Lemma fold_min_from l : forall a b, fold_left Z.min l (Z.min a b) = Z.min a (fold_left Z.min l b).
Proof. induction l as [|x t IH]; intros a b; simpl; auto. rewrite <- IH. f_equal. lia. Qed.
Lemma fold_max_from l : forall a b, fold_left Z.max l (Z.max a b) = Z.max a (fold_left Z.max l b).
Proof. induction l as [|x t IH]; intros a b; simpl; auto. rewrite <- IH. f_equal. lia. Qed.

(* minimum through the sorted list: hd of isort *)
Lemma zmin_is_least l x : zmin_list l = VInt x -> In x l /\ forall y, In y l -> (x <= y)%Z.
Proof.
  destruct l as [|a t]; simpl; [discriminate|]. intros H. inversion H; subst; clear H.
  revert a. induction t as [|b t IH]; intros a; simpl.
  - split; auto. intros y [<-|[]]; lia.
  - destruct (IH (Z.min a b)) as [Hin Hle]. split.
    + destruct Hin as [E|Hin]; [|simpl; auto]. rewrite <- E.
      destruct (Z.min_spec a b) as [[_ ->]|[_ ->]]; simpl; auto.
    + intros y [<-|[<-|Hy]].
      * specialize (Hle (Z.min a b) (or_introl eq_refl)). lia.
      * specialize (Hle (Z.min a b) (or_introl eq_refl)). lia.
      * apply Hle; auto.
Qed.
Lemma zmax_is_greatest l x : zmax_list l = VInt x -> In x l /\ forall y, In y l -> (y <= x)%Z.
Proof.
  destruct l as [|a t]; simpl; [discriminate|]. intros H. inversion H; subst; clear H.
  revert a. induction t as [|b t IH]; intros a; simpl.
  - split; auto. intros y [<-|[]]; lia.
  - destruct (IH (Z.max a b)) as [Hin Hle]. split.
    + destruct Hin as [E|Hin]; [|simpl; auto]. rewrite <- E.
      destruct (Z.max_spec a b) as [[_ ->]|[_ ->]]; simpl; auto.
    + intros y [<-|[<-|Hy]].
      * specialize (Hle (Z.max a b) (or_introl eq_refl)). lia.
      * specialize (Hle (Z.max a b) (or_introl eq_refl)). lia.
      * apply Hle; auto.
Qed.

Lemma Zeqb_spec a b : (a =? b)%Z = true <-> a = b.
Proof. apply Z.eqb_eq. Qed.

Lemma zmin_perm l l' : Permutation l l' -> zmin_list l = zmin_list l'.
Proof.
  intros P. destruct l as [|a t], l' as [|b u]; auto.
  - apply Permutation_nil in P. discriminate.
  - apply Permutation_sym, Permutation_nil in P. discriminate.
  - destruct (zmin_list (a :: t)) eqn:E1; try (simpl in E1; discriminate).
    destruct (zmin_list (b :: u)) eqn:E2; try (simpl in E2; discriminate).
    apply zmin_is_least in E1, E2. destruct E1 as [I1 L1], E2 as [I2 L2]. f_equal.
    assert (z <= z0)%Z by (apply L1; eapply Permutation_in; [apply Permutation_sym, P|auto]).
    assert (z0 <= z)%Z by (apply L2; eapply Permutation_in; [apply P|auto]). lia.
Qed.
Lemma zmax_perm l l' : Permutation l l' -> zmax_list l = zmax_list l'.
Proof.
  intros P. destruct l as [|a t], l' as [|b u]; auto.
  - apply Permutation_nil in P. discriminate.
  - apply Permutation_sym, Permutation_nil in P. discriminate.
  - destruct (zmax_list (a :: t)) eqn:E1; try (simpl in E1; discriminate).
    destruct (zmax_list (b :: u)) eqn:E2; try (simpl in E2; discriminate).
    apply zmax_is_greatest in E1, E2. destruct E1 as [I1 L1], E2 as [I2 L2]. f_equal.
    assert (z0 <= z)%Z by (apply L1; eapply Permutation_in; [apply Permutation_sym, P|auto]).
    assert (z <= z0)%Z by (apply L2; eapply Permutation_in; [apply P|auto]). lia.
Qed.

(* Sum, Min, Max, Avg, Count, Set only depend on the bag of values *)
Theorem bag_aggregates_perm rows rows' :
  Permutation rows rows' ->
  spec_agg ASum rows = spec_agg ASum rows' /\ spec_agg AMin rows = spec_agg AMin rows' /\
  spec_agg AMax rows = spec_agg AMax rows' /\ spec_agg AAvg rows = spec_agg AAvg rows' /\
  spec_agg ACount rows = spec_agg ACount rows' /\ spec_agg ASet rows = spec_agg ASet rows'.
Proof.
  intros P.
  assert (Pv : Permutation (map snd rows) (map snd rows')) by (apply Permutation_map; auto).
  assert (Hs := sum_perm _ _ Pv). assert (Hl := Permutation_length Pv).
  unfold spec_agg; cbv zeta.
  repeat split.
  - rewrite Hs. destruct (map snd rows), (map snd rows'); auto; simpl in Hl; discriminate.
  - apply zmin_perm; auto.
  - apply zmax_perm; auto.
  - rewrite Hs, Hl. destruct (map snd rows), (map snd rows'); auto; simpl in Hl; discriminate.
  - unfold distinct. rewrite (Permutation_length (set_agg_perm Z Z.eqb Zeqb_spec _ _ Pv)). auto.
  - unfold distinct. do 2 f_equal.
    apply isort_perm_eq; [apply Zle_total|apply Zle_trans|apply Zle_antisym|].
    apply (set_agg_perm Z Z.eqb Zeqb_spec _ _ Pv).
Qed.
