(* C20 — model of the ArgMin / ArgMax user defined aggregates of common/sqlite3_logica.py.

   Model only (no proofs).  Rows are pairs (value, arg) exactly like the tuples the Python code
   stores in self.result.  Everything is generic in the two total orders (values, args); the
   tuple order of Python is the lexicographic order [ple].

   heapq: two layers.
   * [cpy_*] mirror CPython's heapq.py (_siftdown_max, _siftup_max, _heapify_max,
     _heapreplace_max) on lists used as arrays.  heapq.heapify / heapq.heapreplace (min-heap) are
     literally the same code with every comparison `a < b` replaced by `b < a`, so they are the
     max versions instantiated at the flipped order (see [ArgMax] below).
   * the step function is parameterised by the two heap operations, so that theorems can be
     stated for every implementation that meets heapq's contract (ArgMinMaxProofs.v).

   ArgMax is ArgMin at the flipped orders: root test `result[0][0] < value`, min-heap,
   `reversed(sorted(result))`. *)
From Coq Require Import List Bool Arith ZArith Lia.
Import ListNotations.

(* ------------------------------------------------------------------ sorting *)
Section Sort.
  Variable E : Type.
  Variable le : E -> E -> bool.

  Fixpoint insert (x : E) (l : list E) : list E :=
    match l with
    | [] => [x]
    | y :: t => if le x y then x :: y :: t else y :: insert x t
    end.

  (* Python sorted() for a total antisymmetric order (the result is then unique) *)
  Fixpoint isort (l : list E) : list E :=
    match l with
    | [] => []
    | x :: t => insert x (isort t)
    end.
End Sort.
Arguments insert {E}.
Arguments isort {E}.

(* ------------------------------------------------------------------ arrays as lists *)
Section Arr.
  Variable E : Type.
  Fixpoint set_nth (l : list E) (i : nat) (x : E) : list E :=
    match l, i with
    | [], _ => []
    | _ :: t, O => x :: t
    | y :: t, S j => y :: set_nth t j x
    end.
End Arr.
Arguments set_nth {E}.

(* ------------------------------------------------------------------ CPython heapq, max variant *)
Section CPyHeap.
  Variable E : Type.
  Variable le : E -> E -> bool.               (* total order; Python `a < b` is [lt a b] *)
  Definition lt (a b : E) : bool := negb (le b a).

  (* _siftdown_max(heap, startpos, pos) with newitem = heap[pos] already read.
     None = out of fuel (never happens with fuel = S pos). *)
  Fixpoint siftdown_loop (fuel : nat) (h : list E) (startpos pos : nat) (newitem : E)
    : option (list E) :=
    match fuel with
    | O => None
    | S f =>
        if startpos <? pos then
          let parentpos := (pos - 1) / 2 in
          let parent := nth parentpos h newitem in
          if lt parent newitem
          then siftdown_loop f (set_nth h pos parent) startpos parentpos newitem
          else Some (set_nth h pos newitem)
        else Some (set_nth h pos newitem)
    end.

  (* first loop of _siftup_max: bubble the larger child up until a leaf is reached *)
  Fixpoint siftup_loop (fuel : nat) (h : list E) (endpos pos : nat) (d : E)
    : option (list E * nat) :=
    match fuel with
    | O => None
    | S f =>
        let childpos := 2 * pos + 1 in
        if childpos <? endpos then
          let rightpos := childpos + 1 in
          let c := if (rightpos <? endpos) && negb (lt (nth rightpos h d) (nth childpos h d))
                   then rightpos else childpos in
          siftup_loop f (set_nth h pos (nth c h d)) endpos c d
        else Some (h, pos)
    end.

  Definition cpy_siftup_max (h : list E) (pos : nat) : option (list E) :=
    match nth_error h pos with
    | None => None                                             (* IndexError *)
    | Some newitem =>
        match siftup_loop (S (length h)) h (length h) pos newitem with
        | None => None
        | Some (h1, leaf) =>
            siftdown_loop (S leaf) (set_nth h1 leaf newitem) pos leaf newitem
        end
    end.

  (* for i in reversed(range(n//2)): _siftup_max(x, i) *)
  Fixpoint heapify_from (i : nat) (h : list E) : option (list E) :=
    match i with
    | O => Some h
    | S j => match cpy_siftup_max h j with
             | None => None
             | Some h' => heapify_from j h'
             end
    end.
  Definition cpy_heapify_max (h : list E) : option (list E) := heapify_from (length h / 2) h.

  (* returnitem = heap[0]; heap[0] = item; _siftup_max(heap, 0) *)
  Definition cpy_heapreplace_max (h : list E) (item : E) : option (list E) :=
    match h with
    | [] => None                                               (* IndexError *)
    | _ => cpy_siftup_max (set_nth h 0 item) 0
    end.

  (* a second, obviously correct implementation of the same contract: keep the list sorted
     descending (root = head = maximum) *)
  Definition ref_heapify_max (h : list E) : option (list E) := Some (rev (isort le h)).
  Definition ref_heapreplace_max (h : list E) (item : E) : option (list E) :=
    match h with
    | [] => None
    | _ :: t => Some (rev (isort le (item :: t)))
    end.
End CPyHeap.
Arguments lt {E}.
Arguments cpy_siftup_max {E}.
Arguments cpy_heapify_max {E}.
Arguments cpy_heapreplace_max {E}.
Arguments ref_heapify_max {E}.
Arguments ref_heapreplace_max {E}.

(* ------------------------------------------------------------------ the aggregate *)
Inductive outcome (S : Type) : Type :=
| Ok (st : S)
| ErrLimit            (* "ArgMin's limit must be positive." *)
| ErrKind             (* "ArgMin got incompatible values" (number vs string) *)
| ErrInternal         (* "ArgMin error": len(result) > limit *)
| ErrHeap.            (* heapq raised / model out of fuel: never for limit >= 1 *)
Arguments Ok {S}. Arguments ErrLimit {S}. Arguments ErrKind {S}.
Arguments ErrInternal {S}. Arguments ErrHeap {S}.

Section Agg.
  Variables V G : Type.
  Variable vle : V -> V -> bool.              (* order of values *)
  Variable gle : G -> G -> bool.              (* order of args (ties of tuples) *)
  Variable kind : V -> bool.                  (* DeFactoType: true = 'number', false = 'string' *)

  Definition row := (V * G)%type.
  (* Python tuple comparison (v1,a1) <= (v2,a2) *)
  Definition ple (p q : row) : bool :=
    if vle (fst p) (fst q) then (if vle (fst q) (fst p) then gle (snd p) (snd q) else true)
    else false.
  Definition vlt (a b : V) : bool := negb (vle b a).

  (* the two heapq operations used by step *)
  Variable hfy : list row -> option (list row).
  Variable hrep : list row -> row -> option (list row).

  Definition lift (o : option (list row)) : outcome (list row) :=
    match o with Some h => Ok h | None => ErrHeap end.

  (* ArgMin.step(self, arg, value, limit), self.result = st *)
  Definition step (st : list row) (a : G) (v : V) (limit : option Z) : outcome (list row) :=
    if match limit with Some k => (k <=? 0)%Z | None => false end then ErrLimit
    else if match st with (v0, _) :: _ => negb (Bool.eqb (kind v) (kind v0)) | [] => false end
    then ErrKind
    else
      let n := Z.of_nat (length st) in
      match limit with
      | None => Ok (st ++ [(v, a)])
      | Some k =>
          if (n <? k - 1)%Z then Ok (st ++ [(v, a)])
          else if (n =? k - 1)%Z then lift (hfy (st ++ [(v, a)]))
          else if (n =? k)%Z then
            match st with
            | (v0, _) :: _ => if vlt v v0 then lift (hrep st (v, a)) else Ok st
            | [] => ErrHeap
            end
          else ErrInternal
      end.

  (* rows arrive as (value, arg, limit) *)
  Fixpoint run_from (st : list row) (rows : list (V * G * option Z)) : outcome (list row) :=
    match rows with
    | [] => Ok st
    | (v, a, lim) :: t =>
        match step st a v lim with
        | Ok st' => run_from st' t
        | e => e
        end
    end.
  Definition run (rows : list (V * G * option Z)) := run_from [] rows.

  (* json.dumps([x[1] for x in sorted(self.result)]) *)
  Definition finalize (st : list row) : list G := map snd (isort ple st).

  Definition with_limit (lim : option Z) (l : list row) : list (V * G * option Z) :=
    map (fun r => (fst r, snd r, lim)) l.

  Definition agg (lim : option Z) (l : list row) : outcome (list G) :=
    match run (with_limit lim l) with
    | Ok st => Ok (finalize st)
    | ErrLimit => ErrLimit | ErrKind => ErrKind | ErrInternal => ErrInternal | ErrHeap => ErrHeap
    end.
End Agg.
Arguments ple {V G}.
Arguments vlt {V}.
Arguments step {V G}.
Arguments run_from {V G}.
Arguments run {V G}.
Arguments finalize {V G}.
Arguments with_limit {V G}.
Arguments agg {V G}.

Definition flip {A : Type} (le : A -> A -> bool) : A -> A -> bool := fun a b => le b a.

(* ------------------------------------------------------------------ instances *)
(* ArgMin with CPython's heap; ArgMax = the same at the flipped orders *)
Definition argmin_cpy {V G} (vle : V -> V -> bool) (gle : G -> G -> bool) (kind : V -> bool) :=
  agg vle gle kind (cpy_heapify_max (ple vle gle)) (cpy_heapreplace_max (ple vle gle)).
Definition argmax_cpy {V G} (vle : V -> V -> bool) (gle : G -> G -> bool) (kind : V -> bool) :=
  argmin_cpy (flip vle) (flip gle) kind.

Definition argmin_ref {V G} (vle : V -> V -> bool) (gle : G -> G -> bool) (kind : V -> bool) :=
  agg vle gle kind (ref_heapify_max (ple vle gle)) (ref_heapreplace_max (ple vle gle)).
Definition argmax_ref {V G} (vle : V -> V -> bool) (gle : G -> G -> bool) (kind : V -> bool) :=
  argmin_ref (flip vle) (flip gle) kind.

(* internal array self.result after all steps (for the exact tie with the Python objects) *)
Definition argmin_state_cpy {V G} (vle : V -> V -> bool) (gle : G -> G -> bool) (kind : V -> bool)
  (rows : list (V * G * option Z)) :=
  run vle kind (cpy_heapify_max (ple vle gle)) (cpy_heapreplace_max (ple vle gle)) rows.
Definition argmax_state_cpy {V G} (vle : V -> V -> bool) (gle : G -> G -> bool) (kind : V -> bool) :=
  argmin_state_cpy (flip vle) (flip gle) kind.

(* integers *)
Definition zkind (_ : Z) : bool := true.
Definition argminZ := argmin_cpy Z.leb Z.leb zkind.
Definition argmaxZ := argmax_cpy Z.leb Z.leb zkind.

(* strings / mixed scalars: code point lists, lexicographic; number < string never compared
   (the kind check fires first) but the order must be total, so numbers sort first *)
Fixpoint lexle (a b : list Z) : bool :=
  match a, b with
  | [], _ => true
  | _ :: _, [] => false
  | x :: a', y :: b' => if (x <? y)%Z then true else if (y <? x)%Z then false else lexle a' b'
  end.
Inductive scalar := SNum (z : Z) | SStr (s : list Z).
Definition sle (a b : scalar) : bool :=
  match a, b with
  | SNum x, SNum y => (x <=? y)%Z
  | SNum _, SStr _ => true
  | SStr _, SNum _ => false
  | SStr x, SStr y => lexle x y
  end.
Definition skind (a : scalar) : bool := match a with SNum _ => true | SStr _ => false end.
Definition argminS := argmin_cpy sle sle skind.
Definition argmaxS := argmax_cpy sle sle skind.
