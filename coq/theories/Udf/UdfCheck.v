(* C20 — executable helpers used by the correspondence run (props/c20.py): the Python UDF objects
   of common/sqlite3_logica.py are driven directly and what they did is judged here.

   judge codes: 0 = implementation equals the model exactly;
                1 = differs from the model but satisfies the specification (correspondence broken,
                    not a failing input for the property);
                2 = violates the specification (a failing input). *)
From Coq Require Import List Bool Arith ZArith Lia.
Import ListNotations.
From LV Require Import Udf.ArgMinMax Udf.Aggregates Udf.BuiltinSpec.

Definition scalar_eqb (a b : scalar) : bool :=
  match a, b with
  | SNum x, SNum y => (x =? y)%Z
  | SStr x, SStr y => zlist_eqb x y
  | _, _ => false
  end.
Definition srow := (scalar * scalar)%type.
Definition srow_eqb (p q : srow) : bool := scalar_eqb (fst p) (fst q) && scalar_eqb (snd p) (snd q).

Fixpoint list_eqb {A} (e : A -> A -> bool) (a b : list A) : bool :=
  match a, b with
  | [], [] => true
  | x :: a', y :: b' => e x y && list_eqb e a' b'
  | _, _ => false
  end.

Fixpoint remove_one {A} (e : A -> A -> bool) (x : A) (l : list A) : option (list A) :=
  match l with
  | [] => None
  | y :: t => if e x y then Some t else option_map (cons y) (remove_one e x t)
  end.
(* a is a sub-multiset of b *)
Fixpoint submset {A} (e : A -> A -> bool) (a b : list A) : bool :=
  match a with
  | [] => true
  | x :: t => match remove_one e x b with Some b' => submset e t b' | None => false end
  end.

Definition err_code {S} (o : outcome S) : Z :=
  match o with Ok _ => 0 | ErrLimit => 1 | ErrKind => 2 | ErrInternal => 3 | ErrHeap => 4 end%Z.

Definition const_limit (rows : list (scalar * scalar * option Z)) : option (option Z) :=
  match rows with
  | [] => None
  | (_, _, k) :: t =>
      if forallb (fun r => match snd r, k with
                           | Some a, Some b => (a =? b)%Z | None, None => true | _, _ => false end) t
      then Some k else None
  end.
Definition same_kinds (rows : list (scalar * scalar * option Z)) : bool :=
  match rows with
  | [] => true
  | (v, _, _) :: t => forallb (fun r => Bool.eqb (skind (fst (fst r))) (skind v)) t
  end.

(* The specification, independent of step/heap code: for a constant limit K >= 1 (or none) and
   values of one kind, no error; the kept tuples are a sub-multiset of the input, their values are
   the K smallest (largest) values, and the output lists their args in tuple order.
   For a constant limit <= 0 on a non-empty input: an error. *)
Definition spec_ok (is_max : bool) (rows : list (scalar * scalar * option Z))
           (err : Z) (state : list srow) (final : list scalar) : bool :=
  let vle := if is_max then flip sle else sle in
  let pl := ple vle vle in
  let input := map fst rows in
  match const_limit rows with
  | Some (Some k) =>
      if (k <=? 0)%Z then negb (err =? 0)%Z
      else if same_kinds rows then
        (err =? 0)%Z && submset srow_eqb state input &&
        list_eqb scalar_eqb (map fst (isort pl state))
                 (firstn (Z.to_nat k) (isort vle (map fst input))) &&
        list_eqb scalar_eqb final (map snd (isort pl state))
      else true
  | Some None =>
      if same_kinds rows then
        (err =? 0)%Z && list_eqb scalar_eqb final (map snd (isort pl input))
      else true
  | None => true
  end.

Definition judge_argminmax (is_max : bool) (rows : list (scalar * scalar * option Z))
           (err : Z) (state : list srow) (final : list scalar) : nat :=
  let m := if is_max then argmax_state_cpy sle sle skind rows
           else argmin_state_cpy sle sle skind rows in
  let vle := if is_max then flip sle else sle in
  let exact :=
    match m with
    | Ok st => (err =? 0)%Z && list_eqb srow_eqb st state &&
               list_eqb scalar_eqb (finalize vle vle st) final
    | e => (err_code e =? err)%Z
    end in
  if negb (spec_ok is_max rows err state final) then 2
  else if exact then 0 else 1.

(* ---------------- the other UDFs ---------------- *)
Definition truthy (v : val) : bool :=
  match v with
  | VNull => false
  | VInt z => negb (z =? 0)%Z
  | VRat n _ => negb (n =? 0)%Z
  | VStr s => match s with [] => false | _ => true end
  | VList l => match l with [] => false | _ => true end
  | VErr => false
  end.
Definition opt_of (v : val) : option val := match v with VNull => None | x => Some x end.
Definition val_of (o : option val) : val := match o with None => VNull | Some x => x end.

Definition same_set (a b : list val) : bool :=
  (length a =? length b) && forallb (fun x => existsb (veqb x) b) a &&
  forallb (fun x => existsb (veqb x) a) b.
Fixpoint nodupb (l : list val) : bool :=
  match l with [] => true | x :: t => negb (existsb (veqb x) t) && nodupb t end.

Inductive ucase :=
| UConcatAgg (rows : list (option (list val))) (obs : list val)
| UDistinct (rows : list val) (obs : list val)
| UTakeFirst (rows : list val) (obs : val)
| USortList (l : list val) (obs : list val)
| UJoin (l : list val) (sep : list Z) (obs : list Z)
| UInList (x : val) (l : list val) (obs : bool)
| UArrayConcat (a b : option (list val)) (obs : option (list val))
| USplit (s sep : list Z) (obs : list (list Z)).

Definition judge_udf (c : ucase) : nat :=
  let ok :=
    match c with
    | UConcatAgg rows obs => list_eqb veqb (array_concat_agg rows) obs
    | UDistinct rows obs => nodupb obs && same_set (distinct_list_agg veqb rows) obs
    | UTakeFirst rows obs => veqb (val_of (take_first truthy (map opt_of rows))) obs
    | USortList l obs => list_eqb veqb (sort_list val_le l) obs
    | UJoin l sep obs => zlist_eqb (join (map scalar_of l) sep) obs
    | UInList x l obs => Bool.eqb (in_list veqb x l) obs
    | UArrayConcat a b obs =>
        match array_concat a b, obs with
        | Some x, Some y => list_eqb veqb x y
        | None, None => true
        | _, _ => false
        end
    | USplit s sep obs => list_eqb zlist_eqb (split s sep) obs
    end in
  if ok then 0 else 2.

(* compact encoding used for the exhaustive streams: rows / kept tuples are indices into a table
   of (value, arg) rows, outputs are indices into a table of args; one limit per case *)
Definition judge_idx (tbl : list srow) (atbl : list scalar)
  (c : bool * option Z * list Z * Z * list Z * list Z) : nat :=
  let '(is_max, k, ris, err, sis, fis) := c in
  let d := (SNum 0, SNum 0) in
  judge_argminmax is_max
    (map (fun i => let r := nth (Z.to_nat i) tbl d in (fst r, snd r, k)) ris) err
    (map (fun i => nth (Z.to_nat i) tbl d) sis) (map (fun i => nth (Z.to_nat i) atbl (SNum 0)) fis).

Definition judge_op_n (c : op * list val * val) : nat :=
  let '(o, args, obs) := c in if judge_op o args obs then 0 else 2.
(* ArgMin / ArgMax / ...K through SQL: only args are observed.  A result that differs from the model
   but whose args carry the same values (rows have distinct args) differs in the choice among tied
   candidates only: code 1, not a failing input. *)
Definition lookup_val (rows : list (Z * Z)) (a : Z) : option Z :=
  option_map snd (find (fun r => (fst r =? a)%Z) rows).
Definition vals_of (rows : list (Z * Z)) (v : val) : list (option Z) :=
  match v with
  | VList l => map (fun x => match x with VInt a => lookup_val rows a | _ => None end) l
  | VInt a => [lookup_val rows a]
  | _ => [None]
  end.
Definition optz_eqb (a b : option Z) : bool :=
  match a, b with Some x, Some y => (x =? y)%Z | _, _ => false end.
Definition judge_agg_n (c : aggop * list (Z * Z) * val) : nat :=
  let '(a, rows, obs) := c in
  if judge_agg a rows obs then 0
  else match a with
       | AArgMin | AArgMax | AArgMinK _ | AArgMaxK _ =>
           if list_eqb optz_eqb (vals_of rows obs) (vals_of rows (spec_agg a rows)) then 1 else 2
       | _ => 2
       end.
