(* C20 — the model of CPython's heapq (cpy_siftup_max = _siftup_max followed by _siftdown_max,
   cpy_heapify_max, cpy_heapreplace_max of Udf/ArgMinMax.v) meets the heap contract used by the
   ArgMin theorems: the array is permuted and afterwards every parent is >= its children, hence
   position 0 holds a maximum. *)
From Coq Require Import List Bool Arith ZArith Lia Permutation.
Import ListNotations.
From LV Require Import Udf.ArgMinMax Udf.ArgMinMaxProofs.

(* ------------------------------------------------------------------ arrays *)
Section ArrFacts.
  Variable E : Type.
  Implicit Types l : list E.

  Lemma set_nth_length l : forall i x, length (set_nth l i x) = length l.
  Proof. induction l as [|a t IH]; intros [|i] x; simpl; auto. Qed.

  Lemma nth_set_nth_eq l : forall i x d, i < length l -> nth i (set_nth l i x) d = x.
  Proof. induction l as [|a t IH]; intros [|i] x d H; simpl in *; try lia; auto. apply IH; lia. Qed.

  Lemma nth_set_nth_neq l : forall i j x d, i <> j -> nth j (set_nth l i x) d = nth j l d.
  Proof.
    induction l as [|a t IH]; intros [|i] [|j] x d H; simpl; auto; try congruence.
  Qed.

  Lemma set_nth_same l : forall i d, set_nth l i (nth i l d) = l.
  Proof. induction l as [|a t IH]; intros [|i] d; simpl; auto. f_equal; auto. Qed.

  Lemma set_nth_twice l : forall i x y, set_nth (set_nth l i x) i y = set_nth l i y.
  Proof. induction l as [|a t IH]; intros [|i] x y; simpl; auto. f_equal; auto. Qed.

  Lemma set_nth_comm l : forall i j x y, i <> j ->
    set_nth (set_nth l i x) j y = set_nth (set_nth l j y) i x.
  Proof.
    induction l as [|a t IH]; intros [|i] [|j] x y H; simpl; auto; try congruence.
    f_equal. apply IH. congruence.
  Qed.

  Lemma perm_head_swap l : forall j x y, j < length l ->
    Permutation (x :: set_nth l j y) (y :: set_nth l j x).
  Proof.
    induction l as [|a t IH]; intros [|j] x y H; simpl in *; try lia.
    - apply perm_swap.
    - eapply perm_trans; [apply perm_swap|]. eapply perm_trans; [|apply perm_swap].
      apply perm_skip. apply IH. lia.
  Qed.

  Lemma perm_swap_set l : forall i j x y, i <> j -> i < length l -> j < length l ->
    Permutation (set_nth (set_nth l i x) j y) (set_nth (set_nth l i y) j x).
  Proof.
    induction l as [|a t IH]; intros [|i] [|j] x y H Hi Hj; simpl in *; try lia; try congruence.
    - apply perm_head_swap. lia.
    - apply Permutation_sym, perm_head_swap. lia.
    - apply perm_skip. apply IH; lia.
  Qed.

  (* moving the hole: position p receives the value of position c, the hole moves to c *)
  Lemma hole_move l p c x d : p <> c -> p < length l -> c < length l ->
    Permutation (set_nth (set_nth l p (nth c l d)) c x) (set_nth l p x).
  Proof.
    intros H Hp Hc.
    eapply perm_trans; [apply perm_swap_set; auto|].
    assert (E1 : nth c l d = nth c (set_nth l p x) d) by (symmetry; apply nth_set_nth_neq; auto).
    rewrite E1. rewrite set_nth_same. apply Permutation_refl.
  Qed.
End ArrFacts.

(* ------------------------------------------------------------------ index arithmetic *)
Definition par (j : nat) : nat := (j - 1) / 2.

Lemma par_child c p : 1 <= c -> (par c = p <-> c = 2 * p + 1 \/ c = 2 * p + 2).
Proof.
  unfold par. intros H.
  pose proof (Nat.div_mod (c - 1) 2 ltac:(lia)) as D.
  pose proof (Nat.mod_upper_bound (c - 1) 2 ltac:(lia)) as M.
  split; intros; lia.
Qed.

Lemma par_lt j : 1 <= j -> par j < j.
Proof.
  unfold par. intros H. pose proof (Nat.div_mod (j - 1) 2 ltac:(lia)).
  pose proof (Nat.mod_upper_bound (j - 1) 2 ltac:(lia)). lia.
Qed.

(* p lies in the subtree rooted at a *)
Inductive desc (a : nat) : nat -> Prop :=
| desc_refl : desc a a
| desc_child : forall p c, desc a p -> 1 <= c -> par c = p -> desc a c.

Lemma desc_ge a p : desc a p -> a <= p.
Proof. induction 1; auto. pose proof (par_lt c H0). lia. Qed.

Lemma desc_par a p : desc a p -> p <> a -> desc a (par p) /\ a <= par p /\ 1 <= p.
Proof.
  intros H N. destruct H as [|q c Hq Hc Hp]; [congruence|]. subst q.
  split; auto. split; auto. apply desc_ge; auto.
Qed.

(* ------------------------------------------------------------------ heaps *)
Section HeapFacts.
  Variable E : Type.
  Variable le : E -> E -> bool.
  Hypothesis le_total : forall a b, le a b = true \/ le b a = true.
  Hypothesis le_trans : forall a b c, le a b = true -> le b c = true -> le a c = true.

  Lemma le_refl' a : le a a = true.
  Proof. destruct (le_total a a); auto. Qed.

  Lemma lt_le a b : lt le a b = true -> le a b = true.
  Proof.
    unfold lt. intros H. apply negb_true_iff in H. destruct (le_total a b); congruence.
  Qed.
  Lemma not_lt_le a b : lt le a b = false -> le b a = true.
  Proof. unfold lt. intros H. apply negb_false_iff in H. auto. Qed.

  (* every edge parent -> child whose parent index is >= lo is in order (default value d only
     matters out of range) *)
  Definition hp (d : E) (g : list E) (lo : nat) : Prop :=
    forall j, 1 <= j -> j < length g -> lo <= par j -> le (nth j g d) (nth (par j) g d) = true.

  Lemma hp_indep d d' g lo : hp d g lo -> hp d' g lo.
  Proof.
    intros H j H1 H2 H3. pose proof (par_lt j H1).
    rewrite (nth_indep g d' d) by lia. rewrite (nth_indep g d' d) by lia. auto.
  Qed.

  Lemma hp_root d g : hp d g 0 -> forall j, j < length g -> le (nth j g d) (nth 0 g d) = true.
  Proof.
    intros H j. induction j as [j IH] using lt_wf_ind. intros Hj.
    destruct j as [|j]; [apply le_refl'|].
    pose proof (par_lt (S j) ltac:(lia)).
    eapply le_trans; [apply H; lia|]. apply IH; lia.
  Qed.

  Section Sift.
    Variable h : list E.          (* array before the call *)
    Variable pos : nat.           (* startpos *)
    Variable x : E.               (* newitem; also the default of nth *)
    Let n := length h.

    (* g has a hole at p *)
    Definition hpx (g : list E) (p : nat) : Prop :=
      forall j, 1 <= j -> j < n -> pos <= par j -> j <> p -> par j <> p ->
                le (nth j g x) (nth (par j) g x) = true.
    Definition below_parent (g : list E) (p : nat) : Prop :=
      p <> pos -> forall c, 1 <= c -> c < n -> par c = p -> le (nth c g x) (nth (par p) g x) = true.
    Definition below_x (g : list E) (p : nat) : Prop :=
      forall c, 1 <= c -> c < n -> par c = p -> le (nth c g x) x = true.

    Definition P1 (g : list E) (p : nat) : Prop :=
      length g = n /\ p < n /\ desc pos p /\ Permutation (set_nth g p x) h /\
      hpx g p /\ below_parent g p.
    Definition P2 (g : list E) (p : nat) : Prop := P1 g p /\ below_x g p.

    Lemma phase1 : forall fuel g p, P1 g p -> n - p <= fuel ->
      exists g' leaf, siftup_loop E le fuel g n p x = Some (g', leaf) /\ P1 g' leaf /\ n <= 2 * leaf + 1.
    Proof.
      induction fuel as [|f IH]; intros g p HP Hf.
      - destruct HP as (_ & Hp & _). lia.
      - cbn [siftup_loop]. destruct (2 * p + 1 <? n) eqn:C.
        2:{ apply Nat.ltb_ge in C. exists g, p. split; [reflexivity|split; [auto|lia]]. }
        apply Nat.ltb_lt in C.
        destruct HP as (Hl & Hp & Hd & Hperm & Hx & Hb).
        set (l := 2 * p + 1) in *. set (r := 2 * p + 1 + 1).
        set (c := if (r <? n) && negb (lt le (nth r g x) (nth l g x)) then r else l).
        assert (Hc : (c = l \/ c = r) /\ c < n /\
                     forall j, 1 <= j -> j < n -> par j = p -> le (nth j g x) (nth c g x) = true).
        { assert (Er : 2 * p + 2 = r) by (unfold r; lia).
          unfold c. destruct (r <? n) eqn:R; simpl.
          - apply Nat.ltb_lt in R. destruct (lt le (nth r g x) (nth l g x)) eqn:L; simpl.
            + split; auto. split; auto. intros j H1 H2 H3. apply par_child in H3; auto.
              destruct H3 as [->| ->]; [apply le_refl'|]. rewrite Er. apply lt_le. exact L.
            + split; auto. split; auto. intros j H1 H2 H3. apply par_child in H3; auto.
              destruct H3 as [->| ->]; [|rewrite Er; apply le_refl']. apply not_lt_le. exact L.
          - apply Nat.ltb_ge in R. split; auto. split; auto. intros j H1 H2 H3.
            apply par_child in H3; auto. destruct H3 as [->| ->]; [apply le_refl'|]. lia. }
        destruct Hc as (Hcl & Hcn & Hcmax).
        assert (Hpc : par c = p /\ 1 <= c /\ p <> c).
        { unfold l, r in Hcl. split; [apply par_child; lia|lia]. }
        destruct Hpc as (Hpc & Hc1 & Hne).
        assert (Hpltc : p < c) by (destruct Hcl as [Ec|Ec]; rewrite Ec; unfold l, r; lia).
        change (l + 1) with r. fold c.
        apply IH; [|lia].
        repeat split.
        + rewrite set_nth_length; auto.
        + auto.
        + eapply desc_child; eauto.
        + eapply perm_trans; [|exact Hperm]. apply hole_move; auto; lia.
        + (* hpx *) intros j H1 H2 H3 H4 H5.
          destruct (Nat.eq_dec j p) as [->|Njp].
          * (* edge into the former hole *)
            rewrite nth_set_nth_eq by lia. rewrite nth_set_nth_neq by (pose proof (par_lt p H1); lia).
            destruct (Nat.eq_dec p pos) as [->|Npp].
            -- pose proof (par_lt pos H1). lia.
            -- apply Hb; auto.
          * destruct (Nat.eq_dec (par j) p) as [Ep|Np].
            -- rewrite Ep. rewrite nth_set_nth_eq by lia. rewrite nth_set_nth_neq by auto.
               apply Hcmax; auto.
            -- rewrite !nth_set_nth_neq by auto. apply Hx; auto.
        + (* below_parent at c *) intros _ c' H1 H2 H3.
          rewrite Hpc. rewrite nth_set_nth_eq by lia.
          rewrite nth_set_nth_neq by (pose proof (par_lt c' H1); lia).
          rewrite <- H3. apply Hx; auto; try lia.
          * rewrite H3. pose proof (desc_ge _ _ Hd). lia.
          * pose proof (par_lt c' H1). lia.
    Qed.

    Lemma P1_fill g p y : P1 g p -> P1 (set_nth g p y) p.
    Proof.
      intros (Hl & Hp & Hd & Hperm & Hx & Hb). repeat split; auto.
      - rewrite set_nth_length; auto.
      - rewrite set_nth_twice; auto.
      - intros j H1 H2 H3 H4 H5. rewrite !nth_set_nth_neq by auto. apply Hx; auto.
      - intros N c H1 H2 H3. destruct (desc_par _ _ Hd N) as (_ & _ & Hp1).
        pose proof (par_lt p Hp1). pose proof (par_lt c H1).
        rewrite !nth_set_nth_neq by lia. apply Hb; auto.
    Qed.

    Lemma place g p : P2 g p -> (p = pos \/ le x (nth (par p) g x) = true) ->
      Permutation (set_nth g p x) h /\ hp x (set_nth g p x) pos /\ length (set_nth g p x) = n.
    Proof.
      intros [(Hl & Hp & Hd & Hperm & Hx & Hb) Hbx] Htop. split; auto. split.
      2:{ rewrite set_nth_length; auto. }
      intros j H1 H2 H3. rewrite set_nth_length, Hl in H2. fold n in H2.
      destruct (Nat.eq_dec j p) as [->|Njp].
      - rewrite nth_set_nth_eq by lia. pose proof (par_lt p H1).
        rewrite nth_set_nth_neq by lia.
        destruct Htop as [->|Ht]; auto. lia.
      - destruct (Nat.eq_dec (par j) p) as [Ep|Np].
        + rewrite Ep. rewrite nth_set_nth_eq by lia. rewrite nth_set_nth_neq by auto. apply Hbx; auto.
        + rewrite !nth_set_nth_neq by auto. apply Hx; auto.
    Qed.

    Lemma phase2 : forall fuel g p, P2 g p -> p < fuel ->
      exists g', siftdown_loop E le fuel g pos p x = Some g' /\
                 Permutation g' h /\ hp x g' pos /\ length g' = n.
    Proof.
      induction fuel as [|f IH]; intros g p HP Hf; [lia|].
      cbn [siftdown_loop]. destruct (pos <? p) eqn:C.
      2:{ apply Nat.ltb_ge in C. eexists; split; [reflexivity|]. apply place; auto.
          left. destruct HP as [(_ & _ & Hd & _) _]. pose proof (desc_ge _ _ Hd). lia. }
      apply Nat.ltb_lt in C.
      destruct (lt le (nth ((p - 1) / 2) g x) x) eqn:L.
      2:{ eexists; split; [reflexivity|]. apply place; auto. right. apply not_lt_le. exact L. }
      fold (par p) in *. set (q := par p) in *.
      destruct HP as [(Hl & Hp & Hd & Hperm & Hx & Hb) Hbx].
      assert (Np : p <> pos) by lia.
      destruct (desc_par _ _ Hd Np) as (Hdq & Hposq & Hp1).
      pose proof (par_lt p Hp1) as Hqp. fold q in Hqp.
      apply IH; [|lia].
      assert (Hq_le_x : le (nth q g x) x = true) by (apply lt_le; exact L).
      split; [repeat split|].
      + rewrite set_nth_length; auto.
      + lia.
      + auto.
      + eapply perm_trans; [|exact Hperm]. apply hole_move; auto; lia.
      + (* hpx at q *) intros j H1 H2 H3 H4 H5.
        destruct (Nat.eq_dec j p) as [->|Njp]; [fold q in H5; congruence|].
        destruct (Nat.eq_dec (par j) p) as [Ep|Npj].
        * rewrite Ep. rewrite nth_set_nth_eq by lia. rewrite nth_set_nth_neq by auto.
          apply Hb; auto.
        * rewrite !nth_set_nth_neq by auto. apply Hx; auto.
      + (* below_parent at q *) intros Nq c H1 H2 H3.
        destruct (desc_par _ _ Hdq Nq) as (_ & Hposqq & Hq1).
        pose proof (par_lt q Hq1) as Hqq.
        rewrite (nth_set_nth_neq _ g p (par q)) by lia.
        assert (Hqpq : le (nth q g x) (nth (par q) g x) = true) by (apply Hx; auto; lia).
        destruct (Nat.eq_dec c p) as [->|Ncp].
        * rewrite nth_set_nth_eq by lia. auto.
        * rewrite nth_set_nth_neq by auto. eapply le_trans; [|exact Hqpq].
          rewrite <- H3. apply Hx; auto; lia.
      + (* below_x at q *) intros c H1 H2 H3.
        destruct (Nat.eq_dec c p) as [->|Ncp].
        * rewrite nth_set_nth_eq by lia. auto.
        * rewrite nth_set_nth_neq by auto. eapply le_trans; [|exact Hq_le_x].
          rewrite <- H3. apply Hx; auto; lia.
    Qed.
  End Sift.

  Lemma siftup_spec h pos d : pos < length h -> hp d h (pos + 1) ->
    exists h', cpy_siftup_max le h pos = Some h' /\ Permutation h' h /\ hp d h' pos /\
               length h' = length h.
  Proof.
    intros Hpos Hh. unfold cpy_siftup_max.
    destruct (nth_error h pos) as [x|] eqn:Ex; [|apply nth_error_None in Ex; lia].
    assert (Hx : nth pos h x = x) by (apply nth_error_nth; auto).
    assert (HP1 : P1 h pos x h pos).
    { repeat split; auto.
      - constructor.
      - rewrite <- Hx at 1. rewrite set_nth_same. apply Permutation_refl.
      - intros j H1 H2 H3 H4 H5. apply (hp_indep d x h (pos + 1) Hh); auto. lia.
      - intros N. congruence. }
    destruct (phase1 h pos x (S (length h)) h pos HP1 ltac:(lia)) as (g & leaf & -> & HPg & Hleaf).
    assert (HP2 : P2 h pos x (set_nth g leaf x) leaf).
    { split; [apply P1_fill; auto|]. intros c H1 H2 H3. apply par_child in H3; auto. lia. }
    destruct (phase2 h pos x (S leaf) _ leaf HP2 ltac:(lia)) as (g' & -> & Hperm & Hhp & Hlen).
    exists g'. split; auto. split; auto. split; auto. apply (hp_indep x d); auto.
  Qed.

  Lemma heapify_from_spec d : forall i h, i <= length h -> hp d h i ->
    exists h', heapify_from E le i h = Some h' /\ Permutation h' h /\ hp d h' 0.
  Proof.
    induction i as [|j IH]; intros h Hi Hh; simpl.
    - exists h. auto.
    - destruct (siftup_spec h j d ltac:(lia)) as (h1 & -> & Hp1 & Hh1 & Hl1).
      { replace (j + 1) with (S j) by lia. auto. }
      destruct (IH h1 ltac:(lia) Hh1) as (h' & -> & Hp' & Hh').
      exists h'. split; auto. split; auto. eapply perm_trans; eauto.
  Qed.

  Definition cpy_inv (h : list E) : Prop := forall d, hp d h 0.

  Lemma cpy_hfy_spec l : exists h, cpy_heapify_max le l = Some h /\ Permutation l h /\ cpy_inv h.
  Proof.
    unfold cpy_heapify_max.
    assert (Hdiv : length l / 2 <= length l) by (apply Nat.div_le_upper_bound; lia).
    destruct l as [|a t].
    - simpl. exists []. repeat split; auto. intros d j H1 H2. simpl in H2. lia.
    - destruct (heapify_from_spec a (length (a :: t) / 2) (a :: t) Hdiv) as (h' & E1 & Hp & Hh).
      { intros j H1 H2 H3. exfalso.
        pose proof (Nat.div_mod (length (a :: t)) 2 ltac:(lia)).
        pose proof (Nat.mod_upper_bound (length (a :: t)) 2 ltac:(lia)).
        unfold par in H3. pose proof (Nat.div_mod (j - 1) 2 ltac:(lia)).
        pose proof (Nat.mod_upper_bound (j - 1) 2 ltac:(lia)). lia. }
      exists h'. split; auto. split; [apply Permutation_sym; auto|].
      intros d. apply (hp_indep a d); auto.
  Qed.

  Lemma cpy_hrep_spec r t x : cpy_inv (r :: t) ->
    exists h, cpy_heapreplace_max le (r :: t) x = Some h /\ Permutation (x :: t) h /\ cpy_inv h.
  Proof.
    intros Hinv. unfold cpy_heapreplace_max. simpl set_nth.
    destruct (siftup_spec (x :: t) 0 x ltac:(simpl; lia)) as (h' & -> & Hp & Hh & Hl).
    { intros j H1 H2 H3. simpl in H2.
      assert (1 <= par j) by lia. pose proof (par_lt j H1).
      destruct j as [|j]; [lia|]. destruct (par (S j)) as [|pj] eqn:Epj; [lia|].
      simpl. specialize (Hinv x (S j) H1 ltac:(simpl; lia) ltac:(lia)). rewrite Epj in Hinv.
      simpl in Hinv. exact Hinv. }
    exists h'. split; auto. split; [apply Permutation_sym; auto|].
    intros d. apply (hp_indep x d); auto.
  Qed.

  Lemma cpy_inv_root r t : cpy_inv (r :: t) -> Forall (fun y => le y r = true) t.
  Proof.
    intros H. apply Forall_forall. intros y Hy.
    destruct (In_nth t y r Hy) as (i & Hi & <-).
    apply (hp_root r (r :: t) (H r) (S i)). simpl. lia.
  Qed.
End HeapFacts.

Lemma cpy_contract {V G} (vle : V -> V -> bool) (gle : G -> G -> bool) :
  total_order vle -> total_order gle ->
  heap_contract vle gle (cpy_heapify_max (ple vle gle)) (cpy_heapreplace_max (ple vle gle)).
Proof.
  intros Hv Hg. destruct (ple_total_order vle gle Hv Hg) as (T & R & S).
  exists (cpy_inv _ (ple vle gle)). repeat split.
  - intros l. apply cpy_hfy_spec; auto.
  - intros r t x. apply cpy_hrep_spec; auto.
  - intros r t. apply cpy_inv_root; auto.
Qed.

(* ------------------------------------------------------------------ the concrete aggregates *)
Theorem argmin_cpy_distinct {V G} (vle : V -> V -> bool) (gle : G -> G -> bool) kind :
  total_order vle -> total_order gle ->
  forall K l, (1 <= K)%Z -> same_kind V G kind l -> NoDup (map fst l) ->
  argmin_cpy vle gle kind (Some K) l = Ok (map snd (firstn (Z.to_nat K) (isort (ple vle gle) l))).
Proof.
  intros Hv Hg. unfold argmin_cpy.
  apply (p_argmin_distinct V G vle gle kind _ _ Hv Hg (cpy_contract vle gle Hv Hg)).
Qed.

Theorem argmax_cpy_distinct {V G} (vle : V -> V -> bool) (gle : G -> G -> bool) kind :
  total_order vle -> total_order gle ->
  forall K l, (1 <= K)%Z -> same_kind V G kind l -> NoDup (map fst l) ->
  argmax_cpy vle gle kind (Some K) l =
  Ok (map snd (firstn (Z.to_nat K) (isort (ple (flip vle) (flip gle)) l))).
Proof.
  intros Hv Hg. unfold argmax_cpy.
  apply argmin_cpy_distinct; apply flip_total_order; auto.
Qed.

(* strings (code point lists) and the number/string scalars of the tie are total orders too *)
Lemma lexle_total a : forall b, lexle a b = true \/ lexle b a = true.
Proof.
  induction a as [|x a IH]; intros [|y b]; simpl; auto.
  destruct (Z.ltb_spec x y); auto. destruct (Z.ltb_spec y x); auto.
Qed.
Lemma lexle_antisym a : forall b, lexle a b = true -> lexle b a = true -> a = b.
Proof.
  induction a as [|x a IH]; intros [|y b]; simpl; auto; try discriminate.
  destruct (Z.ltb_spec x y); destruct (Z.ltb_spec y x); try discriminate; try lia.
  intros H1 H2. assert (x = y) by lia. subst. f_equal. auto.
Qed.
Lemma lexle_trans a : forall b c, lexle a b = true -> lexle b c = true -> lexle a c = true.
Proof.
  induction a as [|x a IH]; intros [|y b] [|z c]; simpl; auto; try discriminate.
  destruct (Z.ltb_spec x y); destruct (Z.ltb_spec y x); try discriminate; try lia;
  destruct (Z.ltb_spec y z); destruct (Z.ltb_spec z y); try discriminate; try lia;
  destruct (Z.ltb_spec x z); destruct (Z.ltb_spec z x); try discriminate; try lia; auto.
  intros. eapply IH; eauto.
Qed.

Lemma sle_total_order : total_order sle.
Proof.
  repeat split.
  - intros [x|x] [y|y]; simpl; auto. + destruct (Z.leb_spec x y); auto. right. apply Z.leb_le. lia.
    + apply lexle_total.
  - intros [x|x] [y|y] [z|z]; simpl; auto; try discriminate.
    + rewrite !Z.leb_le. lia.
    + apply lexle_trans.
  - intros [x|x] [y|y]; simpl; try discriminate.
    + rewrite !Z.leb_le. intros. f_equal. lia.
    + intros. f_equal. apply lexle_antisym; auto.
Qed.
