(* C20 — Spec functions for the built-ins of the SQLite engine that are SQL templates
   (compiler/dialects.py SqLiteDialect.BuiltInFunctions / InfixOperators,
    compiler/expr_translate.py BUILT_IN_FUNCTIONS / BUILT_IN_INFIX_OPERATORS) and for the
   aggregating operators.  For these the model IS the specification: the harness evaluates
   `T(<call>)` through the real pipeline on SQLite and asks [judge_op] / [judge_agg].

   Conventions adopted from the engine (stated, not derived): integer `/` and `%` truncate towards
   zero and give NULL for a zero divisor; `^` is Python's float power (result a float, error for
   0 to a negative power); Element beyond the end is NULL and a negative index is rejected;
   Least/Greatest are SQLite's scalar MIN/MAX. *)
From Coq Require Import List Bool Arith ZArith Lia.
Import ListNotations.
From LV Require Import Udf.ArgMinMax Udf.Aggregates.

Inductive op :=
| ORange | OSize | OElement | OIn | OSort | OArrayConcat | OConcat | OJoin | OSplit
| OToString | OToInt64 | OLeast | OGreatest
| OAdd | OSub | OMul | ODiv | OMod | ONeg | OPow
| OEq | ONe | OLt | OLe | OGt | OGe.

Definition vbool (b : bool) : val := VInt (if b then 1 else 0)%Z.

Fixpoint range_from (n : nat) (start : Z) : list Z :=
  match n with O => [] | S k => start :: range_from k (start + 1)%Z end.
Definition range (n : Z) : list Z := range_from (Z.to_nat n) 0%Z.

(* order used by Sort on homogeneous lists of integers or of strings *)
Definition val_le (a b : val) : bool :=
  match a, b with
  | VInt x, VInt y => (x <=? y)%Z
  | VStr x, VStr y => lexle x y
  | _, _ => true
  end.

Definition scalar_of (v : val) : scalar :=
  match v with VInt z => SNum z | VStr s => SStr s | _ => SStr [] end.

Definition zmin_list (l : list Z) : val :=
  match l with [] => VNull | x :: t => VInt (fold_left Z.min t x) end.
Definition zmax_list (l : list Z) : val :=
  match l with [] => VNull | x :: t => VInt (fold_left Z.max t x) end.
Fixpoint ints_of (l : list val) : option (list Z) :=
  match l with
  | [] => Some []
  | VInt z :: t => option_map (cons z) (ints_of t)
  | _ => None
  end.

Definition cmp (f : Z -> Z -> bool) (args : list val) : val :=
  match args with [VInt a; VInt b] => vbool (f a b) | _ => VErr end.

Definition spec (o : op) (args : list val) : val :=
  match o, args with
  | ORange, [VInt n] => VList (map VInt (range n))
  | OSize, [VList l] => VInt (Z.of_nat (length l))
  | OElement, [VList l; VInt i] =>
      if (i <? 0)%Z then VErr else nth (Z.to_nat i) l VNull
  | OIn, [x; VList l] => vbool (existsb (veqb x) l)
  | OSort, [VList l] => VList (isort val_le l)
  | OArrayConcat, [VList a; VList b] => VList (a ++ b)
  | OArrayConcat, [VNull; _] => VNull
  | OArrayConcat, [_; VNull] => VNull
  | OConcat, [VStr a; VStr b] => VStr (a ++ b)
  | OJoin, [VList l; VStr sep] => VStr (join (map scalar_of l) sep)
  | OSplit, [VStr s; VStr sep] => VList (map VStr (split s sep))
  | OToString, [VInt z] => VStr (to_string z)
  | OToString, [VStr s] => VStr s
  | OToInt64, [VStr s] => match parse_int s with Some z => VInt z | None => VErr end
  | OToInt64, [VInt z] => VInt z
  | OLeast, l => match ints_of l with Some zs => zmin_list zs | None => VErr end
  | OGreatest, l => match ints_of l with Some zs => zmax_list zs | None => VErr end
  | OAdd, [VInt a; VInt b] => VInt (a + b)
  | OSub, [VInt a; VInt b] => VInt (a - b)
  | OMul, [VInt a; VInt b] => VInt (a * b)
  | ODiv, [VInt a; VInt b] => if (b =? 0)%Z then VNull else VInt (Z.quot a b)
  | OMod, [VInt a; VInt b] => if (b =? 0)%Z then VNull else VInt (Z.rem a b)
  | ONeg, [VInt a] => VInt (- a)
  | OPow, [VInt a; VInt b] =>
      if (0 <=? b)%Z then VRat (a ^ b) 1
      else if (a =? 0)%Z then VErr
      else let d := (a ^ (- b))%Z in if (d <? 0)%Z then VRat (-1) (- d) else VRat 1 d
  | OEq, _ => cmp Z.eqb args
  | ONe, _ => cmp (fun a b => negb (a =? b)%Z) args
  | OLt, _ => cmp Z.ltb args
  | OLe, _ => cmp Z.leb args
  | OGt, _ => cmp Z.gtb args
  | OGe, _ => cmp Z.geb args
  | _, _ => VErr
  end.

Definition judge_op (o : op) (args : list val) (observed : val) : bool := veqb (spec o args) observed.

(* ------------------------------------------------------------------ aggregating operators *)
Inductive aggop :=
| ASum | AMin | AMax | AAvg | ACount | AList | ASet
| AArgMin | AArgMax | AArgMinK (k : Z) | AArgMaxK (k : Z) | AArray.

Definition of_outcome (o : outcome (list Z)) : val :=
  match o with Ok l => VList (map VInt l) | _ => VErr end.
Definition first_or_null (v : val) : val :=
  match v with VList (x :: _) => x | VList [] => VNull | e => e end.

Definition sum_list (l : list Z) : Z := fold_left Z.add l 0%Z.
Definition distinct (l : list Z) : list Z := distinct_list_agg Z.eqb l.

(* rows = (arg, value) in arrival order.  Sum/Min/Max/Avg/Count/List/Set aggregate the value
   column; `X= arg -> value` forms pass the pair.  Set is given sorted (the harness sorts what it
   observes: the property fixes the set, see the separate arrival-order check). *)
Definition spec_agg (a : aggop) (rows : list (Z * Z)) : val :=
  let vs := map snd rows in
  let pairs := map (fun r => (snd r, fst r)) rows in        (* (value, arg) tuples of the UDF *)
  match a with
  | ASum => match vs with [] => VNull | _ => VInt (sum_list vs) end
  | AMin => zmin_list vs
  | AMax => zmax_list vs
  | AAvg => match vs with
            | [] => VNull
            | _ => let s := sum_list vs in let n := Z.of_nat (length vs) in
                   let g := Z.gcd s n in VRat (s / g) (n / g)
            end
  | ACount => VInt (Z.of_nat (length (distinct vs)))
  | AList => VList (map VInt vs)
  | ASet => VList (map VInt (isort Z.leb (distinct vs)))
  | AArgMin => first_or_null (of_outcome (argminZ (Some 1%Z) pairs))
  | AArgMax => first_or_null (of_outcome (argmaxZ (Some 1%Z) pairs))
  | AArgMinK k => of_outcome (argminZ (Some k) pairs)
  | AArgMaxK k => of_outcome (argmaxZ (Some k) pairs)
  (* Array= key -> value: ArgMin(value, key, null): tuples (key, value) sorted, values listed *)
  | AArray => of_outcome (argminZ None rows)
  end.

Definition judge_agg (a : aggop) (rows : list (Z * Z)) (observed : val) : bool :=
  veqb (spec_agg a rows) observed.
