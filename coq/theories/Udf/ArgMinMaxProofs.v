(* C20 — proofs about Udf/ArgMinMax.v: sorting facts, and the K-best / arrival-order theorems of
   ArgMin (ArgMax by instantiation at the flipped orders) for EVERY pair of heap operations that
   meets heapq's contract (permutation + "root is a maximum" invariant). *)
From Coq Require Import List Bool Arith ZArith Lia Permutation.
Import ListNotations.
From LV Require Import Udf.ArgMinMax.

(* ------------------------------------------------------------------ sorting *)
Section SortFacts.
  Variable E : Type.
  Variable le : E -> E -> bool.
  Hypothesis le_total : forall a b, le a b = true \/ le b a = true.
  Hypothesis le_trans : forall a b c, le a b = true -> le b c = true -> le a c = true.
  Hypothesis le_antisym : forall a b, le a b = true -> le b a = true -> a = b.

  Fixpoint sorted (l : list E) : Prop :=
    match l with
    | [] => True
    | x :: t => Forall (fun y => le x y = true) t /\ sorted t
    end.

  Lemma insert_perm x l : Permutation (insert le x l) (x :: l).
  Proof.
    induction l as [|y t IH]; simpl; auto.
    destruct (le x y); auto.
    eapply perm_trans; [apply perm_skip, IH|apply perm_swap].
  Qed.

  Lemma isort_perm l : Permutation (isort le l) l.
  Proof.
    induction l as [|x t IH]; simpl; auto.
    eapply perm_trans; [apply insert_perm|auto].
  Qed.

  Lemma isort_length l : length (isort le l) = length l.
  Proof. apply Permutation_length, isort_perm. Qed.

  Lemma insert_sorted x l : sorted l -> sorted (insert le x l).
  Proof.
    induction l as [|y t IH]; simpl; intros H.
    - split; auto.
    - destruct H as [Hy Ht]. destruct (le x y) eqn:Hxy; simpl.
      + split; [|split; auto]. constructor; auto.
        eapply Forall_impl; [|exact Hy]. simpl. intros z Hz. eapply le_trans; eauto.
      + split; [|auto].
        assert (Hyx : le y x = true) by (destruct (le_total x y); congruence).
        eapply Permutation_Forall; [apply Permutation_sym, insert_perm|].
        constructor; auto.
  Qed.

  Lemma isort_sorted l : sorted (isort le l).
  Proof. induction l; simpl; auto. apply insert_sorted; auto. Qed.

  Lemma le_refl a : le a a = true.
  Proof. destruct (le_total a a); auto. Qed.

  Lemma sorted_perm_eq l1 : forall l2, sorted l1 -> sorted l2 -> Permutation l1 l2 -> l1 = l2.
  Proof.
    induction l1 as [|x t IH]; intros l2 H1 H2 P.
    - apply Permutation_nil in P. auto.
    - destruct l2 as [|y u]; [apply Permutation_sym, Permutation_nil in P; discriminate|].
      destruct H1 as [Hx Ht]. destruct H2 as [Hy Hu].
      assert (x = y).
      { assert (Iy : In y (x :: t)) by (eapply Permutation_in; [apply Permutation_sym, P|left; auto]).
        assert (Ix : In x (y :: u)) by (eapply Permutation_in; [apply P|left; auto]).
        destruct Iy as [->|Iy]; auto. destruct Ix as [->|Ix]; auto.
        rewrite Forall_forall in Hx, Hy. apply le_antisym; auto. }
      subst y. f_equal. apply IH; auto. eapply Permutation_cons_inv; eauto.
  Qed.

  Lemma isort_perm_eq l l' : Permutation l l' -> isort le l = isort le l'.
  Proof.
    intros P. apply sorted_perm_eq; try apply isort_sorted.
    eapply perm_trans; [apply isort_perm|]. eapply perm_trans; [exact P|].
    apply Permutation_sym, isort_perm.
  Qed.

  Lemma sorted_app a : forall b, sorted a -> sorted b ->
    (forall x y, In x a -> In y b -> le x y = true) -> sorted (a ++ b).
  Proof.
    induction a as [|x t IH]; simpl; intros b Ha Hb H; auto.
    destruct Ha as [Hx Ht]. split.
    - apply Forall_app; split; auto. apply Forall_forall. intros y Hy. apply H; auto.
    - apply IH; auto.
  Qed.

  Lemma isort_app a b : (forall x y, In x a -> In y b -> le x y = true) ->
    isort le (a ++ b) = isort le a ++ isort le b.
  Proof.
    intros H. apply sorted_perm_eq.
    - apply isort_sorted.
    - apply sorted_app; try apply isort_sorted. intros x y Hx Hy.
      apply H; eapply Permutation_in; try apply isort_perm; auto.
    - eapply perm_trans; [apply isort_perm|].
      apply Permutation_app; apply Permutation_sym, isort_perm.
  Qed.

  Lemma isort_id l : sorted l -> isort le l = l.
  Proof. intros H. apply sorted_perm_eq; auto using isort_sorted, isort_perm. Qed.
End SortFacts.
Arguments sorted {E}.

(* sortedness is transported along a monotone map *)
Lemma sorted_map {A B} (la : A -> A -> bool) (lb : B -> B -> bool) (f : A -> B) :
  (forall x y, la x y = true -> lb (f x) (f y) = true) ->
  forall l, sorted la l -> sorted lb (map f l).
Proof.
  intros M. induction l as [|x t IH]; simpl; auto. intros [Hx Ht]. split; auto.
  apply Forall_map. eapply Forall_impl; [|exact Hx]. simpl. auto.
Qed.

(* ------------------------------------------------------------------ ArgMin *)
Section ArgMinFacts.
  Variables V G : Type.
  Variable vle : V -> V -> bool.
  Variable gle : G -> G -> bool.
  Variable kind : V -> bool.
  Hypothesis vle_total : forall a b, vle a b = true \/ vle b a = true.
  Hypothesis vle_trans : forall a b c, vle a b = true -> vle b c = true -> vle a c = true.
  Hypothesis vle_antisym : forall a b, vle a b = true -> vle b a = true -> a = b.
  Hypothesis gle_total : forall a b, gle a b = true \/ gle b a = true.
  Hypothesis gle_trans : forall a b c, gle a b = true -> gle b c = true -> gle a c = true.
  Hypothesis gle_antisym : forall a b, gle a b = true -> gle b a = true -> a = b.

  Notation row := (ArgMinMax.row V G).
  Notation ple := (ple vle gle).

  Lemma ple_fst p q : ple p q = true -> vle (fst p) (fst q) = true.
  Proof. unfold ArgMinMax.ple. destruct (vle (fst p) (fst q)); auto. Qed.

  Lemma vlt_ple p q : vlt vle (fst p) (fst q) = true -> ple p q = true.
  Proof.
    unfold vlt, ArgMinMax.ple. intros H. apply negb_true_iff in H. rewrite H.
    destruct (vle_total (fst p) (fst q)) as [A|A]; [rewrite A; auto|congruence].
  Qed.

  Lemma ple_total p q : ple p q = true \/ ple q p = true.
  Proof.
    unfold ArgMinMax.ple.
    destruct (vle (fst p) (fst q)) eqn:A, (vle (fst q) (fst p)) eqn:B; auto.
    destruct (vle_total (fst p) (fst q)); congruence.
  Qed.

  Lemma ple_trans p q r : ple p q = true -> ple q r = true -> ple p r = true.
  Proof.
    unfold ArgMinMax.ple.
    destruct (vle (fst p) (fst q)) eqn:A; [|discriminate].
    destruct (vle (fst q) (fst r)) eqn:B; [|intros; discriminate].
    rewrite (vle_trans _ _ _ A B).
    destruct (vle (fst q) (fst p)) eqn:A', (vle (fst r) (fst q)) eqn:B'; intros H1 H2.
    - rewrite (vle_trans _ _ _ B' A'). eapply gle_trans; eauto.
    - destruct (vle (fst r) (fst p)) eqn:C; auto.
      rewrite (vle_trans _ _ _ C A) in B'. discriminate.
    - destruct (vle (fst r) (fst p)) eqn:C; auto.
      rewrite (vle_trans _ _ _ B C) in A'. discriminate.
    - destruct (vle (fst r) (fst p)) eqn:C; auto.
      rewrite (vle_trans _ _ _ C A) in B'. discriminate.
  Qed.

  Lemma ple_antisym p q : ple p q = true -> ple q p = true -> p = q.
  Proof.
    unfold ArgMinMax.ple. destruct p as [v a], q as [w b]; simpl.
    destruct (vle v w) eqn:A, (vle w v) eqn:B; try discriminate.
    intros H1 H2. f_equal; auto.
  Qed.

  Lemma vlt_irrefl a : vlt vle a a = false.
  Proof. unfold vlt. destruct (vle_total a a) as [->| ->]; auto. Qed.

  Lemma vlt_le_trans a b c : vlt vle a b = true -> vle b c = true -> vlt vle a c = true.
  Proof.
    unfold vlt. intros H1 H2. apply negb_true_iff in H1. apply negb_true_iff.
    destruct (vle c a) eqn:C; auto. rewrite (vle_trans _ _ _ H2 C) in H1. discriminate.
  Qed.

  Lemma vlt_vle a b : vlt vle a b = true -> vle a b = true.
  Proof.
    unfold vlt. intros H. apply negb_true_iff in H. destruct (vle_total a b); congruence.
  Qed.

  Lemma not_vlt_vle a b : vlt vle a b = false -> vle b a = true.
  Proof. unfold vlt. intros H. apply negb_false_iff in H. auto. Qed.

  (* sorting rows sorts their values *)
  Lemma map_fst_isort l : map fst (isort ple l) = isort vle (map fst l).
  Proof.
    apply (sorted_perm_eq V vle vle_antisym).
    - apply (sorted_map ple vle fst ple_fst). apply isort_sorted; [apply ple_total|apply ple_trans].
    - apply isort_sorted; auto.
    - eapply perm_trans; [apply Permutation_map, isort_perm|apply Permutation_sym, isort_perm].
  Qed.

  (* ---------------- heapq's contract ---------------- *)
  Variable hfy : list row -> option (list row).
  Variable hrep : list row -> row -> option (list row).
  Variable hinv : list row -> Prop.
  Hypothesis hfy_spec : forall l, exists h, hfy l = Some h /\ Permutation l h /\ hinv h.
  Hypothesis hrep_spec : forall r t x, hinv (r :: t) ->
    exists h, hrep (r :: t) x = Some h /\ Permutation (x :: t) h /\ hinv h.
  Hypothesis hinv_root : forall r t, hinv (r :: t) -> Forall (fun y => ple y r = true) t.

  Notation step := (step vle kind hfy hrep).
  Notation run_from := (run_from vle kind hfy hrep).
  Notation run := (run vle kind hfy hrep).

  (* kept rows st, discarded rows D *)
  Definition split_ok (seen st D : list row) : Prop :=
    Permutation seen (st ++ D) /\
    (forall d m, In d D -> In m st -> vle (fst m) (fst d) = true).

  Definition Inv (K : Z) (kd : bool) (seen st : list row) : Prop :=
    exists D, split_ok seen st D /\
      ((Z.of_nat (length st) < K)%Z -> D = []) /\
      (Z.of_nat (length st) <= K)%Z /\
      ((Z.of_nat (length st) = K)%Z -> hinv st) /\
      (forall m, In m st -> kind (fst m) = kd).

  Lemma step_inv K kd seen st v a :
    (1 <= K)%Z -> Inv K kd seen st -> kind v = kd ->
    exists st', step st a v (Some K) = Ok st' /\ Inv K kd (seen ++ [(v, a)]) st'.
  Proof.
    intros HK (D & [HP HD] & Hlt & Hle & Hinv & Hk) Hkv.
    unfold ArgMinMax.step.
    replace (K <=? 0)%Z with false by (symmetry; apply Z.leb_gt; lia).
    match goal with |- context [if ?c then ErrKind else _] => assert (Hkind : c = false) end.
    { destruct st as [|[v0 a0] t]; auto. pose proof (Hk (v0, a0) (or_introl eq_refl)) as E.
      simpl in E. rewrite E, Hkv, Bool.eqb_reflx. auto. }
    rewrite Hkind. cbv zeta.
    destruct (Z.of_nat (length st) <? K - 1)%Z eqn:C1.
    { apply Z.ltb_lt in C1. eexists; split; [reflexivity|].
      exists []. assert (D = []) by (apply Hlt; lia). subst D.
      rewrite app_nil_r in *. split; [split|].
      - rewrite app_nil_r. apply Permutation_app_tail; auto.
      - intros d m [].
      - rewrite app_length; simpl. split; [auto|split; [lia|split; [intros; lia|]]].
        intros m Hm. apply in_app_or in Hm. destruct Hm as [Hm|[<-|[]]]; auto. }
    apply Z.ltb_ge in C1.
    destruct (Z.of_nat (length st) =? K - 1)%Z eqn:C2.
    { apply Z.eqb_eq in C2. destruct (hfy_spec (st ++ [(v, a)])) as (h & -> & HPh & Hh).
      simpl. eexists; split; [reflexivity|].
      exists []. assert (D = []) by (apply Hlt; lia). subst D.
      rewrite app_nil_r in *.
      assert (Hlen : length h = S (length st)).
      { rewrite <- (Permutation_length HPh), app_length; simpl; lia. }
      split; [split|].
      - rewrite app_nil_r. eapply perm_trans; [|exact HPh]. apply Permutation_app_tail; auto.
      - intros d m [].
      - rewrite Hlen. split; [auto|split; [lia|split; [auto|]]].
        intros m Hm. eapply Permutation_in in Hm; [|apply Permutation_sym, HPh].
        apply in_app_or in Hm. destruct Hm as [Hm|[<-|[]]]; auto. }
    apply Z.eqb_neq in C2.
    destruct (Z.of_nat (length st) =? K)%Z eqn:C3; [|apply Z.eqb_neq in C3; lia].
    apply Z.eqb_eq in C3. destruct st as [|[v0 a0] t]; [simpl in C3; lia|].
    specialize (Hinv C3).
    destruct (vlt vle v v0) eqn:Hv.
    - destruct (hrep_spec (v0, a0) t (v, a) Hinv) as (h & -> & HPh & Hh). simpl.
      eexists; split; [reflexivity|].
      assert (Hlen : Z.of_nat (length h) = K).
      { rewrite <- (Permutation_length HPh). exact C3. }
      assert (Hroot := hinv_root _ _ Hinv). rewrite Forall_forall in Hroot.
      exists ((v0, a0) :: D). split; [split|].
      + (* seen ++ [x] ~ h ++ r :: D *)
        eapply perm_trans; [apply Permutation_app_tail, HP|].
        eapply perm_trans; [|apply Permutation_app_tail, HPh].
        eapply perm_trans;
          [apply Permutation_sym, (Permutation_cons_append (((v0, a0) :: t) ++ D) (v, a))|].
        simpl. apply perm_skip, Permutation_middle.
      + intros d m Hd Hm. eapply Permutation_in in Hm; [|apply Permutation_sym, HPh].
        destruct Hd as [<-|Hd]; destruct Hm as [<-|Hm]; simpl.
        * apply vlt_vle; auto.
        * apply (ple_fst m (v0, a0)). auto.
        * apply vlt_vle. eapply vlt_le_trans; [exact Hv|]. apply (HD d (v0, a0)); simpl; auto.
        * apply HD; simpl; auto.
      + rewrite Hlen. split; [intros; exfalso; lia|split; [lia|split; [auto|]]].
        intros m Hm. eapply Permutation_in in Hm; [|apply Permutation_sym, HPh].
          destruct Hm as [<-|Hm]; auto. apply Hk. right; auto.
    - eexists; split; [reflexivity|].
      assert (Hroot := hinv_root _ _ Hinv). rewrite Forall_forall in Hroot.
      exists ((v, a) :: D). split; [split|].
      + eapply perm_trans; [apply Permutation_app_tail, HP|].
        rewrite <- app_assoc. apply Permutation_app_head.
        apply Permutation_sym, Permutation_cons_append.
      + intros d m [<-|Hd] Hm; [|apply HD; auto]. simpl.
        apply not_vlt_vle in Hv. destruct Hm as [<-|Hm]; auto.
        eapply vle_trans; [|exact Hv]. apply (ple_fst m (v0, a0)). auto.
      + split; [intros; exfalso; lia|split; [lia|split; auto]].
  Qed.

  Lemma run_inv K kd : (1 <= K)%Z -> forall l seen st,
    Inv K kd seen st -> (forall x, In x l -> kind (fst x) = kd) ->
    exists st', run_from st (with_limit (Some K) l) = Ok st' /\ Inv K kd (seen ++ l) st'.
  Proof.
    intros HK. induction l as [|[v a] l IH]; intros seen st HI Hk; simpl.
    - rewrite app_nil_r. eauto.
    - destruct (step_inv K kd seen st v a HK HI) as (st1 & -> & HI1).
      { apply (Hk (v, a)); left; auto. }
      destruct (IH _ _ HI1) as (st' & Hr & HI').
      { intros; apply Hk; right; auto. }
      exists st'. split; auto. rewrite <- app_assoc in HI'. exact HI'.
  Qed.

  Lemma inv_init K kd : (1 <= K)%Z -> Inv K kd [] [].
  Proof.
    intros HK. exists []. repeat split; simpl; auto; try lia; try (intros ? ? []); try (intros ? []).
  Qed.

  Definition same_kind (l : list row) : Prop := forall x y, In x l -> In y l -> kind (fst x) = kind (fst y).

  (* For every arrival sequence and every K >= 1: no exception, and the kept rows / the rows
     that were thrown away split the input so that every kept value <= every discarded value;
     min(K, n) rows are kept. *)
  Theorem argmin_split K l : (1 <= K)%Z -> same_kind l ->
    exists st D, run (with_limit (Some K) l) = Ok st /\ split_ok l st D /\
                 length st = Nat.min (Z.to_nat K) (length l).
  Proof.
    intros HK Hs.
    set (kd := match l with x :: _ => kind (fst x) | [] => true end).
    destruct (run_inv K kd HK l [] [] (inv_init K kd HK)) as (st & Hr & (D & HS & Hlt & Hle & _ & _)).
    { intros x Hx. destruct l as [|y t]; [destruct Hx|]. simpl in kd. apply Hs; simpl; auto. }
    exists st, D. simpl in HS. repeat split; auto; try apply HS.
    destruct HS as [HP _]. apply Permutation_length in HP. rewrite app_length in HP.
    destruct (Z_lt_le_dec (Z.of_nat (length st)) K) as [C|C].
    - rewrite (Hlt C) in HP. simpl in HP. lia.
    - lia.
  Qed.

  (* values of the result = the K smallest values of the input bag, ascending *)
  Lemma split_values l st D : split_ok l st D ->
    isort vle (map fst l) = isort vle (map fst st) ++ isort vle (map fst D).
  Proof.
    intros [HP HD].
    rewrite (isort_perm_eq V vle vle_total vle_trans vle_antisym (map fst l) (map fst (st ++ D)))
      by (apply Permutation_map; auto).
    rewrite map_app. apply isort_app; auto.
    intros x y Hx Hy. apply in_map_iff in Hx, Hy.
    destruct Hx as (m & <- & Hm). destruct Hy as (d & <- & Hd). apply HD; auto.
  Qed.

  Theorem argmin_values_k_smallest K l : (1 <= K)%Z -> same_kind l ->
    exists st, run (with_limit (Some K) l) = Ok st /\
      map fst (isort ple st) = firstn (Z.to_nat K) (isort vle (map fst l)).
  Proof.
    intros HK Hs. destruct (argmin_split K l HK Hs) as (st & D & Hr & HS & Hlen).
    exists st; split; auto.
    rewrite map_fst_isort, (split_values l st D HS).
    assert (Hl : length (isort vle (map fst st)) = length st)
      by (rewrite isort_length, map_length; auto).
    destruct (Nat.le_gt_cases (Z.to_nat K) (length l)) as [C|C].
    - rewrite Nat.min_l in Hlen by auto. rewrite <- Hlen, <- Hl.
      rewrite firstn_app, Nat.sub_diag, firstn_all. simpl. rewrite app_nil_r. auto.
    - rewrite Nat.min_r in Hlen by lia.
      destruct HS as [HP _]. apply Permutation_length in HP. rewrite app_length in HP.
      destruct D; [|simpl in HP; lia]. simpl. rewrite app_nil_r.
      rewrite firstn_all2; auto. lia.
  Qed.

  (* pairwise distinct values: the result is exactly the args of the K smallest, in value order *)
  Theorem argmin_distinct_exact K l : (1 <= K)%Z -> same_kind l -> NoDup (map fst l) ->
    exists st, run (with_limit (Some K) l) = Ok st /\
               finalize vle gle st = map snd (firstn (Z.to_nat K) (isort ple l)).
  Proof.
    intros HK Hs Hnd. destruct (argmin_split K l HK Hs) as (st & D & Hr & HS & Hlen).
    exists st; split; auto. unfold finalize. f_equal.
    destruct HS as [HP HD].
    assert (Hnd' : NoDup (map fst (st ++ D))).
    { eapply Permutation_NoDup; [apply Permutation_map, HP|auto]. }
    assert (Hsd : forall m d, In m st -> In d D -> ple m d = true).
    { intros m d Hm Hd. apply vlt_ple. unfold vlt. apply negb_true_iff.
      destruct (vle (fst d) (fst m)) eqn:C; auto. exfalso.
      assert (E : fst m = fst d) by (apply vle_antisym; auto).
      rewrite map_app in Hnd'. clear - Hnd' Hm Hd E.
      induction st as [|s st IH]; [destruct Hm|]. simpl in Hnd'. inversion Hnd'; subst.
      destruct Hm as [->|Hm]; [|apply IH; auto].
      apply H1. apply in_or_app. right. rewrite E. apply in_map; auto. }
    rewrite (isort_perm_eq _ ple ple_total ple_trans ple_antisym l (st ++ D) HP).
    rewrite (isort_app _ ple ple_total ple_trans ple_antisym st D Hsd).
    assert (Hl : length (isort ple st) = length st) by apply isort_length.
    destruct (Nat.le_gt_cases (Z.to_nat K) (length l)) as [C|C].
    - rewrite Nat.min_l in Hlen by auto. rewrite <- Hlen, <- Hl.
      rewrite firstn_app, Nat.sub_diag, firstn_all. simpl. rewrite app_nil_r. auto.
    - rewrite Nat.min_r in Hlen by lia.
      apply Permutation_length in HP. rewrite app_length in HP.
      destruct D; [|simpl in HP; lia]. simpl. rewrite app_nil_r.
      rewrite firstn_all2; auto. lia.
  Qed.

  (* arrival order: the values of the result never depend on it; with distinct values nothing does;
     in general a kept row that is strictly better than some other kept row is kept under every
     arrival order (only rows tied at the K-th value can be exchanged). *)
  Theorem argmin_perm K l l' : (1 <= K)%Z -> same_kind l -> Permutation l l' ->
    exists st st', run (with_limit (Some K) l) = Ok st /\ run (with_limit (Some K) l') = Ok st' /\
      map fst (isort ple st) = map fst (isort ple st') /\
      (NoDup (map fst l) -> finalize vle gle st = finalize vle gle st') /\
      (forall x m, In x st -> In m st -> vlt vle (fst x) (fst m) = true -> In x st').
  Proof.
    intros HK Hs HP.
    assert (Hs' : same_kind l').
    { intros x y Hx Hy. apply Hs; eapply Permutation_in; try apply Permutation_sym, HP; auto. }
    destruct (argmin_values_k_smallest K l HK Hs) as (st & Hr & Hv).
    destruct (argmin_values_k_smallest K l' HK Hs') as (st' & Hr' & Hv').
    assert (Hv0 : map fst (isort ple st) = map fst (isort ple st')).
    { rewrite Hv, Hv'. f_equal. apply isort_perm_eq; auto. apply Permutation_map; auto. }
    exists st, st'. repeat split; auto.
    - intros Hnd.
      assert (Hnd' : NoDup (map fst l')).
      { eapply Permutation_NoDup; [apply Permutation_map, HP|auto]. }
      destruct (argmin_distinct_exact K l HK Hs Hnd) as (s & H & E).
      destruct (argmin_distinct_exact K l' HK Hs' Hnd') as (s' & H' & E').
      rewrite Hr in H. rewrite Hr' in H'. inversion H; inversion H'; subst s s'.
      rewrite E, E'. do 2 f_equal.
      apply isort_perm_eq; [apply ple_total|apply ple_trans|apply ple_antisym|auto].
    - intros x m Hx Hm Hlt.
      destruct (argmin_split K l HK Hs) as (s1 & D1 & H1 & [HP1 HD1] & _).
      destruct (argmin_split K l' HK Hs') as (s2 & D2 & H2 & [HP2 HD2] & _).
      rewrite Hr in H1. rewrite Hr' in H2. inversion H1; inversion H2; subst s1 s2.
      assert (Hxl' : In x (st' ++ D2)).
      { eapply Permutation_in; [apply HP2|]. eapply Permutation_in; [apply HP|].
        eapply Permutation_in; [apply Permutation_sym, HP1|]. apply in_or_app; auto. }
      apply in_app_or in Hxl'. destruct Hxl' as [|HxD]; auto. exfalso.
      (* the value of m occurs among the values of st' *)
      assert (Hmv : In (fst m) (map fst st')).
      { assert (P1 : Permutation (map fst st) (map fst (isort ple st)))
          by (apply Permutation_map, Permutation_sym, isort_perm).
        assert (P2 : Permutation (map fst (isort ple st')) (map fst st'))
          by (apply Permutation_map, isort_perm).
        eapply Permutation_in; [apply P2|]. rewrite <- Hv0.
        eapply Permutation_in; [apply P1|]. apply in_map; auto. }
      apply in_map_iff in Hmv. destruct Hmv as (m' & Em & Hm').
      assert (C := HD2 x m' HxD Hm'). rewrite Em in C.
      pose proof (vlt_le_trans _ _ _ Hlt C) as F. rewrite vlt_irrefl in F. discriminate.
  Qed.
End ArgMinFacts.

(* ------------------------------------------------------------------ limit = None: plain sort *)
Section Unlimited.
  Variables V G : Type.
  Variable vle : V -> V -> bool.
  Variable gle : G -> G -> bool.
  Variable kind : V -> bool.
  Variable hfy : list (ArgMinMax.row V G) -> option (list (ArgMinMax.row V G)).
  Variable hrep : list (ArgMinMax.row V G) -> ArgMinMax.row V G -> option (list (ArgMinMax.row V G)).

  Lemma run_none l : forall st,
    (forall x y, In x (st ++ l) -> In y (st ++ l) -> kind (fst x) = kind (fst y)) ->
    run_from vle kind hfy hrep st (with_limit None l) = Ok (st ++ l).
  Proof.
    induction l as [|[v a] l IH]; intros st H; simpl.
    - rewrite app_nil_r; auto.
    - unfold step.
      match goal with |- context [if ?c then ErrKind else _] => assert (Hkind : c = false) end.
      { destruct st as [|[v0 a0] t]; auto.
        assert (Ek : kind (fst (v, a)) = kind (fst (v0, a0))).
        { apply H; simpl; auto. right. apply in_or_app. right. left; auto. }
        simpl in Ek. rewrite Ek, Bool.eqb_reflx; auto. }
      rewrite Hkind. rewrite IH.
      + rewrite <- app_assoc. auto.
      + rewrite <- app_assoc. simpl. auto.
  Qed.

  Theorem argmin_unlimited_is_sort l :
    (forall x y, In x l -> In y l -> kind (fst x) = kind (fst y)) ->
    agg vle gle kind hfy hrep None l = Ok (map snd (isort (ple vle gle) l)).
  Proof.
    intros H. unfold agg, run. rewrite run_none; auto.
  Qed.
End Unlimited.

(* ------------------------------------------------------------------ the reference heap meets the contract *)
Section RefHeap.
  Variable E : Type.
  Variable le : E -> E -> bool.
  Hypothesis le_total : forall a b, le a b = true \/ le b a = true.
  Hypothesis le_trans : forall a b c, le a b = true -> le b c = true -> le a c = true.

  Definition desc_sorted (h : list E) : Prop := sorted (flip le) h.

  Lemma sorted_rev l : sorted le l -> sorted (flip le) (rev l).
  Proof.
    induction l as [|x t IH]; simpl; auto. intros [Hx Ht].
    apply sorted_app; simpl; auto.
    intros a b Ha [<-|[]]. unfold flip. rewrite Forall_forall in Hx. apply Hx.
    apply in_rev; auto.
  Qed.

  Lemma ref_hfy_spec l :
    exists h, ref_heapify_max le l = Some h /\ Permutation l h /\ desc_sorted h.
  Proof.
    eexists; split; [reflexivity|]. split.
    - eapply perm_trans; [apply Permutation_sym, isort_perm|apply Permutation_rev].
    - apply sorted_rev, isort_sorted; auto.
  Qed.

  Lemma ref_hrep_spec r t x : desc_sorted (r :: t) ->
    exists h, ref_heapreplace_max le (r :: t) x = Some h /\ Permutation (x :: t) h /\ desc_sorted h.
  Proof.
    intros _. eexists; split; [reflexivity|]. split.
    - eapply perm_trans; [apply Permutation_sym, isort_perm|apply Permutation_rev].
    - apply sorted_rev, isort_sorted; auto.
  Qed.

  Lemma desc_root r t : desc_sorted (r :: t) -> Forall (fun y => le y r = true) t.
  Proof. intros [H _]. exact H. Qed.
End RefHeap.

(* ------------------------------------------------------------------ packaged statements *)
Definition total_order {A} (le : A -> A -> bool) : Prop :=
  (forall a b, le a b = true \/ le b a = true) /\
  (forall a b c, le a b = true -> le b c = true -> le a c = true) /\
  (forall a b, le a b = true -> le b a = true -> a = b).

(* what ArgMin.step uses of heapq._heapify_max / heapq._heapreplace_max (for ArgMax, at the flipped
   orders, of heapq.heapify / heapq.heapreplace): the list is permuted, and a representation
   invariant guarantees that position 0 holds a maximum of the tuple order *)
Definition heap_contract {V G} (vle : V -> V -> bool) (gle : G -> G -> bool)
  (hfy : list (V * G) -> option (list (V * G)))
  (hrep : list (V * G) -> V * G -> option (list (V * G))) : Prop :=
  exists hinv : list (V * G) -> Prop,
    (forall l, exists h, hfy l = Some h /\ Permutation l h /\ hinv h) /\
    (forall r t x, hinv (r :: t) ->
        exists h, hrep (r :: t) x = Some h /\ Permutation (x :: t) h /\ hinv h) /\
    (forall r t, hinv (r :: t) -> Forall (fun y => ple vle gle y r = true) t).

Lemma flip_total_order {A} (le : A -> A -> bool) : total_order le -> total_order (flip le).
Proof.
  intros (T & R & S). unfold flip. repeat split; intros.
  - destruct (T a b); auto.
  - eauto.
  - auto.
Qed.

Lemma Z_total_order : total_order Z.leb.
Proof.
  repeat split; intros.
  - destruct (Z.leb_spec a b); auto. right. apply Z.leb_le. lia.
  - rewrite Z.leb_le in *. lia.
  - rewrite Z.leb_le in *. lia.
Qed.

Lemma ple_total_order {V G} (vle : V -> V -> bool) (gle : G -> G -> bool) :
  total_order vle -> total_order gle -> total_order (ple vle gle).
Proof.
  intros (T & R & S) (T' & R' & S'). repeat split; intros.
  - apply ple_total; auto.
  - eapply ple_trans; eauto.
  - eapply ple_antisym; eauto.
Qed.

Lemma ref_contract {V G} (vle : V -> V -> bool) (gle : G -> G -> bool) :
  total_order vle -> total_order gle ->
  heap_contract vle gle (ref_heapify_max (ple vle gle)) (ref_heapreplace_max (ple vle gle)).
Proof.
  intros Hv Hg. destruct (ple_total_order vle gle Hv Hg) as (T & R & S).
  exists (desc_sorted _ (ple vle gle)). repeat split.
  - intros l. apply ref_hfy_spec; auto.
  - intros r t x. apply ref_hrep_spec; auto.
  - intros r t. apply desc_root.
Qed.

Section Packaged.
  Variables V G : Type.
  Variable vle : V -> V -> bool.
  Variable gle : G -> G -> bool.
  Variable kind : V -> bool.
  Variable hfy : list (V * G) -> option (list (V * G)).
  Variable hrep : list (V * G) -> V * G -> option (list (V * G)).
  Hypothesis Hv : total_order vle.
  Hypothesis Hg : total_order gle.
  Hypothesis Hc : heap_contract vle gle hfy hrep.

  Notation run := (run vle kind hfy hrep).
  Notation ple := (ple vle gle).

  Theorem p_argmin_split K l : (1 <= K)%Z -> same_kind V G kind l ->
    exists st D, run (with_limit (Some K) l) = Ok st /\
      Permutation l (st ++ D) /\
      (forall d m, In d D -> In m st -> vle (fst m) (fst d) = true) /\
      length st = Nat.min (Z.to_nat K) (length l).
  Proof.
    destruct Hv as (T & R & S), Hg as (T' & R' & S'), Hc as (hinv & C1 & C2 & C3).
    intros HK Hs.
    destruct (argmin_split V G vle gle kind T R hfy hrep hinv C1 C2 C3 K l HK Hs)
      as (st & D & Hr & [HP HD] & Hl).
    exists st, D. auto.
  Qed.

  Theorem p_argmin_values K l : (1 <= K)%Z -> same_kind V G kind l ->
    exists st, run (with_limit (Some K) l) = Ok st /\
      map fst (isort ple st) = firstn (Z.to_nat K) (isort vle (map fst l)).
  Proof.
    destruct Hv as (T & R & S), Hg as (T' & R' & S'), Hc as (hinv & C1 & C2 & C3).
    apply (argmin_values_k_smallest V G vle gle kind T R S T' R' hfy hrep hinv C1 C2 C3).
  Qed.

  Theorem p_argmin_distinct K l : (1 <= K)%Z -> same_kind V G kind l -> NoDup (map fst l) ->
    agg vle gle kind hfy hrep (Some K) l = Ok (map snd (firstn (Z.to_nat K) (isort ple l))).
  Proof.
    destruct Hv as (T & R & S), Hg as (T' & R' & S'), Hc as (hinv & C1 & C2 & C3).
    intros HK Hs Hn.
    destruct (argmin_distinct_exact V G vle gle kind T R S T' R' S' hfy hrep hinv C1 C2 C3 K l HK Hs Hn)
      as (st & Hr & E).
    unfold agg. fold run. rewrite Hr. f_equal. exact E.
  Qed.

  Theorem p_argmin_perm K l l' : (1 <= K)%Z -> same_kind V G kind l -> Permutation l l' ->
    exists st st', run (with_limit (Some K) l) = Ok st /\ run (with_limit (Some K) l') = Ok st' /\
      map fst (isort ple st) = map fst (isort ple st') /\
      (NoDup (map fst l) -> finalize vle gle st = finalize vle gle st') /\
      (forall x m, In x st -> In m st -> vlt vle (fst x) (fst m) = true -> In x st').
  Proof.
    destruct Hv as (T & R & S), Hg as (T' & R' & S'), Hc as (hinv & C1 & C2 & C3).
    apply (argmin_perm V G vle gle kind T R S T' R' S' hfy hrep hinv C1 C2 C3).
  Qed.
End Packaged.
