(* C20 — model of the remaining Python UDFs of common/sqlite3_logica.py (model only):
   ArrayConcatAgg, DistinctListAgg, TakeFirst, SortList, Join, InList, ArrayConcat, Split,
   and the JSON-ish value type shared with BuiltinSpec.v.

   Trusted / not modelled: json.loads / json.dumps (values are already decoded here), the
   iteration order of CPython's set (DistinctListAgg.finalize returns list(set): the model fixes
   first-occurrence order and only the SET of elements is claimed to correspond). *)
From Coq Require Import List Bool Arith ZArith Lia.
Import ListNotations.
From LV Require Import Udf.ArgMinMax.

(* values as they come back from SQLite after JSON decoding *)
Inductive val :=
| VNull
| VInt (z : Z)
| VRat (n d : Z)            (* a float, given as the fraction it is closest to (d > 0, lowest terms) *)
| VStr (s : list Z)         (* code points *)
| VList (l : list val)
| VErr.                     (* the engine / UDF raised *)

Fixpoint zlist_eqb (a b : list Z) : bool :=
  match a, b with
  | [], [] => true
  | x :: a', y :: b' => (x =? y)%Z && zlist_eqb a' b'
  | _, _ => false
  end.

Fixpoint veqb (a b : val) {struct a} : bool :=
  match a, b with
  | VNull, VNull => true
  | VErr, VErr => true
  | VInt x, VInt y => (x =? y)%Z
  | VRat n d, VRat n' d' => (n =? n')%Z && (d =? d')%Z
  | VStr s, VStr s' => zlist_eqb s s'
  | VList l, VList l' =>
      (fix go (l l' : list val) : bool :=
         match l, l' with
         | [], [] => true
         | x :: t, y :: t' => veqb x y && go t t'
         | _, _ => false
         end) l l'
  | _, _ => false
  end.

(* ------------------------------------------------------------------ generic aggregates *)
Section Aggs.
  Variable X : Type.
  Variable eqb : X -> X -> bool.

  (* ArrayConcatAgg: step(a): if a is None: return; result.extend(json.loads(a)) *)
  Definition aca_step (st : list X) (a : option (list X)) : list X :=
    match a with None => st | Some l => st ++ l end.
  Definition array_concat_agg (rows : list (option (list X))) : list X := fold_left aca_step rows [].

  (* ArrayConcat(a, b) *)
  Definition array_concat (a b : option (list X)) : option (list X) :=
    match a, b with Some x, Some y => Some (x ++ y) | _, _ => None end.

  (* InList(item, a_list): item in json.loads(a_list) *)
  Definition in_list (x : X) (l : list X) : bool := existsb (eqb x) l.

  (* DistinctListAgg: self.result.add(element); finalize: list(self.result) — as a set *)
  Definition dla_step (st : list X) (x : X) : list X := if in_list x st then st else st ++ [x].
  Definition distinct_list_agg (rows : list X) : list X := fold_left dla_step rows [].

  (* TakeFirst: self.result = self.result or new_value   (None = Python None / SQL NULL) *)
  Variable truthy : X -> bool.
  Definition tf_step (st x : option X) : option X :=
    match st with
    | Some r => if truthy r then st else x
    | None => x
    end.
  Definition take_first (rows : list (option X)) : option X := fold_left tf_step rows None.
End Aggs.
Arguments aca_step {X}. Arguments array_concat_agg {X}. Arguments array_concat {X}.
Arguments in_list {X}. Arguments dla_step {X}. Arguments distinct_list_agg {X}.
Arguments tf_step {X}. Arguments take_first {X}.

(* SortList(json) = json.dumps(sorted(json.loads(json))) on a homogeneous list *)
Definition sort_list {X} (le : X -> X -> bool) (l : list X) : list X := isort le l.

(* ------------------------------------------------------------------ strings *)
(* str(int): decimal digits; fuel 80 digits is enough for 64-bit values *)
Fixpoint pos_digits (fuel : nat) (n : Z) (acc : list Z) : list Z :=
  match fuel with
  | O => acc
  | S f => if (n <? 10)%Z then (48 + n)%Z :: acc
           else pos_digits f (n / 10)%Z ((48 + n mod 10)%Z :: acc)
  end.
Definition to_string (z : Z) : list Z :=
  if (z <? 0)%Z then 45%Z :: pos_digits 80 (- z) [] else pos_digits 80 z [].

Definition str_of_scalar (s : scalar) : list Z :=
  match s with SNum z => to_string z | SStr s => s end.

(* separator.join(strings) *)
Fixpoint join_strs (sep : list Z) (l : list (list Z)) : list Z :=
  match l with
  | [] => []
  | [x] => x
  | x :: t => x ++ sep ++ join_strs sep t
  end.
(* Join(array, separator) = separator.join(map(str, json.loads(array))) *)
Definition join (l : list scalar) (sep : list Z) : list Z := join_strs sep (map str_of_scalar l).

Fixpoint starts_with (p s : list Z) : bool :=
  match p, s with
  | [], _ => true
  | _ :: _, [] => false
  | x :: p', y :: s' => (x =? y)%Z && starts_with p' s'
  end.

(* x.split(y) for a non-empty separator y *)
Fixpoint split_go (sep s cur : list Z) (skip : nat) : list (list Z) :=
  match s with
  | [] => [rev cur]
  | c :: t =>
      match skip with
      | S k => split_go sep t cur k
      | O => if starts_with sep s then rev cur :: split_go sep t [] (length sep - 1)
             else split_go sep t (c :: cur) 0
      end
  end.
Definition split (s sep : list Z) : list (list Z) := split_go sep s [] 0.

(* canonical decimal -> integer; None when the text is not "-?[0-9]+" *)
Fixpoint parse_digits (s : list Z) (acc : Z) : option Z :=
  match s with
  | [] => Some acc
  | c :: t => if (48 <=? c)%Z && (c <=? 57)%Z then parse_digits t (acc * 10 + (c - 48))%Z else None
  end.
Definition parse_int (s : list Z) : option Z :=
  match s with
  | [] => None
  | 45%Z :: (_ :: _) as t => option_map Z.opp (parse_digits t 0)
  | _ => parse_digits s 0
  end.
