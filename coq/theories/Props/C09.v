(* C09 -- every dialect compiles the core language into well-scoped SQL.
   Only statements; every proof is `exact <lemma>`.
   Models: Core/SqlText.v (SQL text: quotes, brackets, tokens, scoping; Python's `%` and `.format`),
   Core/DialectCheck.v over gen/DialectTables.v (regenerated from compiler/dialects.py,
   compiler/expr_translate.py, processed_functions.py and the compiler's dialect call sites on every run).

   What is for-all here: the text algebra (closed texts compose; literals are units; instantiating a
   template with closed arguments is closed) and, for every cell of the regenerated tables outside
   `defect_cells`, totality + closedness of the instantiation for ALL arguments of every admissible arity.
   What is NOT proved here: that the real compiler's whole output is balanced / scoped for every
   program -- that is checked per emitted text by running `judge` (vm_compute) in props/c09.py. *)
From Coq Require Import List String NArith Bool Arith.
Import ListNotations.
From LV Require Import Core.DialectSig Core.SqlText Core.SqlTextProofs Core.DialectCheck Core.DialectCheckProofs Core.SqlTextCheck.
From LVGen Require Import DialectTables.
Local Open Scope string_scope.
Local Open Scope list_scope.

(* --- text algebra (for all texts, all quote styles) --- *)
Theorem C09_balanced_is_closed : forall qs t, balanced qs t = true -> closed qs t.
Proof. exact balanced_closed. Qed.

Theorem C09_closed_is_balanced : forall qs t, closed qs t -> balanced qs t = true.
Proof. exact closed_balanced. Qed.

Theorem C09_concatenation : forall qs a b, closed qs a -> closed qs b -> closed qs (a ++ b).
Proof. exact closed_app. Qed.

Theorem C09_bracketing : forall qs o c a, bracket_pair o c -> closed qs a -> closed qs (o :: a ++ [c]).
Proof. exact closed_bracket. Qed.

Theorem C09_joining : forall qs sep l, closed qs sep -> Forall (closed qs) l -> closed qs (join sep l).
Proof. exact closed_join. Qed.

Theorem C09_string_literal_is_a_unit : forall qs q body,
  is_quote q = true -> literal_body qs q body = true -> closed qs (q :: body ++ [q]).
Proof. exact string_literal_closed. Qed.

Theorem C09_quote_doubling : forall qs s, q_sq_bs qs = false -> closed qs (39 :: double_quote 39 s ++ [39])%N.
Proof. exact quoted_string_closed. Qed.

Theorem C09_string_literal_single_token : forall qs q body,
  is_quote q = true -> plain_body qs q body = true -> lex qs (q :: body ++ [q]) = Some [TStr q].
Proof. exact lex_string_literal. Qed.

(* --- template instantiation, induction over the template --- *)
Theorem C09_instantiate_balanced : forall qs allow lookup t s s' out,
  mode_wf (fst s) ->
  tscan qs allow s t = Some s' ->
  (forall k a, In k (holes t) -> lookup k = Some a -> arg_ok qs allow k a) ->
  inst lookup t = Some out ->
  scan qs s out = Some s'.
Proof. exact inst_scan. Qed.

(* --- templates_wellformed: every cell of the regenerated tables outside defect_cells --- *)
Theorem C09_function_templates : forall d name tpl lo hi args,
  In d dialects -> ~ In (d_key d, "function", name) defect_cells ->
  eff_function d name = Some tpl -> arity_of name = Some (lo, hi) ->
  (lo <= List.length args)%nat -> Forall (closed (qs_of d)) args ->
  exists out, inst_function (bytes tpl) args = Some out /\ closed (qs_of d) out.
Proof. exact function_cell_sound. Qed.

Theorem C09_infix_templates : forall d name tpl l r,
  In d dialects -> ~ In (d_key d, "infix", name) defect_cells ->
  eff_infix d name = Some tpl -> closed (qs_of d) l -> closed (qs_of d) r ->
  exists out, inst_infix (bytes tpl) l r = Some out /\ closed (qs_of d) out.
Proof. exact infix_cell_sound. Qed.

Theorem C09_analytic_templates : forall d name tpl args,
  In d dialects -> ~ In (d_key d, "analytic", name) defect_cells ->
  assoc name ql_analytic = Some tpl -> List.length args = analytic_nargs name ->
  Forall (closed (qs_of d)) args ->
  exists out, inst_format (bytes tpl) args = Some out /\ closed (qs_of d) out.
Proof. exact analytic_cell_sound. Qed.

Theorem C09_unnest_phrase : forall d lst el,
  In d dialects -> ~ In (d_key d, "phrase", "UnnestPhrase") defect_cells ->
  closed (qs_of d) lst -> closed (qs_of d) el ->
  exists out, inst_format (bytes (d_unnest d)) [lst; el] = Some out /\ closed (qs_of d) out.
Proof. exact unnest_cell_sound. Qed.

Theorem C09_array_phrase : forall d internals,
  In d dialects -> ~ In (d_key d, "phrase", "ArrayPhrase") defect_cells ->
  closed (qs_of d) internals ->
  exists out, inst_percent (bytes (d_array d)) [internals] = Some out /\ closed (qs_of d) out.
Proof. exact array_cell_sound. Qed.

Theorem C09_subscript_formats : forall d sf args,
  In d dialects -> ~ In (d_key d, "subscript-format", "Subscript") defect_cells ->
  In sf (d_subscript d) -> List.length args = List.length (sf_args sf) ->
  (forall i a, nth_error args i = Some a -> arg_ok (qs_of d) (allow_sub sf) (KIdx i) a) ->
  exists out, inst_percent (bytes (sf_format sf)) args = Some out /\ closed (qs_of d) out.
Proof. exact subscript_cell_sound. Qed.

(* --- no_internal: dialect methods against their call sites --- *)
Theorem C09_no_internal : forall d cs,
  In d dialects -> In cs call_sites -> ~ In (d_key d, "method", cs_method cs) defect_cells ->
  exists m, In m (d_methods d) /\ ms_name m = cs_method cs /\
            (ms_min m <= cs_nargs cs)%nat /\ (cs_nargs cs <= ms_max m)%nat.
Proof. exact method_cell_sound. Qed.

Theorem C09_defect_cells_complete : forall d, In d dialects ->
  (forall cs, In cs call_sites -> method_ok d cs = false -> In (d_key d, "method", cs_method cs) defect_cells) /\
  (forall n, In n (function_names d) -> function_ok d n = false -> In (d_key d, "function", n) defect_cells) /\
  (forall n, In n (infix_names d) -> infix_ok d n = false -> In (d_key d, "infix", n) defect_cells).
Proof. exact defect_cells_complete. Qed.

(* --- finite facts about the regenerated tables --- *)
Theorem C09_duckdb_quote_model_exact_on_tables : duckdb_no_backslash = true.
Proof. exact duckdb_templates_no_backslash. Qed.

Theorem C09_engines_present :
  forallb (fun k => mem_string k engine_keys)
          ["sqlite"; "duckdb"; "psql"; "bigquery"; "trino"; "presto"; "clickhouse"; "databricks"] = true.
Proof. exact engines_present. Qed.

(* --- non-vacuity --- *)
Definition sq := qstyle_of "sqlite".
Example ex_args_closed : closed sq (bytes "T.l") /\ closed sq (bytes "(x_4.value + 1)") /\ closed sq (bytes "'it''s (not) a {0} %s'").
Proof. repeat split; apply balanced_closed; reflexivity. Qed.
Example ex_element_sqlite :
  option_map (text_eqb (bytes "JSON_EXTRACT(T.l, '$[' || (x_4.value + 1) || ']')"))
             (inst_function (bytes "JSON_EXTRACT({0}, '$[' || {1} || ']')") [bytes "T.l"; bytes "(x_4.value + 1)"]) = Some true.
Proof. vm_compute. reflexivity. Qed.
Example ex_in_clickhouse :
  option_map (text_eqb (bytes "(has(T.l, 1))")) (inst_infix (bytes "has({right}, {left})") (bytes "1") (bytes "T.l")) = Some true.
Proof. vm_compute. reflexivity. Qed.
Example ex_placeholder_out_of_arity : inst_function (bytes "{0} || {1}") [bytes "T.l"] = None.
Proof. vm_compute. reflexivity. Qed.
Example ex_sqlite_cell_not_defect : ~ In ("sqlite", "function", "Element") defect_cells.
Proof. vm_compute. intuition discriminate. Qed.
Example ex_judge_good :
  judge "sqlite" "zq" [] "WITH t_0_T AS (SELECT 1 AS a, '(' AS b) SELECT T.a AS x, x_4.value AS y FROM t_0_T AS T, JSON_EACH(JSON_ARRAY(1, T.a)) as x_4 WHERE (T.a = x_4.value)" = 63%N.
Proof. vm_compute. reflexivity. Qed.
Example ex_judge_unbalanced : N.land (judge "sqlite" "zq" [] "SELECT (T.a AS x FROM t AS T") 1 = 0%N.
Proof. vm_compute. reflexivity. Qed.
Example ex_judge_unscoped : N.land (judge "sqlite" "zq" ["t"] "SELECT U.a AS x FROM t AS T") 4 = 0%N.
Proof. vm_compute. reflexivity. Qed.
Example ex_judge_with_order :
  N.land (judge "sqlite" "zq" [] "WITH a AS (SELECT b.x AS x FROM b), b AS (SELECT 1 AS x) SELECT a.x AS x FROM a") 4 = 0%N.
Proof. vm_compute. reflexivity. Qed.
Example ex_judge_placeholder : N.land (judge "duckdb" "zq" ["t"] "SELECT {a: T.a} AS r, {0} AS x FROM t AS T") 8 = 0%N.
Proof. vm_compute. reflexivity. Qed.
Example ex_judge_leak : N.land (judge "sqlite" "zq" ["t"] "SELECT zq1 AS x FROM t AS T") 16 = 0%N.
Proof. vm_compute. reflexivity. Qed.

(* ---------- the order of the UNNEST items of a FROM list (Core/Unnest.v, model of SortUnnestings) ---------- *)
From LV Require Import Core.Unnest Core.UnnestProofs.
From Coq Require Import Permutation.

Theorem C09_unnest_order_is_a_permutation :
  forall us out, NoDup (map fst us) -> sort_unnestings us = Some out -> Permutation us out.
Proof. exact sort_is_permutation. Qed.

Theorem C09_unnest_order_is_scoped :
  forall us out, sort_unnestings us = Some out -> scoped_order (map fst us) [] out = true.
Proof. exact sort_is_scoped. Qed.

Theorem C09_unnest_rejected_only_when_circular :
  forall us out', Permutation us out' -> scoped_order (map fst us) [] out' = true -> sort_unnestings us <> None.
Proof. exact sort_rejects_only_cycles. Qed.

Theorem C09_unnest_accepted_exactly_when_orderable :
  forall us, NoDup (map fst us) ->
  (sort_unnestings us <> None <->
   exists out', Permutation us out' /\ scoped_order (map fst us) [] out' = true).
Proof. exact sort_succeeds_iff_orderable. Qed.

Example ex_unnest_sorted :
  sort_unnestings [("x_2", ["x_10"; "a"]); ("x_10", []); ("x_1", ["x_2"])]%string =
  Some [("x_10", []); ("x_2", ["x_10"; "a"]); ("x_1", ["x_2"])]%string.
Proof. reflexivity. Qed.
Example ex_unnest_circular : sort_unnestings [("x_1", ["x_2"]); ("x_2", ["x_1"])]%string = None.
Proof. reflexivity. Qed.

(* a `--` that does not begin its line comments out the rest of the line: never "all good" *)
Example ex_judge_comment_hazard : N.land (judge "sqlite" "zq" ["t"] "SELECT (--T.a) AS x FROM t AS T") 32 = 0%N.
Proof. reflexivity. Qed.
Example ex_judge_whole_line_comment : N.land (judge "sqlite" "zq" ["t"] "-- Interacting with table t
SELECT - -T.a AS x FROM t AS T") 32 = 32%N.
Proof. reflexivity. Qed.
