(* C14 — execution runs each statement after its inputs, the prescribed number of times.
   Only statements; every proof is `exact <lemma>`.  Model: Exec/Concertina.v (hand-written mirror of
   common/concertina_lib.py: Concertina), tied to the code by the correspondence run of props/c14.py.
   Hypotheses `wfb` / `iter_closedb` are the booleans the harness evaluates on every config it runs
   (and on every plan the real compiler produced).  `raised` is the stop-signal oracle: all theorems
   about `run` hold for every oracle.  Not proved here (checked per instance by the harness through the
   Spec `valid_trace`): the exact stop rule (an action runs again iff fewer than reps runs and no poll has
   seen its signal — the theorems give the bounds 1..max(reps,1), = max(reps,1) without signal, and that every
   round is part of the previous one); "several predicates at once" is checked per instance on SQLite. *)
From Coq Require Import List Bool Arith Permutation.
Import ListNotations.
From LV Require Import Exec.Concertina Exec.ConcertinaProofs Exec.ConcertinaRounds Exec.ConcertinaSignal.

(* --- SortActions *)
Theorem C14_sort_terminates :
  forall cfg its, sort_actions cfg its <> OutOfFuel.
Proof. exact sort_terminates. Qed.

Theorem C14_sort_perm :
  forall cfg its l, wfb cfg its = true -> sort_actions cfg its = Ok l -> Permutation l (names cfg).
Proof. exact sort_perm. Qed.

(* the sorted queue consists of non-iterated actions and whole iteration blocks (the members that are
   actions, contiguous, in declared order) *)
Theorem C14_sort_contiguous :
  forall cfg its l, wfb cfg its = true -> sort_actions cfg its = Ok l ->
  segmented its (is_action cfg) l.
Proof. exact sort_contiguous. Qed.

Theorem C14_sort_topological :
  forall cfg its l, wfb cfg its = true -> iter_closedb cfg its = true ->
  sort_actions cfg its = Ok l ->
  forall l1 x l2, l = l1 ++ x :: l2 -> forall r, In r (own_requires cfg x) -> In r l1.
Proof. exact sort_topological. Qed.

(* without iter_closedb the statement is false at the library API (replayed on the real Concertina
   by props/c14.py; known finding) *)
Theorem C14_sort_topological_refuted :
  exists cfg its l, wfb cfg its = true /\ sort_actions cfg its = Ok l /\ ~ topo cfg l /\
    trace (run its (fun _ _ => false) (run_bound its l) (init l)) = [0; 1; 0; 1; 2; 3].
Proof. exact sort_topological_refuted. Qed.

(* --- Run, for every initial queue and every oracle *)
Theorem C14_run_terminates :
  forall its raised l fuel, run_bound its l <= fuel ->
  q (run its raised fuel (init l)) = [] /\ length (trace (run its raised fuel (init l))) <= run_bound its l.
Proof. exact run_terminates. Qed.

Theorem C14_run_once :
  forall its raised l0 fuel a, NoDup l0 -> run_bound its l0 <= fuel -> In a l0 -> iter_of its a = None ->
  count a (trace (run its raised fuel (init l0))) = 1.
Proof. exact run_once. Qed.

Theorem C14_run_counts :
  forall its raised l0 fuel a it, NoDup l0 -> run_bound its l0 <= fuel -> In a l0 -> iter_of its a = Some it ->
  1 <= count a (trace (run its raised fuel (init l0))) <= Nat.max (i_reps it) 1.
Proof. exact run_counts. Qed.

Theorem C14_run_counts_no_signal :
  forall its raised l0 fuel a it, NoDup l0 -> run_bound its l0 <= fuel -> In a l0 -> iter_of its a = Some it ->
  quiet raised it ->
  count a (trace (run its raised fuel (init l0))) = Nat.max (i_reps it) 1.
Proof. exact run_counts_quiet. Qed.

Theorem C14_run_deps :
  forall its raised l0 cfg, NoDup l0 -> topo cfg l0 ->
  forall fuel, topo cfg (trace (run its raised fuel (init l0))).
Proof. exact run_deps. Qed.

(* once a poll has seen the stop signal (it sits in wrench_in_gears), every member of an iteration with that
   signal runs at most once more, in any continuation of the run; and a poll that finds it raised records it *)
Theorem C14_run_after_signal :
  forall its raised l0 f1 f2 a it sg,
  NoDup l0 -> iter_of its a = Some it -> i_stop it = Some sg ->
  In sg (wrench (run its raised f1 (init l0))) ->
  count a (trace (run its raised f2 (run its raised f1 (init l0)))) <=
  S (count a (trace (run its raised f1 (init l0)))).
Proof. exact run_after_signal. Qed.

(* an iterated action runs fewer than max(reps,1) times only if a poll has seen its stop signal *)
Theorem C14_run_counts_unseen :
  forall its raised l0 fuel a it,
  NoDup l0 -> run_bound its l0 <= fuel -> In a l0 -> iter_of its a = Some it ->
  (forall sg, i_stop it = Some sg -> ~ In sg (wrench (run its raised fuel (init l0)))) ->
  count a (trace (run its raised fuel (init l0))) = Nat.max (i_reps it) 1.
Proof. exact run_counts_unseen. Qed.

Theorem C14_poll_records :
  forall its raised s s' a q' it sg,
  step its raised s = Some s' -> q s = a :: q' -> iter_of its a = Some it -> i_stop it = Some sg ->
  S (cnt s a) < i_reps it -> raised (trace s ++ [a]) sg = true -> In sg (wrench s').
Proof. exact poll_records. Qed.

(* members of an iteration run in declared order, round by round (every round an order-preserving part of the
   previous one, at most max(reps,1) rounds), contiguously, in the order of the queue — for every oracle *)
Theorem C14_run_rounds :
  forall its raised present, NoDup (map i_id its) -> members_disjoint its ->
  forall l fuel, segmented its present l -> NoDup l -> (forall x, In x l -> present x = true) ->
  run_bound its l <= fuel -> plan_trace its present l (trace (run its raised fuel (init l))).
Proof. exact run_rounds. Qed.

(* --- sort + run *)
Theorem C14_execute_rounds :
  forall cfg its raised t, wfb cfg its = true -> execute cfg its raised = Some t ->
  exists l, Permutation l (names cfg) /\ segmented its (is_action cfg) l /\ plan_trace its (is_action cfg) l t.
Proof. exact execute_rounds. Qed.

Theorem C14_execute_correct :
  forall cfg its raised t,
  wfb cfg its = true -> iter_closedb cfg its = true -> execute cfg its raised = Some t ->
  (forall a, In a t <-> In a (names cfg)) /\
  (forall a, In a (names cfg) ->
     match iter_of its a with
     | None => count a t = 1
     | Some it => 1 <= count a t <= Nat.max (i_reps it) 1 /\
                  (quiet raised it -> count a t = Nat.max (i_reps it) 1)
     end) /\
  topo cfg t /\
  (exists l, Permutation l (names cfg) /\ length t <= run_bound its l).
Proof. exact execute_correct. Qed.

(* --- non-vacuity: a plan shaped like a compiled deep recursion (ifr0; [ifr1; ifr2] x 3; P; Q) and a stop signal *)
Definition ex_cfg : list action :=
  [mkA 4 [3]; mkA 0 []; mkA 1 [0]; mkA 2 [1]; mkA 3 [2]; mkA 5 [3; 4]].
Definition ex_its : list iteration := [mkI 0 [1; 2] 3 (Some 0) false].
Example ex_hyps : wfb ex_cfg ex_its = true /\ iter_closedb ex_cfg ex_its = true.
Proof. split; reflexivity. Qed.
Example ex_sorted : sort_actions ex_cfg ex_its = Ok [0; 1; 2; 3; 4; 5].
Proof. vm_compute. reflexivity. Qed.
Example ex_run_quiet :
  execute ex_cfg ex_its (fun _ _ => false) = Some [0; 1; 2; 1; 2; 1; 2; 3; 4; 5].
Proof. vm_compute. reflexivity. Qed.
(* the signal is seen by the poll after the 3rd call (member 2, first round): 2 stops, 1 was re-queued and runs once more *)
Example ex_run_signal :
  execute ex_cfg ex_its (fun tr _ => 3 <=? length tr) = Some [0; 1; 2; 1; 3; 4; 5].
Proof. vm_compute. reflexivity. Qed.
Example ex_valid :
  valid_trace ex_cfg ex_its (fun tr _ => 3 <=? length tr) [0; 1; 2; 1; 3; 4; 5] = true /\
  valid_trace ex_cfg ex_its (fun tr _ => 3 <=? length tr) [0; 1; 2; 1; 2; 3; 4; 5] = false /\
  valid_trace ex_cfg ex_its (fun _ _ => false) [0; 1; 1; 2; 2; 1; 2; 3; 4; 5] = false.
Proof. vm_compute. auto. Qed.
Example ex_stuck : sort_actions [mkA 0 [1]; mkA 1 [0]] [] = AssertFail.
Proof. vm_compute. reflexivity. Qed.
