(* C05 — type checking: accepts well-typed, rejects clashes, matches run-time values.
   Only statements; every proof is `exact <lemma>`.

   Model: Types/Typing.v.  Two layers:
   * the constraint view of inference: a program yields constraints (node, t); the checker infers
     meet_all of the constraints of each node (C16's meet) and rejects when some node reads back a
     bad type.  Constraint GENERATION (infer.py ActMinding*, ActUnifying, WalkInitializingVariables,
     the shared-reference heap) is not modelled: the harness emits the constraints of each generated
     program (trusted) and compares verdict and inferred column types with the real checker.
   * a typed core language with values and an evaluator, for "values inhabit the inferred type".
   PARTIAL: (a) and (b) are theorems about constraint lists, not about infer.py's generation of them;
   order independence "with shared variables" of the reference heap is checked per instance only. *)
From Coq Require Import List Bool Arith ZArith NArith Permutation.
Import ListNotations.
From LV Require Import Types.TypeAlgebra Types.TypeAlgebraProofs Types.TypeLaws Types.Typing Types.TypingProofs.

(* (a) a ground typing satisfying every constraint is accepted and is an instance of what is inferred *)
Theorem C05_infer_complete_ground_partial :
  forall cs (gm : N -> gty), cs_wf cs = true ->
  (forall n t, In (n, t) cs -> inst t (gm n) = true) ->
  rejects cs = false /\ forall n, inst (infer cs n) (gm n) = true.
Proof. exact infer_complete_ground. Qed.

(* (a) "exactly that signature": a node one of whose constraints is its ground type itself is inferred
   clash free, admits that ground type and nothing the ground type does not admit *)
Theorem C05_infer_exact_when_pinned_partial :
  forall cs (gm : N -> gty) n, cs_wf cs = true ->
  (forall m t, In (m, t) cs -> inst t (gm m) = true) ->
  In (n, embed (gm n)) cs ->
  has_bad (infer cs n) = false /\ inst (infer cs n) (gm n) = true /\
  forall g, inst (infer cs n) g = true -> inst (embed (gm n)) g = true.
Proof. exact infer_exact_when_pinned. Qed.

(* (b) two constraints of one node without a common ground instance: rejected for every order *)
Theorem C05_clash_rejected_any_order_partial :
  forall cs n a b, cs_wf cs = true -> In (n, a) cs -> In (n, b) cs ->
  (forall g, inst a g && inst b g = false) ->
  forall cs', Permutation cs cs' -> rejects cs' = true.
Proof. exact clash_rejected_any_order. Qed.

(* (b) verdict and inferred types never depend on the order of the constraints *)
Theorem C05_verdict_order_independent_partial :
  forall cs cs', cs_wf cs = true -> Permutation cs cs' ->
  rejects cs = rejects cs' /\ forall n, same (infer cs n) (infer cs' n).
Proof. exact verdict_order_independent. Qed.

(* (a)+(b) the verdict is exactly "no assignment of ground types satisfies all constraints" *)
Theorem C05_rejects_iff_unsatisfiable_partial :
  forall cs, cs_wf cs = true ->
  (rejects cs = false <-> exists gm : N -> gty, forall n t, In (n, t) cs -> inst t (gm n) = true).
Proof. exact rejects_iff_unsatisfiable. Qed.

(* (c) a well-typed core expression evaluates, if at all, to a value of its type *)
Theorem C05_typing_sound :
  forall F Sg Gm rho, fun_ok F Sg -> env_ok rho Gm ->
  forall e g v, type_of Sg Gm e = Some g -> eval F rho e = Some v -> has_type v g = true.
Proof. exact typing_sound. Qed.

(* (c) every row produced by the head of a checked rule has the declared column types *)
Theorem C05_rule_head_sound :
  forall F Sg Gm rho, fun_ok F Sg -> env_ok rho Gm ->
  forall Rs r, check_rule Sg Rs Gm r = true ->
  forall row, map_opt (eval F rho) (r_head r) = Some row ->
  exists ts, Rs (r_pred r) = Some ts /\ Forall2 (fun v g => has_type v g = true) row ts.
Proof. exact rule_head_sound. Qed.

(* (c) a variable bound by a satisfied body atom over a well-typed database holds a value of its type *)
Theorem C05_atom_binds :
  forall F Sg Rs Gm D rho q args,
  db_ok D Rs -> sat_conj F D rho (CAtom q args) -> check_conj Sg Rs Gm (CAtom q args) = true ->
  forall i x, nth_error args i = Some (EVar x) ->
  exists g v, Gm x = Some g /\ rho x = Some v /\ has_type v g = true.
Proof. exact atom_binds. Qed.

Theorem C05_in_binds :
  forall F Sg Rs Gm D rho x l,
  (forall g v, type_of Sg Gm l = Some g -> eval F rho l = Some v -> has_type v g = true) ->
  sat_conj F D rho (CIn (EVar x) l) -> check_conj Sg Rs Gm (CIn (EVar x) l) = true ->
  exists g v, Gm x = Some g /\ rho x = Some v /\ has_type v g = true.
Proof. exact in_binds. Qed.

Theorem C05_eq_binds :
  forall F Sg Rs Gm D rho x e,
  (forall g v, type_of Sg Gm e = Some g -> eval F rho e = Some v -> has_type v g = true) ->
  sat_conj F D rho (CEq (EVar x) e) -> check_conj Sg Rs Gm (CEq (EVar x) e) = true ->
  exists g v, Gm x = Some g /\ rho x = Some v /\ has_type v g = true.
Proof. exact eq_binds. Qed.

(* ---- non-vacuity ---- *)
Definition ex_cs : list constr :=
  [(0, TAtom ANum); (0, TSingular); (1, TList TSingular); (1, TList (TAtom ANum));
   (2, TRec false [(FName 0, TAtom AStr)]); (2, TRec true [(FName 0, TAny); (FName 1, TAtom ANum)])]%N.
Definition ex_gm (n : N) : gty :=
  match n with
  | 0%N => GAtom ANum
  | 1%N => GList (GAtom ANum)
  | _ => GRec [(FName 0, GAtom AStr); (FName 1, GAtom ANum)]
  end.
Example ex_satisfiable :
  cs_wf ex_cs = true /\ forallb (fun c => inst (snd c) (ex_gm (fst c))) ex_cs = true /\ rejects ex_cs = false /\
  infer ex_cs 2%N = TRec true [(FName 0, TAtom AStr); (FName 1, TAtom ANum)].
Proof. repeat split; reflexivity. Qed.
Example ex_clash :
  rejects (ex_cs ++ [(0%N, TAtom AStr)]) = true /\ rejects ((0%N, TAtom AStr) :: ex_cs) = true /\
  (forall g, inst (TAtom ANum) g && inst (TAtom AStr) g = false).
Proof. repeat split; try reflexivity. intros [[]| |]; reflexivity. Qed.

Definition ex_F (q : nat) (vs : list val) : option val :=
  match vs with [VNum z] => Some (VStr [Z.to_nat z]) | _ => None end.
Definition ex_Sg : sigma := fun q => Some ([GAtom ANum], GAtom AStr).
Definition ex_Gm (x : nat) : option gty := match x with 0 => Some (GAtom ANum) | 1 => Some (GList (GAtom ANum)) | _ => None end.
Definition ex_rho (x : nat) : option val :=
  match x with 0 => Some (VNum 3) | 1 => Some (VList [VNum 1; VNum 3]) | _ => None end.
Definition ex_e : expr :=
  ERec [(FName 0, EBin OAdd (EVar 0) (ENum 1)); (FName 1, EList (ECall 7 [EVar 0]) [EStr [5]]);
        (FName 2, EIn (EVar 0) (EVar 1))].
Example ex_typed :
  type_of ex_Sg ex_Gm ex_e =
    Some (GRec [(FName 0, GAtom ANum); (FName 1, GList (GAtom AStr)); (FName 2, GAtom ABool)]) /\
  eval ex_F ex_rho ex_e =
    Some (VRec [(FName 0, VNum 4); (FName 1, VList [VStr [3%nat]; VStr [5%nat]]); (FName 2, VBool true)]) /\
  type_of ex_Sg ex_Gm (EBin OAdd (EVar 0) (EStr [])) = None.
Proof. repeat split; reflexivity. Qed.
Example ex_hyps : fun_ok ex_F ex_Sg /\ env_ok ex_rho ex_Gm.
Proof.
  split.
  - intros q targs tres vs v E H Hv. inversion E; subst. unfold ex_F in Hv.
    destruct vs as [|[] [|]]; try discriminate. inversion Hv. reflexivity.
  - intros [|[|x]] g v Hg Hr; simpl in *; inversion Hg; inversion Hr; subst; reflexivity.
Qed.
