(* C19 — invalid programs are rejected with a diagnostic, never compiled to wrong SQL.
   Statements only; about the range-restriction decision of the reference evaluator (the oracle that
   says which corrupted programs props/c19.py must see rejected): a conjunction is evaluable iff SOME
   order of its conjuncts has every variable determined when it is needed; the decision does not
   depend on the textual order; an undeterminable conjunction is an error, never a result.
   That the real compiler raises a diagnostic is decided per corruption instance. *)
From Coq Require Import List ZArith Permutation.
Import ListNotations.
From LV Require Import Core.Syntax Core.Eval Core.ScheduleProofs.

Theorem C19_scheduler_finds_an_order_if_one_exists :
  forall scope fuel B cs, length cs <= fuel -> sched scope B cs ->
  exists l, schedule scope fuel B cs = Some l.
Proof. exact schedule_complete. Qed.

Theorem C19_scheduled_order_is_evaluable :
  forall scope fuel B cs l, schedule scope fuel B cs = Some l -> sched scope B cs.
Proof. exact schedule_sound. Qed.

Theorem C19_scheduled_order_keeps_every_conjunct_once :
  forall scope fuel B cs l, schedule scope fuel B cs = Some l -> Permutation cs l.
Proof. exact schedule_is_permutation. Qed.

Theorem C19_range_restriction_does_not_depend_on_order :
  forall scope B cs cs', Permutation cs cs' ->
  (exists l, schedule scope (S (length cs)) B cs = Some l) <->
  (exists l, schedule scope (S (length cs')) B cs' = Some l).
Proof. exact range_restriction_order_independent. Qed.

Theorem C19_not_range_restricted_is_an_error :
  forall n P D scope en cs,
  schedule scope (S (length cs)) (map fst en) cs = None ->
  eval_conj_list (S n) P D scope en cs = Fail E_UNSAFE.
Proof. exact unsafe_is_rejected. Qed.

(* Non-vacuity: the corruption classes of the catalogue are refused by the evaluator. *)
Definition T : pdef := {| p_name := 0; p_kind := KTable;
  p_rules := [ {| r_head := [(0, HExpr (EInt 1))]; r_distinct := false; r_body := PAnd [] |} ] |}.
Definition q (h : list (field * hval)) (dis : bool) (b : prop) : program :=
  [T; {| p_name := 1; p_kind := KTable; p_rules := [ {| r_head := h; r_distinct := dis; r_body := b |} ] |}].
(* Q(x) :- T(y): head variable unbound *)
Example ex_head_unbound : eval_query (q [(0, HExpr (EVar 0))] false (PConj (CAtom 0 [(0, EVar 1)]))) [] 1 = Fail E_UNSAFE.
Proof. vm_compute. reflexivity. Qed.
(* Q(y) :- T(y), z > 1: comparison variable unbound *)
Example ex_cmp_unbound :
  eval_query (q [(0, HExpr (EVar 1))] false
                (PAnd [PConj (CAtom 0 [(0, EVar 1)]); PConj (CCond (EBin OGt (EVar 2) (EInt 1)))])) [] 1 = Fail E_UNSAFE.
Proof. vm_compute. reflexivity. Qed.
(* Q(x) :- T(y), ~T(x): head variable bound only by a negation *)
Example ex_neg_unbound :
  eval_query (q [(0, HExpr (EVar 0))] false
                (PAnd [PConj (CAtom 0 [(0, EVar 1)]); PConj (CNot [CAtom 0 [(0, EVar 0)]])])) [] 1 = Fail E_UNSAFE.
Proof. vm_compute. reflexivity. Qed.
(* Q(y, s? += 1) :- T(y) without distinct *)
Example ex_agg_without_distinct :
  eval_query (q [(0, HExpr (EVar 1)); (100, HAgg ASum (EInt 1))] false (PConj (CAtom 0 [(0, EVar 1)]))) [] 1 = Fail E_DISTINCT.
Proof. vm_compute. reflexivity. Qed.
(* a valid rule is accepted *)
Example ex_valid : eval_query (q [(0, HExpr (EVar 1))] false (PConj (CAtom 0 [(0, EVar 1)]))) [] 1 = Ok [[(0, VInt 1)]].
Proof. vm_compute. reflexivity. Qed.
