(* C17 — grounded predicates are materialised faithfully and re-running is idempotent.
   Only statements; every proof is `exact <lemma>`.  Model: Exec/Ground.v —
     script_for main  = the grounded predicates whose "DROP TABLE IF EXISTS t; CREATE TABLE t AS q"
                        statement TranslateTableAttachedToFile appends while `main` is compiled;
     run_pred main s  = executing those statements against the persistent store s.
   Hypotheses (named in Exec/GroundTheorems.v):
     acyclic          predicates numbered in dependency order (the generator's programs are acyclic);
     reads_frontier   the query of p mentions only tables of grounded predicates p reaches through
                      non-grounded ones;
     deterministic    a query is a function of the tables it mentions;
     queries_correct  each single query returns the specified bag when the tables it mentions hold
                      theirs (C01's subject; validated per instance by props/c17.py).
   Tied to compiler/universe.py + SQLite by the histories of props/c17.py. *)
From Coq Require Import List Bool Arith.
Import ListNotations.
From LV Require Import Exec.Ground Exec.GroundProofs Exec.GroundTheorems.

Section C17.
  Variable grounded : pred -> bool.
  Variable deps reads : pred -> list pred.
  Variable B : Type.
  Variable eval_q : pred -> store B -> B.
  Variable spec : pred -> B.
  Notation script_for := (script_for grounded deps).
  Notation run_pred := (run_pred grounded deps B eval_q).
  Notation run_history := (run_history grounded deps B eval_q).

  (* every CREATE comes after the CREATEs of the tables its query reads; nothing is written twice *)
  Theorem C17_exports_postorder :
    acyclic deps -> reads_frontier grounded deps reads ->
    forall main l1 d l2, script_for main = l1 ++ d :: l2 ->
    incl (reads d) l1 /\ ~ In d l1 /\ ~ In d l2.
  Proof. exact (e2e_postorder grounded deps reads). Qed.

  (* the model's recursion never runs out of fuel on acyclic programs *)
  Theorem C17_model_total :
    acyclic deps -> reads_frontier grounded deps reads ->
    forall main, ok (compile grounded deps (S main) main) = true.
  Proof. exact (e2e_in_fuel grounded deps reads). Qed.

  (* asking for P itself emits no statement for P, and everything P's own query reads is written *)
  Theorem C17_self_request_writes_nothing :
    acyclic deps -> reads_frontier grounded deps reads ->
    forall main, ~ In main (script_for main).
  Proof. exact (e2e_self_request grounded deps reads). Qed.

  Theorem C17_dependants_read_written_tables :
    acyclic deps -> reads_frontier grounded deps reads ->
    forall main, incl (reads main) (script_for main).
  Proof. exact (e2e_main_reads grounded deps reads). Qed.

  (* a run never fails, touches only the tables of its script (not the table of main), and leaves
     in every written table the value of its query on the final store *)
  Theorem C17_script_materialises :
    acyclic deps -> reads_frontier grounded deps reads -> deterministic reads B eval_q ->
    forall main s0, exists s, run_pred main s0 = Some s /\
      (forall t, ~ In t (script_for main) -> s t = s0 t) /\
      (forall t, In t (script_for main) -> s t = Some (eval_q t s)) /\
      s main = s0 main.
  Proof. exact (e2e_run grounded deps reads B eval_q). Qed.

  (* running again against the same file: same tables, same result *)
  Theorem C17_rerun_idempotent :
    acyclic deps -> reads_frontier grounded deps reads -> deterministic reads B eval_q ->
    forall main s0 s, run_pred main s0 = Some s ->
    exists s', run_pred main s = Some s' /\ (forall t, s' t = s t) /\
               result B eval_q main s' = result B eval_q main s.
  Proof. exact (e2e_rerun grounded deps reads B eval_q). Qed.

  (* the tables hold exactly the bags the predicates denote, and the answer is the denoted bag *)
  Theorem C17_faithful :
    acyclic deps -> reads_frontier grounded deps reads -> queries_correct reads B eval_q spec ->
    forall main s0 s, run_pred main s0 = Some s ->
    (forall t, In t (script_for main) -> s t = Some (spec t)) /\ result B eval_q main s = spec main.
  Proof. exact (e2e_faithful grounded deps reads B eval_q spec). Qed.

  (* any sequence of requests against one file that started clean (e.g. empty): never fails, no stale
     table is left behind, every table written at some point still holds the denoted bag at the end *)
  Theorem C17_histories :
    acyclic deps -> reads_frontier grounded deps reads -> deterministic reads B eval_q ->
    queries_correct reads B eval_q spec ->
    forall ps s0, clean B spec s0 ->
    exists s, run_history ps s0 = Some s /\ clean B spec s /\
      (forall t, present B s0 t -> present B s t) /\
      (forall p t, In p ps -> In t (script_for p) -> s t = Some (spec t)).
  Proof. exact (e2e_history grounded deps reads B eval_q spec). Qed.
End C17.

(* ---- non-vacuity: a concrete program satisfying every hypothesis ----
   0 = D (facts), 1 = A grounded reads D, 2 = M (not grounded) reads A, 3 = Bee grounded reads M and A,
   4 = Q reads Bee and M.   Bags are numbers: spec p = 10 + p; the query of p adds up what it reads. *)
Definition ex_grounded (p : pred) : bool := match p with 1 | 3 => true | _ => false end.
Definition ex_deps (p : pred) : list pred :=
  match p with 1 => [0] | 2 => [1] | 3 => [2; 1] | 4 => [3; 2] | _ => [] end.
Definition ex_reads (p : pred) : list pred :=
  match p with 2 => [1] | 3 => [1] | 4 => [3; 1] | _ => [] end.
Definition ex_spec (p : pred) : nat := 10 + p.
Definition ex_eval (p : pred) (s : store nat) : nat :=
  10 + p + fold_right (fun t acc => match s t with Some v => (v - (10 + t)) + acc | None => 1 + acc end) 0 (ex_reads p).

Example ex_script : script_for ex_grounded ex_deps 4 = [1; 3] /\ script_for ex_grounded ex_deps 3 = [1]
  /\ script_for ex_grounded ex_deps 1 = [].
Proof. repeat split; reflexivity. Qed.

Example ex_acyclic : acyclic ex_deps.
Proof.
  intros p d H. destruct p as [|[|[|[|[|p]]]]]; simpl in H;
    repeat (destruct H as [<-|H]; [auto with arith|]); try contradiction.
Qed.

Example ex_frontier : reads_frontier ex_grounded ex_deps ex_reads.
Proof.
  intros p t H. destruct p as [|[|[|[|[|p]]]]]; simpl in H; try contradiction.
  - destruct H as [<-|[]]. exists 1. simpl. auto.
  - destruct H as [<-|[]]. exists 1. simpl. auto.
  - destruct H as [<-|[<-|[]]].
    + exists 3. simpl. auto.
    + exists 2. simpl. split; [auto|]. right. simpl. auto.
Qed.

Example ex_deterministic : deterministic ex_reads nat ex_eval.
Proof.
  intros d s s' H. unfold ex_eval. f_equal. revert H. generalize (ex_reads d) as l.
  induction l as [|t tl IH]; intros H; cbn [fold_right]; auto.
  rewrite (H t) by (left; auto). rewrite IH; auto. intros; apply H; right; auto.
Qed.

Example ex_correct : queries_correct ex_reads nat ex_eval ex_spec.
Proof.
  intros d s H. unfold ex_eval, ex_spec.
  assert (E : forall l, (forall t, In t l -> s t = Some (ex_spec t)) ->
    fold_right (fun t acc => match s t with Some v => (v - (10 + t)) + acc | None => 1 + acc end) 0 l = 0).
  { induction l as [|t tl IH]; intros Hl; cbn [fold_right]; auto.
    rewrite (Hl t) by (left; auto). unfold ex_spec. rewrite IH by (intros; apply Hl; right; auto).
    rewrite Nat.sub_diag. reflexivity. }
  rewrite E; auto.
Qed.

Example ex_run : exists s, run_pred ex_grounded ex_deps nat ex_eval 4 (fun _ => None) = Some s /\
  s 1 = Some 11 /\ s 3 = Some 13 /\ s 4 = None /\ result nat ex_eval 4 s = 14.
Proof. eexists. split. reflexivity. repeat split; reflexivity. Qed.
