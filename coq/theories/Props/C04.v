(* C04 — functor application is predicate substitution.
   Only statements; every proof is `exact <lemma>`.  Model: Functors/Program.v (tied to
   compiler/functors.py by the correspondence run of props/c04.py).

   Reading.  A program is a list of rules (head, used predicates, opaque body).  [gsem] is the
   meaning of the group of rules of one predicate as a function of the meanings of the predicates
   they mention; it is universally quantified and only assumed to be local and to commute with
   renaming (the two premises repeated in each theorem; they are Section hypotheses in
   Functors/Functor.v, there is no axiom).  [is_model P E]: E is the meaning of P.
   [is_model_ov P s base Es]: Es is the meaning of "P in which each a in dom s is redefined as
   s(a)", the values s(a) being read in [base]. *)
From Coq Require Import List Bool NArith.
Import ListNotations.
From LV Require Import Functors.Program Functors.Functor Functors.Exec.

Definition local {rel} (gsem : list rbody -> (pred -> rel) -> rel) : Prop :=
  forall bs e1 e2, (forall b u, In b bs -> In u (fst b) -> e1 u = e2 u) -> gsem bs e1 = gsem bs e2.
Definition renaming {rel} (gsem : list rbody -> (pred -> rel) -> rel) : Prop :=
  forall bs f e, gsem (map (ren_body f) bs) e = gsem bs (fun u => e (f u)).

(* N := F(A1: B1, ...).  s = the bindings, m = bindings + (F |-> N) + (intermediate |-> clone),
   cl = the predicates whose rules are copied, X = the added rules.  If the added rules define only
   new names (fresh), are the renamed copies of the rules of cl (copied), and every predicate used
   by a copied rule is an argument, or copied too, or mapped to an old predicate that already has
   the required meaning (unaffected predicate, or clone shared through the cache), then every copy
   -- in particular N = m(F) -- means the original with the arguments redefined. *)
Theorem C04_functor_is_substitution :
  forall rel (ext : pred -> rel) gsem, local gsem -> renaming gsem ->
  forall rk P, ranked rk P ->
  forall (s m : ren) (cl : list pred) (X : program) (E E' Es : pred -> rel),
  is_model rel ext gsem P E -> is_model rel ext gsem (P ++ X) E' -> is_model_ov rel ext gsem P s E Es ->
  (forall h, In h (heads X) -> rules_of P h = []) ->
  (forall q, In q cl ->
     lookup s q = None /\ bodies P q <> [] /\
     bodies X (app m q) = map (ren_body (app m)) (bodies P q)) ->
  (forall q r u, In q cl -> In r P -> head r = q -> In u (uses r) ->
     (exists b, lookup s u = Some b /\ app m u = b /\ old P X b) \/
     In u cl \/
     (old P X (app m u) /\ E (app m u) = Es u)) ->
  forall q, In q cl -> E' (app m q) = Es q.
Proof. exact clone_sound. Qed.

(* F, its arguments and every other predicate keep their meaning: adding rules X changes nothing
   for a predicate that X does not define and that does not depend on anything X defines. *)
Theorem C04_conservative :
  forall rel (ext : pred -> rel) gsem, local gsem ->
  forall rk P, ranked rk P ->
  forall X E E', is_model rel ext gsem P E -> is_model rel ext gsem (P ++ X) E' ->
  forall p, old P X p -> E' p = E p.
Proof. exact conservative. Qed.

(* The cache key is sound: the meaning of p under a redefinition depends only on the bindings of
   the predicates p depends on (what CallKey keeps), so two applications whose relevant bindings
   coincide may share the clone of p. *)
Theorem C04_cache_key_sound :
  forall rel (ext : pred -> rel) gsem, local gsem ->
  forall rk P, ranked rk P ->
  forall s1 b1 E1 s2 b2 E2,
  is_model_ov rel ext gsem P s1 b1 E1 -> is_model_ov rel ext gsem P s2 b2 E2 ->
  forall p,
  (forall x, x = p \/ Reach P p x -> option_map b1 (lookup s1 x) = option_map b2 (lookup s2 x)) ->
  E1 p = E2 p.
Proof. exact ov_relevant. Qed.

(* A predicate that depends on no argument is not copied and keeps its meaning in the
   substituted program. *)
Theorem C04_unaffected_not_copied :
  forall rel (ext : pred -> rel) gsem, local gsem ->
  forall rk P, ranked rk P ->
  forall s base E Es, is_model rel ext gsem P E -> is_model_ov rel ext gsem P s base Es ->
  forall p, lookup s p = None -> (forall a, lookup s a <> None -> ~ Reach P p a) -> Es p = E p.
Proof. exact ov_unaffected. Qed.

(* "the meaning" is well defined for acyclic programs: it exists (fuelled evaluation, independent
   of the out-of-fuel value) and is unique. *)
Theorem C04_meaning_unique :
  forall rel (ext : pred -> rel) gsem, local gsem ->
  forall rk P, ranked rk P ->
  forall E1 E2, is_model rel ext gsem P E1 -> is_model rel ext gsem P E2 -> forall p, E1 p = E2 p.
Proof. exact model_unique. Qed.

Theorem C04_meaning_exists :
  forall rel (ext : pred -> rel) gsem, local gsem ->
  forall rk P, ranked rk P ->
  forall d, is_model rel ext gsem P (fun p => den rel ext gsem d (S (rk p)) P p).
Proof. exact model_exists. Qed.

(* Non-vacuity.  The free (symbolic) semantics satisfies both assumed laws ... *)
Example ex_laws_satisfiable : local free_gsem /\ renaming free_gsem.
Proof. split; [exact free_local | exact free_rename]. Qed.

(* ... and on  F(x) :- M(x), C(x).  M(x) :- A(x).  N1 := F(A: B).  N2 := F(A: B, C: A).
   (A=0 B=1 C=2 M=3 F=4 N1=5 N2=6; clone X_f<n> = 10 + 4*X + n) the model of MakeAll clones M once
   (M_f1 = 23), shares it between the two applications, and both results verify symbolically. *)
Definition ex_P : program :=
  [mkRule 4 [3; 2] 0; mkRule 3 [0] 1; mkRule 0 [] 2; mkRule 1 [] 3; mkRule 2 [] 4]%N.
Definition ex_ms : list make := [(5, 4, [(0, 1)]); (6, 4, [(0, 1); (2, 0)])]%N.
Example ex_make_all :
  run_flat 10 4 [] ex_P ex_ms [] =
  ([1; 2; 1; 1] ++
   concat (map flat_rule (ex_P ++ [mkRule 5 [23; 2] 0; mkRule 23 [1] 1; mkRule 6 [23; 0] 0])))%N.
Proof. vm_compute. reflexivity. Qed.
