(* C10 — string literals and flag values are data, never SQL.
   Only statements; every proof is `exact <lemma>`.
   emit_of kind_<D> is the emitter that translators/strlit.py reads from the CURRENT source of
   QL.StrLiteral (coq/gen/StrLitGen.v); lex_* are the hand written Spec lexers (Lex/StrLit.v).
   lex (emit s ++ rest) = Some (s, rest) says both: the value read back is s character for
   character, and the literal is exactly one token (what follows it is untouched, whatever s is). *)
From Coq Require Import List NArith Bool.
Import ListNotations.
From LV Require Import Lex.StrLit Lex.StrLitProofs Lex.StrLitEmit Lex.StrLitDialects.
From LVGen Require Import StrLitGen.
Open Scope N_scope.

(* ---- for all strings, per dialect ---- *)
Theorem C10_roundtrip_SqLite : forall s rest, no_quote_start 39 rest ->
  lex_std (emit_of kind_SqLite s ++ rest) = Some (s, rest).
Proof. exact roundtrip_SqLite. Qed.

Theorem C10_roundtrip_PostgreSQL : forall s rest, no_quote_start 39 rest ->
  lex_std (emit_of kind_PostgreSQL s ++ rest) = Some (s, rest).
Proof. exact roundtrip_PostgreSQL. Qed.

Theorem C10_roundtrip_Presto : forall s rest, no_quote_start 39 rest ->
  lex_std (emit_of kind_Presto s ++ rest) = Some (s, rest).
Proof. exact roundtrip_Presto. Qed.

Theorem C10_roundtrip_Trino : forall s rest, no_quote_start 39 rest ->
  lex_std (emit_of kind_Trino s ++ rest) = Some (s, rest).
Proof. exact roundtrip_Trino. Qed.

Theorem C10_roundtrip_DuckDB : forall s rest, no_quote_start 39 rest ->
  lex_estr (emit_of kind_DuckDB s ++ rest) = Some (s, rest).
Proof. exact roundtrip_DuckDB. Qed.

Theorem C10_roundtrip_BigQuery : forall s rest,
  lex_bq (emit_of kind_BigQuery s ++ rest) = Some (s, rest).
Proof. exact roundtrip_BigQuery. Qed.

(* weaker than the property: strings containing a form feed are excluded (see the _refuted below) *)
Theorem C10_roundtrip_Databricks_partial : forall s rest, ~ In 12 s ->
  lex_dbx (emit_of kind_Databricks s ++ rest) = Some (s, rest).
Proof. exact roundtrip_Databricks_partial. Qed.

Theorem C10_Databricks_formfeed_refuted :
  exists s rest, no_quote_start 34 rest /\
    lex_dbx (emit_of kind_Databricks s ++ rest) <> Some (s, rest) /\
    lex_dbx (emit_of kind_Databricks s ++ rest) = Some ([102], rest).
Proof. exact Databricks_formfeed_refuted. Qed.

Theorem C10_roundtrip_ClickHouse : forall s rest, no_quote_start 39 rest ->
  lex_ch (emit_of kind_ClickHouse s ++ rest) = Some (s, rest).
Proof. exact roundtrip_ClickHouse. Qed.

(* for the record: quote doubling alone (the ClickHouse emitter before the fix: commit in /repo) does not
   round trip with ClickHouse's lexer and lets a literal end inside the following SQL *)
Theorem C10_ClickHouse_quote_doubling_alone_refuted :
  exists s rest, no_quote_start 39 rest /\
    lex_ch (emit_of quote_doubling s ++ rest) <> Some (s, rest).
Proof. exact ClickHouse_quote_doubling_alone_refuted. Qed.

Theorem C10_ClickHouse_quote_doubling_alone_changes_structure :
  let s := [97; 92] in
  let rest := [32; 79; 82; 32; 39; 120; 39; 32; 61; 32; 39; 120; 39] in
  no_quote_start 39 rest /\
  lex_ch (emit_of quote_doubling s ++ rest) =
    Some ([97; 39; 32; 79; 82; 32], [120; 39; 32; 61; 32; 39; 120; 39]).
Proof. exact ClickHouse_quote_doubling_alone_changes_structure. Qed.

(* ---- the proposed repairs of the two emitters round trip for ALL strings (same Spec lexers) ----
   ClickHouse:  "'%s'" % s.replace('\\', '\\\\').replace("'", "''")
   Databricks:  '<dq>%s<dq>' % s with  \ -> \\ , <dq> -> \<dq> , LF -> \n , CR -> \r , TAB -> \t   *)
Theorem C10_proposed_patch_ClickHouse : forall s rest, no_quote_start 39 rest ->
  lex_ch (emit_of proposed_ClickHouse s ++ rest) = Some (s, rest).
Proof. exact proposed_ClickHouse_roundtrip. Qed.

Theorem C10_proposed_patch_Databricks : forall s rest,
  lex_dbx (emit_of proposed_Databricks s ++ rest) = Some (s, rest).
Proof. exact proposed_Databricks_roundtrip. Qed.

(* ---- every dialect of the generated table (finite: the table) is covered ---- *)
Theorem C10_every_dialect_has_a_lexer :
  forallb (fun p => match lexer_for (fst p) with Some _ => true | None => false end) dialect_kinds = true.
Proof. exact all_dialects_have_lexer. Qed.

Theorem C10_roundtrip_every_dialect : forall name k lx,
  In (name, k) dialect_kinds -> lexer_for name = Some lx ->
  forall s rest, safe_for name s -> no_quote_start (quote_of lx) rest ->
  run_lexer lx (emit_of k s ++ rest) = Some (s, rest).
Proof. exact roundtrip_all. Qed.

(* ---- flag values: same emitter, precedence, rejection ---- *)
Theorem C10_flag_value_roundtrip : forall name k lx flags f lit,
  In (name, k) dialect_kinds -> lexer_for name = Some lx ->
  flag_literal k flags f = Some lit ->
  exists v, lookup f flags = Some v /\
    forall rest, safe_for name v -> no_quote_start (quote_of lx) rest ->
    run_lexer lx (lit ++ rest) = Some (v, rest).
Proof. exact flag_value_roundtrip. Qed.

(* user > reset > default (rev: for a key given twice the last binding counts, as in dict.update) *)
Theorem C10_flags_precedence : forall defaults resets user m f,
  build_flags defaults resets user = Some m ->
  lookup f m =
  first_some (lookup f (rev user)) (first_some (lookup f (rev resets)) (lookup f (rev defaults))).
Proof. exact flags_precedence. Qed.

Theorem C10_flags_undefined_rejected : forall defaults resets user,
  build_flags defaults resets user = None <->
  exists k v, In (k, v) user /\ lookup k defaults = None /\ k <> system_flag.
Proof. exact flags_undefined_rejected. Qed.

(* ---- ${flag} expansion: the function is total (structural recursion on the bound 100) ---- *)
Theorem C10_expansion_result_is_fixed_point : forall flags sql r,
  use_flags flags sql = Some r -> round_flags flags r = r.
Proof. exact use_flags_fixed_point. Qed.

Theorem C10_expansion_bounded : forall flags sql r,
  use_flags flags sql = Some r ->
  exists k, (k <= 100)%nat /\ r = Nat.iter k (round_flags flags) sql.
Proof. exact use_flags_bounded. Qed.

Theorem C10_expansion_error_only_if_not_converged : forall flags sql,
  use_flags flags sql = None ->
  forall k, (k < 100)%nat ->
    Nat.iter (S k) (round_flags flags) sql <> Nat.iter k (round_flags flags) sql.
Proof. exact use_flags_error_only_if_not_converged. Qed.

(* only ${flag} of a defined flag is expanded: text in which no such pattern occurs is unchanged *)
Theorem C10_expansion_only_of_defined_patterns : forall flags sql,
  (forall f v, In (f, v) flags -> has_sub (flag_pat f) sql = false) ->
  use_flags flags sql = Some sql.
Proof. exact use_flags_identity. Qed.

Theorem C10_expansion_needs_dollar : forall flags sql, ~ In 36 sql -> use_flags flags sql = Some sql.
Proof. exact use_flags_no_dollar. Qed.

Theorem C10_dollar_params_need_dollar : forall s, ~ In 36 s -> dollar_params s = [].
Proof. exact dollar_params_no_dollar. Qed.

(* DESIGN's "the result contains no ${f} with f defined" is false of the loop as written: *)
Theorem C10_expansion_removes_defined_flags_refuted :
  use_flags cyc_flags (flag_pat [97]) = Some (flag_pat [97]) /\
  lookup [97] cyc_flags = Some (flag_pat [98]) /\ flag_pat [98] <> flag_pat [97].
Proof. exact use_flags_cycle_undetected. Qed.

(* ---- ParseString: the two raw literal forms give the text between the quotes ---- *)
Theorem C10_parse_double_quoted : forall s, ~ In 34 s -> parse_string_raw (34 :: s ++ [34]) = Some s.
Proof. exact parse_dq. Qed.

Theorem C10_parse_triple_quoted : forall s, has_sub q3 s = false ->
  parse_string_raw (q3 ++ s ++ q3) = Some s.
Proof. exact parse_triple. Qed.

(* ---- non-vacuity ---- *)
Example ex_sqlite : emit_of kind_SqLite [97; 39; 59; 45; 45] = [39; 97; 39; 39; 59; 45; 45; 39].
Proof. reflexivity. Qed.
Example ex_sqlite_lex : lex_std ([39; 97; 39; 39; 59; 45; 45; 39] ++ [59]) = Some ([97; 39; 59; 45; 45], [59]).
Proof. reflexivity. Qed.
Example ex_duckdb : emit_of kind_DuckDB [92; 39; 9; 10] = [69; 39; 92; 92; 39; 39; 92; 116; 92; 110; 39].
Proof. reflexivity. Qed.
Example ex_json : emit_of kind_BigQuery [34; 92; 10; 1; 233] = [34; 92; 34; 92; 92; 92; 110; 92; 117; 48; 48; 48; 49; 233; 34].
Proof. reflexivity. Qed.
Example ex_safe : safe_for n_ClickHouse [97; 39] /\ ~ safe_for n_ClickHouse [92].
Proof.
  split.
  - split; [intros _ [H|[H|[]]]; discriminate|intros H; discriminate].
  - intros [H _]. apply H; [reflexivity|left; reflexivity].
Qed.
Example ex_precedence :
  build_flags [([97], [49]); ([98], [50]); ([99], [51])] [([98], [52]); ([99], [53])] [([99], [54])]
  = Some [([97], [49]); ([98], [52]); ([99], [54])].
Proof. reflexivity. Qed.
Example ex_expand :
  use_flags [([97], [120; 36; 123; 98; 125]); ([98], [121])] [36; 123; 97; 125; 33] = Some [120; 121; 33].
Proof. vm_compute. reflexivity. Qed.
Example ex_recursive : use_flags [([97], [36; 123; 97; 125; 120])] [36; 123; 97; 125] = None.
Proof. vm_compute. reflexivity. Qed.
