(* C03 — recursion is the bounded iteration, and the least fixpoint once it converges.
   Only statements; every proof is `exact <lemma>`.
   Part 1 (Functors/Recursion.v + gen/RecursionParams.v, regenerated from recursion_library.py,
   functors.py, universe.py on every run): each unfolding, read as a plan over generations of the
   component with T = one simultaneous application of its rules (arbitrary function, arbitrary
   state), computes T^(depth+1)(nil).  Part 2 (Functors/Lattice.v): for monotone T the result of
   any round-based update order is sandwiched between the bounded iterate and the least fixpoint. *)
From Coq Require Import List ZArith.
Import ListNotations.
From LVGen Require Import RecursionParams.
From LV Require Import Functors.Recursion Functors.RecursionProofs Functors.Lattice.
Open Scope Z_scope.

(* vertical chain P_r0 .. P_r<depth> (predicate recursive through itself) *)
Theorem C03_vertical_is_bounded_iteration :
  forall A (T : A -> A) bot depth, 0 <= depth ->
  vertical A T bot depth = Some (Tn A T (S (Z.to_nat depth)) bot).
Proof. exact vertical_is_iterate. Qed.

(* flat chain P_fr0 .. P_fr<depth> over the whole cover *)
Theorem C03_flat_is_bounded_iteration :
  forall A (T : A -> A) bot depth, 0 <= depth ->
  flat A T bot depth = Some (Tn A T (S (Z.to_nat depth)) bot).
Proof. exact flat_is_iterate. Qed.

(* iterative plan with g ignition steps: g - 2 + 2 * max(repetitions, 1) applications *)
Theorem C03_iterative_count :
  forall A (T : A -> A) bot depth g, 4 <= g ->
  iterative A T bot depth g = Some (Tn A T (Z.to_nat (g - 2 + 2 * Z.max (repetitions depth g) 1)) bot).
Proof. exact iterative_count. Qed.

(* = depth + 1 under the two side conditions *)
Theorem C03_iterative_is_bounded_iteration :
  forall A (T : A -> A) bot depth g, 4 <= g -> g <= depth + 1 -> ignition_bump g depth = false ->
  iterative A T bot depth g = Some (Tn A T (S (Z.to_nat depth)) bot).
Proof. exact iterative_is_iterate. Qed.

(* with the ignition UnfoldRecursions chooses itself: exact when cover + 3 <= depth *)
Theorem C03_iterative_compiler_ignition :
  forall A (T : A -> A) bot cover depth, 1 <= cover -> cover + 3 <= depth ->
  iterative A T bot depth (ignition_of cover depth) = Some (Tn A T (S (Z.to_nat depth)) bot).
Proof. exact iterative_default_ignition. Qed.

(* depth above the threshold (iterative by default; 20 today): exact for covers of up to
   threshold - 2 predicates (compiler generated _MultBodyAggAux members included) *)
Theorem C03_iterative_above_threshold :
  forall A (T : A -> A) bot cover depth, iterative_threshold < depth -> 1 <= cover <= iterative_threshold - 2 ->
  iterative A T bot depth (ignition_of cover depth) = Some (Tn A T (S (Z.to_nat depth)) bot).
Proof. exact iterative_above_threshold. Qed.

(* the side condition is NOT guaranteed by the code: explicit small depth + iterative overshoots *)
Theorem C03_iterative_small_depth_refuted :
  exists cover depth, 1 <= cover /\ 0 <= depth /\
    iterative nat S O depth (ignition_of cover depth) <> Some (Tn nat S (S (Z.to_nat depth)) O).
Proof. exact iterative_small_depth_refuted. Qed.

Theorem C03_default_depth : default_depth = 8.
Proof. exact defaults. Qed.

(* ---- least fixpoint ---- *)
Theorem C03_iterate_below_lfp :
  forall (S : Type) (le : S -> S -> Prop), (forall a b c, le a b -> le b c -> le a c) ->
  forall bot, (forall a, le bot a) ->
  forall (I : Type) (T : st S I -> st S I), (forall x y, sle S le I x y -> sle S le I (T x) (T y)) ->
  forall x, closed S le I T x -> forall n, sle S le I (iterT S bot I T n) x.
Proof. exact iterate_below_closed. Qed.

Theorem C03_stationary_is_lfp :
  forall (S : Type) (le : S -> S -> Prop), (forall a b c, le a b -> le b c -> le a c) ->
  forall bot, (forall a, le bot a) ->
  forall (I : Type) (T : st S I -> st S I), (forall x y, sle S le I x y -> sle S le I (T x) (T y)) ->
  forall k, sle S le I (iterT S bot I T (Datatypes.S k)) (iterT S bot I T k) ->
  is_lfp S le I T (iterT S bot I T k).
Proof. exact stationary_is_lfp. Qed.

(* any update order made of n rounds, each recomputing every member at least once (vertical
   unfolding through a cut predicate, in-place plans, and trivially the simultaneous one) *)
Theorem C03_lfp_sandwich :
  forall (S : Type) (le : S -> S -> Prop), (forall a, le a a) -> (forall a b c, le a b -> le b c -> le a c) ->
  forall bot, (forall a, le bot a) ->
  forall (I : Type) (T : st S I -> st S I), (forall x y, sle S le I x y -> sle S le I (T x) (T y)) ->
  forall rs, Forall (covers I) rs ->
  sle S le I (iterT S bot I T (length rs)) (rounds S I T rs (bots S bot I)) /\
  (forall mu, closed S le I T mu -> sle S le I (rounds S I T rs (bots S bot I)) mu).
Proof. exact chaotic_between. Qed.

Theorem C03_equals_lfp_once_converged :
  forall (S : Type) (le : S -> S -> Prop), (forall a, le a a) -> (forall a b c, le a b -> le b c -> le a c) ->
  forall bot, (forall a, le bot a) ->
  forall (I : Type) (T : st S I -> st S I), (forall x y, sle S le I x y -> sle S le I (T x) (T y)) ->
  forall rs k, Forall (covers I) rs -> (k <= length rs)%nat ->
  sle S le I (iterT S bot I T (Datatypes.S k)) (iterT S bot I T k) ->
  sle S le I (iterT S bot I T k) (rounds S I T rs (bots S bot I)) /\
  sle S le I (rounds S I T rs (bots S bot I)) (iterT S bot I T k).
Proof. exact chaotic_reaches_lfp. Qed.

(* Non-vacuity: the counter of the docs (state = number of rows, T = successor).  Default depth 8
   gives 9 applications, depth 25 (iterative by itself) gives 26, and the refuted case gives 5. *)
Example ex_default : vertical nat S O default_depth = Some 9%nat.
Proof. vm_compute. reflexivity. Qed.
Example ex_iterative_25 : iterative nat S O 25 (ignition_of 1 25) = Some 26%nat.
Proof. vm_compute. reflexivity. Qed.
Example ex_hypotheses_satisfiable : 4 <= ignition_of 1 25 /\ ignition_of 1 25 <= 25 + 1 /\
                                    ignition_bump (ignition_of 1 25) 25 = false.
Proof. vm_compute. repeat split; congruence. Qed.
Example ex_overshoot : iterative nat S O 2 (ignition_of 1 2) = Some 5%nat.
Proof. exact iterative_small_depth_value. Qed.
(* a round that selects both of two components covers *)
Example ex_covers : covers bool [fun b => b; fun b => negb b].
Proof. intros [|]; [exists (fun b => b)|exists (fun b => negb b)]; simpl; auto. Qed.
