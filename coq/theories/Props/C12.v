(* C12 — imports isolate modules and mean the same as one flattened program.
   Only statements; every proof is `exact <lemma>`.  Model: Lex/Imports.v (the import driver of
   parser_py/parse.py ParseFile/ParseImport in the variants Py = parse.py, Cpp = logica_parse.cpp,
   Full = proposed repair of the prefix loop), tied to the code by props/c12.py.
   All theorems hold for every mode, every file system `fs : path -> option file`, every fuel. *)
From Coq Require Import List Bool NArith.
Import ListNotations.
From LV Require Import Lex.Imports Lex.ImportsProofs Lex.ImportsDriver.

(* A successful run: each file reachable through import statements is in the final state exactly
   once, none lies on a cycle, distinct files have distinct prefixes, every entry holds the rules of
   its file renamed by the file's renaming steps. *)
Theorem C12_each_file_once_acyclic_distinct_prefixes :
  forall m fs fuel mainf st pfm,
  parse_main_state m fs fuel mainf = Ok (st, pfm) ->
  NoDup (keys st) /\
  (forall p, In p (keys st) <-> from_imports fs (f_imports mainf) p) /\
  (forall p, In p (keys st) -> ~ reach fs p p) /\
  (forall p1 p2 pf1 pf2, In (p1, Some pf1) st -> In (p2, Some pf2) st ->
     pf_prefix pf1 = pf_prefix pf2 -> p1 = p2) /\
  (forall p x, In (p, x) st -> exists pf f, x = Some pf /\ fs p = Some f /\ is_main p = false /\
     pf_rules pf = apply_renames (file_renames st (pf_prefix pf) false f) (f_rules f)) /\
  pf_rules pfm = apply_renames (file_renames st [] true mainf) (f_rules mainf).
Proof. exact main_state_facts. Qed.

(* The result is main's rules followed by the rules of the entries; no predicate defined by an
   imported file is also defined by main (override check). *)
Theorem C12_result_is_concatenation :
  forall m fs fuel mainf R,
  parse_main m fs fuel mainf = Ok R ->
  exists st pfm, parse_main_state m fs fuel mainf = Ok (st, pfm) /\
    R = pf_rules pfm ++ rules_of_state st /\
    (forall p pf n, In (p, Some pf) st -> In n (defined (pf_rules pf)) -> is_at n = false ->
       ~ In n (defined (pf_rules pfm))).
Proof. exact main_result. Qed.

(* Flattening: when no renaming step captures the result of an earlier one, the result is the
   concatenation of every file's rules under one simultaneous substitution per file (own
   predicates -> prefix ++ name, imported names / aliases -> exporter's prefix ++ name). *)
Theorem C12_imports_are_flattening :
  forall m fs fuel mainf R,
  parse_main m fs fuel mainf = Ok R ->
  exists st pfm, parse_main_state m fs fuel mainf = Ok (st, pfm) /\
    (capture_free fs st mainf -> R = flat_spec fs st mainf).
Proof. exact flatten_equiv. Qed.

(* A reachable file on an import cycle: never accepted. *)
Theorem C12_cycle_rejected :
  forall m fs fuel mainf p,
  from_imports fs (f_imports mainf) p -> reach fs p p ->
  forall R, parse_main m fs fuel mainf <> Ok R.
Proof. exact cycle_rejected. Qed.

(* Accepted import statements name a predicate that the exporter defines or makes, and the
   imported name occurs in the importer at the moment it is resolved. *)
Theorem C12_imports_defined_and_used :
  forall m st imps rs rs',
  apply_imports m st imps rs = Ok rs' ->
  forall k i, nth_error imps k = Some i ->
  exists pf, done st (i_file i) pf /\
    (In (pf_prefix pf ++ i_pred i) (defined (pf_rules pf) ++ made (pf_rules pf)) \/
     (m = Cpp /\ In (i_pred i) (defined (pf_rules pf) ++ made (pf_rules pf)))) /\
    count_all (imported_as i) (apply_renames (import_renames st (firstn k imps)) rs) <> 0.
Proof. exact apply_imports_checks. Qed.

(* The prefix loop never returns a prefix that an already parsed file has. *)
Theorem C12_prefix_unique :
  forall m existing p q, file_prefix m existing p = Some q -> ~ In q existing.
Proof. exact file_prefix_fresh. Qed.

(* Lexical side condition (lexical_ok: no capital letter in any path component, base name starts
   with a lower-case letter): the loop's prefixes have exactly one capital letter ... *)
Theorem C12_prefix_shape :
  forall m existing p q,
  lexical_ok p = true -> file_prefix m existing p = Some q -> count_upper q = 1.
Proof. exact file_prefix_one_upper. Qed.

(* ... and prefixing names that start with a capital letter is then injective on (prefix, name). *)
Theorem C12_prefix_injective :
  forall p1 p2 n1 n2,
  count_upper p1 = count_upper p2 -> starts_upper n1 = true -> starts_upper n2 = true ->
  p1 ++ n1 = p2 ++ n2 -> p1 = p2 /\ n1 = n2.
Proof. exact prefix_injective. Qed.

(* Sequential RenamePredicate steps = one simultaneous substitution when nothing is captured;
   for the file's own predicates the iteration order of the set is then irrelevant. *)
Theorem C12_renaming_simultaneous :
  forall L rs, nocap L = true -> apply_renames L rs = map (subst_rule (first_match L)) rs.
Proof. exact apply_renames_simultaneous. Qed.

Theorem C12_own_renaming_order_irrelevant :
  forall pre os os' rs,
  (forall x, In x os <-> In x os') ->
  (forall o o', In o os -> In o' os -> pre ++ o <> o') ->
  apply_renames (map (fun o => (o, pre ++ o)) os) rs = apply_renames (map (fun o => (o, pre ++ o)) os') rs.
Proof. exact own_order_irrelevant. Qed.

(* parse.py as it is: a collision of capitalised base names can never be resolved. *)
Theorem C12_py_collision_refuted :
  forall existing p,
  file_prefix Py existing p =
  if mem (capitalize (last p []) ++ [underscore]) existing then None
  else Some (capitalize (last p []) ++ [underscore]).
Proof. exact py_loop_no_extension. Qed.

(* ---------- non-vacuity and the refutation witnesses (evaluated, not sampled) ---------- *)
Open Scope N_scope.
Definition s_util : name := [117; 116; 105; 108].
Definition s_d1 : name := [100; 49].
Definition s_d2 : name := [100; 50].
Definition s_x : name := [120].
Definition nF : name := [70].
Definition nG : name := [71].
Definition nH : name := [72; 101; 108; 112; 101; 114].   (* Helper *)
Definition nM : name := [77].
Definition mod_file (exported : name) : file :=
  mkFile [] [mkRule nH None []; mkRule exported None [nH]].
(* import <a>.util.F; import <b>.util.G; M(x) :- F(x), G(x) *)
Definition main_of (a b : path) : file :=
  mkFile [mkImport a nF None; mkImport b nG None] [mkRule nM None [nF; nG]].
Definition fs2 (a b : path) (p : path) : option file :=
  if path_eqb p a then Some (mod_file nF) else if path_eqb p b then Some (mod_file nG) else None.

(* two components, equal base names: neither parser accepts, the repaired loop does *)
Example ex_collision_py :
  parse_main Py (fs2 [s_d1; s_util] [s_d2; s_util]) 5 (main_of [s_d1; s_util] [s_d2; s_util]) = Err ECollision.
Proof. vm_compute. reflexivity. Qed.
Example ex_collision_cpp2 :
  parse_main Cpp (fs2 [s_d1; s_util] [s_d2; s_util]) 5 (main_of [s_d1; s_util] [s_d2; s_util]) = Err ECollision.
Proof. vm_compute. reflexivity. Qed.
Example ex_collision_full :
  parse_main Full (fs2 [s_d1; s_util] [s_d2; s_util]) 5 (main_of [s_d1; s_util] [s_d2; s_util]) =
  Ok [mkRule nM None [[85; 116; 105; 108; 95; 70]; [100; 50; 85; 116; 105; 108; 95; 71]];
      mkRule [85; 116; 105; 108; 95; 72; 101; 108; 112; 101; 114] None [];
      mkRule [85; 116; 105; 108; 95; 70] None [[85; 116; 105; 108; 95; 72; 101; 108; 112; 101; 114]];
      mkRule [100; 50; 85; 116; 105; 108; 95; 72; 101; 108; 112; 101; 114] None [];
      mkRule [100; 50; 85; 116; 105; 108; 95; 71] None [[100; 50; 85; 116; 105; 108; 95; 72; 101; 108; 112; 101; 114]]].
Proof. vm_compute. reflexivity. Qed.
(* three components: the C++ loop succeeds, parse.py still fails: the parsers disagree *)
Example ex_collision_cpp3 :
  exists R, parse_main Cpp (fs2 [s_x; s_d1; s_util] [s_x; s_d2; s_util]) 5
              (main_of [s_x; s_d1; s_util] [s_x; s_d2; s_util]) = Ok R.
Proof. eexists. vm_compute. reflexivity. Qed.
Example ex_collision_py3 :
  parse_main Py (fs2 [s_x; s_d1; s_util] [s_x; s_d2; s_util]) 5
    (main_of [s_x; s_d1; s_util] [s_x; s_d2; s_util]) = Err ECollision.
Proof. vm_compute. reflexivity. Qed.

(* capture: file `util` defines Q and Util_Q; the sequential renaming merges them *)
Definition nQ : name := [81].
Definition nUQ : name := [85; 116; 105; 108; 95; 81].
Example ex_capture :
  apply_renames (own_renames [85; 116; 105; 108; 95] [mkRule nQ None []; mkRule nUQ None []])
                [mkRule nQ None []; mkRule nUQ None []] =
  [mkRule [85; 116; 105; 108; 95; 85; 116; 105; 108; 95; 81] None [];
   mkRule [85; 116; 105; 108; 95; 85; 116; 105; 108; 95; 81] None []]
  /\ nocap (own_renames [85; 116; 105; 108; 95] [mkRule nQ None []; mkRule nUQ None []]) = false.
Proof. vm_compute. split; reflexivity. Qed.

(* a cycle a -> b -> a below main: rejected as a cycle *)
Definition s_a : name := [97].
Definition s_b : name := [98].
Definition fs_cyc (p : path) : option file :=
  if path_eqb p [s_a] then Some (mkFile [mkImport [s_b] nG None] [mkRule nF None [nG]])
  else if path_eqb p [s_b] then Some (mkFile [mkImport [s_a] nF None] [mkRule nG None [nF]])
  else None.
Example ex_cycle :
  parse_main Py fs_cyc 5 (mkFile [mkImport [s_a] nF None] [mkRule nM None [nF]]) = Err ECycle.
Proof. vm_compute. reflexivity. Qed.
Example ex_lexical : lexical_ok [s_x; s_d1; s_util] = true.
Proof. reflexivity. Qed.
