(* C02 — aggregation, distinct and negation follow the documented semantics.
   Statements only; about the reference evaluator Core/Eval.v (the oracle of props/c02.py):
   documented aggregates ignore null inputs, aggregate nothing to null, Sum is independent of the
   arrival order, a distinct predicate has pairwise different keys.  The compiler is tied per
   instance (SQLite rows vs eval_query), not proved. *)
From Coq Require Import List ZArith Permutation.
Import ListNotations.
From LV Require Import Core.Syntax Core.Eval Core.AggProofs.

Theorem C02_aggregates_ignore_null :
  forall op vals, documented op = true ->
  aggregate op vals = aggregate op (filter (fun v => negb (is_null v)) vals).
Proof. exact aggregate_ignores_null. Qed.

Theorem C02_aggregating_nothing_is_null :
  forall op vals, documented op = true -> forallb is_null vals = true -> aggregate op vals = Ok VNull.
Proof. exact aggregate_nothing_is_null. Qed.

Theorem C02_sum_independent_of_arrival_order :
  forall vals vals', all_int (filter (fun v => negb (is_null v)) vals) = true -> Permutation vals vals' ->
  aggregate ASum vals = aggregate ASum vals'.
Proof. exact sum_arrival_order. Qed.

Theorem C02_distinct_keys_pairwise_different :
  forall keyf pre, pairwise_distinct (keys_of keyf pre).
Proof. exact distinct_keys_once. Qed.

(* Non-vacuity and the documented examples: negation holds exactly when the body has no solution,
   an aggregating expression is evaluated per outer binding, nothing aggregates to null. *)
Definition f1 (z : Z) : rule := {| r_head := [(0, HExpr (EInt z))]; r_distinct := false; r_body := PAnd [] |}.
Definition prog : program :=
  [ {| p_name := 0; p_kind := KTable; p_rules := [f1 1; f1 2; f1 2] |};     (* T(1); T(2); T(2); *)
    {| p_name := 1; p_kind := KTable; p_rules := [f1 2] |};                 (* S(2); *)
    (* N(x) :- T(x), ~S(x); *)
    {| p_name := 2; p_kind := KTable; p_rules := [ {| r_head := [(0, HExpr (EVar 0))]; r_distinct := false;
         r_body := PAnd [PConj (CAtom 0 [(0, EVar 0)]); PConj (CNot [CAtom 1 [(0, EVar 0)]])] |} ] |};
    (* C(x, s) :- T(x), s == Sum{y :- T(y), y > x}; *)
    {| p_name := 3; p_kind := KTable; p_rules := [ {| r_head := [(0, HExpr (EVar 0)); (1, HExpr (EVar 1))]; r_distinct := false;
         r_body := PAnd [PConj (CAtom 0 [(0, EVar 0)]);
                         PConj (CUnify (EVar 1) (ECombine ASum (EVar 2) [CAtom 0 [(0, EVar 2)]; CCond (EBin OGt (EVar 2) (EVar 0))]))] |} ] |};
    (* A(x, n? += 1) distinct :- T(x); *)
    {| p_name := 4; p_kind := KTable; p_rules := [ {| r_head := [(0, HExpr (EVar 0)); (100, HAgg ASum (EInt 1))]; r_distinct := true;
         r_body := PConj (CAtom 0 [(0, EVar 0)]) |} ] |} ].
Example ex_negation : eval_query prog [] 2 = Ok [[(0, VInt 1)]].
Proof. vm_compute. reflexivity. Qed.
Example ex_combine_per_binding :
  eval_query prog [] 3 = Ok [[(0, VInt 1); (1, VInt 4)]; [(0, VInt 2); (1, VNull)]; [(0, VInt 2); (1, VNull)]].
Proof. vm_compute. reflexivity. Qed.
Example ex_distinct_groups : eval_query prog [] 4 = Ok [[(0, VInt 1); (100, VInt 1)]; [(0, VInt 2); (100, VInt 2)]].
Proof. vm_compute. reflexivity. Qed.
Example ex_documented : documented AList = true /\ all_int [VInt 1; VInt 2] = true.
Proof. split; reflexivity. Qed.
