(* C20 — built-in functions and aggregates on SQLite compute their documented meaning.
   Only statements; every proof is `exact <lemma>`.
   Model: Udf/ArgMinMax.v (ArgMin/ArgMax step/finalize, heapq), Udf/Aggregates.v (other UDFs),
   Udf/BuiltinSpec.v (Spec of the SQL-template built-ins: the model IS the spec there, no theorem).
   Tie: props/c20.py drives the Python classes/functions of common/sqlite3_logica.py directly and
   the whole pipeline on SQLite, and compares inside Coq (Udf/UdfCheck.v, BuiltinSpec.judge_op, judge_agg).

   The ArgMin theorems hold for EVERY pair of heap operations meeting [heap_contract] (what the
   code uses of heapq) and every total order of values / args; ArgMax is the instance at the
   flipped orders (argmax_cpy = argmin_cpy (flip vle) (flip gle)). *)
From Coq Require Import List Bool ZArith Permutation.
Import ListNotations.
From LV Require Import Udf.ArgMinMax Udf.ArgMinMaxProofs Udf.Aggregates Udf.AggregatesProofs
  Udf.BuiltinSpec Udf.HeapProofs.

(* For every arrival sequence and K >= 1 (values of one kind): no exception; min(K,n) rows are
   kept; kept and discarded rows split the input and every kept value <= every discarded value. *)
Theorem C20_argmin_keeps_k_best :
  forall V G (vle : V -> V -> bool) (gle : G -> G -> bool) kind hfy hrep,
  total_order vle -> total_order gle -> heap_contract vle gle hfy hrep ->
  forall K l, (1 <= K)%Z -> same_kind V G kind l ->
  exists st D, run vle kind hfy hrep (with_limit (Some K) l) = Ok st /\
    Permutation l (st ++ D) /\
    (forall d m, In d D -> In m st -> vle (fst m) (fst d) = true) /\
    length st = Nat.min (Z.to_nat K) (length l).
Proof. exact p_argmin_split. Qed.

(* the values of the result are the K smallest values of the input bag, ascending *)
Theorem C20_argmin_values_are_k_smallest :
  forall V G (vle : V -> V -> bool) (gle : G -> G -> bool) kind hfy hrep,
  total_order vle -> total_order gle -> heap_contract vle gle hfy hrep ->
  forall K l, (1 <= K)%Z -> same_kind V G kind l ->
  exists st, run vle kind hfy hrep (with_limit (Some K) l) = Ok st /\
    map fst (isort (ple vle gle) st) = firstn (Z.to_nat K) (isort vle (map fst l)).
Proof. exact p_argmin_values. Qed.

(* pairwise distinct values: the output is exactly the args of the K smallest, in value order *)
Theorem C20_argmin_distinct_values_exact :
  forall V G (vle : V -> V -> bool) (gle : G -> G -> bool) kind hfy hrep,
  total_order vle -> total_order gle -> heap_contract vle gle hfy hrep ->
  forall K l, (1 <= K)%Z -> same_kind V G kind l -> NoDup (map fst l) ->
  agg vle gle kind hfy hrep (Some K) l = Ok (map snd (firstn (Z.to_nat K) (isort (ple vle gle) l))).
Proof. exact p_argmin_distinct. Qed.

(* arrival order: result values never depend on it; with distinct values nothing does; a kept row
   strictly better than another kept row is kept under every arrival order (tie class only) *)
Theorem C20_argmin_arrival_order :
  forall V G (vle : V -> V -> bool) (gle : G -> G -> bool) kind hfy hrep,
  total_order vle -> total_order gle -> heap_contract vle gle hfy hrep ->
  forall K l l', (1 <= K)%Z -> same_kind V G kind l -> Permutation l l' ->
  exists st st', run vle kind hfy hrep (with_limit (Some K) l) = Ok st /\
    run vle kind hfy hrep (with_limit (Some K) l') = Ok st' /\
    map fst (isort (ple vle gle) st) = map fst (isort (ple vle gle) st') /\
    (NoDup (map fst l) -> finalize vle gle st = finalize vle gle st') /\
    (forall x m, In x st -> In m st -> vlt vle (fst x) (fst m) = true -> In x st').
Proof. exact p_argmin_perm. Qed.

(* ArgMax (min-heap, `result[0][0] < value`, reversed(sorted)) read off the same theorems at the
   flipped orders: the K largest values, descending *)
Theorem C20_argmax_values_are_k_largest :
  forall V G (vle : V -> V -> bool) (gle : G -> G -> bool) kind hfy hrep,
  total_order vle -> total_order gle -> heap_contract (flip vle) (flip gle) hfy hrep ->
  forall K l, (1 <= K)%Z -> same_kind V G kind l ->
  exists st, run (flip vle) kind hfy hrep (with_limit (Some K) l) = Ok st /\
    map fst (isort (ple (flip vle) (flip gle)) st) =
    firstn (Z.to_nat K) (isort (flip vle) (map fst l)).
Proof.
  exact (fun V G vle gle kind hfy hrep Hv Hg =>
           p_argmin_values V G (flip vle) (flip gle) kind hfy hrep
             (flip_total_order vle Hv) (flip_total_order gle Hg)).
Qed.

(* limit None (used by Array=): the output is the args sorted by (value, arg) *)
Theorem C20_argmin_unlimited_is_sort :
  forall V G (vle : V -> V -> bool) (gle : G -> G -> bool) kind hfy hrep l,
  (forall x y, In x l -> In y l -> kind (fst x) = kind (fst y)) ->
  agg vle gle kind hfy hrep None l = Ok (map snd (isort (ple vle gle) l)).
Proof. exact argmin_unlimited_is_sort. Qed.

(* the model of CPython's heapq (_siftup_max/_siftdown_max/_heapify_max/_heapreplace_max on
   arrays) meets the contract, hence all of the above hold for argmin_cpy / argmax_cpy *)
Theorem C20_cpython_heap_meets_contract :
  forall V G (vle : V -> V -> bool) (gle : G -> G -> bool),
  total_order vle -> total_order gle ->
  heap_contract vle gle (cpy_heapify_max (ple vle gle)) (cpy_heapreplace_max (ple vle gle)).
Proof. exact @cpy_contract. Qed.

(* ... in particular, for the concrete models tied to the code (CPython heap; ArgMax = flipped) *)
Theorem C20_argmin_cpython_distinct_values_exact :
  forall V G (vle : V -> V -> bool) (gle : G -> G -> bool) kind,
  total_order vle -> total_order gle ->
  forall K l, (1 <= K)%Z -> same_kind V G kind l -> NoDup (map fst l) ->
  argmin_cpy vle gle kind (Some K) l = Ok (map snd (firstn (Z.to_nat K) (isort (ple vle gle) l))).
Proof. exact @argmin_cpy_distinct. Qed.

Theorem C20_argmax_cpython_distinct_values_exact :
  forall V G (vle : V -> V -> bool) (gle : G -> G -> bool) kind,
  total_order vle -> total_order gle ->
  forall K l, (1 <= K)%Z -> same_kind V G kind l -> NoDup (map fst l) ->
  argmax_cpy vle gle kind (Some K) l =
  Ok (map snd (firstn (Z.to_nat K) (isort (ple (flip vle) (flip gle)) l))).
Proof. exact @argmax_cpy_distinct. Qed.

(* so does the reference implementation "keep the list sorted descending" *)
Theorem C20_reference_heap_meets_contract :
  forall V G (vle : V -> V -> bool) (gle : G -> G -> bool),
  total_order vle -> total_order gle ->
  heap_contract vle gle (ref_heapify_max (ple vle gle)) (ref_heapreplace_max (ple vle gle)).
Proof. exact @ref_contract. Qed.

(* ---- the other UDFs ---- *)
Theorem C20_array_concat_agg_ignores_null :
  forall X (rows : list (option (list X))),
  array_concat_agg rows = concat (somes X rows) /\
  forall r1 r2 : list (option (list X)),
    array_concat_agg (r1 ++ None :: r2) = array_concat_agg (r1 ++ r2).
Proof. exact array_concat_agg_ignores_null. Qed.

Theorem C20_set_agg_is_the_set_of_inputs :
  forall X (eqb : X -> X -> bool), (forall a b, eqb a b = true <-> a = b) ->
  forall rows, NoDup (distinct_list_agg eqb rows) /\
               forall x, In x (distinct_list_agg eqb rows) <-> In x rows.
Proof. exact set_agg_is_set. Qed.

Theorem C20_set_agg_arrival_order :
  forall X (eqb : X -> X -> bool), (forall a b, eqb a b = true <-> a = b) ->
  forall rows rows', Permutation rows rows' ->
  Permutation (distinct_list_agg eqb rows) (distinct_list_agg eqb rows').
Proof. exact set_agg_perm. Qed.

Theorem C20_sortlist_sorted_permutation :
  forall X (le : X -> X -> bool),
  (forall a b, le a b = true \/ le b a = true) ->
  (forall a b c, le a b = true -> le b c = true -> le a c = true) ->
  (forall a b, le a b = true -> le b a = true -> a = b) ->
  forall l, sorted le (sort_list le l) /\ Permutation (sort_list le l) l /\
            forall l', Permutation l l' -> sort_list le l' = sort_list le l.
Proof. exact sortlist_sorted_perm. Qed.

Theorem C20_in_list_is_membership :
  forall X (eqb : X -> X -> bool), (forall a b, eqb a b = true <-> a = b) ->
  forall x l, in_list eqb x l = true <-> In x l.
Proof. exact in_list_iff. Qed.

Theorem C20_take_first_returns_an_input :
  forall X (truthy : X -> bool) rows,
  take_first truthy rows = None \/ In (take_first truthy rows) rows.
Proof. exact take_first_member. Qed.

(* Sum, Min, Max, Avg, Count, Set of the Spec are functions of the bag of rows *)
Theorem C20_bag_aggregates_arrival_order :
  forall rows rows', Permutation rows rows' ->
  spec_agg ASum rows = spec_agg ASum rows' /\ spec_agg AMin rows = spec_agg AMin rows' /\
  spec_agg AMax rows = spec_agg AMax rows' /\ spec_agg AAvg rows = spec_agg AAvg rows' /\
  spec_agg ACount rows = spec_agg ACount rows' /\ spec_agg ASet rows = spec_agg ASet rows'.
Proof. exact bag_aggregates_perm. Qed.

(* ---- non-vacuity ---- *)
Example ex_orders : total_order Z.leb /\ total_order (flip Z.leb).
Proof. split; [exact Z_total_order|exact (flip_total_order _ Z_total_order)]. Qed.
Example ex_scalar_order : total_order sle.    (* numbers and strings as used by the tie *)
Proof. exact sle_total_order. Qed.
Example ex_argmin : argminZ (Some 2%Z) [(3, 1); (1, 2); (1, 3); (2, 4)]%Z = Ok [2; 3]%Z.
Proof. reflexivity. Qed.
Example ex_argmin_tie_other_order : argminZ (Some 1%Z) [(1, 3); (1, 2)]%Z = Ok [3]%Z /\
                                    argminZ (Some 1%Z) [(1, 2); (1, 3)]%Z = Ok [2]%Z.
Proof. split; reflexivity. Qed.
Example ex_argmax : argmaxZ (Some 3%Z) [(3, 1); (1, 2); (1, 3); (2, 4)]%Z = Ok [1; 4; 3]%Z.
Proof. reflexivity. Qed.
Example ex_same_kind : same_kind Z Z zkind [(3, 1); (1, 2)]%Z.
Proof. intros x y _ _. reflexivity. Qed.
Example ex_limit_error : argminZ (Some 0%Z) [(3, 1)]%Z = ErrLimit.
Proof. reflexivity. Qed.
Example ex_set : distinct_list_agg Z.eqb [0; 8; 0]%Z = [0; 8]%Z.
Proof. reflexivity. Qed.
Example ex_spec_range : spec ORange [VInt 3] = VList [VInt 0; VInt 1; VInt 2] /\
                        spec ORange [VInt 0] = VList [] /\
                        spec OElement [VList [VInt 5; VInt 6]; VInt 2] = VNull /\
                        spec ODiv [VInt 7; VInt 0] = VNull.
Proof. repeat split; reflexivity. Qed.
