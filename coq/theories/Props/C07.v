(* C07 — results do not depend on the textual order or naming used in a program.
   Statements only; about the reference evaluator (the oracle every permuted / renamed program text is
   compared with on SQLite by props/c07.py): the order of rules and of disjuncts only permutes the
   bag, Sum does not depend on arrival order, distinct keys are pairwise different whatever the
   arrival order.  Order independence of the COMPILER (ElliminateInternalVariables etc.) is decided per
   instance by the metamorphic run, not proved. *)
From Coq Require Import List ZArith Permutation.
Import ListNotations.
From LV Require Import Core.Syntax Core.Eval Core.EvalProofs Core.AggProofs.

Theorem C07_rule_order :
  forall P D n k rs rs', plain rs -> Permutation rs rs' ->
  match eval_pdef P D {| p_name := n; p_kind := k; p_rules := rs |},
        eval_pdef P D {| p_name := n; p_kind := k; p_rules := rs' |} with
  | Ok a, Ok b => Permutation a b
  | Fail _, Fail _ => True
  | _, _ => False
  end.
Proof. exact eval_pdef_rule_order. Qed.

Theorem C07_disjunct_order :
  forall P D h dis ps ps', Permutation ps ps' ->
  match eval_rule P D {| r_head := h; r_distinct := dis; r_body := POr ps |},
        eval_rule P D {| r_head := h; r_distinct := dis; r_body := POr ps' |} with
  | Ok a, Ok b => Permutation a b
  | Fail _, Fail _ => True
  | _, _ => False
  end.
Proof. exact eval_rule_disjunct_order. Qed.

Theorem C07_sum_arrival_order :
  forall vals vals', all_int (filter (fun v => negb (is_null v)) vals) = true -> Permutation vals vals' ->
  aggregate ASum vals = aggregate ASum vals'.
Proof. exact sum_arrival_order. Qed.

Theorem C07_null_inputs_never_matter :
  forall op vals, documented op = true ->
  aggregate op vals = aggregate op (filter (fun v => negb (is_null v)) vals).
Proof. exact aggregate_ignores_null. Qed.

Example ex_perm : Permutation [PConj (CCond (EInt 1)); PConj (CCond (EInt 0))]
                              [PConj (CCond (EInt 0)); PConj (CCond (EInt 1))].
Proof. apply perm_swap. Qed.
