(* C07 — results do not depend on the textual order or naming used in a program.
   Statements only; about the reference evaluator (the oracle every permuted / renamed program text is
   compared with on SQLite by props/c07.py): the order of rules and of disjuncts only permutes the
   bag, Sum does not depend on arrival order, distinct keys are pairwise different whatever the
   arrival order.  Order independence of the COMPILER (ElliminateInternalVariables etc.) is decided per
   instance by the metamorphic run, not proved. *)
From Coq Require Import List ZArith Permutation.
Import ListNotations.
From LV Require Import Core.Syntax Core.Eval Core.EvalProofs Core.AggProofs.

Theorem C07_rule_order :
  forall P D n k rs rs', plain rs -> Permutation rs rs' ->
  match eval_pdef P D {| p_name := n; p_kind := k; p_rules := rs |},
        eval_pdef P D {| p_name := n; p_kind := k; p_rules := rs' |} with
  | Ok a, Ok b => Permutation a b
  | Fail _, Fail _ => True
  | _, _ => False
  end.
Proof. exact eval_pdef_rule_order. Qed.

Theorem C07_disjunct_order :
  forall P D h dis ps ps', Permutation ps ps' ->
  match eval_rule P D {| r_head := h; r_distinct := dis; r_body := POr ps |},
        eval_rule P D {| r_head := h; r_distinct := dis; r_body := POr ps' |} with
  | Ok a, Ok b => Permutation a b
  | Fail _, Fail _ => True
  | _, _ => False
  end.
Proof. exact eval_rule_disjunct_order. Qed.

Theorem C07_sum_arrival_order :
  forall vals vals', all_int (filter (fun v => negb (is_null v)) vals) = true -> Permutation vals vals' ->
  aggregate ASum vals = aggregate ASum vals'.
Proof. exact sum_arrival_order. Qed.

Theorem C07_min_max_arrival_order :
  forall op vals vals', op = AMin \/ op = AMax ->
  all_int (filter (fun v => negb (is_null v)) vals) = true -> Permutation vals vals' ->
  aggregate op vals = aggregate op vals'.
Proof. exact min_max_arrival_order. Qed.

Theorem C07_count_list_set_arrival_order :
  forall op vals vals', op = ACount \/ op = AList \/ op = ASet ->
  all_int (filter (fun v => negb (is_null v)) vals) = true -> Permutation vals vals' ->
  aggregate op vals = aggregate op vals'.
Proof. exact count_list_set_arrival_order. Qed.

(* ArgMin / ArgMax: without ties among the (integer) values the chosen argument is order independent;
   the choice among tied candidates is outside the property. *)
Theorem C07_argmin_argmax_arrival_order_without_ties :
  forall want_lt vals vals',
  all_int (map snd (arg_pairs vals)) = true ->
  NoDup (map (fun p => zof (snd p)) (arg_pairs vals)) ->
  Permutation vals vals' ->
  arg_ext want_lt vals = arg_ext want_lt vals'.
Proof. exact argmin_argmax_arrival_order. Qed.

Theorem C07_null_inputs_never_matter :
  forall op vals, documented op = true ->
  aggregate op vals = aggregate op (filter (fun v => negb (is_null v)) vals).
Proof. exact aggregate_ignores_null. Qed.

Example ex_perm : Permutation [PConj (CCond (EInt 1)); PConj (CCond (EInt 0))]
                              [PConj (CCond (EInt 0)); PConj (CCond (EInt 1))].
Proof. apply perm_swap. Qed.

(* order-driven elimination of internal variables (model Core/Elim.v, tied to rule_translate by props/c01.py):
   when the loop succeeds on two orderings of the same unifications and constraints, the two final
   SELECT/WHERE structures accept the same row choices with the same head values (non-null joins).
   Whether the loop SUCCEEDS may depend on the order - that is the known finding of this property. *)
From LV Require Import Core.Elim Core.ElimProofs.

Theorem C07_elimination_orders_agree :
  forall app is_x E s t s' t',
  same_structure s t ->
  eliminate is_x E s = Some (inr s') -> eliminate is_x E t = Some (inr t') ->
  forall rho, solves app rho s' ->
  (forall sg t1 l r, represents app E t t1 -> In (l, r) (unifs t1) -> peval app sg l <> VNull) ->
  solves app rho t' /\ output app rho t' = output app rho s'.
Proof. exact elimination_orders_agree. Qed.

(* and the order dependence of SUCCESS exists in the model exactly as in the code: the two orders of
   { c == x, x == y } with y extracted, c and x internal user variables ... both succeed here; the witness
   of failure needs a combine and is replayed on the implementation (known_findings.json, C07). *)
Example ex_same_structure :
  same_structure {| sel := [(0, PVar 1)]; unifs := [(PVar 1, PVar 0); (PVar 0, PVar 1000)]; cons := [] |}
                 {| sel := [(0, PVar 1)]; unifs := [(PVar 0, PVar 1000); (PVar 1, PVar 0)]; cons := [] |}.
Proof. split; [reflexivity|]. split; [apply perm_swap | apply perm_nil]. Qed.

(* the order of the UNNEST items of the emitted FROM list (model Core/Unnest.v of SortUnnestings, tied by
   props/unnesttie.py) does not depend on the order in which the `in` conjuncts were written *)
From LV Require Import Core.Unnest Core.UnnestOrder.

Theorem C07_from_order_independent_of_conjunct_order :
  forall us us', NoDup (map fst us) -> Permutation us us' -> sort_unnestings us = sort_unnestings us'.
Proof. exact sort_order_independent. Qed.
