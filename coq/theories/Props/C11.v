(* C11 — documented shorthand forms mean the same as their long forms.
   Statements only; about the reference evaluator: several rules = one rule with `|`, a disjunction
   adds the bags of its alternatives (so `x in [a, b]` read as two alternatives is the sum of two
   bodies), `A, (B | C)` = `A, B | A, C`.  The parser's rewrites of the other shorthands are decided
   per instance by props/c11.py (each form printed from the same AST, SQLite rows compared). *)
From Coq Require Import List ZArith Permutation.
Import ListNotations.
From LV Require Import Core.Syntax Core.Eval Core.EvalProofs.

Theorem C11_rules_equal_disjunction :
  forall P D n k h b1 b2,
  eval_pdef P D {| p_name := n; p_kind := k;
                   p_rules := [ {| r_head := h; r_distinct := false; r_body := b1 |};
                                {| r_head := h; r_distinct := false; r_body := b2 |} ] |} =
  eval_pdef P D {| p_name := n; p_kind := k;
                   p_rules := [ {| r_head := h; r_distinct := false; r_body := POr [b1; b2] |} ] |}.
Proof. exact rules_as_disjunction. Qed.

Theorem C11_alternatives_add :
  forall P D h dis b1 b2,
  eval_rule P D {| r_head := h; r_distinct := dis; r_body := POr [b1; b2] |} =
  bind (eval_rule P D {| r_head := h; r_distinct := dis; r_body := b1 |}) (fun r1 =>
  bind (eval_rule P D {| r_head := h; r_distinct := dis; r_body := b2 |}) (fun r2 => Ok (r1 ++ r2))).
Proof. exact eval_rule_disjunction. Qed.

Theorem C11_conjunction_distributes_over_alternatives :
  forall p q1 q2, Permutation (dnf (PAnd [p; POr [q1; q2]])) (dnf (POr [PAnd [p; q1]; PAnd [p; q2]])).
Proof. exact dnf_distributes. Qed.

(* `x in [1, 2]` and `(x == 1 | x == 2)` have the same bag (instance, evaluated) *)
Definition in_form : rule :=
  {| r_head := [(0, HExpr (EVar 0))]; r_distinct := false;
     r_body := PConj (CIn (EVar 0) (EList [EInt 1; EInt 2])) |}.
Definition alt_form : rule :=
  {| r_head := [(0, HExpr (EVar 0))]; r_distinct := false;
     r_body := POr [PConj (CUnify (EVar 0) (EInt 1)); PConj (CUnify (EVar 0) (EInt 2))] |}.
Example ex_in_two_alternatives : eval_rule [] [] in_form = eval_rule [] [] alt_form.
Proof. vm_compute. reflexivity. Qed.
