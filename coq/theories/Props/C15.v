(* C15 — layout, comments and string contents never change what is parsed (lexical layer).
   Only statements; every proof is `exact <lemma>`.  Models: Lex/Traverse.v (Traverse,
   RemoveComments, IsWhole), Lex/Split.v (StripSpaces, Strip, SplitRaw, Split), Lex/Span.v
   (HeritageAwareString), tied to parser_py/parse.py by the correspondence run of props/c15.py.
   [ann k s] is what Traverse yields for every character of s when started in configuration k;
   [Run [] st] is the configuration with bracket/mode stack st (top first). *)
From Coq Require Import List Bool Arith NArith ZArith Lia.
Import ListNotations.
From LV Require Import Lex.Traverse Lex.TraverseProofs Lex.Split Lex.SplitProofs Lex.Span Lex.SpanProofs.

(* --- comments --- *)
Theorem C15_block_comment_transparent : forall st body rest,
  code_state st = true -> no_close body = true ->
  ann (Run [] st) (ch_slash :: ch_star :: body ++ ch_star :: ch_slash :: rest) =
  repeat ASilent (length body + 4) ++ ann (Run [] st) rest.
Proof. exact block_comment_transparent. Qed.

Theorem C15_line_comment_transparent : forall st body rest,
  code_state st = true -> no_char ch_nl body = true ->
  ann (Run [] st) (ch_hash :: body ++ ch_nl :: rest) =
  repeat ASilent (S (length body)) ++ AOk st :: ann (Run [] st) rest.
Proof. exact line_comment_transparent. Qed.

Theorem C15_line_comment_at_end_of_text : forall st body,
  code_state st = true -> no_char ch_nl body = true ->
  ann (Run [] st) (ch_hash :: body) = repeat ASilent (S (length body)).
Proof. exact line_comment_at_eof. Qed.

Theorem C15_remove_comments_block : forall st body rest,
  code_state st = true -> no_close body = true ->
  vis (Run [] st) (ch_slash :: ch_star :: body ++ ch_star :: ch_slash :: rest) = vis (Run [] st) rest.
Proof. exact remove_comments_block. Qed.

Theorem C15_remove_comments_line : forall st body rest,
  code_state st = true -> no_char ch_nl body = true ->
  vis (Run [] st) (ch_hash :: body ++ ch_nl :: rest) = option_map (cons ch_nl) (vis (Run [] st) rest).
Proof. exact remove_comments_line. Qed.

(* --- string literals: every character inside keeps the quote on top of the stack (so the
   state is never empty: no split point, no bracket counted, no comment opened) and the
   scanner continues after the literal exactly as it would without it --- *)
Theorem C15_string_opaque_double_quote : forall st body rest,
  code_state st = true -> no_char ch_dq body = true -> no_char ch_nl body = true ->
  not_triple body rest ->
  ann (Run [] st) (ch_dq :: body ++ ch_dq :: rest) =
  repeat (AOk (ch_dq :: st)) (S (length body)) ++ AOk st :: ann (Run [] st) rest.
Proof. exact string_opaque_dq. Qed.

Theorem C15_string_opaque_backtick : forall st body rest,
  code_state st = true -> no_char ch_bt body = true ->
  ann (Run [] st) (ch_bt :: body ++ ch_bt :: rest) =
  repeat (AOk (ch_bt :: st)) (S (length body)) ++ AOk st :: ann (Run [] st) rest.
Proof. exact string_opaque_backtick. Qed.

(* single quotes: only for bodies without backslash (see C15_single_quote_escape_leaks) *)
Theorem C15_string_opaque_single_quote_partial : forall st body rest,
  code_state st = true -> no_char ch_sq body = true -> no_char ch_bs body = true ->
  ann (Run [] st) (ch_sq :: body ++ ch_sq :: rest) =
  repeat (AOk (ch_sq :: st)) (S (length body)) ++ AOk st :: ann (Run [] st) rest.
Proof. exact string_opaque_sq. Qed.

Theorem C15_string_opaque_triple_quote : forall st body rest,
  code_state st = true -> no_char ch_dq body = true ->
  ann (Run [] st) (ch_dq :: ch_dq :: ch_dq :: body ++ ch_dq :: ch_dq :: ch_dq :: rest) =
  repeat (AOk (ch_3 :: st)) (length body + 3) ++ repeat (AOk st) 3 ++ ann (Run [] st) rest.
Proof. exact string_opaque_triple. Qed.

Theorem C15_split_swallows_string : forall sep c0 tl0, sep = c0 :: tl0 -> ceq c0 ch_dq = false ->
  forall body st prev idx pstart cur rest,
  code_state st = true -> no_char ch_dq body = true -> no_char ch_nl body = true ->
  not_triple body rest ->
  sgo sep (Run [] st) prev 0 idx pstart cur (ch_dq :: body ++ ch_dq :: rest) =
  sgo sep (Run [] st) (Some ch_dq) 0 (idx + length body + 2) pstart
      (ch_dq :: rev body ++ ch_dq :: cur) rest.
Proof. exact split_swallows_dq. Qed.

(* --- splitting and stripping --- *)
Theorem C15_split_join : forall sep c0 tl0 s ps,
  sep = c0 :: tl0 -> ceq c0 ch_dq = false -> forallb plain tl0 = true ->
  split_raw sep s = SParts ps -> join sep (map txt ps) = s.
Proof. exact split_join. Qed.

Theorem C15_strip_parens : forall s, is_whole s = true -> strip (ch_lp :: s ++ [ch_rp]) = strip s.
Proof. exact strip_parens. Qed.

Theorem C15_strip_keeps_unbalanced_parens : forall s, is_whole s = false ->
  strip (ch_lp :: s ++ [ch_rp]) = ch_lp :: s ++ [ch_rp].
Proof. exact strip_keeps_unbalanced_parens. Qed.

Theorem C15_strip_white_space : forall w1 s w2,
  forallb is_space w1 = true -> forallb is_space w2 = true -> strip (w1 ++ s ++ w2) = strip s.
Proof. exact strip_ws. Qed.

(* --- spans --- *)
Theorem C15_split_parts_are_exact_spans : forall sep s ps,
  split_raw sep s = SParts ps -> Forall (part_exact s) ps.
Proof. exact split_raw_spans. Qed.

Theorem C15_strip_span_exact : forall s a b, strip_off s = (a, b) ->
  a <= b /\ b <= length s /\ strip s = sub s a b.
Proof. exact strip_span_exact. Qed.

Theorem C15_slice_span_exact : forall h a b,
  wf h -> (0 <= a)%Z -> (a <= norm_stop (zlen (h_text h)) b)%Z ->
  wf (get_slice h a b) /\
  h_text (get_slice h a b) = sub (h_text h) (Z.to_nat a) (Z.to_nat (norm_stop (zlen (h_text h)) b)).
Proof. exact get_slice_exact. Qed.

Theorem C15_split_parts_heritage_exact : forall h sep ps,
  wf h -> split_raw sep (h_text h) = SParts ps ->
  Forall (fun p => wf (part_slice h p) /\ h_text (part_slice h p) = txt p) ps.
Proof. exact split_raw_parts_exact. Qed.

(* the model says: GetSlice with a negative start does not give an exact span (parse.py uses
   such slices for comparisons only; the harness checks every span that reaches a tree) *)
Theorem C15_negative_start_slice_refuted :
  exists h a b, wf h /\ (a < 0)%Z /\ ~ wf (get_slice h a b).
Proof. exact get_slice_negative_start_not_exact. Qed.

(* --- non-vacuity / witnesses --- *)
Definition s_of (l : list nat) : str := map N.of_nat l.
(* a /* ) */ b  : the bracket inside the comment is not seen *)
Example ex_comment : is_whole (s_of [97; 47; 42; 41; 42; 47; 98]) = true.
Proof. reflexivity. Qed.
(* P("a,b;(", c) split on the comma: two parts, the separator inside the literal is not one *)
Example ex_split :
  split_raw [44%N] (s_of [34; 97; 44; 98; 59; 40; 34; 44; 99]) =
  SParts [(0, 7, s_of [34; 97; 44; 98; 59; 40; 34]); (8, 9, s_of [99])].
Proof. reflexivity. Qed.
(* the single-quote escape quirk of the scanner, as modelled: in '\(' the bracket is counted *)
Example C15_single_quote_escape_leaks : is_whole (s_of [39; 92; 40; 39]) = false.
Proof. reflexivity. Qed.
Example ex_strip : strip (s_of [32; 40; 40; 97; 41; 32; 41; 10]) = s_of [97].
Proof. reflexivity. Qed.
