(* C01 — compiled SQL returns exactly the multiset the program denotes.
   Statements only.  The theorems are about the reference evaluator Core/Eval.v (the documented bag
   semantics the SQLite results are compared with on every run by props/c01.py): disjunction and
   several rules ADD multiplicities, the distributive law behind the parser's DNF rewrite holds for
   bags, rule order is immaterial.  The compiler itself is tied per instance (rows on SQLite vs.
   eval_query), not proved. *)
From Coq Require Import List ZArith Permutation.
Import ListNotations.
From LV Require Import Core.Syntax Core.Eval Core.EvalProofs.

Theorem C01_disjunction_adds_multiplicities :
  forall P D h dis b1 b2,
  eval_rule P D {| r_head := h; r_distinct := dis; r_body := POr [b1; b2] |} =
  bind (eval_rule P D {| r_head := h; r_distinct := dis; r_body := b1 |}) (fun r1 =>
  bind (eval_rule P D {| r_head := h; r_distinct := dis; r_body := b2 |}) (fun r2 => Ok (r1 ++ r2))).
Proof. exact eval_rule_disjunction. Qed.

Theorem C01_rules_add_multiplicities :
  forall P D n k rs1 rs2, plain rs1 -> plain rs2 ->
  eval_pdef P D {| p_name := n; p_kind := k; p_rules := rs1 ++ rs2 |} =
  bind (eval_pdef P D {| p_name := n; p_kind := k; p_rules := rs1 |}) (fun a =>
  bind (eval_pdef P D {| p_name := n; p_kind := k; p_rules := rs2 |}) (fun b => Ok (a ++ b))).
Proof. exact eval_pdef_rules_add. Qed.

Theorem C01_dnf_distributes :
  forall p q1 q2,
  Permutation (dnf (PAnd [p; POr [q1; q2]])) (dnf (POr [PAnd [p; q1]; PAnd [p; q2]])).
Proof. exact dnf_distributes. Qed.

Theorem C01_rule_order_immaterial :
  forall P D n k rs rs', plain rs -> Permutation rs rs' ->
  match eval_pdef P D {| p_name := n; p_kind := k; p_rules := rs |},
        eval_pdef P D {| p_name := n; p_kind := k; p_rules := rs' |} with
  | Ok a, Ok b => Permutation a b
  | Fail _, Fail _ => True
  | _, _ => False
  end.
Proof. exact eval_pdef_rule_order. Qed.

(* Non-vacuity: the programs of docs/learn/logica.md "Multiset Semantics" evaluate to the documented bags. *)
Definition fact (v : list nat) : rule :=
  {| r_head := [(0, HExpr (EStr v))]; r_distinct := false; r_body := PAnd [] |}.
Definition apple := [97; 112]%nat. Definition banana := [98; 97]%nat. Definition orange := [111; 114]%nat.
Definition doc_program : program :=
  [ {| p_name := 0; p_kind := KTable; p_rules := [fact apple; fact banana] |};          (* MyFruit *)
    {| p_name := 1; p_kind := KTable; p_rules := [fact apple; fact orange] |};          (* YourFruit *)
    {| p_name := 2; p_kind := KTable;                                                    (* OurFruit(x) :- MyFruit(x) | YourFruit(x) *)
       p_rules := [ {| r_head := [(0, HExpr (EVar 0))]; r_distinct := false;
                       r_body := POr [PConj (CAtom 0 [(0, EVar 0)]); PConj (CAtom 1 [(0, EVar 0)])] |} ] |};
    {| p_name := 3; p_kind := KTable;                                                    (* Both(x) :- MyFruit(x), YourFruit(x) *)
       p_rules := [ {| r_head := [(0, HExpr (EVar 0))]; r_distinct := false;
                       r_body := PAnd [PConj (CAtom 0 [(0, EVar 0)]); PConj (CAtom 1 [(0, EVar 0)])] |} ] |} ].
Example doc_disjunction :
  eval_query doc_program [] 2 =
  Ok [[(0, VStr apple)]; [(0, VStr banana)]; [(0, VStr apple)]; [(0, VStr orange)]].
Proof. vm_compute. reflexivity. Qed.
Example doc_conjunction : eval_query doc_program [] 3 = Ok [[(0, VStr apple)]].
Proof. vm_compute. reflexivity. Qed.
Example plain_holds : plain (p_rules (nth 2 doc_program {| p_name := 0; p_kind := KTable; p_rules := [] |})).
Proof. intros r [E|[]]. subst. split; reflexivity. Qed.

(* ---- the compiler's variable elimination (model Core/Elim.v, tied to
   RuleStructure.ElliminateInternalVariables + UnificationsToConstraints by the elimination tie of props/c01.py):
   when it succeeds, the final SELECT / WHERE has exactly the solutions of the extracted rule structure, row
   choice by row choice, with the same head values - whatever the order in which unifications were visited. *)
From LV Require Import Core.Elim Core.ElimProofs.

Theorem C01_variable_elimination_sound :
  forall app is_x E s s',
  eliminate is_x E s = Some (inr s') ->
  exists s1,
    represents app E s s1 /\ internal_vars E s1 = [] /\ sel s' = sel s1 /\
    (forall sg, solves app sg s' <-> where_holds app sg s1).
Proof. exact eliminate_sound. Qed.

Theorem C01_where_equalities_imply_unifications :
  forall app sg s, where_holds app sg s -> solves app sg s.
Proof. exact where_is_unification. Qed.

Theorem C01_unifications_are_where_equalities_when_not_null :
  forall app sg s, solves app sg s ->
  (forall l r, In (l, r) (unifs s) -> peval app sg l <> VNull) -> where_holds app sg s.
Proof. exact unification_is_where_when_not_null. Qed.

(* non-vacuity: Q(y) :- T(x), y == x + 1  (x_0 = T.col0 extracted; select y with its extract variable x_1) *)
Definition ex_rs : rs :=
  {| sel := [(0, PVar 1)];
     unifs := [(PVar 1, PVar 1001); (PVar 1000, PVar 0); (PVar 1, PBin OAdd (PVar 0) (PLit (VInt 1)))];
     cons := [] |}.
Example ex_eliminate :
  eliminate (fun v => Nat.leb 1000 v) [1000] ex_rs =
  Some (inr {| sel := [(0, PBin OAdd (PVar 1000) (PLit (VInt 1)))]; unifs := []; cons := [] |}).
Proof. vm_compute. reflexivity. Qed.
Example ex_eliminate_rejects :   (* Q(y) :- T(x): y cannot be determined *)
  eliminate (fun v => Nat.leb 1000 v) [1000] {| sel := [(0, PVar 1)]; unifs := [(PVar 1, PVar 1001); (PVar 1000, PVar 0)]; cons := [] |}
  = Some (inl [1001]).
Proof. vm_compute. reflexivity. Qed.

(* the WHERE and SELECT computed by elimination are right for every row choice rho of the FROM tables *)
Theorem C01_where_and_select_right_for_every_row_choice :
  forall app is_x E s s', eliminate is_x E s = Some (inr s') ->
  forall rho : var -> val,
  (solves app rho s' ->
     exists sg, (forall x, In x E -> sg x = rho x) /\ solves app sg s /\ output app sg s = output app rho s') /\
  (forall sg, (forall x, In x E -> sg x = rho x) -> solves app sg s ->
     (forall s1 l r, represents app E s s1 -> In (l, r) (unifs s1) -> peval app sg l <> VNull) ->
     solves app rho s' /\ output app rho s' = output app sg s).
Proof. exact eliminate_row_choice. Qed.

(* ---- the compile path of one conjunctive rule: ExtractRuleStructure (model Core/Extract.v, tied
   structure-for-structure to rule_translate.ExtractRuleStructure by props/c01.py), variable elimination,
   and the FROM / WHERE / SELECT reading of the result.  SQL emits one row per row choice of the FROM product
   that passes WHERE, so these two theorems are the bag equality for a single rule:
   multiplicities multiply over the atoms of a conjunction. *)
From LV Require Import Core.Extract Core.ExtractProofs.

Theorem C01_compiled_rule_emits_only_derived_rows :
  forall app is_x r final rho out,
  compiled is_x r final -> wf_choice (x_cols (extract r)) rho ->
  sql_row app (x_cols (extract r)) final rho = Some out ->
  exists tau, derives app tau rho r /\ head_row app tau r = out.
Proof. exact compile_sound. Qed.

Theorem C01_compiled_rule_emits_every_derived_row :
  forall app is_x r final rho tau,
  compiled is_x r final -> cells_ok tau (x_cols (extract r)) rho ->
  (forall l r0, In (l, r0) (fst (extract_head (k_head r) 0)) -> Elim.peval app tau l = Elim.peval app tau r0) ->
  derives app tau rho r ->
  (forall s1 l r0, represents app (map fst (x_cols (extract r))) (x_rs (extract r)) s1 ->
     In (l, r0) (unifs s1) -> Elim.peval app tau l <> VNull) ->
  sql_row app (x_cols (extract r)) final rho = Some (head_row app tau r).
Proof. exact compile_complete. Qed.

(* The head row is a function of the row choice: two derivations for the same rows of the FROM product give the
   same head row, so one row choice contributes exactly one row to the bag (no double counting by valuations). *)
Theorem C01_head_row_is_a_function_of_the_row_choice :
  forall app is_x r final rho tau1 tau2,
  compiled is_x r final ->
  (forall tau, tau = tau1 \/ tau = tau2 ->
     cells_ok tau (x_cols (extract r)) rho /\
     (forall l r0, In (l, r0) (fst (extract_head (k_head r) 0)) -> Elim.peval app tau l = Elim.peval app tau r0) /\
     derives app tau rho r /\
     (forall s1 l r0, represents app (map fst (x_cols (extract r))) (x_rs (extract r)) s1 ->
        In (l, r0) (unifs s1) -> Elim.peval app tau l <> VNull)) ->
  head_row app tau1 r = head_row app tau2 r.
Proof. exact head_row_determined_by_row_choice. Qed.

Theorem C01_compiled_rule_row_is_exactly_the_derived_row :
  forall app is_x r final rho tau,
  compiled is_x r final -> wf_choice (x_cols (extract r)) rho ->
  cells_ok tau (x_cols (extract r)) rho ->
  (forall l r0, In (l, r0) (fst (extract_head (k_head r) 0)) -> Elim.peval app tau l = Elim.peval app tau r0) ->
  derives app tau rho r ->
  (forall s1 l r0, represents app (map fst (x_cols (extract r))) (x_rs (extract r)) s1 ->
     In (l, r0) (unifs s1) -> Elim.peval app tau l <> VNull) ->
  exists out tau', sql_row app (x_cols (extract r)) final rho = Some out /\
     out = head_row app tau r /\ derives app tau' rho r /\ head_row app tau' r = out.
Proof. exact compile_exact. Qed.

(* non-vacuity: Q(y, x) :- T(x, z), z == 2, y == x + 1   over T = {(1,2), (5,3)} *)
Definition ex_rule : crule :=
  {| k_head := [(0, PVar 1); (1, PVar 0)];
     k_body := [KAtom 7 [(0, PVar 0); (1, PVar 2)]; KUnify (PVar 2) (PLit (VInt 2));
                KUnify (PVar 1) (PBin OAdd (PVar 0) (PLit (VInt 1)))] |}.
Definition ex_final : rs :=
  {| sel := [(0, PBin OAdd (PVar 1002) (PLit (VInt 1))); (1, PVar 1002)]; unifs := [];
     cons := [PBin OEq (PVar 1003) (PLit (VInt 2))] |}.
Example ex_compiled : compiled (fun v => Nat.leb 1000 v) ex_rule ex_final.
Proof. vm_compute. reflexivity. Qed.
Example ex_sql_rows :
  sql_row (fun _ _ => VNull) (x_cols (extract ex_rule)) ex_final [[(0, VInt 1); (1, VInt 2)]] = Some [(0, VInt 2); (1, VInt 1)] /\
  sql_row (fun _ _ => VNull) (x_cols (extract ex_rule)) ex_final [[(0, VInt 5); (1, VInt 3)]] = None.
Proof. split; vm_compute; reflexivity. Qed.
