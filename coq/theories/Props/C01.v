(* C01 — compiled SQL returns exactly the multiset the program denotes.
   Statements only.  The theorems are about the reference evaluator Core/Eval.v (the documented bag
   semantics the SQLite results are compared with on every run by props/c01.py): disjunction and
   several rules ADD multiplicities, the distributive law behind the parser's DNF rewrite holds for
   bags, rule order is immaterial.  The compiler itself is tied per instance (rows on SQLite vs.
   eval_query), not proved. *)
From Coq Require Import List ZArith Permutation.
Import ListNotations.
From LV Require Import Core.Syntax Core.Eval Core.EvalProofs.

Theorem C01_disjunction_adds_multiplicities :
  forall P D h dis b1 b2,
  eval_rule P D {| r_head := h; r_distinct := dis; r_body := POr [b1; b2] |} =
  bind (eval_rule P D {| r_head := h; r_distinct := dis; r_body := b1 |}) (fun r1 =>
  bind (eval_rule P D {| r_head := h; r_distinct := dis; r_body := b2 |}) (fun r2 => Ok (r1 ++ r2))).
Proof. exact eval_rule_disjunction. Qed.

Theorem C01_rules_add_multiplicities :
  forall P D n k rs1 rs2, plain rs1 -> plain rs2 ->
  eval_pdef P D {| p_name := n; p_kind := k; p_rules := rs1 ++ rs2 |} =
  bind (eval_pdef P D {| p_name := n; p_kind := k; p_rules := rs1 |}) (fun a =>
  bind (eval_pdef P D {| p_name := n; p_kind := k; p_rules := rs2 |}) (fun b => Ok (a ++ b))).
Proof. exact eval_pdef_rules_add. Qed.

Theorem C01_dnf_distributes :
  forall p q1 q2,
  Permutation (dnf (PAnd [p; POr [q1; q2]])) (dnf (POr [PAnd [p; q1]; PAnd [p; q2]])).
Proof. exact dnf_distributes. Qed.

Theorem C01_rule_order_immaterial :
  forall P D n k rs rs', plain rs -> Permutation rs rs' ->
  match eval_pdef P D {| p_name := n; p_kind := k; p_rules := rs |},
        eval_pdef P D {| p_name := n; p_kind := k; p_rules := rs' |} with
  | Ok a, Ok b => Permutation a b
  | Fail _, Fail _ => True
  | _, _ => False
  end.
Proof. exact eval_pdef_rule_order. Qed.

(* Non-vacuity: the programs of docs/learn/logica.md "Multiset Semantics" evaluate to the documented bags. *)
Definition fact (v : list nat) : rule :=
  {| r_head := [(0, HExpr (EStr v))]; r_distinct := false; r_body := PAnd [] |}.
Definition apple := [97; 112]%nat. Definition banana := [98; 97]%nat. Definition orange := [111; 114]%nat.
Definition doc_program : program :=
  [ {| p_name := 0; p_kind := KTable; p_rules := [fact apple; fact banana] |};          (* MyFruit *)
    {| p_name := 1; p_kind := KTable; p_rules := [fact apple; fact orange] |};          (* YourFruit *)
    {| p_name := 2; p_kind := KTable;                                                    (* OurFruit(x) :- MyFruit(x) | YourFruit(x) *)
       p_rules := [ {| r_head := [(0, HExpr (EVar 0))]; r_distinct := false;
                       r_body := POr [PConj (CAtom 0 [(0, EVar 0)]); PConj (CAtom 1 [(0, EVar 0)])] |} ] |};
    {| p_name := 3; p_kind := KTable;                                                    (* Both(x) :- MyFruit(x), YourFruit(x) *)
       p_rules := [ {| r_head := [(0, HExpr (EVar 0))]; r_distinct := false;
                       r_body := PAnd [PConj (CAtom 0 [(0, EVar 0)]); PConj (CAtom 1 [(0, EVar 0)])] |} ] |} ].
Example doc_disjunction :
  eval_query doc_program [] 2 =
  Ok [[(0, VStr apple)]; [(0, VStr banana)]; [(0, VStr apple)]; [(0, VStr orange)]].
Proof. vm_compute. reflexivity. Qed.
Example doc_conjunction : eval_query doc_program [] 3 = Ok [[(0, VStr apple)]].
Proof. vm_compute. reflexivity. Qed.
Example plain_holds : plain (p_rules (nth 2 doc_program {| p_name := 0; p_kind := KTable; p_rules := [] |})).
Proof. intros r [E|[]]. subst. split; reflexivity. Qed.
