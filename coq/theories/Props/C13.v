(* C13 — compilation is a deterministic, history-free function of the program.
   Only statements.  Model: Lex/Session.v (the module-level parser switch parse.TOO_MUCH).  The model
   carries the one piece of logic through which history can matter inside a process; hash-seed and
   cross-process behaviour is explored on the real code by props/c13.py (level: other). *)
From Coq Require Import List Bool NArith.
Import ListNotations.
From LV Require Import Lex.Session Lex.SessionProofs.

(* if the switch is recomputed for every main file (proposed repair), the tree is a function of the text *)
Theorem C13_history_free_if_reset :
  forall history st t, run parse_step_reset st history t = read (has_incantation t) t.
Proof. exact history_free_if_reset. Qed.

(* parse.py as it is: the history matters exactly through "an earlier main file had the incantation" *)
Theorem C13_sticky_characterised :
  forall history st t,
  run parse_step_sticky st history t =
  read (too_much st || existsb has_incantation history || has_incantation t) t.
Proof. exact sticky_characterised. Qed.

Theorem C13_sticky_history_free_without_incantation :
  forall history t, existsb has_incantation history = false ->
  run parse_step_sticky fresh history t = run parse_step_sticky fresh [] t.
Proof. exact sticky_history_free_without_incantation. Qed.

(* ... and that does change the reading of a plain later program: refutation of history freedom *)
Theorem C13_history_dependent_refuted :
  exists history t, has_incantation t = false /\
    run parse_step_sticky fresh history t <> run parse_step_sticky fresh [] t.
Proof. exact history_dependent_refuted. Qed.

Example C13_witness_fresh : run parse_step_sticky fresh [] w_plain = Times [50%N] (Call [70%N] [51%N]).
Proof. exact w_fresh. Qed.
Example C13_witness_after : run parse_step_sticky fresh [w_first] w_plain = Call [50%N; 42%N; 70%N] [51%N].
Proof. exact w_after. Qed.
