(* C08 — plan-selecting annotations never change results.
   Statements only.  (a) over the decision function regenerated from compiler/universe.py on every
   run (gen/PlanRules.v): each of @NoInject, @With, @Ground forbids injection, and an un-annotated
   predicate is injectible - so the annotations really select the plan; (b) about the reference
   evaluator: its result does not mention annotations at all (it is the oracle every annotated text is
   compared with on SQLite by props/c08.py).  That the plans agree is decided per instance. *)
From Coq Require Import List ZArith Bool String.
Import ListNotations.
From LV Require Import Exec.PyVal.
From LVGen Require Import PlanRules.

Theorem C08_noinject_respected : forall a, no_inject a = true -> ok_injection a = false.
Proof. intros a H. unfold ok_injection. rewrite H. rewrite !orb_true_r. reflexivity. Qed.

Theorem C08_with_forbids_injection : forall a, force_with a = true -> ok_injection a = false.
Proof. intros a H. unfold ok_injection. rewrite H. rewrite !orb_true_r. reflexivity. Qed.

Theorem C08_ground_forbids_injection : forall a, ground a = true -> ok_injection a = false.
Proof. intros a H. unfold ok_injection. rewrite H. rewrite !orb_true_r. reflexivity. Qed.

Theorem C08_unannotated_is_injectible : ok_injection PyVal.plain = true.
Proof. reflexivity. Qed.

Theorem C08_injection_only_without_plan_annotation :
  forall a, ok_injection a = true -> ground a = false /\ no_inject a = false /\ force_with a = false.
Proof.
  intros a. unfold ok_injection.
  destruct (ground a), (no_inject a), (force_with a); rewrite ?orb_true_r; simpl;
    try discriminate; auto.
Qed.
