(* C08 — plan-selecting annotations never change results.
   Statements only.  (a) over the decision function regenerated from compiler/universe.py on every
   run (gen/PlanRules.v): each of @NoInject, @With, @Ground forbids injection, and an un-annotated
   predicate is injectible - so the annotations really select the plan; (b) about the reference
   evaluator: its result does not mention annotations at all (it is the oracle every annotated text is
   compared with on SQLite by props/c08.py); (c) about the model of RunInjections/InjectStructure
   (Core/Inject.v, tied structure-for-structure to compiler/universe.py by props/injecttie.py): over every
   row choice, the injected structure emits exactly the rows the caller emits when the replaced table holds
   a row the callee emits - the injected and the not injected plan of a conjunctive rule have the same bag.
   That whole plans (WITH, @Ground tables, aggregation, combines) agree is decided per instance. *)
From Coq Require Import List ZArith Bool String.
Import ListNotations.
From LV Require Import Exec.PyVal.
From LVGen Require Import PlanRules.
From LV Require Import Core.Syntax Core.Eval Core.Elim Core.Extract Core.ExtractProofs Core.Inject Core.InjectProofs.

Theorem C08_noinject_respected : forall a, no_inject a = true -> ok_injection a = false.
Proof. intros a H. unfold ok_injection. rewrite H. rewrite !orb_true_r. reflexivity. Qed.

Theorem C08_with_forbids_injection : forall a, force_with a = true -> ok_injection a = false.
Proof. intros a H. unfold ok_injection. rewrite H. rewrite !orb_true_r. reflexivity. Qed.

Theorem C08_ground_forbids_injection : forall a, ground a = true -> ok_injection a = false.
Proof. intros a H. unfold ok_injection. rewrite H. rewrite !orb_true_r. reflexivity. Qed.

Theorem C08_unannotated_is_injectible : ok_injection PyVal.plain = true.
Proof. reflexivity. Qed.

Theorem C08_injection_only_without_plan_annotation :
  forall a, ok_injection a = true -> ground a = false /\ no_inject a = false /\ force_with a = false.
Proof.
  intros a. unfold ok_injection.
  destruct (ground a), (no_inject a), (force_with a); rewrite ?orb_true_r; simpl;
    try discriminate; auto.
Qed.

(* exactly: a predicate is injectible iff it carries none of @OrderBy, @Limit, @Ground, @NoInject, @With
   (an ordered or limited predicate read through its body would lose its ORDER BY / LIMIT) *)
Theorem C08_injectible_iff_no_annotation :
  forall a, ok_injection a = true <->
            (truthy_optlist (order_by a) = false /\ is_none (limit_of a) = true /\ ground a = false /\
             no_inject a = false /\ force_with a = false).
Proof.
  intros a. unfold ok_injection.
  destruct (truthy_optlist (order_by a)), (is_none (limit_of a)), (ground a), (no_inject a), (force_with a); simpl;
    split; intros H; try discriminate; try reflexivity; try (repeat split; reflexivity);
    destruct H as [H1 [H2 [H3 [H4 H5]]]]; discriminate.
Qed.

(* ---------- (c) injection is invisible in the result ---------- *)
Theorem C08_injection_is_invisible :
  forall (app : nat -> list val -> val) (is_x : var -> bool) (st st' : ist) (tid : nat) (cr : crule) (s1 : rs),
  let e := extract_at cr (i_nv st) (i_nt st) in
  pre_eliminate is_x (map fst (x_cols e)) (x_rs e) = Done s1 ->
  inject_one is_x st tid cr = Done st' ->
  forall (rho : choice) (out : row), apart st cr s1 -> tid < List.length rho ->
  (denotes app (i_rs st') (i_cols st') rho out <->
   exists r, denotes app s1 (x_cols e) rho r /\ denotes app (i_rs st) (i_cols st) (set_nth tid r rho) out).
Proof. intros app is_x st st' tid cr s1 e Hpre Hinj rho out. exact (inject_denotes app is_x st st' tid cr s1 Hpre Hinj rho out). Qed.

Theorem C08_fresh_allocation_keeps_scopes_apart :
  forall (is_x : var -> bool) (st : ist) (cr : crule) (s1 : rs),
  pre_eliminate is_x (map fst (x_cols (extract_at cr (i_nv st) (i_nt st)))) (x_rs (extract_at cr (i_nv st) (i_nt st))) = Done s1 ->
  callee_closed is_x st cr = true -> caller_below st = true -> apart st cr s1.
Proof. exact side_conditions_apart. Qed.

Theorem C08_injected_query_sound :
  forall (app : nat -> list val -> val) is_x st st' tid cr s1 final (rho : choice) (out : row),
  pre_eliminate is_x (map fst (x_cols (extract_at cr (i_nv st) (i_nt st)))) (x_rs (extract_at cr (i_nv st) (i_nt st))) = Done s1 ->
  inject_one is_x st tid cr = Done st' ->
  callee_closed is_x st cr = true -> caller_below st = true -> tid < List.length rho ->
  NoDup (map fst (i_cols st')) -> wf_choice (i_cols st') rho ->
  eliminate is_x (map fst (i_cols st')) (i_rs st') = Some (inr final) ->
  sql_row app (i_cols st') final rho = Some out ->
  exists r, denotes app s1 (x_cols (extract_at cr (i_nv st) (i_nt st))) rho r /\
            denotes app (i_rs st) (i_cols st) (set_nth tid r rho) out.
Proof. exact injected_query_sound. Qed.

(* non-vacuity: Q(x, y) :- P(x, z), T(z, y) with P(a, b) :- T(a, c), b == c + 1 is injected, the hypotheses of
   the theorems hold for it, and the injected structure reads two tables *)
Definition ex_callee : crule :=
  {| k_head := [(0, PVar 3); (1, PVar 4)];
     k_body := [KAtom 1 [(0, PVar 3); (1, PVar 5)]; KUnify (PVar 4) (PBin OAdd (PVar 5) (PLit (VInt 1%Z)))] |}.
Definition ex_caller : crule :=
  {| k_head := [(0, PVar 0); (1, PVar 1)];
     k_body := [KAtom 0 [(0, PVar 0); (1, PVar 2)]; KAtom 1 [(0, PVar 2); (1, PVar 1)]] |}.
Example C08_injection_example :
  let isx := fun v => Nat.leb 1000 v in
  let st := ist_of_rule ex_caller in
  (exists st', inject_one isx st 0 ex_callee = Done st' /\ map fst (i_tabs st') = [2; 1]) /\
  callee_closed isx st ex_callee = true /\ caller_below st = true.
Proof. vm_compute. split; [eexists; split; reflexivity | split; reflexivity]. Qed.

(* the whole of RunInjections, all rounds *)
Theorem C08_run_injections_sound :
  forall (app : nat -> list val -> val) is_x D tau fuel st st' (rho : choice),
  run_injections is_x D fuel st = Done st' ->
  tabs_below st -> i_nt st' <= List.length rho ->
  cells tau (i_cols st') rho -> Elim.solves app tau (i_rs st') ->
  exists rho0, List.length rho0 = List.length rho /\ cells tau (i_cols st) rho0 /\ Elim.solves app tau (i_rs st) /\
               Elim.output app tau (i_rs st') = Elim.output app tau (i_rs st).
Proof. intros app. exact (run_injections_sound app). Qed.

(* non-vacuity: the run on the example performs a real injection from a state that meets the hypothesis *)
Example C08_run_example :
  let isx := fun v => Nat.leb 1000 v in
  tabs_below (ist_of_rule ex_caller) /\
  exists st', run_injections isx [(0, ex_callee)] 50 (ist_of_rule ex_caller) = Done st' /\
              map snd (i_tabs st') = [1; 1] /\ i_nt st' = 3.
Proof. split; [apply ist_of_rule_below | vm_compute; eexists; split; [reflexivity | split; reflexivity]]. Qed.
