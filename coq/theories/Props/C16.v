(* C16 — type unification is a symmetric idempotent meet; clash iff no common type.
   Only statements; every proof is `exact <lemma>`.  Model: Types/TypeAlgebra.v (tied to
   reference_algebra.py by the correspondence run of props/c16.py). *)
From Coq Require Import List Bool Permutation.
Import ListNotations.
From LV Require Import Types.TypeAlgebra Types.TypeAlgebraProofs Types.TypeLaws.

Theorem C16_meet_is_intersection :
  forall a, wf a = true -> forall b, wf b = true ->
  forall g, inst (meet a b) g = inst a g && inst b g.
Proof. exact meet_sound. Qed.

Theorem C16_clash_iff_no_common_instance :
  forall a b, wf a = true -> wf b = true ->
  (has_bad (meet a b) = true <-> forall g, inst a g && inst b g = false).
Proof. exact clash_iff_empty. Qed.

Theorem C16_symmetric :
  forall a b, wf a = true -> wf b = true -> same (meet a b) (meet b a).
Proof. exact meet_comm. Qed.

Theorem C16_idempotent :
  forall a b, wf a = true -> wf b = true -> same (meet (meet a b) (meet a b)) (meet a b).
Proof. exact meet_idem. Qed.

Theorem C16_repeat_changes_nothing :
  forall a b, wf a = true -> wf b = true ->
  same (meet (meet a b) a) (meet a b) /\ same (meet (meet a b) b) (meet a b).
Proof. exact meet_absorb. Qed.

Theorem C16_order_independent :
  forall l l', Forall (fun t => wf t = true) l -> Permutation l l' ->
  same (meet_all l) (meet_all l').
Proof. exact meet_order_independent. Qed.

Theorem C16_keeps_fields :
  forall ca fa cb fb c fs, meet (TRec ca fa) (TRec cb fb) = TRec c fs ->
  forall f, In f (keys fa) \/ In f (keys fb) -> In f (keys fs).
Proof. exact meet_keeps_fields. Qed.

Theorem C16_keeps_ground :
  forall x b, has_bad (meet (TAtom x) b) = false -> meet (TAtom x) b = TAtom x.
Proof. exact meet_keeps_atom. Qed.

Theorem C16_result_well_formed :
  forall a, wf a = true -> forall b, wf b = true -> wf (meet a b) = true.
Proof. exact meet_wf. Qed.

(* Non-vacuity: concrete well-formed terms on which the laws say something. *)
Definition ex_open := TRec false [(FName 0, TAtom ANum); (FPos 0, TList TAny)].
Definition ex_closed := TRec true [(FPos 0, TSequential); (FName 0, TSingular); (FName 1, TAtom AStr)].
Example ex_wf : wf ex_open = true /\ wf ex_closed = true.
Proof. split; reflexivity. Qed.
Example ex_meet :
  meet ex_open ex_closed =
  TRec true [(FName 0, TAtom ANum); (FPos 0, TList TAny); (FName 1, TAtom AStr)].
Proof. reflexivity. Qed.
Example ex_clash : has_bad (meet ex_closed (TRec false [(FName 2, TAny)])) = true.
Proof. reflexivity. Qed.
Example ex_field_clash :
  meet ex_open (TRec false [(FName 0, TAtom AStr)]) =
  TRec false [(FName 0, TBad); (FPos 0, TList TAny)].
Proof. reflexivity. Qed.

(* ---------- references: both sides denote the same type, for ever (Types/TypeHist.v) ---------- *)
From LV Require Import Types.TypeHist.
Theorem C16_unified_references_stay_equal :
  forall s i j later, i < length (cls s) -> j < length (cls s) ->
  let s' := hrun (hstep s (HUnify i j)) later in type_of s' i = type_of s' j.
Proof. exact unified_references_stay_equal. Qed.

Theorem C16_unification_gives_the_meet :
  forall s i j, i < length (cls s) -> class_of s i < length (tys s) -> class_of s i <> class_of s j ->
  type_of (hstep s (HUnify i j)) i = meet (type_of s i) (type_of s j).
Proof. exact unify_gives_meet. Qed.

Theorem C16_repeating_in_a_history_changes_nothing :
  forall s i j, i < length (cls s) -> j < length (cls s) ->
  hstep (hstep s (HUnify i j)) (HUnify i j) = hstep s (HUnify i j) /\
  hstep (hstep s (HUnify i j)) (HUnify j i) = hstep s (HUnify i j).
Proof. exact unify_then_repeat. Qed.

Example ex_history :
  view (hrun (hinit [TAny; TRec false [(FName 0, TAtom ANum)]; TAny]) [HUnify 0 1; HUnify 2 0; HClose 1]) =
  let t := TRec true [(FName 0, TAtom ANum)] in [t; t; t].
Proof. reflexivity. Qed.

(* ---------- the list element constraint `b in a` (Types/TypeElem.v, model of UnifyListElement) ---------- *)
From LV Require Import Types.TypeElem.
Theorem C16_element_constraint_list_side :
  forall a b, wf a = true -> wf b = true ->
  forall g, inst (fst (unify_list_element a b)) (GList g) = inst a (GList g) && (inst b g && scalar g).
Proof. exact list_after_element_analysis. Qed.

Theorem C16_element_constraint_element_side :
  forall a b e, wf a = true -> wf b = true -> fst (unify_list_element a b) = TList e ->
  snd (unify_list_element a b) = e /\ forall g, inst e g = inst a (GList g) && (inst b g && scalar g).
Proof. exact element_after_element_analysis. Qed.

Theorem C16_list_vs_scalar_clash_in_membership :
  forall a b g, wf a = true -> wf b = true -> inst (fst (unify_list_element a b)) (GList (GList g)) = false.
Proof. exact list_element_clashes. Qed.
