(* C06 — the C++ and Python parsers agree.
   Nothing about two implementations is a theorem about one model: the agreement itself is
   decided per instance by props/c06.py (differential run, level "other").  What is proved, for
   all strings, is the lexical discipline that BOTH parsers implement (parse.py: Traverse /
   RemoveComments / Strip / SplitRaw; logica_parse.cpp: Traverser::Next / RemoveComments /
   Strip / SplitRaw follow it name for name) and to which both are held by the layout-variant
   part of the differential run.  Only statements; proofs are `exact <lemma>`. *)
From Coq Require Import List Bool Arith NArith ZArith Lia.
Import ListNotations.
From LV Require Import Lex.Traverse Lex.TraverseProofs Lex.Split Lex.SplitProofs Lex.Span Lex.SpanProofs.

Theorem C06_common_block_comment : forall st body rest,
  code_state st = true -> no_close body = true ->
  ann (Run [] st) (ch_slash :: ch_star :: body ++ ch_star :: ch_slash :: rest) =
  repeat ASilent (length body + 4) ++ ann (Run [] st) rest.
Proof. exact block_comment_transparent. Qed.

Theorem C06_common_line_comment : forall st body rest,
  code_state st = true -> no_char ch_nl body = true ->
  ann (Run [] st) (ch_hash :: body ++ ch_nl :: rest) =
  repeat ASilent (S (length body)) ++ AOk st :: ann (Run [] st) rest.
Proof. exact line_comment_transparent. Qed.

Theorem C06_common_string_opaque : forall st body rest,
  code_state st = true -> no_char ch_dq body = true -> no_char ch_nl body = true ->
  not_triple body rest ->
  ann (Run [] st) (ch_dq :: body ++ ch_dq :: rest) =
  repeat (AOk (ch_dq :: st)) (S (length body)) ++ AOk st :: ann (Run [] st) rest.
Proof. exact string_opaque_dq. Qed.

Theorem C06_common_split_join : forall sep c0 tl0 s ps,
  sep = c0 :: tl0 -> ceq c0 ch_dq = false -> forallb plain tl0 = true ->
  split_raw sep s = SParts ps -> join sep (map txt ps) = s.
Proof. exact split_join. Qed.

Theorem C06_common_split_spans : forall sep s ps,
  split_raw sep s = SParts ps -> Forall (part_exact s) ps.
Proof. exact split_raw_spans. Qed.

Theorem C06_common_strip_parens : forall s, is_whole s = true -> strip (ch_lp :: s ++ [ch_rp]) = strip s.
Proof. exact strip_parens. Qed.

Example C06_ex_statements :
  split_raw [59%N] (map N.of_nat [80; 40; 34; 59; 34; 41; 59; 81; 40; 41]) =
  SParts [(0, 6, map N.of_nat [80; 40; 34; 59; 34; 41]); (7, 10, map N.of_nat [81; 40; 41])].
Proof. reflexivity. Qed.
