(* C18 — order_by and limit select the first K rows in the given order.
   Only statements; every proof is `exact <lemma>`.
   (a) clauses and the injection rule: definitions regenerated from compiler/universe.py
       (coq/gen/PlanRules.v, translators/planrules.py) — re-checked against the current source;
   (b) the oracle: result = firstn K (sort rows) (Exec/OrderLimit.v), tied to SQLite's ORDER BY /
       LIMIT and to the compiler's placement of the clauses by the runs of props/c18.py. *)
From Coq Require Import List Bool ZArith String Permutation Sorted.
Import ListNotations.
From LV Require Import Exec.PyVal Exec.PlanRulesProofs Exec.OrderLimit Exec.OrderLimitProofs.
From LVGen Require Import PlanRules.
Open Scope string_scope.

(* ---- (a) generated from the source ---- *)
Theorem C18_limit_clause_positive :
  forall a k, k <> 0 -> limit_of a = Some (Z.of_nat k) -> limit_clause a = limit_text k.
Proof. exact limit_clause_positive. Qed.

(* the full statement (all K including 0) either holds, or fails exactly at the witness K = 0
   (then `limit_clause` of `@Limit(P, 0)` is the empty string).  Which disjunct holds on the current
   source is decided by coq/status/C18_limit_all_k.v / C18_limit_all_k_refuted.v (one of them checks). *)
Theorem C18_limit_clause_all_k_or_refuted_at_zero :
  (forall a k, limit_of a = Some (Z.of_nat k) -> limit_clause a = limit_text k) \/
  (limit_clause ann_limit0 = "" /\
   ~ (forall a k, limit_of a = Some (Z.of_nat k) -> limit_clause a = limit_text k)).
Proof. exact limit_clause_status. Qed.

Theorem C18_limit_clause_unannotated : forall a, limit_of a = None -> limit_clause a = "".
Proof. exact limit_clause_unannotated. Qed.

Theorem C18_orderby_clause_wf :
  forall a keys, keys <> [] -> (forall k, In k keys -> fst k <> "DESC") ->
  order_by a = Some (flat keys) -> orderby_clause a = orderby_text keys.
Proof. exact orderby_clause_wf. Qed.

Theorem C18_orderby_clause_unannotated : forall a, order_by a = None -> orderby_clause a = "".
Proof. exact orderby_clause_unannotated. Qed.

Theorem C18_ordered_not_injected_nonzero :
  forall a, has_order a \/ has_pos_limit a -> ok_injection a = false.
Proof. exact ordered_not_injected_nonzero. Qed.

(* same dichotomy for `@Limit(P, 0)` (status files coq/status/C18_not_injected*.v) *)
Theorem C18_ordered_not_injected_or_refuted_at_zero :
  (forall a, has_order a \/ has_limit a -> ok_injection a = false) \/
  (ok_injection ann_limit0 = true /\
   ~ (forall a, has_order a \/ has_limit a -> ok_injection a = false)).
Proof. exact ordered_not_injected_status. Qed.

(* ---- (b) the oracle ---- *)
Theorem C18_result_is_prefix_of_sorted :
  forall keys k rows, order_limit_rows keys (Some k) rows = firstn k (sort (lex_leb keys) rows).
Proof. reflexivity. Qed.

Theorem C18_result_sorted :
  forall keys lim rows, StronglySorted (lex_le keys) (order_limit_rows keys lim rows).
Proof. exact rows_sorted. Qed.

Theorem C18_result_length :
  forall keys k rows, List.length (order_limit_rows keys (Some k) rows) = Nat.min k (List.length rows).
Proof. exact rows_length. Qed.

Theorem C18_result_k_smallest :
  forall keys k rows,
  exists rest, Permutation rows (order_limit_rows keys (Some k) rows ++ rest)%list /\
               forall x y, In x (order_limit_rows keys (Some k) rows) -> In y rest -> lex_le keys x y.
Proof. exact rows_k_smallest. Qed.

Theorem C18_no_limit_keeps_all_rows :
  forall keys rows, Permutation (order_limit_rows keys None rows) rows.
Proof. exact rows_no_limit_all. Qed.

(* total order on the rows (keys mention every column): the answer does not depend on the order
   in which rows arrive, and any sorted permutation of the input has the answer as its prefix *)
Theorem C18_result_deterministic :
  forall keys n, covers keys n = true ->
  forall lim rows rows', Forall (width n) rows -> Permutation rows rows' ->
  order_limit_rows keys lim rows = order_limit_rows keys lim rows'.
Proof. exact rows_deterministic. Qed.

Theorem C18_result_unique :
  forall keys n, covers keys n = true ->
  forall rows r k, Forall (width n) rows ->
  StronglySorted (lex_le keys) r -> Permutation r rows ->
  firstn k r = order_limit_rows keys (Some k) rows.
Proof. exact rows_unique. Qed.

Theorem C18_limit_only_truncates :
  forall keys k rows,
  order_limit_rows keys (Some k) rows = firstn k (order_limit_rows keys None rows).
Proof. exact rows_limit_is_prefix. Qed.

Theorem C18_larger_limit_extends_smaller :
  forall keys k k' rows, k <= k' ->
  order_limit_rows keys (Some k) rows = firstn k (order_limit_rows keys (Some k') rows).
Proof. exact rows_limit_monotone. Qed.

(* ---- non-vacuity ---- *)
Example ex_limit3 : limit_clause (mkAnn None (Some 3%Z) false false false false) = " LIMIT 3".
Proof. reflexivity. Qed.
Example ex_orderby :
  orderby_clause (mkAnn (Some (flat [("col0", true); ("col1 desc", false); ("x", false)])) None false false false false)
  = " ORDER BY col0 DESC, col1 desc, x".
Proof. reflexivity. Qed.
Example ex_injectable : ok_injection plain = true /\
  ok_injection (mkAnn (Some ["col0"]) None false false false false) = false.
Proof. split; reflexivity. Qed.
Example ex_rows :
  order_limit_rows [(1, true); (0, false)] (Some 2) [[1;2]; [1;3]; [2;1]; [0;5]; [3;3]]%Z
  = [[0;5]; [1;3]]%Z /\ covers [(1, true); (0, false)] 2 = true.
Proof. split; reflexivity. Qed.
