(* Correctness of the compile path  rule -> ExtractRuleStructure -> ElliminateInternalVariables ->
   FROM/WHERE/SELECT  on the conjunctive fragment (models Core/Extract.v, Core/Elim.v):
   a row choice of the FROM product passes the final WHERE and yields the SELECT row  iff  it is a
   derivation of the rule with that head row.  Since SQL emits one row per passing row choice, this is the
   bag equality "conjunction multiplies multiplicities" for a single rule. *)
From Coq Require Import List ZArith Bool Arith Lia Permutation.
Import ListNotations.
From LV Require Import Core.Syntax Core.Eval Core.Elim Core.ElimProofs Core.Extract.

Section Correct.
Variable app : nat -> list val -> val.
Notation peval := (Elim.peval app).

(* tau gives every column variable the cell of the chosen row it reads *)
Definition cells_ok (tau : var -> val) (cm : colmap) (rho : choice) : Prop :=
  forall x t f, In (x, (t, f)) cm ->
  exists rw, nth_error rho t = Some rw /\ lookup_field f rw = Some (tau x).

(* the chosen rows have the columns the query reads *)
Definition wf_choice (cm : colmap) (rho : choice) : Prop :=
  forall x t f, In (x, (t, f)) cm -> exists rw v, nth_error rho t = Some rw /\ lookup_field f rw = Some v.

(* index based reading of "the j-th atom of the body matches the j-th chosen row" *)
Definition atoms_valid (tau : var -> val) (cs : list cconj) (ti : nat) (rho : choice) : Prop :=
  forall j p args rw, nth_error (atoms_of cs) j = Some (p, args) -> nth_error rho (ti + j) = Some rw ->
  forall f e, In (f, e) args -> lookup_field f rw = Some (peval tau e).

Definition derives (tau : var -> val) (rho : choice) (r : crule) : Prop :=
  atoms_valid tau (k_body r) 0 rho /\ Forall (conj_valid app tau) (k_body r).

Lemma cells_ok_app tau cm1 cm2 rho : cells_ok tau (cm1 ++ cm2) rho <-> cells_ok tau cm1 rho /\ cells_ok tau cm2 rho.
Proof.
  unfold cells_ok. split.
  - intros H. split; intros x t f Hin; apply H; apply in_or_app; auto.
  - intros [H1 H2] x t f Hin. apply in_app_or in Hin as [Hin|Hin]; auto.
Qed.

(* ---------- the arguments of one atom ---------- *)
Lemma args_lemma tau rho ti : forall args n us cm n',
  extract_args ti args n = (us, cm, n') -> cells_ok tau cm rho ->
  ((forall l r, In (l, r) us -> peval tau l = peval tau r) <->
   (forall rw, nth_error rho ti = Some rw -> forall f e, In (f, e) args -> lookup_field f rw = Some (peval tau e))).
Proof.
  induction args as [|[f0 e0] args IH]; intros n us cm n' H C.
  - simpl in H. inversion H. subst. split; [intros _ rw _ f e [] | intros _ l r []].
  - simpl in H. destruct (extract_args ti args (S n)) as [[us1 cm1] n1] eqn:E1. inversion H. subst. clear H.
    assert (C1 : cells_ok tau cm1 rho) by (intros x t f Hin; apply C; right; exact Hin).
    destruct (C (xvar n) ti f0 (or_introl eq_refl)) as [rw0 [Hr0 Hc0]].
    specialize (IH _ _ _ _ E1 C1). split.
    + intros H rw Hrw f e [Hin|Hin].
      * inversion Hin. subst. rewrite Hr0 in Hrw. inversion Hrw. subst.
        rewrite Hc0. f_equal. exact (H _ _ (or_introl eq_refl)).
      * apply (proj1 IH); [intros l r Hlr; apply H; right; exact Hlr | exact Hrw | exact Hin].
    + intros H l r [Hin|Hin].
      * inversion Hin. subst. simpl.
        pose proof (H rw0 Hr0 _ _ (or_introl eq_refl)) as Hx. rewrite Hc0 in Hx. inversion Hx. reflexivity.
      * apply (proj2 IH); [|exact Hin]. intros rw Hrw f e Hfe. apply (H rw Hrw). right. exact Hfe.
Qed.

Lemma truthy_OEq' sg l r : truthy (peval sg (PBin OEq l r)) = sql_eq (peval sg l) (peval sg r).
Proof. apply truthy_OEq. Qed.

(* ---------- the body ---------- *)
Lemma body_lemma tau rho : forall cs ti n us co cm ts n',
  extract_body cs ti n = (us, co, cm, ts, n') -> cells_ok tau cm rho ->
  (((forall l r, In (l, r) us -> peval tau l = peval tau r) /\ (forall c, In c co -> truthy (peval tau c) = true))
   <-> (atoms_valid tau cs ti rho /\ Forall (conj_valid app tau) cs)).
Proof.
  induction cs as [|c cs IH]; intros ti n us co cm ts n' H C.
  - simpl in H. inversion H. subst. split.
    + intros _. split; [intros j p args rw Hj; destruct j; discriminate | constructor].
    + intros _. split; [intros l r [] | intros c []].
  - destruct c as [p args|l0 r0|c0]; simpl in H.
    + destruct (extract_args ti args n) as [[us1 cm1] n1] eqn:E1.
      destruct (extract_body cs (S ti) n1) as [[[[us2 co2] cm2] ts2] n2] eqn:E2. inversion H. subst. clear H.
      apply cells_ok_app in C as [C1 C2].
      pose proof (args_lemma tau rho ti _ _ _ _ _ E1 C1) as A.
      specialize (IH _ _ _ _ _ _ _ E2 C2). split.
      * intros [Hu Hc]. destruct (proj1 IH) as [Av Fv].
        { split; [intros l r Hin; apply Hu; apply in_or_app; right; exact Hin | exact Hc]. }
        split; [|constructor; [exact I | exact Fv]].
        intros j q qargs rw Hj Hrw. destruct j as [|j].
        -- simpl in Hj. inversion Hj. subst. rewrite Nat.add_0_r in Hrw.
           apply (proj1 A); [intros l r Hin; apply Hu; apply in_or_app; left; exact Hin | exact Hrw].
        -- simpl in Hj. apply (Av j q qargs rw Hj). rewrite <- Hrw. f_equal. lia.
      * intros [Av Fv]. inversion Fv as [|? ? _ Fv']. subst.
        destruct (proj2 IH) as [Hu2 Hc2].
        { split; [|exact Fv']. intros j q qargs rw Hj Hrw. apply (Av (S j) q qargs rw); [exact Hj|].
          rewrite <- Hrw. f_equal. lia. }
        split; [|exact Hc2]. intros l r Hin. apply in_app_or in Hin as [Hin|Hin]; [|apply Hu2, Hin].
        apply (proj2 A); [|exact Hin]. intros rw Hrw. apply (Av 0%nat p args rw); [reflexivity|].
        rewrite Nat.add_0_r. exact Hrw.
    + destruct (extract_body cs ti n) as [[[[us2 co2] cm2] ts2] n2] eqn:E2.
      assert (AV : forall X : unit, atoms_valid tau (KUnify l0 r0 :: cs) ti rho <-> atoms_valid tau cs ti rho)
        by (intros _; unfold atoms_valid; simpl; tauto).
      destruct (is_pvar l0 || is_pvar r0) eqn:Ev.
      * inversion H. subst. clear H. specialize (IH _ _ _ _ _ _ _ E2 C). split.
        -- intros [Hu Hc]. destruct (proj1 IH) as [Av Fv]; [split; [intros l r Hin; apply Hu; right; exact Hin | exact Hc]|].
           split; [apply (AV tt), Av|]. constructor; [|exact Fv]. simpl. rewrite Ev. apply Hu. left. reflexivity.
        -- intros [Av Fv]. inversion Fv as [|? ? Hc0 Fv']. subst. simpl in Hc0. rewrite Ev in Hc0.
           destruct (proj2 IH) as [Hu2 Hc2]; [split; [apply (AV tt), Av | exact Fv']|].
           split; [|exact Hc2]. intros l r [Hin|Hin]; [inversion Hin; subst; exact Hc0 | apply Hu2, Hin].
      * destruct (pexpr_eqb l0 r0) eqn:Eq.
        -- inversion H. subst. clear H. specialize (IH _ _ _ _ _ _ _ E2 C). split.
           ++ intros HH. destruct (proj1 IH HH) as [Av Fv]. split; [apply (AV tt), Av|].
              constructor; [|exact Fv]. simpl. rewrite Ev. right. exact Eq.
           ++ intros [Av Fv]. inversion Fv as [|? ? _ Fv']. subst. apply (proj2 IH). split; [apply (AV tt), Av | exact Fv'].
        -- inversion H. subst. clear H. specialize (IH _ _ _ _ _ _ _ E2 C). split.
           ++ intros [Hu Hc]. destruct (proj1 IH) as [Av Fv]; [split; [exact Hu | intros c Hin; apply Hc; right; exact Hin]|].
              split; [apply (AV tt), Av|]. constructor; [|exact Fv]. simpl. rewrite Ev. left.
              rewrite <- truthy_OEq'. apply Hc. left. reflexivity.
           ++ intros [Av Fv]. inversion Fv as [|? ? Hc0 Fv']. subst. simpl in Hc0. rewrite Ev in Hc0.
              destruct (proj2 IH) as [Hu2 Hc2]; [split; [apply (AV tt), Av | exact Fv']|].
              split; [exact Hu2|]. intros c [Hin|Hin]; [|apply Hc2, Hin]. subst c. rewrite truthy_OEq'.
              destruct Hc0 as [Hs|Hs]; [exact Hs | congruence].
    + destruct (extract_body cs ti n) as [[[[us2 co2] cm2] ts2] n2] eqn:E2. inversion H. subst. clear H.
      assert (AV : atoms_valid tau (KCond c0 :: cs) ti rho <-> atoms_valid tau cs ti rho)
        by (unfold atoms_valid; simpl; tauto).
      specialize (IH _ _ _ _ _ _ _ E2 C). split.
      * intros [Hu Hc]. destruct (proj1 IH) as [Av Fv]; [split; [exact Hu | intros c Hin; apply Hc; right; exact Hin]|].
        split; [apply AV, Av|]. constructor; [|exact Fv]. simpl. apply Hc. left. reflexivity.
      * intros [Av Fv]. inversion Fv as [|? ? Hc0 Fv']. subst. simpl in Hc0.
        destruct (proj2 IH) as [Hu2 Hc2]; [split; [apply AV, Av | exact Fv']|].
        split; [exact Hu2|]. intros c [Hin|Hin]; [subst; exact Hc0 | apply Hc2, Hin].
Qed.

(* ---------- the column variables are pairwise different ---------- *)
Lemma extract_args_keys ti : forall args n us cm n',
  extract_args ti args n = (us, cm, n') -> map fst cm = map xvar (seq n (length args)) /\ n' = (n + length args)%nat.
Proof.
  induction args as [|[f e] args IH]; intros n us cm n' H; simpl in H.
  - inversion H. subst. split; [reflexivity | simpl; lia].
  - destruct (extract_args ti args (S n)) as [[us1 cm1] n1] eqn:E1. inversion H. subst.
    destruct (IH _ _ _ _ E1) as [K1 K2]. split; [simpl; rewrite K1; reflexivity | simpl; lia].
Qed.

Lemma extract_body_keys : forall cs ti n us co cm ts n',
  extract_body cs ti n = (us, co, cm, ts, n') -> map fst cm = map xvar (seq n (n' - n)) /\ n <= n'.
Proof.
  induction cs as [|c cs IH]; intros ti n us co cm ts n' H; simpl in H.
  - inversion H. subst. rewrite Nat.sub_diag. split; [reflexivity | lia].
  - destruct c as [p args|l0 r0|c0].
    + destruct (extract_args ti args n) as [[us1 cm1] n1] eqn:E1.
      destruct (extract_body cs (S ti) n1) as [[[[us2 co2] cm2] ts2] n2] eqn:E2. inversion H. subst.
      destruct (extract_args_keys _ _ _ _ _ _ E1) as [K1 K1']. destruct (IH _ _ _ _ _ _ _ E2) as [K2 K2'].
      split; [|lia]. rewrite map_app, K1, K2. subst n1.
      replace (n' - n)%nat with (length args + (n' - (n + length args)))%nat by lia.
      rewrite seq_app, map_app. reflexivity.
    + destruct (extract_body cs ti n) as [[[[us2 co2] cm2] ts2] n2] eqn:E2.
      destruct (is_pvar l0 || is_pvar r0); [|destruct (pexpr_eqb l0 r0)]; inversion H; subst; eapply IH; exact E2.
    + destruct (extract_body cs ti n) as [[[[us2 co2] cm2] ts2] n2] eqn:E2. inversion H. subst. eapply IH; exact E2.
Qed.

Lemma xvar_inj a b : xvar a = xvar b -> a = b.
Proof. unfold xvar. lia. Qed.

Lemma nodup_cols cs ti n us co cm ts n' : extract_body cs ti n = (us, co, cm, ts, n') -> NoDup (map fst cm).
Proof.
  intros H. destruct (extract_body_keys _ _ _ _ _ _ _ _ H) as [K _]. rewrite K.
  apply FinFun.Injective_map_NoDup; [intros a b; apply xvar_inj | apply seq_NoDup].
Qed.

Lemma lookup_col_In x tf cm : NoDup (map fst cm) -> In (x, tf) cm -> lookup_col x cm = Some tf.
Proof.
  induction cm as [|[y uf] cm IH]; simpl; intros ND Hin; [contradiction|].
  inversion ND as [|? ? Hy ND']. subst. destruct Hin as [Hin|Hin].
  - inversion Hin. subst. rewrite Nat.eqb_refl. reflexivity.
  - destruct (Nat.eqb x y) eqn:E; [|apply IH; assumption].
    apply Nat.eqb_eq in E. subst. exfalso. apply Hy. change y with (fst (y, tf)). apply in_map, Hin.
Qed.

(* ---------- the compile path ---------- *)
Definition compiled (is_x : var -> bool) (r : crule) (final : rs) : Prop :=
  eliminate is_x (map fst (x_cols (extract r))) (x_rs (extract r)) = Some (inr final).

Lemma extract_parts r :
  exists uh n1 ub co cm ts n2,
    extract_head (k_head r) 0 = (uh, n1) /\ extract_body (k_body r) 0 n1 = (ub, co, cm, ts, n2) /\
    x_rs (extract r) = {| sel := k_head r; unifs := uh ++ ub; cons := co |} /\ x_cols (extract r) = cm.
Proof.
  unfold extract. destruct (extract_head (k_head r) 0) as [uh n1] eqn:E1.
  destruct (extract_body (k_body r) 0 n1) as [[[[ub co] cm] ts] n2] eqn:E2.
  exists uh, n1, ub, co, cm, ts, n2. auto.
Qed.

Lemma forallb_cons_solves en final : unifs final = [] ->
  forallb (fun c => truthy (peval en c)) (cons final) = true -> solves app en final.
Proof.
  intros Hu H. split; [rewrite Hu; intros l r [] |]. intros c Hin. rewrite forallb_forall in H. apply H, Hin.
Qed.

Lemma eliminate_no_unifs is_x E s s' : eliminate is_x E s = Some (inr s') -> unifs s' = [].
Proof.
  unfold eliminate. destruct (rounds _ _ _ _ s); [|discriminate]. destruct (internal_vars E r); [|discriminate].
  intros H. inversion H. reflexivity.
Qed.

(* SOUNDNESS: every row the SQL emits for a row choice is the head row of a derivation of the rule with
   exactly that row choice. *)
Theorem compile_sound is_x r final rho out :
  compiled is_x r final -> wf_choice (x_cols (extract r)) rho ->
  sql_row app (x_cols (extract r)) final rho = Some out ->
  exists tau, derives tau rho r /\ head_row app tau r = out.
Proof.
  intros Hc Hwf Hs. unfold sql_row in Hs.
  destruct (forallb _ (cons final)) eqn:Ef; [|discriminate]. inversion Hs. subst out. clear Hs.
  set (en := env_of (x_cols (extract r)) rho) in *.
  pose proof (forallb_cons_solves en final (eliminate_no_unifs _ _ _ _ Hc) Ef) as Hsol.
  destruct (eliminate_row_choice app is_x _ _ _ Hc en) as [B _].
  destruct (B Hsol) as [tau [Agree [Htau Hout]]].
  exists tau. destruct (extract_parts r) as [uh [n1 [ub [co [cm [ts [n2 [E1 [E2 [Ers Ecm]]]]]]]]]].
  rewrite Ecm in *. rewrite Ers in Htau, Hout.
  assert (C : cells_ok tau cm rho).
  { intros x t f Hin. destruct (Hwf x t f Hin) as [rw [v [Hr Hv]]]. exists rw. split; [exact Hr|].
    rewrite Hv. f_equal.
    assert (Ex : tau x = en x) by (apply Agree; change x with (fst (x, (t, f))); apply in_map, Hin).
    rewrite Ex. unfold en, env_of. rewrite ?Ecm. rewrite (lookup_col_In x (t, f) cm (nodup_cols _ _ _ _ _ _ _ _ E2) Hin).
    rewrite Hr, Hv. reflexivity. }
  split.
  - destruct Htau as [Hu Hco]. cbn [unifs cons] in Hu, Hco.
    apply (proj1 (body_lemma tau rho _ _ _ _ _ _ _ _ E2 C)). split; [|exact Hco].
    intros l r0 Hin. apply Hu. apply in_or_app. right. exact Hin.
  - rewrite <- Hout. reflexivity.
Qed.

(* COMPLETENESS: a derivation tau of the rule for the row choice rho (tau also names the column variables:
   cells_ok, and satisfies the head "extract" unifications) whose remaining equalities compare non-null values
   passes the final WHERE, and the SELECT row is the head row. *)
Theorem compile_complete is_x r final rho tau :
  compiled is_x r final -> cells_ok tau (x_cols (extract r)) rho ->
  (forall l r0, In (l, r0) (fst (extract_head (k_head r) 0)) -> peval tau l = peval tau r0) ->
  derives tau rho r ->
  (forall s1 l r0, represents app (map fst (x_cols (extract r))) (x_rs (extract r)) s1 ->
     In (l, r0) (unifs s1) -> peval tau l <> VNull) ->
  sql_row app (x_cols (extract r)) final rho = Some (head_row app tau r).
Proof.
  intros Hc C Hh [Av Fv] Hnn.
  destruct (extract_parts r) as [uh [n1 [ub [co [cm [ts [n2 [E1 [E2 [Ers Ecm]]]]]]]]]].
  rewrite E1 in Hh. simpl in Hh. unfold compiled in Hc. rewrite Ecm in *.
  destruct (proj2 (body_lemma tau rho _ _ _ _ _ _ _ _ E2 C) (Logic.conj Av Fv)) as [Hu Hco].
  assert (Hsol : solves app tau (x_rs (extract r))).
  { rewrite Ers. split; cbn [unifs cons]; [|exact Hco]. intros l r0 Hin.
    apply in_app_or in Hin as [Hin|Hin]; [apply Hh, Hin | apply Hu, Hin]. }
  set (en := env_of cm rho).
  assert (Agree : forall x, In x (map fst cm) -> tau x = en x).
  { intros x Hx. apply in_map_iff in Hx as [[y [t f]] [Ey Hin]]. simpl in Ey. subst y.
    destruct (C x t f Hin) as [rw [Hr Hv]]. unfold en, env_of.
    rewrite (lookup_col_In x (t, f) cm (nodup_cols _ _ _ _ _ _ _ _ E2) Hin), Hr, Hv. reflexivity. }
  destruct (eliminate_row_choice app is_x _ _ _ Hc en) as [_ F].
  destruct (F tau Agree Hsol Hnn) as [Hen Hout].
  unfold sql_row. fold en.
  assert (Ef : forallb (fun c => truthy (peval en c)) (cons final) = true).
  { apply forallb_forall. intros c Hin. destruct Hen as [_ H2]. apply H2, Hin. }
  rewrite Ef. f_equal. rewrite Hout. rewrite Ers. reflexivity.
Qed.

(* DETERMINACY: the head row is a function of the row choice.  Two derivations of the rule for the same row
   choice (both under the hypotheses of compile_complete) have the same head row, the one the SQL emits: the
   rule is range restricted in the sense that matters, no head value is left to the valuation. *)
Corollary head_row_determined_by_row_choice is_x r final rho tau1 tau2 :
  compiled is_x r final ->
  (forall tau, tau = tau1 \/ tau = tau2 ->
     cells_ok tau (x_cols (extract r)) rho /\
     (forall l r0, In (l, r0) (fst (extract_head (k_head r) 0)) -> peval tau l = peval tau r0) /\
     derives tau rho r /\
     (forall s1 l r0, represents app (map fst (x_cols (extract r))) (x_rs (extract r)) s1 ->
        In (l, r0) (unifs s1) -> peval tau l <> VNull)) ->
  head_row app tau1 r = head_row app tau2 r.
Proof.
  intros Hc H.
  destruct (H tau1 (or_introl eq_refl)) as [C1 [Hh1 [D1 N1]]].
  destruct (H tau2 (or_intror eq_refl)) as [C2 [Hh2 [D2 N2]]].
  pose proof (compile_complete is_x r final rho tau1 Hc C1 Hh1 D1 N1) as E1.
  pose proof (compile_complete is_x r final rho tau2 Hc C2 Hh2 D2 N2) as E2.
  rewrite E1 in E2. inversion E2. reflexivity.
Qed.

(* SOUND and COMPLETE together: under the hypotheses of compile_complete the SQL row for rho is defined, and
   it is the head row of a derivation (compile_sound gives one back; its head row is the same row). *)
Corollary compile_exact is_x r final rho tau :
  compiled is_x r final -> wf_choice (x_cols (extract r)) rho ->
  cells_ok tau (x_cols (extract r)) rho ->
  (forall l r0, In (l, r0) (fst (extract_head (k_head r) 0)) -> peval tau l = peval tau r0) ->
  derives tau rho r ->
  (forall s1 l r0, represents app (map fst (x_cols (extract r))) (x_rs (extract r)) s1 ->
     In (l, r0) (unifs s1) -> peval tau l <> VNull) ->
  exists out tau', sql_row app (x_cols (extract r)) final rho = Some out /\
     out = head_row app tau r /\ derives tau' rho r /\ head_row app tau' r = out.
Proof.
  intros Hc Hwf C Hh D N.
  pose proof (compile_complete is_x r final rho tau Hc C Hh D N) as E.
  destruct (compile_sound is_x r final rho _ Hc Hwf E) as [tau' [D' O']].
  exists (head_row app tau r), tau'.
  split; [exact E|]. split; [reflexivity|]. split; [exact D'|exact O'].
Qed.

End Correct.
