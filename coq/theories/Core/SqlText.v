(* A lexical / bracket-structure model of SQL text, and of the three Python formatting operations
   (`f % args`, `f.format( *args)`, `f.format( **args)`) by which compiler/expr_translate.py and
   compiler/rule_translate.py instantiate the templates of a dialect.

   Model only (no proofs; see SqlTextProofs.v).  Everything is executable: `balanced`, `scoped`,
   `no_placeholder`, `no_ident_prefix` are the oracles that props/c09.py runs (vm_compute) on the text
   that the real compiler emits.

   Text is a list of bytes (N).  Quote conventions are facts about the engines, not about the
   compiler, and are fixed here (qstyle_of). *)
From Coq Require Import List String Ascii NArith Bool Arith.
From Coq Require Strings.Byte.
Import ListNotations.
From LV Require Import Core.DialectSig.
Local Open Scope N_scope.

Definition text := list N.
Definition bytes (s : string) : text := map Byte.to_N (list_byte_of_string s).

Fixpoint text_eqb (a b : text) : bool :=
  match a, b with
  | [], [] => true
  | x :: a', y :: b' => (x =? y) && text_eqb a' b'
  | _, _ => false
  end.
Definition mem (x : text) (l : list text) : bool := existsb (text_eqb x) l.
Fixpoint prefixb (p s : text) : bool :=
  match p, s with
  | [], _ => true
  | x :: p', y :: s' => (x =? y) && prefixb p' s'
  | _, [] => false
  end.
Fixpoint contains (p s : text) : bool :=
  prefixb p s || match s with [] => false | _ :: s' => contains p s' end.

(* ---------------------------------------------------------------------------------------------- *)
(* 1. Quotes and brackets: the scanning automaton                                                  *)
(* ---------------------------------------------------------------------------------------------- *)
Record qstyle := { q_sq_bs : bool;   (* backslash escapes inside '...' *)
                   q_dq_bs : bool }. (* backslash escapes inside "..." *)

Definition string_eqb (a b : string) : bool := text_eqb (bytes a) (bytes b).

(* sqlite / psql / presto / trino: standard strings, '' doubling only.
   clickhouse, bigquery, databricks: backslash escapes in both kinds of quotes.
   duckdb: backslash escapes only in E'...' strings; approximated by "always" (the compiler writes every
   user string as E'...'; the finite obligation duckdb_templates_no_backslash covers the templates). *)
Definition qstyle_of (engine : string) : qstyle :=
  if string_eqb engine "clickhouse" || string_eqb engine "bigquery" || string_eqb engine "databricks"
  then {| q_sq_bs := true; q_dq_bs := true |}
  else if string_eqb engine "duckdb" then {| q_sq_bs := true; q_dq_bs := false |}
  else {| q_sq_bs := false; q_dq_bs := false |}.

Inductive mode := MNorm | MStr (q : N) | MEsc (q : N).

Definition is_quote (c : N) : bool := (c =? 39) || (c =? 34) || (c =? 96).
Definition is_open (c : N) : bool := (c =? 40) || (c =? 91) || (c =? 123).
Definition open_of (c : N) : option N :=
  if c =? 41 then Some 40 else if c =? 93 then Some 91 else if c =? 125 then Some 123 else None.
Definition bs_active (qs : qstyle) (q : N) : bool :=
  if q =? 39 then q_sq_bs qs else if q =? 34 then q_dq_bs qs else false.

(* A doubled quote inside a literal ('it''s') is read as "close, reopen": the mode outside literals and
   the set of characters that are inside literals are the same as with a look-ahead lexer. *)
Definition step (qs : qstyle) (s : mode * list N) (c : N) : option (mode * list N) :=
  let (m, st) := s in
  match m with
  | MNorm =>
      if is_quote c then Some (MStr c, st)
      else if is_open c then Some (MNorm, c :: st)
      else match open_of c with
           | Some o => match st with
                       | t :: st' => if t =? o then Some (MNorm, st') else None
                       | [] => None
                       end
           | None => Some (MNorm, st)
           end
  | MStr q => if c =? q then Some (MNorm, st)
              else if (c =? 92) && bs_active qs q then Some (MEsc q, st)
              else Some (MStr q, st)
  | MEsc q => Some (MStr q, st)
  end.

Fixpoint scan (qs : qstyle) (s : mode * list N) (l : text) : option (mode * list N) :=
  match l with
  | [] => Some s
  | c :: r => match step qs s c with Some s' => scan qs s' r | None => None end
  end.

Definition balanced (qs : qstyle) (t : text) : bool :=
  match scan qs (MNorm, []) t with Some (MNorm, []) => true | _ => false end.

(* "closed": can be put anywhere outside a literal without disturbing the surroundings. *)
Definition closed (qs : qstyle) (t : text) : Prop := forall st, scan qs (MNorm, st) t = Some (MNorm, st).

(* characters that change neither mode nor stack, inside or outside a literal *)
Definition inert_char (c : N) : bool :=
  negb (is_quote c || is_open c || (match open_of c with Some _ => true | None => false end) || (c =? 92)).
Definition inert (t : text) : bool := forallb inert_char t.

(* ---------------------------------------------------------------------------------------------- *)
(* 2. Python's two template languages, as far as the compiler uses them                              *)
(* ---------------------------------------------------------------------------------------------- *)
Inductive key := KIdx (n : nat) | KName (s : text).
Inductive piece := Lit (c : N) | Hole (k : key).
Definition template := list piece.

(* `fmt % args` with str arguments: %s takes the next argument, %% is a percent sign; every other
   directive is rejected (Python would raise for most of them; rejecting all is conservative). *)
Fixpoint parse_pct (n : nat) (l : text) : option template :=
  match l with
  | [] => Some []
  | c :: r =>
      if c =? 37 then
        match r with
        | c2 :: r2 =>
            if c2 =? 115 then option_map (cons (Hole (KIdx n))) (parse_pct (S n) r2)
            else if c2 =? 37 then option_map (cons (Lit 37)) (parse_pct n r2)
            else None
        | [] => None
        end
      else option_map (cons (Lit c)) (parse_pct n r)
  end.

Definition is_digit (c : N) : bool := (48 <=? c) && (c <=? 57).
Fixpoint dec_value (acc : nat) (l : text) : nat :=
  match l with [] => acc | c :: r => dec_value (10 * acc + N.to_nat (c - 48)) r end.
Definition key_of (k : text) : key :=
  if forallb is_digit k then KIdx (dec_value 0 k) else KName k.

(* `fmt.format(...)`: {{ and }} are braces, {key} a replacement field, {} the next positional argument
   (Python refuses to mix {} with {0}); conversions (!r), format specs (:..) and attribute/index access
   are rejected (not used by any template; rejecting is conservative). *)
Inductive fstate := FText | FOpen | FKey (acc : text) | FClose.
Inductive numbering := NumUnknown | NumAuto (next : nat) | NumManual.
Fixpoint parse_fmt_aux (nm : numbering) (s : fstate) (l : text) : option template :=
  match l with
  | [] => match s with FText => Some [] | _ => None end
  | c :: r =>
      match s with
      | FText => if c =? 123 then parse_fmt_aux nm FOpen r
                 else if c =? 125 then parse_fmt_aux nm FClose r
                 else option_map (cons (Lit c)) (parse_fmt_aux nm FText r)
      | FOpen => if c =? 123 then option_map (cons (Lit 123)) (parse_fmt_aux nm FText r)
                 else if c =? 125 then
                   match nm with
                   | NumManual => None
                   | NumUnknown => option_map (cons (Hole (KIdx 0))) (parse_fmt_aux (NumAuto 1) FText r)
                   | NumAuto n => option_map (cons (Hole (KIdx n))) (parse_fmt_aux (NumAuto (S n)) FText r)
                   end
                 else if (c =? 33) || (c =? 58) || (c =? 46) || (c =? 91) then None
                 else parse_fmt_aux nm (FKey [c]) r
      | FKey acc => if c =? 125 then
                      match key_of (rev acc), nm with
                      | KIdx _, NumAuto _ => None
                      | KIdx i, _ => option_map (cons (Hole (KIdx i))) (parse_fmt_aux NumManual FText r)
                      | KName n, _ => option_map (cons (Hole (KName n))) (parse_fmt_aux nm FText r)
                      end
                    else if (c =? 123) || (c =? 33) || (c =? 58) || (c =? 46) || (c =? 91) then None
                    else parse_fmt_aux nm (FKey (c :: acc)) r
      | FClose => if c =? 125 then option_map (cons (Lit 125)) (parse_fmt_aux nm FText r) else None
      end
  end.
Definition parse_fmt (l : text) : option template := parse_fmt_aux NumUnknown FText l.

Fixpoint inst (lookup : key -> option text) (t : template) : option text :=
  match t with
  | [] => Some []
  | Lit c :: r => option_map (cons c) (inst lookup r)
  | Hole k :: r => match lookup k, inst lookup r with
                   | Some a, Some b => Some (a ++ b)
                   | _, _ => None
                   end
  end.

Fixpoint holes (t : template) : list key :=
  match t with [] => [] | Lit _ :: r => holes r | Hole k :: r => k :: holes r end.

Fixpoint join (sep : text) (l : list text) : text :=
  match l with
  | [] => []
  | [a] => a
  | a :: r => a ++ sep ++ join sep r
  end.

Definition pct_s : text := [37; 115].
Definition comma_sp : text := [44; 32].

Definition by_index (args : list text) (k : key) : option text :=
  match k with KIdx i => nth_error args i | KName _ => None end.

(* QL.Function(f, args): `f % ', '.join(args)` if '%s' in f else `f.format( *args)` *)
Definition inst_function (f : text) (args : list text) : option text :=
  if contains pct_s f then
    match parse_pct 0 f with
    | Some t => if Nat.eqb (List.length (holes t)) 1 then inst (by_index [join comma_sp args]) t else None
    | None => None
    end
  else match parse_fmt f with Some t => inst (by_index args) t | None => None end.

Definition name_left : text := [108; 101; 102; 116].
Definition name_right : text := [114; 105; 103; 104; 116].
Definition by_left_right (l r : text) (k : key) : option text :=
  match k with
  | KName n => if text_eqb n name_left then Some l else if text_eqb n name_right then Some r else None
  | KIdx _ => None
  end.

(* QL.Infix(op, args) followed by '(' + result + ')' in ConvertToSql *)
Definition inst_infix (op : text) (l r : text) : option text :=
  let body :=
    if contains pct_s op then
      match parse_pct 0 op with
      | Some t => if Nat.eqb (List.length (holes t)) 2 then inst (by_index [l; r]) t else None
      | None => None
      end
    else match parse_fmt op with Some t => inst (by_left_right l r) t | None => None end in
  option_map (fun b => 40 :: b ++ [41]) body.

(* dialect.UnnestPhrase().format(the_list, element);  ANALYTIC_FUNCTIONS[f].format(a, g, o[, w]) *)
Definition inst_format (f : text) (args : list text) : option text :=
  match parse_fmt f with Some t => inst (by_index args) t | None => None end.

(* array_phrase % internals;  FMT % (record, subscript) in a dialect's Subscript *)
Definition inst_percent (f : text) (args : list text) : option text :=
  match parse_pct 0 f with
  | Some t => if Nat.eqb (List.length (holes t)) (List.length args) then inst (by_index args) t else None
  | None => None
  end.

(* Scanning a template: literal characters move the automaton, a hole must stand outside literals
   (allow k = false), or may stand inside a literal when the argument is known to be inert (allow k). *)
Fixpoint tscan (qs : qstyle) (allow : key -> bool) (s : mode * list N) (t : template) : option (mode * list N) :=
  match t with
  | [] => Some s
  | Lit c :: r => match step qs s c with Some s' => tscan qs allow s' r | None => None end
  | Hole k :: r => match fst s with
                   | MNorm => tscan qs allow s r
                   | MStr _ => if allow k then tscan qs allow s r else None
                   | MEsc _ => None
                   end
  end.

Definition tclosed (qs : qstyle) (allow : key -> bool) (t : template) : bool :=
  match tscan qs allow (MNorm, []) t with Some (MNorm, []) => true | _ => false end.

Definition no_allow (k : key) : bool := false.

Definition key_idx_below (n : nat) (k : key) : bool :=
  match k with KIdx i => Nat.ltb i n | KName _ => false end.
Definition key_left_right (k : key) : bool :=
  match k with KName n => text_eqb n name_left || text_eqb n name_right | KIdx _ => false end.

(* the decidable "this template is fine" conditions, one per instantiation site *)
Definition function_template_ok (qs : qstyle) (f : text) (min_args : nat) : bool :=
  if contains pct_s f then
    match parse_pct 0 f with
    | Some t => Nat.eqb (List.length (holes t)) 1 && tclosed qs no_allow t
    | None => false
    end
  else match parse_fmt f with
       | Some t => forallb (key_idx_below min_args) (holes t) && tclosed qs no_allow t
       | None => false
       end.

Definition infix_template_ok (qs : qstyle) (op : text) : bool :=
  if contains pct_s op then
    match parse_pct 0 op with
    | Some t => Nat.eqb (List.length (holes t)) 2 && tclosed qs no_allow t
    | None => false
    end
  else match parse_fmt op with
       | Some t => forallb key_left_right (holes t) && tclosed qs no_allow t
       | None => false
       end.

Definition format_template_ok (qs : qstyle) (f : text) (nargs : nat) : bool :=
  match parse_fmt f with
  | Some t => forallb (key_idx_below nargs) (holes t) && tclosed qs no_allow t
  | None => false
  end.

Definition percent_template_ok (qs : qstyle) (allow : key -> bool) (f : text) (nargs : nat) : bool :=
  match parse_pct 0 f with
  | Some t => Nat.eqb (List.length (holes t)) nargs && tclosed qs allow t
  | None => false
  end.

(* ---------------------------------------------------------------------------------------------- *)
(* 3. Tokens, bracket tree                                                                          *)
(* ---------------------------------------------------------------------------------------------- *)
Inductive tok :=
| TId (s : text) | TNum (s : text) | TStr (q : N) | TOpen (c : N) | TClose (c : N) | TDot | TSym (c : N).

Definition is_idch (c : N) : bool :=
  is_digit c || ((65 <=? c) && (c <=? 90)) || ((97 <=? c) && (c <=? 122)) || (c =? 95) || (c =? 36) || (128 <=? c).
Definition is_space (c : N) : bool := (c =? 32) || (c =? 10) || (c =? 9) || (c =? 13).

Record lexst := { lx_mode : mode; lx_cur : option (bool * text); lx_out : list tok }.

Definition flush (cur : option (bool * text)) (out : list tok) : list tok :=
  match cur with
  | None => out
  | Some (true, r) => TNum (rev r) :: out
  | Some (false, r) => TId (rev r) :: out
  end.

Definition lex_step (qs : qstyle) (s : lexst) (c : N) : lexst :=
  match lx_mode s with
  | MNorm =>
      if is_idch c then
        match lx_cur s with
        | None => {| lx_mode := MNorm; lx_cur := Some (is_digit c, [c]); lx_out := lx_out s |}
        | Some (b, r) => {| lx_mode := MNorm; lx_cur := Some (b, c :: r); lx_out := lx_out s |}
        end
      else
        match lx_cur s, c =? 46 with
        | Some (true, r), true => {| lx_mode := MNorm; lx_cur := Some (true, c :: r); lx_out := lx_out s |}
        | _, _ =>
            let out := flush (lx_cur s) (lx_out s) in
            if is_quote c then {| lx_mode := MStr c; lx_cur := None; lx_out := out |}
            else if is_open c then {| lx_mode := MNorm; lx_cur := None; lx_out := TOpen c :: out |}
            else match open_of c with
                 | Some _ => {| lx_mode := MNorm; lx_cur := None; lx_out := TClose c :: out |}
                 | None =>
                     if c =? 46 then {| lx_mode := MNorm; lx_cur := None; lx_out := TDot :: out |}
                     else if is_space c then {| lx_mode := MNorm; lx_cur := None; lx_out := out |}
                     else {| lx_mode := MNorm; lx_cur := None; lx_out := TSym c :: out |}
                 end
        end
  | MStr q =>
      if c =? q then {| lx_mode := MNorm; lx_cur := None; lx_out := TStr q :: lx_out s |}
      else if (c =? 92) && bs_active qs q then {| lx_mode := MEsc q; lx_cur := None; lx_out := lx_out s |}
      else s
  | MEsc q => {| lx_mode := MStr q; lx_cur := None; lx_out := lx_out s |}
  end.

Definition lex_init : lexst := {| lx_mode := MNorm; lx_cur := None; lx_out := [] |}.

Definition lex (qs : qstyle) (t : text) : option (list tok) :=
  let s := fold_left (lex_step qs) t lex_init in
  match lx_mode s with
  | MNorm => Some (rev (flush (lx_cur s) (lx_out s)))
  | _ => None
  end.

Inductive tree := Leaf (t : tok) | Node (o : N) (ch : list tree).

Fixpoint build (ts : list tok) (cur : list tree) (stack : list (N * list tree)) : option (list tree) :=
  match ts with
  | [] => match stack with [] => Some (rev cur) | _ => None end
  | TOpen o :: r => build r [] ((o, cur) :: stack)
  | TClose c :: r =>
      match stack with
      | (o, prev) :: st' =>
          match open_of c with
          | Some o' => if o' =? o then build r (Node o (rev cur) :: prev) st' else None
          | None => None
          end
      | [] => None
      end
  | t :: r => build r (Leaf t :: cur) stack
  end.

Definition forest_of (qs : qstyle) (t : text) : option (list tree) :=
  match lex qs t with Some ts => build ts [] [] | None => None end.

(* ---------------------------------------------------------------------------------------------- *)
(* 4. Scoping: alias.column against enclosing FROMs, table names against WITH names                  *)
(* ---------------------------------------------------------------------------------------------- *)
Definition lower (c : N) : N := if (65 <=? c) && (c <=? 90) then c + 32 else c.

Definition is_kw (w : text) (t : tree) : bool :=
  match t with Leaf (TId x) => text_eqb (map lower x) w | _ => false end.
Definition is_sym (c : N) (t : tree) : bool :=
  match t with Leaf (TSym x) => x =? c | _ => false end.

Definition kw_select := bytes "select".
Definition kw_from := bytes "from".
Definition kw_as := bytes "as".
Definition kw_with := bytes "with".
Definition kw_recursive := bytes "recursive".
Definition kw_union := bytes "union".
Definition kw_end := bytes "end".
Definition from_enders : list text :=
  map bytes ["where"; "group"; "order"; "limit"; "having"; "window"; "union"]%string.

Fixpoint split_on (p : tree -> bool) (l : list tree) : list (list tree) :=
  match l with
  | [] => [[]]
  | x :: r => match split_on p r with
              | cur :: rest => if p x then [] :: cur :: rest else (x :: cur) :: rest
              | [] => [[x]]
              end
  end.

Fixpoint drop_until (p : tree -> bool) (l : list tree) : option (list tree) :=   (* the part after the first hit *)
  match l with [] => None | x :: r => if p x then Some r else drop_until p r end.
Fixpoint take_until (p : tree -> bool) (l : list tree) : list tree :=
  match l with [] => [] | x :: r => if p x then [] else x :: take_until p r end.
Fixpoint from_first (p : tree -> bool) (l : list tree) : list tree :=           (* from the first hit on *)
  match l with [] => [] | x :: r => if p x then l else from_first p r end.

Definition is_ender (t : tree) : bool := existsb (fun w => is_kw w t) from_enders.

(* the alias an item of a FROM list introduces *)
Fixpoint last_id (l : list tree) : list text :=
  match l with
  | [] => []
  | [Leaf (TId a)] => [a]
  | _ :: r => last_id r
  end.
Definition only_name_chain (l : list tree) : bool :=
  forallb (fun t => match t with Leaf (TId _) => true | Leaf TDot => true | _ => false end) l.
Definition item_alias (item : list tree) : list text :=
  match drop_until (is_kw kw_as) item with
  | Some (Leaf (TId a) :: _) => [a]
  | Some _ => []
  | None => if only_name_chain item then last_id item else []
  end.

(* table position: a bare name must be a WITH name in scope (or a declared external table) *)
Definition item_table_ok (tenv ext : list text) (item : list tree) : bool :=
  match item with
  | Leaf (TId a) :: Node _ _ :: _ => true                 (* table function: UNNEST(..), JSON_EACH(..) *)
  | Leaf (TId a) :: Leaf TDot :: _ => mem a ext            (* qualified name *)
  | Leaf (TId a) :: _ => mem a tenv || mem a ext
  | [] => false
  | _ => true
  end.
(* the alias introduced with AS is ONE identifier: `t AS a.b` is not an alias in any dialect *)
Definition item_alias_ok (item : list tree) : bool :=
  match drop_until (is_kw kw_as) item with
  | Some (Leaf (TId _) :: Leaf TDot :: _) => false
  | _ => true
  end.
(* what is left of an item for the reference check (its table name is not a column reference) *)
Fixpoint skip_chain (l : list tree) : list tree :=
  match l with
  | Leaf (TId _) :: r => skip_chain r
  | Leaf TDot :: r => skip_chain r
  | _ => l
  end.
Definition item_rest (item : list tree) : list tree :=
  match item with
  | Leaf (TId a) :: Node _ _ :: _ => item
  | Leaf (TId a) :: _ => skip_chain item
  | _ => item
  end.

Fixpoint refs_ok (env : list text) (prev_dot : bool) (l : list tree) : bool :=
  match l with
  | [] => true
  | Leaf (TId a) :: r =>
      match r with
      | Leaf TDot :: _ =>
          (* `CASE .. END.field` is a field access on an expression; END is reserved and never an alias *)
          (prev_dot || text_eqb (map lower a) kw_end || mem a env) && refs_ok env false r
      | _ => refs_ok env false r
      end
  | Leaf TDot :: r => refs_ok env true r
  | _ :: r => refs_ok env false r
  end.

Definition children (l : list tree) : list (list tree) :=
  flat_map (fun t => match t with Node _ ch => [ch] | Leaf _ => [] end) l.

(* fuel: every recursive call consumes one unit; 2 * (number of tokens) + 4 always suffices; running
   out of fuel yields false (never "scoped"). *)
Fixpoint sc_level (fuel : nat) (ext aenv tenv : list text) (level : list tree) {struct fuel} : bool :=
  match fuel with
  | O => false
  | S f =>
      match level with
      | w :: rest =>
          if is_kw kw_with w
          then
            match rest with
            | r :: rest' => if is_kw kw_recursive r then sc_with f ext aenv tenv true rest'
                            else sc_with f ext aenv tenv false rest
            | [] => false
            end
          else sc_segments f ext aenv tenv level
      | [] => true
      end
  end
with sc_with (fuel : nat) (ext aenv tenv : list text) (recursive : bool) (l : list tree) {struct fuel} : bool :=
  match fuel with
  | O => false
  | S f =>
      match l with
      | Leaf (TId name) :: a :: Node _ body :: more =>
          is_kw kw_as a && negb (mem name tenv) &&
          sc_level f ext aenv (if recursive then name :: tenv else tenv) body &&
          match more with
          | c :: more' => if is_sym 44 c then sc_with f ext aenv (name :: tenv) recursive more'
                          else sc_level f ext aenv (name :: tenv) more
          | [] => false
          end
      | _ => false
      end
  end
with sc_segments (fuel : nat) (ext aenv tenv : list text) (level : list tree) {struct fuel} : bool :=
  match fuel with
  | O => false
  | S f =>
      forallb (fun seg =>
        let has_select := existsb (is_kw kw_select) seg in
        let before := take_until (is_kw kw_from) seg in
        let from_on := if has_select then drop_until (is_kw kw_from) seg else None in
        match from_on with
        | Some after =>
            let items := split_on (is_sym 44) (take_until is_ender after) in
            let tail := from_first is_ender after in
            let aenv' := flat_map item_alias items ++ aenv in
            forallb (item_table_ok tenv ext) items && forallb item_alias_ok items &&
            refs_ok aenv' false before &&
            (* the items of one FROM list are read left to right: an item (UNNEST(..), JSON_EACH(..), a
               parenthesised query) may mention the aliases of the items BEFORE it and of enclosing queries *)
            (fix go (env : list text) (its : list (list tree)) : bool :=
               match its with
               | [] => true
               | it :: its' =>
                   refs_ok env false (item_rest it) && forallb (sc_level f ext env tenv) (children it) &&
                   go (item_alias it ++ env) its'
               end) aenv items &&
            refs_ok aenv' false tail &&
            forallb (sc_level f ext aenv' tenv) (children before ++ children tail)
        | None =>
            refs_ok aenv false seg && forallb (sc_level f ext aenv tenv) (children seg)
        end) (split_on (is_kw kw_union) level)
  end.

(* A statement: everything before the first WITH / SELECT (CREATE TABLE x AS, DROP TABLE ..) is not
   looked at; a statement without SELECT is accepted. *)
Definition stmt_body (st : list tree) : list tree :=
  from_first (fun t => is_kw kw_with t || is_kw kw_select t) st.

Definition scoped_forest (fuel : nat) (ext : list text) (forest : list tree) : bool :=
  forallb (fun st => sc_level fuel ext [] [] (stmt_body st)) (split_on (is_sym 59) forest).

Definition scoped (qs : qstyle) (ext : list text) (t : text) : bool :=
  match lex qs t with
  | Some ts => match build ts [] [] with
               | Some forest => scoped_forest (2 * List.length ts + 4) ext forest
               | None => false
               end
  | None => false
  end.

(* ---------------------------------------------------------------------------------------------- *)
(* 5. Placeholders and leaked variable names                                                        *)
(* ---------------------------------------------------------------------------------------------- *)
(* outside literals: no "%s", no "%%", no "{}", no "{word}" ("{0}", "{left}", "${flag}") *)
Inductive pend := PNone | PPct | PBrace.

Fixpoint np_scan (qs : qstyle) (m : mode) (p : pend) (l : text) : bool :=
  match l with
  | [] => true
  | c :: r =>
      match m with
      | MNorm =>
          let bad := match p with
                     | PPct => (c =? 115) || (c =? 37)
                     | PBrace => c =? 125
                     | PNone => false
                     end in
          if bad then false
          else
            let p' := if c =? 37 then match p with PPct => PNone | _ => PPct end
                      else if c =? 123 then PBrace
                      else match p with PBrace => if is_idch c then PBrace else PNone | _ => PNone end in
            let m' := if is_quote c then MStr c else MNorm in
            np_scan qs m' (if is_quote c then PNone else p') r
      | MStr q => if c =? q then np_scan qs MNorm PNone r
                  else if (c =? 92) && bs_active qs q then np_scan qs (MEsc q) PNone r
                  else np_scan qs (MStr q) PNone r
      | MEsc q => np_scan qs (MStr q) PNone r
      end
  end.
Definition no_placeholder (qs : qstyle) (t : text) : bool := np_scan qs MNorm PNone t.

Definition no_ident_prefix (pfx : text) (ts : list tok) : bool :=
  forallb (fun t => match t with TId s => negb (prefixb pfx s) | _ => true end) ts.

(* ---------------------------------------------------------------------------------------------- *)
(* 5b. Line comments: outside literals `--` starts a comment in all eight dialects.  The compiler   *)
(*     writes comments only as whole lines ("-- Interacting with table ..."); a `--` after other     *)
(*     text on its line (e.g. from `-` applied to an expression that starts with `-`) silently        *)
(*     comments out the rest of that line.                                                            *)
(* ---------------------------------------------------------------------------------------------- *)
Inductive cmode :=
| CNorm (at_start : bool) (dash : option bool)   (* dash = Some b: the previous character was `-`; b: it began its line *)
| CStr (q : N) | CEsc (q : N) | CCom.

Fixpoint cs_scan (qs : qstyle) (m : cmode) (l : text) : bool :=
  match l with
  | [] => true
  | c :: r =>
      match m with
      | CCom => if c =? 10 then cs_scan qs (CNorm true None) r else cs_scan qs CCom r
      | CStr q => if c =? q then cs_scan qs (CNorm false None) r
                  else if (c =? 92) && bs_active qs q then cs_scan qs (CEsc q) r
                  else cs_scan qs (CStr q) r
      | CEsc q => cs_scan qs (CStr q) r
      | CNorm st dash =>
          if c =? 45 then
            match dash with
            | Some first_began_line => if first_began_line then cs_scan qs CCom r else false
            | None => cs_scan qs (CNorm false (Some st)) r
            end
          else if is_quote c then cs_scan qs (CStr c) r
          else if c =? 10 then cs_scan qs (CNorm true None) r
          else if (c =? 32) || (c =? 9) || (c =? 13) then cs_scan qs (CNorm st None) r
          else cs_scan qs (CNorm false None) r
      end
  end.
Definition comments_whole_line (qs : qstyle) (t : text) : bool := cs_scan qs (CNorm true None) t.

(* ---------------------------------------------------------------------------------------------- *)
(* 6. The verdict the harness asks for: bit 1 balanced, 2 lexes and brackets build a tree, 4 scoped,
      8 no placeholder, 16 no identifier with the generator's variable prefix, 32 line comments only
      as whole lines.  63 = all good.                                                                *)
(* ---------------------------------------------------------------------------------------------- *)
Definition b2n (b : bool) (w : N) : N := if b then w else 0.
Definition judge_text (engine : string) (pfx : text) (ext : list text) (t : text) : N :=
  let qs := qstyle_of engine in
  let toks := lex qs t in
  b2n (balanced qs t) 1 +
  b2n (match toks with Some ts => match build ts [] [] with Some _ => true | None => false end | None => false end) 2 +
  b2n (scoped qs ext t) 4 +
  b2n (no_placeholder qs t) 8 +
  b2n (match toks with Some ts => no_ident_prefix pfx ts | None => false end) 16 +
  b2n (comments_whole_line qs t) 32.
Definition judge (engine pfx : string) (ext : list string) (s : string) : N :=
  judge_text engine (bytes pfx) (map bytes ext) (bytes s).
