(* Facts about the comparator of the correspondence runs (Core/Check.v): bringing an evaluator row to the column
   order of the returned header only reorders cells of that row, and the result lists exactly the header. *)
From Coq Require Import List ZArith Bool Arith Lia.
Import ListNotations.
From LV Require Import Core.Syntax Core.Eval Core.Check.

Lemma lookup_cell_spec (f : field) (r : row) (c : field * val) :
  lookup_cell f r = Some c -> fst c = f /\ In c r.
Proof.
  induction r as [|x r IH]; cbn [lookup_cell]; intro H; [discriminate|].
  destruct (Nat.eqb (fst x) f) eqn:E.
  - injection H as <-. apply Nat.eqb_eq in E. split; [exact E | now left].
  - destruct (IH H) as [H1 H2]. split; [exact H1 | now right].
Qed.

Definition align_fold (header : list field) (r : row) : option row :=
  fold_right (fun f acc => match acc, lookup_cell f r with
                           | Some l, Some c => Some (c :: l)
                           | _, _ => None
                           end) (Some []) header.

Lemma align_fold_spec (header : list field) (r r' : row) :
  align_fold header r = Some r' -> map fst r' = header /\ incl r' r.
Proof.
  revert r'. induction header as [|f hs IH]; cbn [align_fold fold_right]; intros r' H.
  - injection H as <-. split; [reflexivity | intros x []].
  - fold (align_fold hs r) in H.
    destruct (align_fold hs r) as [l|] eqn:El; [|discriminate].
    destruct (lookup_cell f r) as [c|] eqn:Ec; [|discriminate].
    injection H as <-. destruct (IH l eq_refl) as [Hm Hi].
    destruct (lookup_cell_spec _ _ _ Ec) as [Hf Hin].
    split.
    + cbn [map]. now rewrite Hf, Hm.
    + intros x [<-|Hx]; [exact Hin | now apply Hi].
Qed.

(* the aligned row either lists exactly the header's columns, each cell taken from the row, or is the row itself *)
Theorem align_row_spec (header : list field) (r : row) :
  (map fst (align_row header r) = header /\ incl (align_row header r) r) \/ align_row header r = r.
Proof.
  unfold align_row. destruct (Nat.eqb (length r) (length header)); [|now right].
  fold (align_fold header r). destruct (align_fold header r) as [r'|] eqn:E; [|now right].
  left. now apply align_fold_spec.
Qed.

(* a row whose cells are already in header order is left as it is when its columns are distinct *)
Lemma lookup_cell_head (c : field * val) (r : row) : lookup_cell (fst c) (c :: r) = Some c.
Proof. cbn [lookup_cell]. now rewrite Nat.eqb_refl. Qed.

Lemma lookup_cell_skip (f : field) (c : field * val) (r : row) :
  fst c <> f -> lookup_cell f (c :: r) = lookup_cell f r.
Proof. intro H. cbn [lookup_cell]. apply Nat.eqb_neq in H. now rewrite H. Qed.

Lemma align_fold_weaken (hs : list field) (c : field * val) (r : row) :
  ~ In (fst c) hs -> align_fold hs (c :: r) = align_fold hs r.
Proof.
  induction hs as [|f hs IH]; intro H; [reflexivity|].
  cbn [align_fold fold_right]. fold (align_fold hs (c :: r)). fold (align_fold hs r).
  rewrite IH by (intro; apply H; now right).
  rewrite lookup_cell_skip by (intro E; apply H; now left). reflexivity.
Qed.

Theorem align_row_id (r : row) : NoDup (map fst r) -> align_row (map fst r) r = r.
Proof.
  intro H. unfold align_row. rewrite map_length, Nat.eqb_refl.
  fold (align_fold (map fst r) r).
  assert (E : align_fold (map fst r) r = Some r).
  { induction r as [|c r IH]; [reflexivity|].
    cbn [map] in *. inversion H as [|? ? Hn Hd]; subst.
    cbn [align_fold fold_right]. fold (align_fold (map fst r) (c :: r)).
    rewrite align_fold_weaken by exact Hn. rewrite (IH Hd).
    now rewrite lookup_cell_head. }
  now rewrite E.
Qed.
