(* Shapes of the tables that translators/dialect_tables.py extracts from compiler/dialects.py and
   compiler/expr_translate.py (coq/gen/DialectTables.v).  No proofs, no code knowledge here. *)
From Coq Require Import List String NArith.
Import ListNotations.

(* One `return FMT % (a, b)` of a dialect's Subscript method.
   sf_cond: "any" (unconditional) | "table" (under `if record_is_table:`) | "value" (the other branch).
   sf_args: for each %s, the name of the method parameter that is substituted; a parameter that went
   through `str(p).replace(a, b)...` first is listed in sf_escapes with its replacement steps. *)
Record subscript_format := {
  sf_cond : string;
  sf_format : string;
  sf_args : list string;
  sf_escapes : list (string * (string * list (string * string)))
}.

(* A method of a dialect class as Python sees it (own or inherited from Dialect):
   name, number of positional parameters after self that have no default, total number after self. *)
Record method_sig := { ms_name : string; ms_min : nat; ms_max : nat }.

Record dialect := {
  d_key : string;                                  (* key of dialects.DIALECTS, the @Engine value *)
  d_class : string;
  d_name : string;                                 (* what Name() returns *)
  d_functions : list (string * string);            (* BuiltInFunctions() *)
  d_infix : list (string * string);                (* InfixOperators() *)
  d_unnest : string;                               (* UnnestPhrase() *)
  d_array : string;                                (* ArrayPhrase() *)
  d_groupby : string;                              (* GroupBySpecBy() *)
  d_psqlish : bool;                                (* IsPostgreSQLish() *)
  d_methods : list method_sig;
  d_subscript_params : list string;                (* parameter names of Subscript after self *)
  d_subscript : list subscript_format
}.

(* A call `<...>.dialect.<Method>(a1, ..., an)` (or dialects.Get(..).<Method>(..)) in the compiler. *)
Record call_site := { cs_where : string; cs_method : string; cs_nargs : nat }.

(* Arity of a bulk function from processed_functions: min, max (None = unbounded). *)
Record bulk_function := { bf_name : string; bf_template : string; bf_min : nat; bf_max : option nat }.
