(* Executable helpers used by props/c09.py for the correspondence run (model of Python's template
   instantiation vs. the real QL.Function / QL.Infix / dialect methods).  No proofs. *)
From Coq Require Import List String NArith Bool.
Import ListNotations.
From LV Require Import Core.DialectSig Core.SqlText Core.DialectCheck.
From LVGen Require Import DialectTables.

Definition expect_eq (o : option text) (e : option string) : bool :=
  match o, e with
  | Some a, Some b => text_eqb a (bytes b)
  | None, None => true
  | _, _ => false
  end.

Definition tie_function (tpl : string) (args : list string) (e : option string) : bool :=
  expect_eq (inst_function (bytes tpl) (map bytes args)) e.
Definition tie_infix (tpl l r : string) (e : option string) : bool :=
  expect_eq (inst_infix (bytes tpl) (bytes l) (bytes r)) e.
Definition tie_format (tpl : string) (args : list string) (e : option string) : bool :=
  expect_eq (inst_format (bytes tpl) (map bytes args)) e.
Definition tie_percent (tpl : string) (args : list string) (e : option string) : bool :=
  expect_eq (inst_percent (bytes tpl) (map bytes args)) e.

(* dialect.Subscript(record, subscript, is_table) as the model sees it: None when the method does not take
   three arguments, else the format of the matching branch *)
Definition find_dialect (k : string) : option dialect := find (fun d => String.eqb (d_key d) k) dialects.
Definition model_subscript (k record sub : string) (is_table : bool) : option text :=
  match find_dialect k with
  | None => None
  | Some d =>
      if method_ok d {| cs_where := ""; cs_method := "Subscript"; cs_nargs := 3 |} then
        match find (fun sf => String.eqb (sf_cond sf) "any" ||
                              String.eqb (sf_cond sf) (if is_table then "table" else "value")) (d_subscript d) with
        | Some sf => inst_percent (bytes (sf_format sf))
                       (map (fun a => if String.eqb a "record" then bytes record else bytes sub) (sf_args sf))
        | None => None
        end
      else None
  end.
Definition tie_subscript (k record sub : string) (is_table : bool) (e : option string) : bool :=
  expect_eq (model_subscript k record sub is_table) e.

Definition model_function_of (k name : string) : option string :=
  match find_dialect k with Some d => eff_function d name | None => None end.
Definition model_infix_of (k name : string) : option string :=
  match find_dialect k with Some d => eff_infix d name | None => None end.
Definition string_opt_eqb (a b : option string) : bool :=
  match a, b with Some x, Some y => String.eqb x y | None, None => true | _, _ => false end.
